"""Maintenance: keep in harness/corpus/<Cxx>.jsonl only entries that are in the domain of the checks - on the CLEAN tree (VERIF_REPO or
/repo, which must be clean) the implementation must not raise inside the harness, the model must agree with it and the Spec judge
must accept it.  Minimised inputs recorded under a seeded change can fall outside that domain (an operation on a client that was
never connected, a device type only the change had); such an entry would raise an alarm on every tree, so it is dropped."""
import glob
import importlib
import json
import os
import sys

sys.path.insert(0, os.path.dirname(os.path.abspath(__file__)))
import common as C  # noqa: E402

C.use_repo()
kept = dropped = 0
for f in sorted(glob.glob(os.path.join(C.VERIF, "harness", "corpus", "C*.jsonl"))):
    prop = os.path.basename(f)[:3]
    mod = importlib.import_module(f"props.{prop.lower()}")
    keep = []
    seen = set()
    for line in open(f).read().splitlines():
        if not line.strip():
            continue
        c = json.loads(line)
        key = json.dumps([c["kind"], c["args"]], sort_keys=True)
        if key in seen or c["kind"] not in mod.KINDS:
            dropped += 1
            continue
        seen.add(key)
        kind = mod.KINDS[c["kind"]]
        a = C.jsonable(c["args"])
        a = tuple(a) if isinstance(a, list) else a
        ok = True
        try:
            out = kind.impl(a)
            if kind.model:
                ml = kind.model(a)
                m = kind.assemble(a, C.run_exe("modeldriver", ml)) if isinstance(ml, list) else C.run_exe("modeldriver", [ml])[0]
                ok = (kind.compare or (lambda x, y: x == y))(m, out)
            if ok and kind.judge:
                js = kind.judge(a, out)
                got = C.run_exe("specjudge", [l for l, _ in js])
                ok = all(g == e for (_, e), g in zip(js, got))
        except Exception as e:  # noqa
            ok = False
        if ok:
            keep.append(line)
            kept += 1
        else:
            dropped += 1
            print("dropped", prop, line[:160])
    open(f, "w").write("\n".join(keep) + ("\n" if keep else ""))
print("kept", kept, "dropped", dropped)
