"""Histories on the TCP API: several operations in sequence on one connection, and several API
instances whose pending reads are released in an order chosen by the test (a deterministic scheduler on
scripted in-memory streams: every interleaving of the exchanges is a schedule that can be forced)."""
from __future__ import annotations

import asyncio
from typing import Any, Dict, List

import time_machine

import apiharness as H
import common as C


class VirtualClockLoop(asyncio.SelectorEventLoop):
    """An event loop whose clock is virtual: when nothing is ready to run, the clock JUMPS to the earliest pending timer instead of
    waiting for it.  Only in-memory streams are used under it, so nothing real is ever waited for; a reply that comes "10.4 s late"
    costs no wall time, and every timeout the code under test arms (asyncio.wait_for, loop.call_later) fires in its proper order."""

    def __init__(self):
        super().__init__()
        self._vt = 0.0

    def time(self):
        return self._vt

    def _run_once(self):
        import heapq
        if not self._ready and self._scheduled:
            while self._scheduled and self._scheduled[0]._cancelled:
                h = heapq.heappop(self._scheduled)
                h._scheduled = False
            if self._scheduled:
                self._vt = max(self._vt, self._scheduled[0]._when)
        super()._run_once()


class GatedReader:
    def __init__(self):
        self.replies: List[bytes] = []
        self.waiters = 0            # reads pending on this stream (more than one only if two clients share it, which they must not)
        self.permit: asyncio.Queue = asyncio.Queue()
        self.delays: List[float] = []   # seconds (virtual) the device takes for each of the coming replies
        self.reads = 0                  # read() calls so far
        self.inbox: List[bytes] = []    # a reply handed over to exactly the read that was waiting for it
        self.stale: List[bytes] = []    # replies that arrived after the client had stopped waiting for them: still in the stream, in front

    @property
    def waiting(self) -> bool:
        return self.waiters > 0

    @waiting.setter
    def waiting(self, v: bool) -> None:
        pass

    async def read(self, n: int = -1) -> bytes:
        self.waiters += 1
        self.reads += 1
        try:
            await self.permit.get()
        finally:
            self.waiters -= 1
        if self.inbox:
            return self.inbox.pop(0)
        if self.stale:
            return self.stale.pop(0)
        return self.replies.pop(0) if self.replies else b""


async def _run(hist, traveller):
    import aioswitcher.api as A
    n = len(hist["instances"])
    readers = [GatedReader() for _ in range(n)]
    logs: List[List[bytes]] = [[] for _ in range(n)]
    outs: List[List[str]] = [[] for _ in range(n)]
    streams = {}

    opened = [0]

    async def fake_open_connection(host=None, port=None, family=None, **kw):
        # instances normally sit on different addresses; with "same_ip" they all talk to ONE address (two clients of one device) and the
        # k-th connection opened belongs to the k-th instance (they connect in that order)
        i = opened[0] if hist.get("same_ip") else int(host.rsplit(".", 1)[1]) - 1
        opened[0] += 1
        return readers[min(i, n - 1)], streams[min(i, n - 1)]
    saved = A.open_connection
    A.open_connection = fake_open_connection
    try:
        tasks = []
        for i, inst in enumerate(hist["instances"]):
            streams[i] = H.FakeWriter(logs[i])
            tasks.append(asyncio.ensure_future(_instance_with_writer(0 if hist.get("same_ip") else i, inst, readers[i], logs[i], outs[i], traveller)))
        sched = list(hist.get("schedule", []))
        k = 0
        guard = 0
        while not all(t.done() for t in tasks):
            guard += 1
            if guard > 100000:
                for t in tasks:
                    t.cancel()
                return [o + ["frames=- out=raise HarnessStuck(the exchanges did not finish)"] * (len(inst["ops"]) - len(o))
                        for o, inst in zip(outs, hist["instances"])]
            await asyncio.sleep(0)
            waiting = [i for i in range(n) if readers[i].waiting and not tasks[i].done()]
            if not waiting:
                continue
            want = sched[k % len(sched)] if sched else waiting[0]
            k += 1
            i = want if want in waiting else waiting[0]
            d = readers[i].delays.pop(0) if readers[i].delays else 0
            if d and not readers[i].stale:
                # the device takes d seconds (of the loop's virtual clock) over this reply: whatever timers the client armed meanwhile fire
                rd = readers[i].reads
                rep = readers[i].replies.pop(0) if readers[i].replies else b""
                await asyncio.sleep(d)
                traveller.shift(d)                  # the wall clock (time.time) moves with the loop's clock while the device takes its time
                if readers[i].reads != rd or not readers[i].waiting or tasks[i].done():
                    readers[i].stale.append(rep)    # the client gave that read up: the reply arrives all the same and stays in the stream
                    continue
                readers[i].inbox.append(rep)
            readers[i].waiting = False
            readers[i].permit.put_nowait(1)
            for _ in range(200):
                await asyncio.sleep(0)
                if readers[i].waiting or tasks[i].done():
                    break
        for t in tasks:
            t.result()
    finally:
        A.open_connection = saved
    return outs


async def _instance_with_writer(idx, inst, reader, log, outs, traveller):
    import aioswitcher.api as A
    cls = A.SwitcherType2Api if inst["api"] == "type2" else A.SwitcherType1Api
    api = cls("127.0.0.%d" % (idx + 1), inst["did"], inst["key"])
    await api.connect()
    for op in inst["ops"]:
        if op.get("reconnect"):         # the same api OBJECT disconnected and connected again before this operation
            await api.disconnect()
            await api.connect()
        reader.replies = [bytes.fromhex(r) if r != "-" else b"" for r in op["replies"]]
        reader.delays = list(op.get("delays", []))
        before = len(log)
        traveller.move_to(float(op["now"]))
        try:
            r = await H.call(api, op["req"])
            out = H.show_resp(r)
        except Exception as e:  # noqa
            out = "raise " + C.exc_name(e)
        fr = log[before:]
        outs.append("frames=" + (",".join(C.hx(f) for f in fr) if fr else "-") + " out=" + out)
    await api.disconnect()


def with_slow_replies(rng, hist: Dict[str, Any]) -> Dict[str, Any]:
    """the same history with a device that takes its time over some replies (0.5 s .. 2 min of the loop's VIRTUAL clock): no reply is
    lost or changed, so every operation must write and return exactly what it would have with a prompt device"""
    insts = []
    for inst in hist["instances"]:
        ops = []
        for op in inst["ops"]:
            op = dict(op)
            # (create_schedule reads the wall clock a second time after the login reply: the model has ONE reading per operation)
            if rng.random() < 0.4 and op["req"].get("op") != "createsched":
                d = [0.0] * len(op["replies"])
                d[rng.randrange(min(len(d), 3))] = rng.choice([0.5, 2.9, 3.5, 5.5, 10.4, 15.5, 31.0, 61.0, 121.0])
                op["delays"] = d
            ops.append(op)
        insts.append(dict(inst, ops=ops))
    return dict(hist, instances=insts, virtual_clock=True)


def run_history(hist: Dict[str, Any]) -> str:
    H.set_tz(hist.get("tz", "UTC"))
    with time_machine.travel(0.0, tick=False) as traveller:
        if hist.get("virtual_clock"):
            vl = VirtualClockLoop()
            # the monotonic clocks follow the loop's virtual clock too (time.time follows it through the traveller), for code that measures
            # how long a step took: `time.monotonic()` / `perf_counter()` wherever the library looks them up
            import sys
            import time as _time
            origs = {n: getattr(_time, n) for n in ("monotonic", "perf_counter")}
            base = {n: f() for n, f in origs.items()}
            fakes = {n: (lambda n=n: base[n] + vl.time()) for n in origs}
            patched = []
            for n in origs:
                setattr(_time, n, fakes[n])
            for name, mod in list(sys.modules.items()):
                if name.startswith("aioswitcher") and mod is not None:
                    for k, v in list(vars(mod).items()):
                        for n in origs:
                            if v is origs[n]:
                                setattr(mod, k, fakes[n])
                                patched.append((mod, k, origs[n]))
            try:
                asyncio.set_event_loop(vl)
                outs = vl.run_until_complete(_run(hist, traveller))
            finally:
                for n in origs:
                    setattr(_time, n, origs[n])
                for mod, k, o in patched:
                    setattr(mod, k, o)
                vl.close()
                asyncio.set_event_loop(H.loop())
        else:
            outs = H.loop().run_until_complete(_run(hist, traveller))
    return " || ".join(" ;; ".join(o) for o in outs)


def model_lines(hist: Dict[str, Any]) -> List[str]:
    lines = []
    for inst in hist["instances"]:
        for op in inst["ops"]:
            lines.append(H.model_line({"did": inst["did"], "key": inst["key"], "now": op["now"], "tz": hist.get("tz", "UTC"),
                                       "req": op["req"], "replies": op["replies"]}))
    return lines


def assemble(hist, outs: List[str]) -> str:
    it = iter(outs)
    return " || ".join(" ;; ".join(next(it) for _ in inst["ops"]) for inst in hist["instances"])


def split_history_output(hist, out: str) -> List[List[str]]:
    return [part.split(" ;; ") if part else [] for part in out.split(" || ")]
