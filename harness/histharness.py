"""Histories on the TCP API: several operations in sequence on one connection, and several API
instances whose pending reads are released in an order chosen by the test (a deterministic scheduler on
scripted in-memory streams: every interleaving of the exchanges is a schedule that can be forced)."""
from __future__ import annotations

import asyncio
from typing import Any, Dict, List

import time_machine

import apiharness as H
import common as C


class GatedReader:
    def __init__(self):
        self.replies: List[bytes] = []
        self.waiters = 0            # reads pending on this stream (more than one only if two clients share it, which they must not)
        self.permit: asyncio.Queue = asyncio.Queue()

    @property
    def waiting(self) -> bool:
        return self.waiters > 0

    @waiting.setter
    def waiting(self, v: bool) -> None:
        pass

    async def read(self, n: int = -1) -> bytes:
        self.waiters += 1
        try:
            await self.permit.get()
        finally:
            self.waiters -= 1
        return self.replies.pop(0) if self.replies else b""


async def _run(hist, traveller):
    import aioswitcher.api as A
    n = len(hist["instances"])
    readers = [GatedReader() for _ in range(n)]
    logs: List[List[bytes]] = [[] for _ in range(n)]
    outs: List[List[str]] = [[] for _ in range(n)]
    streams = {}

    opened = [0]

    async def fake_open_connection(host=None, port=None, family=None, **kw):
        # instances normally sit on different addresses; with "same_ip" they all talk to ONE address (two clients of one device) and the
        # k-th connection opened belongs to the k-th instance (they connect in that order)
        i = opened[0] if hist.get("same_ip") else int(host.rsplit(".", 1)[1]) - 1
        opened[0] += 1
        return readers[min(i, n - 1)], streams[min(i, n - 1)]
    saved = A.open_connection
    A.open_connection = fake_open_connection
    try:
        tasks = []
        for i, inst in enumerate(hist["instances"]):
            streams[i] = H.FakeWriter(logs[i])
            tasks.append(asyncio.ensure_future(_instance_with_writer(0 if hist.get("same_ip") else i, inst, readers[i], logs[i], outs[i], traveller)))
        sched = list(hist.get("schedule", []))
        k = 0
        guard = 0
        while not all(t.done() for t in tasks):
            guard += 1
            if guard > 100000:
                for t in tasks:
                    t.cancel()
                return [o + ["frames=- out=raise HarnessStuck(the exchanges did not finish)"] * (len(inst["ops"]) - len(o))
                        for o, inst in zip(outs, hist["instances"])]
            await asyncio.sleep(0)
            waiting = [i for i in range(n) if readers[i].waiting and not tasks[i].done()]
            if not waiting:
                continue
            want = sched[k % len(sched)] if sched else waiting[0]
            k += 1
            i = want if want in waiting else waiting[0]
            readers[i].waiting = False
            readers[i].permit.put_nowait(1)
            for _ in range(200):
                await asyncio.sleep(0)
                if readers[i].waiting or tasks[i].done():
                    break
        for t in tasks:
            t.result()
    finally:
        A.open_connection = saved
    return outs


async def _instance_with_writer(idx, inst, reader, log, outs, traveller):
    import aioswitcher.api as A
    cls = A.SwitcherType2Api if inst["api"] == "type2" else A.SwitcherType1Api
    api = cls("127.0.0.%d" % (idx + 1), inst["did"], inst["key"])
    await api.connect()
    for op in inst["ops"]:
        if op.get("reconnect"):         # the same api OBJECT disconnected and connected again before this operation
            await api.disconnect()
            await api.connect()
        reader.replies = [bytes.fromhex(r) if r != "-" else b"" for r in op["replies"]]
        before = len(log)
        traveller.move_to(float(op["now"]))
        try:
            r = await H.call(api, op["req"])
            out = H.show_resp(r)
        except Exception as e:  # noqa
            out = "raise " + C.exc_name(e)
        fr = log[before:]
        outs.append("frames=" + (",".join(C.hx(f) for f in fr) if fr else "-") + " out=" + out)
    await api.disconnect()


def run_history(hist: Dict[str, Any]) -> str:
    H.set_tz(hist.get("tz", "UTC"))
    with time_machine.travel(0.0, tick=False) as traveller:
        outs = H.loop().run_until_complete(_run(hist, traveller))
    return " || ".join(" ;; ".join(o) for o in outs)


def model_lines(hist: Dict[str, Any]) -> List[str]:
    lines = []
    for inst in hist["instances"]:
        for op in inst["ops"]:
            lines.append(H.model_line({"did": inst["did"], "key": inst["key"], "now": op["now"], "tz": hist.get("tz", "UTC"),
                                       "req": op["req"], "replies": op["replies"]}))
    return lines


def assemble(hist, outs: List[str]) -> str:
    it = iter(outs)
    return " || ".join(" ;; ".join(next(it) for _ in inst["ops"]) for inst in hist["instances"])


def split_history_output(hist, out: str) -> List[List[str]]:
    return [part.split(" ;; ") if part else [] for part in out.split(" || ")]
