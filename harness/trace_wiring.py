"""Wiring by observation.  Every public operation of the two API classes is run once (thermostat control in its four shapes) on a
scripted connection with marker arguments while `packets.<TEMPLATE>.format` is watched; each frame that reaches the writer is matched
with the template it was formatted from, its arguments are named by the marker value they carry, and whether the frame went through
`set_message_length` is read off the frame itself.  The result has the shape `gen_model.gen_wiring` used to read off the AST, but it
does not depend on how the methods are written: renamed locals, extracted helpers, inlined helpers, reordered statements give the
same table as long as the same templates are filled with the same things.

What is observed is one run per shape, not all inputs: that a template's arguments do not depend on the VALUES passed is what the
correspondence streams establish; the static reading of the AST (gen_model._static_wiring) is kept as a cross-check wherever it
resolves."""
from __future__ import annotations

import datetime
from struct import pack
from typing import Any, Dict, List, Tuple

import time_machine

import apiharness as H
import common as C

DID, KEY, SID = "a1b2c3", "5e", bytes.fromhex("9f8e7d6c")
NOW = 1_700_000_123.0
TS = pack("<I", int(round(NOW))).hex()


class _Tmpl(str):
    """a packet template that reports every `.format(...)`"""
    name = ""
    sink: List[Tuple[str, tuple, str]] = []
    lengthened: List[str] = []          # texts handed to set_message_length

    def format(self, *args, **kw):  # noqa: A003
        r = str.format(self, *args, **kw)
        _Tmpl.sink.append((self.name, args, r))
        return r


def _mk(name, value):
    t = _Tmpl(value)
    t.name = name
    return t


class _Packets:
    def __init__(self, real):
        self._real = real

    def __getattr__(self, n):
        v = getattr(self._real, n)
        return _mk(n, v) if isinstance(v, str) and n.isupper() else v


def _observe(case) -> Tuple[List[bytes], List[Tuple[str, tuple, str]], str]:
    """frames written, format events, outcome of one operation"""
    import aioswitcher.api as A
    real = A.packets
    saved_names = {}
    _Tmpl.sink = []
    _Tmpl.lengthened = []
    real_sml = getattr(A, "set_message_length", None)
    if real_sml is not None:
        def watched(p, _f=real_sml):
            _Tmpl.lengthened.append(p)
            return _f(p)
        A.set_message_length = watched
    A.packets = _Packets(real)
    for n in dir(A):            # templates imported by bare name
        v = getattr(A, n)
        if n.isupper() and isinstance(v, str) and getattr(real, n, None) == v:
            saved_names[n] = v
            setattr(A, n, _mk(n, v))
    try:
        out = H.run_case(case)
    finally:
        A.packets = real
        if real_sml is not None:
            A.set_message_length = real_sml
        for n, v in saved_names.items():
            setattr(A, n, v)
    return H.frames_of(out), list(_Tmpl.sink), H.outcome_of(out)


def _match(frame: bytes, events):
    """the format event this frame was built from, and whether its length field was rewritten on the way"""
    body = frame.hex()[:-8]
    for (name, args, res) in reversed(events):
        if res == body:
            return name, args, res in _Tmpl.lengthened      # the call happened, although the template's own length was right already
        if len(res) == len(body) and res[:4] == body[:4] and res[8:] == body[8:] and body[4:8] == pack("<H", len(frame)).hex():
            return name, args, True
    return None


IR = {"IRSetID": "ELEC7022", "OnOffType": 0,
      "IRWaveList": [{"Key": "ar23_f3_d1", "Para": "PX", "HexCode": "C0DE01"}, {"Key": "ar23_f3", "Para": "PY", "HexCode": "C0DE02"},
                     {"Key": "off", "Para": "PZ", "HexCode": "C0DE03"}, {"Key": "FUN_d1", "Para": "PS", "HexCode": "C0DE04"},
                     {"Key": "FUN_d0", "Para": "PT", "HexCode": "C0DE05"}]}
IR_PLAIN = dict(IR, IRSetID="ELEC7001")


def _scenarios():
    login = H.login_reply(SID, 48)
    st1 = H.state_reply(1, 100, 10, 20, 3600)
    th = H.thermo_reply(state=0, mode=1, temp=250, target=20, fan=1, swing=0, remote=b"ELEC7022")
    sh = H.shutter_reply(40)
    ok = "01"

    def case(req, replies):
        return {"did": DID, "key": KEY, "now": NOW, "tz": "UTC", "req": req, "replies": replies}
    breeze = {"op": "ctlbreeze", "state": "ON", "mode": "COOL", "temp": 23, "fan": "HIGH", "swing": None, "upd": 0}
    return [
        ("get_state", case({"op": "getState"}, [login, st1]), ["get_state"]),
        ("control_device", case({"op": "control", "on": 1, "minutes": 77}, [login, ok]), ["control_device"]),
        ("set_auto_shutdown", case({"op": "autoshutdown", "micros": 7200 * 10 ** 6}, [login, ok]), ["set_auto_shutdown"]),
        ("set_device_name", case({"op": "setname", "name": "Marker Nm"}, [login, ok]), ["set_device_name"]),
        ("get_schedules", case({"op": "getschedules"}, [login, ok]), ["get_schedules"]),
        ("delete_schedule", case({"op": "delsched", "id": "5"}, [login, ok]), ["delete_schedule"]),
        ("create_schedule", case({"op": "createsched", "start": "10:17", "stop": "11:42", "days": [0, 2], "form": "set"}, [login, ok]),
         ["create_schedule"]),
        ("stop", case({"op": "stop"}, [login, ok]), ["stop"]),
        ("set_position", case({"op": "setpos", "pos": 37}, [login, ok]), ["set_position"]),
        ("get_shutter_state", case({"op": "getshutter"}, [login, sh]), ["get_shutter_state"]),
        ("get_breeze_state", case({"op": "getbreeze"}, [login, th]), ["_get_breeze_state"]),
        # thermostat control: status update; IR command; IR command + separate swing; separate swing only
        ("control_breeze_device", case(dict(breeze, ir=IR_PLAIN, upd=1, swing="ON"), [login, th, ok]), ["_get_breeze_state", "control_breeze_device"]),
        ("control_breeze_device", case(dict(breeze, ir=IR_PLAIN, swing="ON"), [login, th, ok]), ["_get_breeze_state", "control_breeze_device"]),
        ("control_breeze_device", case(dict(breeze, ir=IR, swing="ON"), [login, th, ok, ok]),
         ["_get_breeze_state", "control_breeze_device", "_control_breeze_swing_device"]),
        ("control_breeze_device", case(dict(breeze, ir=IR, state=None, mode=None, temp=0, fan=None, swing="ON"), [login, ok]),
         ["_control_breeze_swing_device"]),
    ]


def _markers(method, case) -> Dict[Any, str]:
    """value -> the name the proofs know it by"""
    from aioswitcher.device import tools as dt
    from aioswitcher.schedule import tools as stt
    m: Dict[Any, str] = {SID.hex(): "login_resp.session_id", TS: "timestamp", DID: "self._device_id", KEY: "self._device_key"}
    r = case["req"]
    if method == "control_device":
        m.update({"1": "command.value", dt.minutes_to_hexadecimal_seconds(77): "timer"})
    if method == "set_auto_shutdown":
        m[dt.timedelta_to_hexadecimal_seconds(datetime.timedelta(hours=2))] = "auto_shutdown"
    if method == "set_device_name":
        m[dt.string_to_hexadecimale_device_name("Marker Nm")] = "device_name"
    if method == "delete_schedule":
        m["5"] = "schedule_id"
    if method == "create_schedule":
        H.set_tz("UTC")
        with time_machine.travel(NOW, tick=False):
            a, b = stt.time_to_hexadecimal_timestamp("10:17"), stt.time_to_hexadecimal_timestamp("11:42")
        m.update({"0a": "weekdays", a: "start_time_hex", b: "end_time_hex"})
    if method == "set_position":
        m["25"] = "hex_pos"
    if method == "control_breeze_device":
        m.update({"01": "state.value", "04": "mode.value", 23: "target_temp", "3": "fan_level.value"})
        special = r["ir"]["IRSetID"] == "ELEC7022"
        m["0" if special else "1"] = "set_swing.value"
    return m


STATE_QUERIES = {"get_state", "get_shutter_state", "get_breeze_state"}
OWNER_ORDER = ["_login", "stop", "get_state", "control_device", "set_auto_shutdown", "set_device_name", "get_schedules", "delete_schedule",
               "create_schedule", "control_breeze_device", "_control_breeze_swing_device", "set_position", "get_breeze_state",
               "_get_breeze_state", "get_shutter_state"]


def observe_wiring(problems: List[str]):
    """rows (class, method, login variant, guard, setlen, [(template, [argument names])]) in the order of OWNER_ORDER"""
    import aioswitcher.api as A
    rows: Dict[str, Dict[str, Any]] = {}

    def row(name):
        return rows.setdefault(name, {"login": "-", "guard": "none", "setlen": False, "calls": []})

    def add_call(owner, tname, args, names):
        c = (tname, names)
        if c not in row(owner)["calls"]:
            same = [x for x in row(owner)["calls"] if x[0] == tname]
            if same:
                problems.append(f"{owner}: template {tname} is filled with different things in different runs: {same[0][1]} / {names}")
            row(owner)["calls"].append(c)

    seen_guards: Dict[str, List[str]] = {}
    for method, case, owners in _scenarios():
        frames, events, outcome = _observe(case)
        marks = _markers(method, case)
        cmd_values = {}
        if method == "control_breeze_device":      # what build_command / build_swing_command return for this request
            for (_n, args, _r) in events:
                pass

        def names_of(args, events_before):
            out = []
            for a in args:
                if a in marks:
                    out.append(marks[a])
                    continue
                made = [n for (n, _a, r) in events_before if r == a]
                if made:                                     # the text of an earlier format call, e.g. the schedule record
                    out.append({"SCHEDULE_CREATE_DATA_FORMAT": "new_schedule"}.get(made[-1], "formatted:" + made[-1]))
                    continue
                out.append(cmd_values.get(a, f"?{a!r}"[:40]))
            return out
        if method == "control_breeze_device":
            remote = H.make_remote(case["req"]["ir"])
            from aioswitcher.device import DeviceState, ThermostatFanLevel, ThermostatMode, ThermostatSwing
            try:
                if case["req"]["state"]:
                    sw = ThermostatSwing.OFF if case["req"]["ir"]["IRSetID"] == "ELEC7022" else ThermostatSwing.ON
                    c = remote.build_command(DeviceState.ON, ThermostatMode.COOL, 23, ThermostatFanLevel.HIGH, sw, DeviceState.OFF)
                    cmd_values.update({c.length: "command.length", c.command: "command.command"})
                if case["req"]["ir"]["IRSetID"] == "ELEC7022":
                    c2 = remote.build_swing_command(ThermostatSwing.ON)
                    cmd_values.update({c2.length: "command.length", c2.command: "command.command"})
            except Exception as e:  # noqa
                problems.append(f"build_command on the marker remote failed: {type(e).__name__}")
        if len(frames) != 1 + len(owners):
            problems.append(f"{method}: {len(frames)} frames observed, {1 + len(owners)} expected ({outcome})")
        # frame 0: the login
        if frames:
            mt = _match(frames[0], events)
            if mt is None:
                problems.append(f"{method}: the login frame is not the text of any packets.<TEMPLATE>.format call")
            else:
                tname, args, sl = mt
                add_call("_login", tname, args, names_of(args, []))
                if sl:
                    row("_login")["setlen"] = True
                variant = "type1" if tname == "LOGIN_PACKET_TYPE1" else \
                    ("DeviceType.BREEZE" if "breeze" in method else "DeviceType.RUNNER") if tname == "LOGIN2_PACKET_TYPE2" else "?" + tname
                row(method)["login"] = variant
        for f, owner in zip(frames[1:], owners):
            mt = _match(f, events)
            if mt is None:
                problems.append(f"{method}: frame {frames.index(f)} is not the text of any packets.<TEMPLATE>.format call")
                continue
            tname, args, sl = mt
            idx = max(i for i, e in enumerate(events) if e[0] == tname and e[1] == args)
            for (n2, a2, r2) in events[:idx]:            # texts formatted earlier and passed in as an argument belong to the same call site
                if r2 in args:
                    add_call(owner, n2, a2, names_of(a2, []))
            names = names_of(args, events[:idx])
            if owner == "_control_breeze_swing_device":     # the name this value has in the proofs about the swing frame
                names = ["session_id" if n == "login_resp.session_id" else n for n in names]
            add_call(owner, tname, args, names)
            row(owner)["setlen"] = row(owner)["setlen"] or sl
        # the guard on the login reply: the same operation (every shape of it), login not answered; an operation is guarded only if
        # EVERY shape of it stops after the login frame
        f2, _e2, out2 = _observe(dict(case, replies=["-"] + case["replies"][1:]))
        goes_on = len(f2) > 1
        g = "none" if goes_on else ("only-if-successful" if method in STATE_QUERIES else "raise-if-not-successful")
        seen_guards.setdefault(method, []).append(g)
    for method, gs in seen_guards.items():
        row(method)["guard"] = "none" if "none" in gs else gs[0]
    out = []
    for name in OWNER_ORDER:
        if name not in rows:
            continue
        r = rows[name]
        owner_cls = "-"
        for cls in (A.SwitcherType1Api, A.SwitcherType2Api, A.SwitcherApi):       # the most derived class that defines it
            if name in cls.__dict__:
                owner_cls = cls.__name__
                break
        calls = sorted(r["calls"], key=lambda c: TEMPLATE_ORDER.index(c[0]) if c[0] in TEMPLATE_ORDER else 99)
        out.append((owner_cls, name, r["login"], r["guard"], r["setlen"], calls))
    return out


# order of the templates inside one row (the order of the format calls in the source of the pinned commit)
TEMPLATE_ORDER = ["LOGIN2_PACKET_TYPE2", "LOGIN_PACKET_TYPE1", "SCHEDULE_CREATE_DATA_FORMAT", "CREATE_SCHEDULE_PACKET",
                  "BREEZE_UPDATE_STATUS_PACKET", "BREEZE_COMMAND_PACKET"]


if __name__ == "__main__":
    C.use_repo()
    probs: List[str] = []
    for r in observe_wiring(probs):
        print(r)
    print("problems:", probs)
