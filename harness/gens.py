"""Generators of API cases (shared by C01, C02, C03, C09, C15, C16). Every random choice comes from the
`random.Random` handed in, which derives from VERIF_SEED."""
from __future__ import annotations

import apiharness as H

NAMES_POOL = {
    "ascii": "abcdefghijklmnopqrstuvwxyzABCDEFGHIJKLMNOPQRSTUVWXYZ0123456789 _-'",
    "hebrew": "אבגדהוזחטיכלמנסעפצקרשת ",
    "accented": "éèêëàâäôöûüçñßøåÆœ ",
    "wide": "😀🏠🔥💡🌡️𝔸𝕏🚿❄",
    # text that is legal in a name but that a "tidy-up" would touch: decomposed letters (not NFC), compatibility characters,
    # no-break and zero-width characters, bidirectional marks, a tab
    "decomposed": "e\u0301a\u0308o\u0302n\u0303\u05d1\u05bc\u2126\u212b\u1100\u1161",
    "unprintable": "a\u00a0b\u200fc\u200bd\te\u2028f\u00adg",
}
SPECIAL_IDS = ["ELEC7022", "ZM079055", "ZM079065", "ZM079049"]


def gen_ids(rng):
    did = "%06x" % rng.randrange(1 << 24)
    if rng.random() < 0.15:
        did = "00" + did[2:]
    if rng.random() < 0.1:
        did = did.upper()
    key = "%02x" % rng.randrange(256)
    return did, key


def gen_now(rng):
    base = rng.choice([rng.randrange(0, 1 << 32), rng.randrange(1_600_000_000, 1_900_000_000), rng.choice([0, 1, 255, 256, 65535, 65536,
                      (1 << 31) - 1, 1 << 31, (1 << 32) - 2])])
    frac = rng.choice([0.0, 0.5, 0.25, 0.49, 0.51, 0.75, 0.999])
    v = base + frac
    return v if v < (1 << 32) - 1 else float(base)


def gen_login(rng, n=None):
    sid = rng.randbytes(4)
    if rng.random() < 0.1:
        sid = rng.choice([b"\x00\x00\x00\x00", b"\xff\xff\xff\xff", b"\x00\x00\x00\x01"])
    n = n or rng.choice([12, 13, 24, 48, 48, 82, 100])
    r = H.login_reply(sid, n)
    k = rng.random()
    if k < 0.08:        # the login reply followed, in the same read, by the first bytes of another frame
        r += (b"\xfe\xf0" + rng.choice([b"", b"\x30\x00", b"\x30\x00\x02\x32\x01", rng.randbytes(7)])).hex()
    elif k < 0.16:      # a complete stale frame (a late answer to something else, with its own length field) in front of the reply,
        m = rng.choice([12, 16, 48])            # or in front of only the first few bytes of it
        stale = b"\xfe\xf0" + bytes([m, 0]) + rng.randbytes(m - 4)
        r = stale.hex() + rng.choice([r, r[:2 * rng.randrange(1, 12)], ""])
    return r


def gen_name(rng, lo=0, hi=40):
    import harvest
    texts = harvest.novel()["strs"]
    if texts and rng.random() < 0.12:       # a text the tree under check has and the pinned tree has not, as it is or inside a name
        t = rng.choice([x for x in texts if not x.startswith("hex:")] or ["x"])
        t = rng.choice([t, t.lower(), t.upper(), "a" + t, t + "z"])
        if lo <= len(t) <= hi:
            return t
    script = rng.choice(list(NAMES_POOL))
    pool = NAMES_POOL[script]
    n = rng.randrange(lo, hi + 1)
    s = "".join(rng.choice(pool) for _ in range(n))
    if rng.random() < 0.2:   # mix scripts
        s = "".join(rng.choice(rng.choice(list(NAMES_POOL.values()))) for _ in range(n))
    return s


def gen_minutes(rng):
    return rng.choice([0, 1, 2, 59, 60, 90, 200, rng.randrange(0, 200), rng.randrange(0, 1 << 20), (1 << 32) // 60 - 2,
                       (1 << 32) // 60 - 1, (1 << 32) // 60, (1 << 32) // 60 + 1, (1 << 32) // 60 + 2, 1 << 40])


def gen_micros(rng):
    s = rng.choice([rng.randrange(-100, 90_000), 3599, 3600, 3601, 3659, 3660, 86339, 86340, 86399, 86400, 86341, 59, 60, 0,
                    rng.randrange(3600, 86400), rng.randrange(3600, 86400), rng.randrange(-3 * 86400, 4 * 86400),
                    86400 * rng.randrange(1, 400) + rng.randrange(86400)])
    us = rng.choice([0, 0, 1, 999_999, 500_000, rng.randrange(1_000_000)])
    return s * 1_000_000 + us


def gen_clock_ok(rng):
    m = rng.choice([0, 1, 59, 60, 61, 719, 720, 1439, 1438, rng.randrange(1440)])
    return "%02d:%02d" % divmod(m, 60), m


def gen_irset(rng, special=None, toggle=None, dense=None, long_text=None):
    special = rng.random() < 0.4 if special is None else special
    toggle = rng.random() < 0.5 if toggle is None else toggle
    dense = rng.random() < 0.5 if dense is None else dense
    rid = rng.choice(SPECIAL_IDS) if special else rng.choice(["ELEC7001", "DLK10", "AUX0" + str(rng.randrange(1000, 9999)), "X"])
    import harvest
    ids = harvest.strs_like(lambda x: 1 <= len(x) <= 12 and x.isalnum() and x.upper() == x)
    if ids and special is None and rng.random() < 0.2:
        rid = rng.choice(ids)
    keys = []
    p = 0.8 if dense else 0.25
    lo, hi = sorted((rng.randrange(16, 24), rng.randrange(24, 31)))
    for pre in ([""] + (["on_"] if toggle else [])):
        for m in ("aa", "ad", "aw"):
            if rng.random() < 0.85:
                if rng.random() < p:
                    keys.append(pre + m)
                for f in range(4):
                    if rng.random() < p:
                        keys.append(f"{pre}{m}_f{f}")
                    if rng.random() < p * 0.6:
                        keys.append(f"{pre}{m}_f{f}_d1")
        for m in ("ar", "ah"):
            if rng.random() < 0.85:
                if rng.random() < p * 0.5:
                    keys.append(pre + m)
                for t in range(lo, hi + 1):
                    if rng.random() < p:
                        keys.append(f"{pre}{m}{t}")
                    for f in range(4):
                        if rng.random() < p:
                            keys.append(f"{pre}{m}{t}_f{f}")
                        if rng.random() < p * 0.5:
                            keys.append(f"{pre}{m}{t}_f{f}_d1")
    if not toggle or rng.random() < 0.3:
        keys.append("off")
    if rng.random() < 0.7:
        keys += ["FUN_d0", "FUN_d1"] if rng.random() < 0.8 else ["FUN_d1"]
    if rng.random() < 0.05:
        keys.append("on_")
    rng.shuffle(keys)
    if rng.random() < 0.12:
        # a tiny set: one to four temperatures, each in exactly one key, listed in ascending, descending or no particular order (the
        # lowest / highest temperature sits in a single key that may be the first or the last of the list)
        pre = "on_" if toggle and rng.random() < 0.5 else ""
        temps = rng.sample(range(16, 31), rng.randrange(1, 5))
        order = rng.choice(["asc", "desc", "any"])
        temps = sorted(temps) if order == "asc" else sorted(temps, reverse=True) if order == "desc" else temps
        keys = []
        for t in temps:
            m = rng.choice(["ar", "ah"])
            keys.append(f"{pre}{m}{t}" + rng.choice(["", "_f0", "_f2", "_f1_d1"]))
        if rng.random() < 0.5:
            keys.insert(rng.randrange(len(keys) + 1), rng.choice(["off", pre + "aa", pre + "ad_f1", "FUN_d1"]))
    if rng.random() < 0.08:
        # sets that store codes in less usual shapes: COOL / HEAT without any temperature (only the bare mode key, or mode + fan),
        # and AUTO / DRY / FAN entries that do carry one
        pre = "on_" if toggle and rng.random() < 0.5 else ""
        keys = [k for k in keys if not (k.startswith(pre + "ar") or k.startswith(pre + "ah"))]
        for m in ("ar", "ah"):
            if rng.random() < 0.8:
                keys += rng.sample([pre + m, f"{pre}{m}_f1", f"{pre}{m}_f2_d1", f"{pre}{m}_f0"], rng.randrange(1, 4))
        for m in ("aa", "ad", "aw"):
            if rng.random() < 0.5:
                keys.append(f"{pre}{m}{rng.randrange(16, 31)}_f{rng.randrange(4)}")
        rng.shuffle(keys)
    if not keys:
        keys = ["aa"]

    def text(maxlen):
        n = rng.choice([1, 2, 5, rng.randrange(1, 30), rng.randrange(1, maxlen)])
        t = "".join(rng.choice("0123456789ABCDEFabcdef,|;") for _ in range(n))
        if rng.random() < 0.06:     # a stored text is sent as it is stored: blanks at either end are part of it
            t = rng.choice([" ", "  ", "\t", ""]) + t + rng.choice([" ", "\n", "", " "])
        return t
    longt = rng.random() < 0.15 if long_text is None else long_text
    waves = [{"Key": k, "Para": text(12), "HexCode": text(2000 if longt else 120)} for k in keys]
    return {"IRSetID": rid, "OnOffType": 1 if toggle else 0, "IRWaveList": waves}


def gen_req(rng, op):
    """A request of kind `op` with arguments drawn from the property's domains (accepted and rejected)."""
    if op == "control":
        return {"op": op, "on": rng.randrange(2), "minutes": gen_minutes(rng)}
    if op == "autoshutdown":
        return {"op": op, "micros": gen_micros(rng)}
    if op == "setname":
        return {"op": op, "name": gen_name(rng)}
    if op == "delsched":
        return {"op": op, "id": rng.choice("01234567") if rng.random() < .8 else rng.choice(["8", "a", "f", "10", "", "g"])}
    if op == "createsched":
        days = rng.sample(range(7), rng.randrange(0, 8))
        form = "set"
        if rng.random() < 0.2 and days:
            form = "list"
            if rng.random() < 0.5:
                days = days + [days[0]]
        s = gen_clock_ok(rng)[0] if rng.random() < .85 else rng.choice(["24:00", "12:60", "1200", "ab:cd", "", "7:5", "07:5", ":", "12:00:00", " 12:00"])
        e = gen_clock_ok(rng)[0] if rng.random() < .9 else rng.choice(["24:00", "1:", "x"])
        return {"op": op, "start": s, "stop": e, "days": days, "form": form}
    if op == "setpos":
        return {"op": op, "pos": rng.choice([0, 1, 15, 16, 50, 99, 100, rng.randrange(101)]) if rng.random() < .9 else rng.choice([101, 255, 256, -1, 1000])}
    if op == "ctlbreeze":
        ir = gen_irset(rng)
        def opt(vals, p=0.5):
            return rng.choice(vals) if rng.random() < p else None
        return {"op": op, "ir": ir, "state": opt(["ON", "OFF"]), "mode": opt(["AUTO", "DRY", "FAN", "COOL", "HEAT"]),
                "temp": rng.choice([0, 0, rng.randrange(10, 36), 16, 30]), "fan": opt(["LOW", "MEDIUM", "HIGH", "AUTO"]),
                "swing": opt(["ON", "OFF"]), "upd": int(rng.random() < 0.3)}
    return {"op": op}


ALL_OPS = ["getState", "control", "autoshutdown", "setname", "getschedules", "delsched", "createsched", "stop", "setpos",
           "getshutter", "getbreeze", "ctlbreeze"]


def gen_state_reply(rng, op):
    if op in ("getbreeze", "ctlbreeze"):
        return H.thermo_reply(state=rng.randrange(2), mode=rng.choice([1, 2, 3, 4, 5]), temp=rng.randrange(0, 400),
                              target=rng.randrange(16, 31), fan=rng.randrange(4), swing=rng.randrange(2),
                              remote=rng.choice([b"ELEC7022", b"ELEC7001", b"DLK10", b"ZM079055"]))
    if op == "getshutter":
        return H.shutter_reply(rng.randrange(101), rng.choice([b"\x00\x00", b"\x01\x00", b"\x00\x01"]))
    return H.state_reply(rng.randrange(2), rng.randrange(65536), rng.randrange(86400), rng.randrange(86400), rng.randrange(3600, 86400))


def gen_case(rng, op=None, tz=None):
    op = op or rng.choice(ALL_OPS)
    did, key = gen_ids(rng)
    req = gen_req(rng, op)
    replies = [gen_login(rng)]
    if op in ("getState", "getshutter", "getbreeze", "ctlbreeze"):
        replies.append(gen_state_reply(rng, op))
    replies += ["%02x" % rng.randrange(256) * rng.randrange(1, 20) for _ in range(3)]
    case = {"did": did, "key": key, "now": gen_now(rng), "tz": tz or rng.choice(list(H.FIXED_ZONES)), "req": req, "replies": replies}
    return settle_now(case)


def settle_now(case):
    """create_schedule reads the clock twice - rounded for the frame's timestamp, truncated for today's local date - and the
    operation-level model has ONE clock reading: in the last half second of a local day (where the two readings lie on different
    dates) the case is moved to the whole second.  That half second is C11's business (its model keeps the two readings apart)."""
    if case["req"]["op"] == "createsched":
        now, off = float(case["now"]), H.FIXED_ZONES.get(case.get("tz", "UTC"), 0)
        if (int(round(now)) + off) // 86400 != (int(now // 1) + off) // 86400:
            case = dict(case, now=float(int(now // 1)))
    return case
