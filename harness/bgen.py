"""Generators of broadcast datagrams (C05, C06, C07): device descriptions per family, encoded by the
Spec's reference encoder (specjudge c05enc)."""
import common as C
import gens as G

T1 = {"MINI": ("030f", 1), "POWER_PLUG": ("01a8", 0), "TOUCH": ("030b", 1), "V2_ESP": ("01a7", 1), "V2_QCA": ("01a1", 1), "V4": ("0317", 1)}
SH = {"RUNNER": "0c01", "RUNNER_MINI": "0c02"}
TH = {"BREEZE": "0e01"}
LEN = {"t1": 165, "shutter": 159, "thermo": 168}


# power values at which a rounding tie makes `w / 220` and `w * (1 / 220)` (and similar "equivalent" formulas) round differently
TIES = [w for w in range(65536) if round(w * (1 / 220), 1) != round(w / 220, 1)] or [11]


def types_from_source():
    """type names/codes/categories as the working tree defines them (so a changed enum is followed)"""
    import aioswitcher.device as d
    t1, sh, th = {}, {}, {}
    for t in d.DeviceType:
        if t.category in (d.DeviceCategory.WATER_HEATER, d.DeviceCategory.POWER_PLUG):
            t1[t.name] = (t.hex_rep, int(t.category == d.DeviceCategory.WATER_HEATER))
        elif t.category == d.DeviceCategory.SHUTTER:
            sh[t.name] = t.hex_rep
        else:
            th[t.name] = t.hex_rep
    return t1, sh, th


def gen_name(rng):
    while True:
        s = G.gen_name(rng, 1, 32)
        if 1 <= len(s.encode()) <= 32 and "\x00" not in s and not s.endswith("\x00"):
            return s


def gen_common(rng, dev_id=None):
    ip = bytes(rng.choice([0, 1, 10, 127, 192, 255, rng.randrange(256)]) for _ in range(4))
    return f"{dev_id or rng.randbytes(3).hex()} {rng.randrange(256)} {ip.hex()} {rng.randbytes(6).hex()} {C.ut(gen_name(rng))}"


def gen_device(rng, family=None, dev_id=None):
    family = family or rng.choice(["t1", "t1", "shutter", "thermo"])
    if family == "t1":
        tn = rng.choice(list(T1))
        code, heater = T1[tn]
        def t():
            return rng.choice([0, 1, 59, 3600, 86399, rng.randrange(86400)])
        fields = f"{tn} {code} {heater} {rng.randrange(2)} {rng.choice([0, 1, 255, 256, 2600, 65535, rng.randrange(65536), 11 + 22 * rng.randrange(2978), rng.choice(TIES), rng.choice(TIES)])} {t()} {t()} {gen_common(rng, dev_id)}"
    elif family == "shutter":
        tn = rng.choice(list(SH))
        fields = f"{tn} {SH[tn]} {rng.choice([0, 1, 50, 99, 100, rng.randrange(101)])} {rng.randrange(3)} {gen_common(rng, dev_id)}"
    else:
        tn = "BREEZE"
        rid = bytes(rng.choice(b"ABCDEFGHIJKLMNOPQRSTUVWXYZ0123456789") for _ in range(8)).hex()
        import harvest
        ids = harvest.strs_like(lambda x: len(x) == 8 and x.isalnum() and x.isascii())
        if ids and rng.random() < 0.25:
            rid = rng.choice(ids).encode().hex()
        fields = (f"{tn} {TH[tn]} {rng.randrange(2)} {rng.randrange(1, 6)} {rng.randrange(4)} {rng.randrange(2)} "
                  f"{rng.choice([0, 1, 245, 256, 65535, rng.randrange(65536)])} {rng.choice([0, 16, 30, 255, rng.randrange(256)])} {rid} {gen_common(rng, dev_id)}")
    bg = rng.randbytes(LEN[family]).hex() if rng.random() < 0.7 else "00" * LEN[family]
    return {"family": family, "bg": bg, "fields": fields}


def encode_all(items):
    reps = C.run_exe("specjudge", [f"c05enc {a['family']} {a['bg']} {a['fields']}" for a in items])
    for a, r in zip(items, reps):
        a["dgram"] = r
    return items
