"""Literals of the tree under check that the committed baseline (harness/baseline_literals.json, taken from the pinned tree) does not
have: a special case somebody adds to the code (`if power == 0xfffe`, `if len(name) == 32`, `if did == "ab00cd"`) brings its trigger
value into the source, and a generator that knows the value reaches the region at once instead of by luck.

This only steers the GENERATORS (the correspondence streams and the failing-input search) - it decides nothing: on the pinned tree the
novel set is empty and every stream is exactly what it is without this module; on a changed tree a part of each stream's draws is
spent on the novel values and their neighbours.  A harmless rewrite that introduces new literals changes the inputs tried, never a
verdict."""
from __future__ import annotations

import ast
import json
import os
import random
from typing import Dict, List

import common as C

BASELINE = os.path.join(os.path.dirname(os.path.abspath(__file__)), "baseline_literals.json")
_CACHE: Dict[str, dict] = {}


def _docstrings(tree) -> set:
    out = set()
    for n in ast.walk(tree):
        if isinstance(n, (ast.Module, ast.ClassDef, ast.FunctionDef, ast.AsyncFunctionDef)) and n.body:
            b = n.body[0]
            if isinstance(b, ast.Expr) and isinstance(b.value, ast.Constant) and isinstance(b.value.value, str):
                out.add(id(b.value))
    return out


def _scopes(tree):
    """(qualified scope name, node) for every constant, the scope being the innermost enclosing def/class"""
    out = []

    def walk(node, scope):
        for ch in ast.iter_child_nodes(node):
            if isinstance(ch, (ast.FunctionDef, ast.AsyncFunctionDef, ast.ClassDef)):
                walk(ch, scope + "." + ch.name if scope else ch.name)
            else:
                if isinstance(ch, ast.Constant):
                    out.append((scope, ch))
                walk(ch, scope)
    walk(tree, "")
    return out


def literals(repo: str) -> dict:
    """{"<file>::<scope>": {"i:<int>" | "s:<text>": how many times}} for every literal outside docstrings"""
    table: Dict[str, Dict[str, int]] = {}
    src = os.path.join(repo, "src", "aioswitcher")
    for root, _, files in os.walk(src):
        for f in sorted(files):
            if not f.endswith(".py"):
                continue
            path = os.path.join(root, f)
            try:
                tree = ast.parse(open(path, encoding="utf-8").read())
            except (SyntaxError, UnicodeDecodeError, OSError, ValueError):
                continue
            docs = _docstrings(tree)
            rel = os.path.relpath(path, src)
            for scope, n in _scopes(tree):
                if id(n) in docs:
                    continue
                v = n.value
                keys = []
                if isinstance(v, bool) or v is None:
                    continue
                if isinstance(v, int) and abs(v) < (1 << 64):
                    keys.append(f"i:{v}")
                elif isinstance(v, float) and v == v and abs(v) < (1 << 53) and v == int(v):
                    keys.append(f"i:{int(v)}")
                elif isinstance(v, bytes) and 0 < len(v) <= 64:
                    keys.append("s:hex:" + v.hex())
                elif isinstance(v, str) and 0 < len(v) <= 64:
                    keys.append("s:" + v)
                for k in keys:
                    d = table.setdefault(f"{rel}::{scope}", {})
                    d[k] = d.get(k, 0) + 1
    return table


def _ints_of_text(v: str) -> List[int]:
    out = []
    if v.startswith("hex:"):
        b = bytes.fromhex(v[4:])
        return [int.from_bytes(b, "little"), int.from_bytes(b, "big")] + list(b)
    t = v.strip().lower()
    if 0 < len(t) <= 16 and len(t) % 2 == 0 and all(c in "0123456789abcdef" for c in t):
        b = bytes.fromhex(t)
        out += [int.from_bytes(b, "little"), int.from_bytes(b, "big")]
    if t.isdigit() and len(t) <= 12:
        out.append(int(t))
    if len(t) == 5 and t[2] == ":" and (t[:2] + t[3:]).isdigit():
        out += [int(t[:2]) * 60 + int(t[3:]), int(t[:2]), int(t[3:])]
    return out


def novel() -> dict:
    """{"ints": [...], "strs": [...]}: literals that occur in some function of the tree under check more often than they do in the
    same function of the baseline (empty on the pinned tree)"""
    repo = C.REPO
    if repo not in _CACHE:
        ints, strs = [], []
        try:
            base = json.load(open(BASELINE))
            cur = literals(repo)
            for scope, d in sorted(cur.items()):
                b = base.get(scope, {})
                for k, n in sorted(d.items()):
                    if n > b.get(k, 0):
                        if k.startswith("i:"):
                            ints.append(int(k[2:]))
                        else:
                            strs.append(k[2:])
                            ints += _ints_of_text(k[2:])
        except Exception:  # noqa - steering only; never a reason to fail a check
            ints, strs = [], []
        _CACHE[repo] = {"ints": sorted(set(ints)), "strs": sorted(set(strs))}
    return _CACHE[repo]


def ints_in(lo: int, hi: int, widen: int = 1) -> List[int]:
    """novel integers and their neighbours that fall in [lo, hi]; also what they are as a count of 60 (minutes <-> seconds) and of 10"""
    out = []
    for v in novel()["ints"]:
        for w in (v, v * 60, v // 60, v * 10, v // 10, v * 3600, v // 3600):
            for d in range(-widen, widen + 1):
                if lo <= w + d <= hi and (w + d) not in out:
                    out.append(w + d)
    return out


def pick_int(rng, lo: int, hi: int, otherwise, p: float = 0.3):
    """`otherwise()` as before, except that on a tree with novel literals a share p of the draws is one of those in [lo, hi]"""
    if novel()["ints"]:
        c = ints_in(lo, hi)
        if c and rng.random() < p:
            return rng.choice(c)
    return otherwise()


class SteeredRandom(random.Random):
    """random.Random whose integer draws are, for a share of the calls, a novel literal of the tree (or a neighbour) that lies in the
    range asked for, and whose random byte strings now and then carry such a value; every draw is still a legal one for its caller"""
    P = 0.35

    def randrange(self, start, stop=None, step=1):
        if stop is None:
            start, stop = 0, start
        if step == 1 and isinstance(start, int) and isinstance(stop, int) and stop - start > 2 and super().random() < self.P:
            c = ints_in(start, stop - 1)
            if c:
                return c[super().randrange(len(c))]
        return super().randrange(start, stop, step)

    def randint(self, a, b):
        return self.randrange(a, b + 1)

    def randbytes(self, n):
        b = super().randbytes(n)
        vals = novel()["ints"]
        if n and vals and super().random() < self.P:
            v = abs(vals[super().randrange(len(vals))])
            width = max(1, (v.bit_length() + 7) // 8)
            if width <= n:
                enc = v.to_bytes(width, "little" if super().random() < 0.5 else "big")
                if super().random() < 0.3:      # the whole string made of it
                    return (enc * (n // width + 1))[:n]
                at = super().randrange(n - width + 1)
                b = b[:at] + enc + b[at + width:]
        return b


def steered(seed) -> random.Random:
    """the generator a check draws from: plain random.Random on a tree without novel literals (the pinned tree), SteeredRandom otherwise"""
    return SteeredRandom(seed) if (novel()["ints"] or novel()["strs"]) else random.Random(seed)


def strs_like(pred) -> List[str]:
    return [s for s in novel()["strs"] if not s.startswith("hex:") and pred(s)]


if __name__ == "__main__":
    import sys
    if len(sys.argv) > 1 and sys.argv[1] == "--write-baseline":
        C.use_repo()
        json.dump(literals(C.REPO), open(BASELINE, "w"), indent=0, sort_keys=True)
        print("baseline written", BASELINE)
    else:
        C.use_repo()
        print(json.dumps(novel()))
