"""Drives the real UDP bridge code: `_parse_device_from_datagram` directly (volume) and a running
`SwitcherBridge` on loopback UDP ports (glue, delivery order, life cycle)."""
from __future__ import annotations

import asyncio
import socket
import warnings
from typing import Any, Dict, List, Optional, Tuple

import apiharness as H
import common as C


def show_device(d) -> str:
    from aioswitcher import device as D
    base = (f"{type(d).__name__} {d.device_type.name} {d.device_state.name} {d.device_id} {d.device_key} {d.ip_address} "
            f"{d.mac_address} {C.ut(d.name)}")
    if isinstance(d, D.SwitcherWaterHeater):
        return f"{base} {d.power_consumption} {H.tenths(d.electric_current)} {d.remaining_time} {d.auto_shutdown}"
    if isinstance(d, D.SwitcherPowerPlug):
        return f"{base} {d.power_consumption} {H.tenths(d.electric_current)}"
    if isinstance(d, D.SwitcherShutter):
        return f"{base} {d.position} {d.direction.name}"
    if isinstance(d, D.SwitcherThermostat):
        return (f"{base} {d.mode.name} {H.tenths(d.temperature)} {d.target_temperature} {d.fan_level.name} {d.swing.name} "
                f"{C.ut(d.remote_id)}")
    return "unknown-class " + type(d).__name__


_RECEIVE_BUFFER = bytearray()


debug_logging = C.debug_logging


def parse_direct(hexdgram: str, how: str = "bytes") -> str:
    """what one datagram leads to: ignored | warn | raise E | device …
    how = "bytes": a bytes object of its own (what asyncio hands over); "buffer": the datagram sits in ONE bytearray that is refilled
    for every datagram (a caller of the parser with its own receive buffer); "debug": as bytes, with the library logging at DEBUG"""
    from aioswitcher.bridge import _parse_device_from_datagram
    got: List[Any] = []
    data = bytes.fromhex(hexdgram) if hexdgram != "-" else b""
    if how == "buffer":
        _RECEIVE_BUFFER[:] = data
        data = _RECEIVE_BUFFER
    if how == "debug":
        with debug_logging():
            return parse_direct(hexdgram)
    with warnings.catch_warnings(record=True) as w:
        warnings.simplefilter("always")
        try:
            _parse_device_from_datagram(got.append, data)
        except Exception as e:  # noqa
            return "raise " + C.exc_name(e)
    if len(got) > 1:
        return f"callback-called-{len(got)}-times"
    if got:
        return "device " + show_device(got[0]) + (" +warning" if w else "")
    if w:
        return "warn" if any("unknown" in str(x.message) for x in w) else "warn-other"
    return "ignored"


# ---------------------------------------------------------------------------------------------
# running bridge


_NEXT_PORT = [0]


_BLOCK = {"base": None, "lock": None}
_PORT_LO, _PORT_HI, _PORT_BLOCK = 11000, 19000, 40


def _claim_block() -> int:
    """A block of 40 port numbers that belongs to this process alone among all checks running on this machine at the same time: the
    claim is a socket bound to a name in the abstract unix-socket namespace (exclusive, host-wide, released by the kernel when the
    process ends - nothing on disk).  Checks running side by side therefore never probe, bind or send to each other's ports."""
    import os
    if _BLOCK["base"] is not None:
        return _BLOCK["base"]
    nblocks = (_PORT_HI - _PORT_LO) // _PORT_BLOCK
    first = os.getpid() * 7919 % nblocks
    for k in range(nblocks):
        b = (first + k) % nblocks
        lock = socket.socket(socket.AF_UNIX, socket.SOCK_DGRAM)
        try:
            lock.bind("\0aioswitcher-verif-udp-block-%d" % b)
        except OSError:
            lock.close()
            continue
        _BLOCK["base"], _BLOCK["lock"] = _PORT_LO + b * _PORT_BLOCK, lock
        return _BLOCK["base"]
    _BLOCK["base"] = _PORT_LO + first * _PORT_BLOCK        # every block claimed (200 checks at once?): fall back to the old behaviour
    return _BLOCK["base"]


def free_udp_ports(n: int) -> List[int]:
    """n UDP ports nobody holds.  Taken from a block that belongs to this process (below the kernel's ephemeral range, away from the
    protocol's well-known ports), so that checks running side by side do not hand each other's ports out and so that no client
    socket of anybody lands on them by chance."""
    block = _PORT_BLOCK
    base = _claim_block()
    ports: List[int] = []
    tries = 0
    while len(ports) < n and tries < 4 * block:
        p = base + _NEXT_PORT[0] % block
        _NEXT_PORT[0] += 1
        tries += 1
        if p not in ports and bindable(p):
            ports.append(p)
    while len(ports) < n:           # the block is exhausted or taken: fall back to what the kernel hands out
        s = socket.socket(socket.AF_INET, socket.SOCK_DGRAM)
        s.bind(("0.0.0.0", 0))
        ports.append(s.getsockname()[1])
        s.close()
    return ports


class WellKnownPorts:
    """`with WellKnownPorts() as mine:` - the protocol's well-known broadcast ports can be used by one check at a time on a machine;
    `mine` is False when another check holds them for longer than this one is prepared to wait (the stream is then skipped)"""

    _held = {"n": 0, "lock": None}        # re-entrant within a process

    def __init__(self, wait: float = 45.0):
        self.wait, self.mine = wait, False

    def __enter__(self) -> bool:
        import time
        h = WellKnownPorts._held
        if h["n"] > 0:
            h["n"] += 1
            self.mine = True
            return True
        end = time.time() + self.wait
        while True:
            lock = socket.socket(socket.AF_UNIX, socket.SOCK_DGRAM)
            try:
                lock.bind("\0aioswitcher-verif-well-known-ports")
                h["n"], h["lock"] = 1, lock
                self.mine = True
                return True
            except OSError:
                lock.close()
            if time.time() > end:
                return False
            time.sleep(0.25)

    def __exit__(self, *exc):
        h = WellKnownPorts._held
        if self.mine:
            self.mine = False
            h["n"] -= 1
            if h["n"] == 0 and h["lock"] is not None:
                h["lock"].close()
                h["lock"] = None
        return False


def bindable(port: int) -> bool:
    s = socket.socket(socket.AF_INET, socket.SOCK_DGRAM)
    try:
        s.bind(("0.0.0.0", port))
        return True
    except OSError:
        return False
    finally:
        s.close()


SENTINEL_NAME = "zz-sentinel"
LOST = 0          # barriers lost so far in this process: after a few, later sequences are not attempted


# a broadcast of a real power plug, as captured from a device (tests/testresources/test_udp_datagram_parsing/
# test_datagram_state_on_power_plug.txt of the pinned commit): header with its own length, type, ip, mac, state, power - everything a
# genuine broadcast has, so that the barrier does not depend on which of these a (changed) parser looks at
_GENUINE = bytes.fromhex(
    "fef0a500023c020000000000841201000000aaaaaa0000007ff6c26000000000000000000000f0fe03004d7920537769746368657220426f696c6572000000"
    "000000000000000000000001a8c0a8012112a1a21abc1a000000000000000002537769746368657220426f696c6572204346384200000000000000000000000002"
    "0400001c000100280a00004b9589c0000000000000000000000000000000000102aa3461dd")


def sentinel_datagram(k: int) -> bytes:
    """a genuine power-plug broadcast whose name marks it as the delivery barrier number k"""
    b = bytearray(_GENUINE)
    assert len(b) == 165
    nm = f"{SENTINEL_NAME}{k}".encode()
    b[42:74] = nm.ljust(32, b"\x00")
    return bytes(b)


async def pump(cond, timeout=3.0):
    """let the loop run until cond() or timeout"""
    loop = asyncio.get_running_loop()
    end = loop.time() + timeout
    while not cond():
        if loop.time() > end:
            return False
        await asyncio.sleep(0.001)
    return True


class Collector:
    def __init__(self, fail_on=()):
        self.calls: List[Tuple[int, str]] = []   # (invocation number, shown device)
        self.fail_on = set(fail_on)
        self.count = 0
        self.sentinels = 0

    def __call__(self, device):
        if device.name.startswith(SENTINEL_NAME):
            self.sentinels += 1
            return
        self.count += 1
        self.calls.append((self.count, show_device(device)))
        if self.count in self.fail_on:
            raise RuntimeError("callback failure injected by the harness")


def default_ports() -> List[int]:
    """the ports a SwitcherBridge listens on when none are given (the protocol's well-known broadcast ports)"""
    import inspect
    from aioswitcher.bridge import SwitcherBridge
    return list(inspect.signature(SwitcherBridge.__init__).parameters["broadcast_ports"].default)


CALLBACK_FORMS = ("function", "lambda", "method", "partial", "callable-object", "start-again", "other-bridge", "optional-second-parameter",
                  "copy-dropped")


def callback_in_form(form: str, target):
    """the user's callback as another kind of callable, built so that NOTHING but the bridge refers to it once it has been handed
    over (an inline lambda, a bound method of an object created on the spot, a functools.partial, an object with __call__)"""
    import functools
    if form == "lambda":
        return lambda device: target(device)
    if form == "method":
        class Handler:
            def __init__(self, t):
                self.t = t

            def on_device(self, device):
                self.t(device)
        return Handler(target).on_device
    if form == "optional-second-parameter":
        # a callback that HAS a second parameter of its own, with a default: the bridge calls callbacks with the device, nothing else
        def with_default(device, note=None, *, flag=False):
            if note is not None or flag:
                raise TypeError("the callback was handed more than the device")
            target(device)
        return with_default
    if form == "partial":
        return functools.partial(target)
    if form == "callable-object":
        class Sink:
            def __init__(self, t):
                self.t = t

            def __call__(self, device):
                self.t(device)
        return Sink(target)
    return target


async def _run_bridge_sequence(nports: int, arrivals: List[Tuple[int, str]], fail_on, wellknown=False, restart=False,
                               burst=False, cbform="function") -> Tuple[str, List[str]]:
    """arrivals: (port index, datagram hex).  One datagram in flight at a time per test step: after each
    datagram a sentinel on the same port is the delivery barrier (UDP on loopback keeps per-socket order)."""
    from aioswitcher.bridge import SwitcherBridge
    loop = asyncio.get_running_loop()
    loop_errors: List[str] = []
    loop.set_exception_handler(lambda l, ctx: loop_errors.append(type(ctx.get("exception")).__name__))
    ports = default_ports() if wellknown else free_udp_ports(nports)
    col = Collector(fail_on)
    per_port: Dict[int, List[str]] = {}

    def cb(device):
        n_before = len(col.calls)
        try:
            col(device)
        finally:
            if len(col.calls) > n_before:
                per_port.setdefault(cb.current_port, []).append(col.calls[-1][1])
    cb.current_port = -1
    bridge = SwitcherBridge(callback_in_form(cbform, cb)) if wellknown else SwitcherBridge(callback_in_form(cbform, cb), ports)
    import gc
    gc.collect()        # a callback only the bridge refers to must still be there
    tx = socket.socket(socket.AF_INET, socket.SOCK_DGRAM)
    order: List[Tuple[int, str]] = []
    with warnings.catch_warnings(record=True):
        warnings.simplefilter("always")
        try:
            await bridge.start()
        except OSError:
            if wellknown:           # somebody else (another check running at the same time) took a well-known port meanwhile
                tx.close()
                return "0 NOT-RUN(the well-known ports are in use on this machine right now)", []
            # ports that were free a moment ago cannot be bound: an earlier bridge of this very run did not let go of them
            tx.close()
            return "0 START-FAILED(the bridge could not bind ports that were free: " + ",".join(str(p) for p in ports) + ")", []
        # somebody else asks for the same ports with SO_REUSEPORT set: a bridge that holds its ports exclusively (as it must, or
        # broadcasts would be shared out between the two) makes that fail
        thieves = []
        for p in ports:
            t = socket.socket(socket.AF_INET, socket.SOCK_DGRAM)
            try:
                t.setsockopt(socket.SOL_SOCKET, socket.SO_REUSEPORT, 1)
                t.bind(("0.0.0.0", p))
                thieves.append(t)
            except OSError:
                t.close()
        if thieves:
            for t in thieves:
                t.close()
            await bridge.stop()
            tx.close()
            return f"0 PORT-SHARED(another socket could bind {len(thieves)} of the bridge's ports while it was running)", []
        if cbform == "start-again":     # start() on a bridge that is running fails (its own ports are taken) and changes nothing
            try:
                await bridge.start()
            except Exception:  # noqa
                pass
            await asyncio.sleep(0)
        if cbform == "other-bridge":    # ANOTHER bridge object on the same ports tries to start (in vain) and is stopped: not this one's business
            other = SwitcherBridge(lambda device: None, list(ports))
            try:
                await other.start()
            except Exception:  # noqa
                pass
            try:
                await other.stop()
            except Exception:  # noqa
                pass
            await asyncio.sleep(0)
        if cbform == "copy-dropped":    # a copy.copy() of the running bridge is made and dropped again: an object that goes away takes
            import copy                 # nothing of this bridge's with it
            import gc as _gc
            c2 = copy.copy(bridge)
            del c2
            _gc.collect()
            await asyncio.sleep(0)
        if restart:                 # a bridge that has been stopped and started again is a running bridge like any other
            await bridge.stop()
            await asyncio.sleep(0)
            await asyncio.sleep(0)
            await bridge.start()
        try:
            k = 0
            if burst:
                # all datagrams at once, nothing in between; then one sentinel per port used.  Across ports the order of arrival is
                # the kernel's, so what is compared is the multiset of deliveries (shown sorted, port "*")
                n0 = len(col.calls)
                for (pi, hexd) in arrivals:
                    tx.sendto(bytes.fromhex(hexd) if hexd != "-" else b"", ("127.0.0.1", ports[pi]))
                used = sorted({pi for pi, _ in arrivals})
                s0 = col.sentinels
                for pi in used:
                    k += 1
                    tx.sendto(sentinel_datagram(k), ("127.0.0.1", ports[pi]))
                ok = await pump(lambda: col.sentinels >= s0 + len(used), timeout=2.5)
                await asyncio.sleep(0.01)
                order += [("*", c[1]) for c in sorted(col.calls[n0:], key=lambda c: c[1])]
                if not ok:
                    order.append(("*", "BARRIER-LOST(the bridge stopped delivering)"))
                    global LOST
                    LOST += 1
                arrivals = []
            for (pi, hexd) in arrivals:
                cb.current_port = pi
                n0 = len(col.calls)
                tx.sendto(bytes.fromhex(hexd) if hexd != "-" else b"", ("127.0.0.1", ports[pi]))
                k += 1
                s0 = col.sentinels
                tx.sendto(sentinel_datagram(k), ("127.0.0.1", ports[pi]))
                ok = await pump(lambda: col.sentinels > s0, timeout=1.5)
                for c in col.calls[n0:]:
                    order.append((pi, c[1]))
                if not ok:
                    order.append((pi, "BARRIER-LOST(the bridge stopped delivering)"))
                    LOST += 1
                    break
        finally:
            await bridge.stop()
            await asyncio.sleep(0)
    tx.close()
    shown = " | ".join(f"{p} {d}" for p, d in order) if order else "-"
    return shown, loop_errors


async def _bridge_fate(hexdgram: str) -> str:
    """what a datagram leads to when it ARRIVES at a running bridge (not when the parser is called on it): device | warn | ignored"""
    from aioswitcher.bridge import SwitcherBridge
    loop = asyncio.get_running_loop()
    errs: List[str] = []
    loop.set_exception_handler(lambda l, ctx: errs.append(type(ctx.get("exception")).__name__))
    ports = free_udp_ports(1)
    col = Collector(())
    bridge = SwitcherBridge(col, ports)
    tx = socket.socket(socket.AF_INET, socket.SOCK_DGRAM)
    with warnings.catch_warnings(record=True) as w:
        warnings.simplefilter("always")
        await bridge.start()
        try:
            tx.sendto(bytes.fromhex(hexdgram) if hexdgram != "-" else b"", ("127.0.0.1", ports[0]))
            tx.sendto(sentinel_datagram(1), ("127.0.0.1", ports[0]))
            ok = await pump(lambda: col.sentinels > 0, timeout=1.5)
        finally:
            await bridge.stop()
            await asyncio.sleep(0)
            tx.close()
    if not ok:
        return "BARRIER-LOST"
    if errs:
        return "raise " + errs[0]
    if col.calls:
        return "device"
    return "warn" if any("unknown" in str(x.message) for x in w) else ("warn-other" if w else "ignored")


def bridge_fate(hexdgram: str) -> str:
    return H.loop().run_until_complete(_bridge_fate(hexdgram))


GIVE_UP_AFTER = 3  # lost barriers after which further sequences are not attempted (set to a large number while shrinking a failure)


def run_bridge_sequence(nports: int, arrivals, fail_on=(), wellknown=False, restart=False, burst=False, cbform="function") -> str:
    if LOST >= GIVE_UP_AFTER:
        return "0 NOT-RUN(the bridge lost deliveries in 3 earlier sequences)"
    if wellknown:
        with WellKnownPorts(wait=20.0) as mine:
            if not mine:
                return "0 NOT-RUN(the well-known ports are in use on this machine right now)"
            shown, errs = H.loop().run_until_complete(_run_bridge_sequence(nports, arrivals, fail_on, wellknown, restart, burst, cbform))
            return shown
    shown, errs = H.loop().run_until_complete(_run_bridge_sequence(nports, arrivals, fail_on, wellknown, restart, burst, cbform))
    return shown
