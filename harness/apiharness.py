"""Drives the real SwitcherType1Api / SwitcherType2Api over scripted in-memory streams (and, for a
sample, real loopback TCP) and renders what happened in the canonical form the Lean model prints.

A request is a JSON-able dict, e.g. {"op": "control", "on": 1, "minutes": 5}; a case is
{"did","key","now"(float clock),"tz"(fixed-offset zone name),"req",...,"replies":[hex,…]}.
"""
from __future__ import annotations

import asyncio
import datetime
import os
import time
from typing import Any, Dict, List, Optional, Tuple

import time_machine

import common as C

import logging
logging.disable(logging.CRITICAL)

_loop: Optional[asyncio.AbstractEventLoop] = None


def loop() -> asyncio.AbstractEventLoop:
    global _loop
    if _loop is None:
        _loop = asyncio.new_event_loop()
        asyncio.set_event_loop(_loop)
    return _loop


def set_tz(name: str) -> None:
    if os.environ.get("TZ") != name:
        os.environ["TZ"] = name
        time.tzset()


FIXED_ZONES = {"UTC": 0, "Etc/GMT-3": 3 * 3600, "Etc/GMT+5": -5 * 3600, "Etc/GMT-14": 14 * 3600, "Etc/GMT+12": -12 * 3600}


class FakeWriter:
    def __init__(self, log: List[bytes]):
        self.log = log
        self.closed = False

    def write(self, data: bytes) -> None:
        self.log.append(bytes(data))

    def close(self) -> None:
        self.closed = True

    async def wait_closed(self) -> None:
        return None

    def is_closing(self) -> bool:
        return self.closed


class FakeReader:
    """read() returns the next scripted reply; when the script is exhausted, b"" (end of stream)."""

    def __init__(self, replies: List[bytes], gate=None):
        self.replies = list(replies)
        self.gate = gate

    async def read(self, n: int = -1) -> bytes:
        if self.gate is not None:
            await self.gate()
        else:
            await asyncio.sleep(0)
        return self.replies.pop(0) if self.replies else b""


_REMOTES: Dict[str, Any] = {}


def make_remote(ir: Optional[dict]):
    """One remote OBJECT per IR set, reused by every later operation on that set - as a client that got it from the remote manager
    does - so that anything a remote remembers between calls (a command cache, say) is exercised by the streams."""
    import json
    from aioswitcher.api.remotes import SwitcherBreezeRemote
    key = json.dumps(ir, sort_keys=True)
    if key not in _REMOTES:
        if len(_REMOTES) > 400:
            _REMOTES.clear()
        _REMOTES[key] = SwitcherBreezeRemote(ir)
    return _REMOTES[key]


def ir_token(ir: dict) -> str:
    ws = ",".join(f"{C.ut(w['Key'])}/{C.ut(w['Para'])}/{C.ut(w['HexCode'])}" for w in ir["IRWaveList"])
    return f"ir={C.ut(ir['IRSetID'])},{int(ir['OnOffType'])}" + ("," + ws if ws else "")


def _enum(E, name):
    return None if name is None else E[name]


async def call(api, req: Dict[str, Any]):
    from aioswitcher.api import Command
    from aioswitcher.device import DeviceState, ThermostatFanLevel, ThermostatMode, ThermostatSwing
    from aioswitcher.schedule import Days
    op = req["op"]
    if op == "getState":
        return await api.get_state()
    if op == "control":
        return await api.control_device(Command.ON if req["on"] else Command.OFF, req["minutes"])
    if op == "autoshutdown":
        return await api.set_auto_shutdown(datetime.timedelta(microseconds=req["micros"]))
    if op == "setname":
        return await api.set_device_name(req["name"])
    if op == "getschedules":
        return await api.get_schedules()
    if op == "delsched":
        return await api.delete_schedule(req["id"])
    if op == "createsched":
        D = list(Days)
        ds = [D[i] for i in req["days"]]
        form = req.get("form", "set")
        days = set(ds) if form == "set" else frozenset(ds) if form == "frozenset" else tuple(ds) if form == "tuple" else ds
        return await api.create_schedule(req["start"], req["stop"], days)
    if op == "stop":
        return await api.stop()
    if op == "setpos":
        return await api.set_position(req["pos"])
    if op == "getshutter":
        return await api.get_shutter_state()
    if op == "getbreeze":
        return await api.get_breeze_state()
    if op == "ctlbreeze":
        remote = req.get("_remote") or make_remote(req["ir"])
        return await api.control_breeze_device(remote, _enum(DeviceState, req["state"]), _enum(ThermostatMode, req["mode"]),
                                               req["temp"], _enum(ThermostatFanLevel, req["fan"]),
                                               _enum(ThermostatSwing, req["swing"]), bool(req["upd"]))
    raise ValueError(op)


TYPE2_OPS = {"stop", "setpos", "getshutter", "getbreeze", "ctlbreeze"}


def req_tokens(req: Dict[str, Any]) -> str:
    op = req["op"]
    if op == "control":
        return f"control {int(req['on'])} {req['minutes']}"
    if op == "autoshutdown":
        return f"autoshutdown {req['micros']}"
    if op == "setname":
        return f"setname {C.ut(req['name'])}"
    if op == "delsched":
        return f"delsched {C.ut(req['id'])}"
    if op == "createsched":
        d = ",".join(map(str, req["days"])) if req["days"] else "-"
        form = {"frozenset": "set", "tuple": "list"}.get(req.get("form", "set"), req.get("form", "set"))     # a frozenset is a set, a tuple a sequence
        return f"createsched {C.ut(req['start'])} {C.ut(req['stop'])} {form} {d}"
    if op == "setpos":
        return f"setpos {req['pos']}"
    if op == "ctlbreeze":
        o = lambda x: "-" if x is None else x  # noqa
        return (f"ctlbreeze {ir_token(req['ir'])} {o(req['state'])} {o(req['mode'])} {req['temp']} {o(req['fan'])} "
                f"{o(req['swing'])} {int(req['upd'])}")
    return op


def tenths(x: float) -> str:
    return repr(x)


def show_resp(r) -> str:
    from aioswitcher.api import messages as M
    if isinstance(r, M.SwitcherStateResponse):
        return (f"state {r.state.name} {r.time_left} {r.time_on} {r.auto_shutdown} {r.power_consumption} "
                f"{tenths(r.electric_current)}")
    if isinstance(r, M.SwitcherThermostatStateResponse):
        return (f"thermo {r.state.name} {r.mode.name} {r.fan_level.name} {tenths(r.temperature)} {r.target_temperature} "
                f"{r.swing.name} {C.ut(r.remote_id)}")
    if isinstance(r, M.SwitcherShutterStateResponse):
        return f"shutter {r.position} {r.direction.name}"
    if isinstance(r, M.SwitcherGetSchedulesResponse):
        from aioswitcher.schedule import Days
        D = list(Days)
        rows = []
        for sch in sorted(r.schedules, key=lambda x: int(x.schedule_id)):
            days = "+".join(str(i) for i in sorted(D.index(d) for d in sch.days)) or "-"
            rows.append(f"{sch.schedule_id},{int(sch.recurring)},{days},{sch.start_time},{sch.end_time},{sch.duration},{C.ut(sch.display)}")
        return "schedules " + (";".join(rows) if rows else "-")
    if isinstance(r, M.SwitcherLoginResponse):
        return "login " + r.session_id
    if isinstance(r, M.SwitcherBaseResponse):
        return "base " + ("1" if r.successful else "0")
    return "unknown " + type(r).__name__


def new_api(case):
    import aioswitcher.api as A
    cls = A.SwitcherType2Api if case["req"]["op"] in TYPE2_OPS else A.SwitcherType1Api
    return cls("127.0.0.1", case["did"], case["key"])


async def _run_one(case, log: List[bytes]) -> str:
    import aioswitcher.api as A
    api = new_api(case)
    reader = FakeReader([bytes.fromhex(r) if r != "-" else b"" for r in case["replies"]])
    writer = FakeWriter(log)

    async def fake_open_connection(**kw):
        return reader, writer
    saved = A.open_connection
    A.open_connection = fake_open_connection
    try:
        await api.connect()
        try:
            r = await call(api, case["req"])
            out = show_resp(r)
        except Exception as e:  # noqa
            out = "raise " + C.exc_name(e)
        await api.disconnect()
    finally:
        A.open_connection = saved
    return out


def run_case(case: Dict[str, Any]) -> str:
    """Returns `frames=<hex,…> out=<canonical outcome>` for one operation on a fresh connection."""
    set_tz(case.get("tz", "UTC"))
    log: List[bytes] = []
    with time_machine.travel(float(case["now"]), tick=False):
        out = loop().run_until_complete(_run_one(case, log))
    return "frames=" + (",".join(C.hx(f) for f in log) if log else "-") + " out=" + out


def clock_reading(case) -> int:
    """What `int(round(time.time()))` may legitimately be for the frozen clock: round-half-even of it."""
    return int(round(float(case["now"])))


def model_line(case: Dict[str, Any]) -> str:
    off = FIXED_ZONES[case.get("tz", "UTC")]
    reps = " ".join(case["replies"])
    return (f"op {C.ut(case['did'])} {C.ut(case['key'])} {clock_reading(case)} {off} {req_tokens(case['req'])} |"
            + (" " + reps if reps else ""))


def project(out: str, what: str) -> str:
    """the part of an operation's observation a property is about: "frames" = the bytes written; "class" = those plus what kind of
    thing came back (which exception class / which response class, for a generic response also whether it counts as successful) -
    but not the decoded CONTENT of a state reply, which is C08's and C10's business and nobody else's"""
    frames, outcome = out.split(" out=", 1) if " out=" in out else (out, "")
    if what == "frames":
        return frames
    head = outcome.split(" ", 1)[0]
    if head == "raise":
        return frames + " out=" + " ".join(outcome.split(" ")[:2])
    if head == "base":
        return frames + " out=" + outcome
    return frames + " out=" + head


def same(what: str):
    """a comparison of model and implementation outputs restricted to that part (histories: per operation)"""
    def cmp(m: str, i: str) -> bool:
        ms, is_ = m.replace(" || ", " ;; ").split(" ;; "), i.replace(" || ", " ;; ").split(" ;; ")
        return len(ms) == len(is_) and all(project(a, what) == project(b, what) for a, b in zip(ms, is_))
    return cmp


def frames_of(out: str) -> List[bytes]:
    f = out.split(" ", 1)[0][len("frames="):]
    return [] if f == "-" else [bytes.fromhex(x) for x in f.split(",")]


def outcome_of(out: str) -> str:
    return out.split(" out=", 1)[1]


# ---- reply builders (harness-side reference encoders; the Spec encoders in Lean are the judges) -------------


def login_reply(sid: bytes, n: int = 48) -> str:
    b = bytearray(b"\xfe\xf0" + bytes([n, 0]) + b"\x02\x32\xa1\x00" + sid + b"\x00" * (n - 12))
    return bytes(b[:n]).hex()


def state_reply(state=1, power=0, left=0, on=0, auto=3600, n=124) -> str:
    b = bytearray(n)
    b[0:2] = b"\xfe\xf0"
    b[75] = state
    b[77:79] = power.to_bytes(2, "little")
    b[89:93] = left.to_bytes(4, "little")
    b[93:97] = on.to_bytes(4, "little")
    b[97:101] = auto.to_bytes(4, "little")
    return bytes(b).hex()


def thermo_reply(state=1, mode=4, temp=245, target=23, fan=1, swing=0, remote=b"ELEC7001", n=100) -> str:
    b = bytearray(n)
    b[0:2] = b"\xfe\xf0"
    b[76:78] = temp.to_bytes(2, "little")
    b[78] = state
    b[79] = mode
    b[80] = target
    b[81] = (fan << 4) | swing
    b[84:92] = remote.ljust(8, b"\x00")[:8]
    return bytes(b).hex()


def shutter_reply(pos=50, direction=b"\x00\x00", n=95) -> str:
    b = bytearray(n)
    b[0:2] = b"\xfe\xf0"
    b[76] = pos
    b[78:80] = direction
    return bytes(b).hex()
