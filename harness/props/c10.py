"""C10 — listed schedules decode exactly; a created schedule reads back unchanged."""
import datetime
from zoneinfo import ZoneInfo

import apiharness as H
import common as C
import zoneharness as Z

RULE = ("get-schedules replies with 0..8 whole records (slot ids 0..255 incl. duplicates, all 127 day masks and the non-recurring "
        "mask, start/end instants on every minute class) parsed by the real get_schedules under host zones (UTC, Asia/Jerusalem, "
        "America/New_York, Australia/Lord_Howe, Asia/Kathmandu, Pacific/Kiritimati, ...) at clock readings incl. DST-change days; "
        "each field is judged by the Spec (h2l decoder in the exported zone table, mask bits, duration, next-run text); and the "
        "record the real create_schedule writes for (start, end, days) is listed back in a reply and must parse to the same values; "
        "non-trivial = distinct (zone, #records, masks, minute classes)")
ASSUMPTIONS = ["zone tables exported from zoneinfo; TZ + tzset + time_machine; in create->list-back, wall times that do not exist "
               "today (DST gap) are only required not to raise", "a device lists back the mask, start and end it was given"]

ZONES = ["UTC", "Asia/Jerusalem", "America/New_York", "Australia/Lord_Howe", "Asia/Kathmandu", "Pacific/Kiritimati", "Europe/London",
         "America/St_Johns"]


def build_reply(recs, rng=None):
    hdr = bytes(45) if rng is None else rng.randbytes(45)
    body = b"".join(bytes([r["id"], r["en"], r["mask"], r["st"]]) + r["t1"].to_bytes(4, "little") + r["t2"].to_bytes(4, "little") + bytes(r.get("tail", [0, 0, 0, 0]))
                    for r in recs)
    return (hdr + body + bytes(4)).hex()


def _impl(a):
    from aioswitcher.api.messages import SwitcherGetSchedulesResponse
    zone, now, reply = a["zone"], a["now"], a["reply"]

    def f():
        try:
            r = SwitcherGetSchedulesResponse(bytes.fromhex(reply) if reply != "-" else b"")
            shown = "ok " + H.show_resp(r)[len("schedules "):]
            # the caller owns what it was given: it may change the day sets of the schedules it received (and it does, here) -
            # nothing listed later may show a trace of that
            from aioswitcher.schedule import Days
            for sch in r.schedules:
                try:
                    sch.days.add(list(Days)[(int(sch.schedule_id) + 3) % 7])
                except Exception:  # noqa  (a frozen or immutable set is fine too)
                    pass
            return shown
        except Exception as e:  # noqa
            return "raise " + C.exc_name(e)
    return Z.under(zone, now, f)


def _fields(row):
    """id,recurring,days,start,stop,duration,display — a (wrong) duration such as '-1 day, 23:25:00' contains a comma itself"""
    p = row.split(",")
    return p[0], p[1], p[2], p[3], p[4], ",".join(p[5:-1]), p[-1]


def _judge(a, out):
    if not out.startswith("ok "):
        return [("hhmm 0", "whole-records-must-parse: " + out)] if a.get("recs") is not None else []
    recs = a.get("recs")
    if recs is None:
        return []
    rows = [] if out[3:] == "-" else out[3:].split(";")
    first = {}
    for r in recs:
        first.setdefault(r["id"], r)
    lines = []
    if sorted(int(x.split(",")[0]) for x in rows) != sorted(first):
        return [("hhmm 0", f"ids {sorted(first)} expected, got {[x.split(',')[0] for x in rows]}")]
    tok = Z.zone_token(a["zone"], a["now"])
    lt = datetime.datetime.fromtimestamp(a["now"], ZoneInfo(a["zone"]))
    for row in rows:
        sid, rec, days, start, stop, dur, disp = _fields(row)
        r = first[int(sid)]
        lines.append((f"h2l {tok} {r['t1'].to_bytes(4, 'little').hex()}", "ok " + start))
        lines.append((f"h2l {tok} {r['t2'].to_bytes(4, 'little').hex()}", "ok " + stop))
        days = days.replace("+", ",")
        lines.append((f"c12dec {r['mask']} {days}" if r["mask"] else "hhmm 0", "1" if r["mask"] else ("00:00" if days == "-" and rec == "0" else "non-recurring-must-have-no-days")))
        if r["mask"] and rec != "1":
            lines.append(("hhmm 0", "recurring-flag-wrong"))
        sm, em = int(start[:2]) * 60 + int(start[3:]), int(stop[:2]) * 60 + int(stop[3:])
        lines.append((f"c14 {sm} {em} {C.ut(dur)}", "1"))
        ahead = (lt.hour * 60 + lt.minute) < sm
        lines.append((f"c13 {lt.weekday()} {r['mask']} {int(ahead)} {C.ut(start)} {disp}", "1"))
    return lines


def _nt(a, out):
    recs = a.get("recs") or []
    return (a["zone"], len(recs), tuple(sorted({r["mask"] for r in recs})), out[:40])


LIST = C.Kind("get_schedules", impl=_impl, model=lambda a: f"getsched {Z.zone_token(a['zone'], a['now'])} {int(a['now'] // 1)} {a['reply']}",
              judge=_judge, classify=lambda a, o: f"{a['zone']}:{len(a.get('recs') or [])}recs:{'ok' if o.startswith('ok') else o}",
              nontrivial=_nt,
              shrink=lambda a: [dict(a, recs=a["recs"][:i] + a["recs"][i + 1:], reply=build_reply(a["recs"][:i] + a["recs"][i + 1:]))
                                for i in range(len(a.get("recs") or []))])


def _readback(a):
    """create_schedule (real API, scripted device) -> record bytes -> listed back -> get_schedules (real)"""
    zone, now, s, e, days, slot = a["zone"], a["now"], a["start"], a["stop"], a["days"], a["slot"]
    case = {"did": "a123bc", "key": "18", "now": now, "tz": zone, "req": {"op": "createsched", "start": s, "stop": e, "days": days, "form": a.get("form", "set")},
            "replies": [H.login_reply(b"\x01\x02\x03\x04"), "00"]}
    out = H.run_case(case)
    fr = H.frames_of(out)
    if len(fr) < 2:
        return "create-failed " + H.outcome_of(out)
    rec = fr[1][84:95]          # 01 | mask | 01 | start | end
    if len(rec) != 11 or rec[0] != 1 or rec[2] != 1:
        return "create-record-malformed " + rec.hex()
    mask, t1, t2 = rec[1], int.from_bytes(rec[3:7], "little"), int.from_bytes(rec[7:11], "little")
    reply = build_reply([{"id": slot, "en": 1, "mask": mask, "st": 1, "t1": t1, "t2": t2}])
    listed = _impl({"zone": zone, "now": now, "reply": reply})
    return f"rec {mask} {t1} {t2} {listed}"


def _judge_rb(a, out):
    if not out.startswith("rec "):
        return [("hhmm 0", "create->list-back failed: " + out)]
    _, mask, t1, t2, status, rest = out.split(" ", 5) if out.count(" ") >= 5 else (out.split(" ") + ["", ""])[:6]
    tok = Z.zone_token(a["zone"], a["now"])
    sh, sm = int(a["start"][:2]), int(a["start"][3:])
    eh, em = int(a["stop"][:2]), int(a["stop"][3:])
    if status != "ok":
        return [("hhmm 0", "listed-record-did-not-parse: " + out)]
    sid, rec, days, start, stop, dur, disp = _fields(rest)
    want_mask = sum(2 ** (d + 1) for d in a["days"])
    lines = [(f"c11exists {tok} {int(a['now'] // 1)} {sh} {sm} {int(t1).to_bytes(4, 'little').hex()} {start}", "1"),
             (f"c11exists {tok} {int(a['now'] // 1)} {eh} {em} {int(t2).to_bytes(4, 'little').hex()} {stop}", "1")]
    if int(mask) != want_mask:
        lines.append(("hhmm 0", f"mask {mask} != {want_mask}"))
    days = days.replace("+", ",")
    if want_mask:
        lines.append((f"c12dec {want_mask} {days}", "1"))
    elif days != "-":
        lines.append(("hhmm 0", "days-for-non-recurring"))
    if int(sid) != a["slot"]:
        lines.append(("hhmm 0", "slot-id-differs"))
    return lines


RB = C.Kind("create-then-list-back", impl=_readback, judge=_judge_rb,
            classify=lambda a, o: f"{a['zone']}:{o.split()[0]}", nontrivial=lambda a, o: (a["zone"], int(a["now"] // 86400), a["start"], a["stop"], tuple(a["days"])))
KINDS = {"get_schedules": LIST, "create-then-list-back": RB}


def gen_recs(rng, now):
    n = rng.choice([0, 1, 2, 3, 8, rng.randrange(0, 9)])
    recs = []
    for _ in range(n):
        mask = rng.choice([0, 2 * rng.randrange(1, 128), 254, 2])
        t1 = int(now) + rng.randrange(-86400, 86400)
        t2 = t1 + rng.choice([0, 60, 3600, rng.randrange(0, 86400)])
        recs.append({"id": rng.choice([0, 1, 2, 7, 9, 10, 15, 16, 255, rng.randrange(256)]), "en": rng.randrange(2), "mask": mask, "st": rng.randrange(2),
                     "t1": t1 % 2 ** 32, "t2": t2 % 2 ** 32, "tail": list(rng.randbytes(4))})
    if n >= 2 and rng.random() < 0.3:
        recs[-1]["id"] = recs[0]["id"]          # duplicate slot id: the first record wins
    return recs


def streams(ctx):
    rng = ctx.rng
    lst, rb = [], []
    for zone in ZONES:
        for now in Z.interesting_instants(rng, zone, ctx.n(45, 900)):
            recs = gen_recs(rng, now)
            lst.append({"zone": zone, "now": now, "recs": recs, "reply": build_reply(recs, rng)})
        for now in Z.interesting_instants(rng, zone, ctx.n(25, 500)):
            s, e = rng.randrange(1440), rng.randrange(1440)
            rb.append({"zone": zone, "now": now, "start": "%02d:%02d" % divmod(s, 60), "stop": "%02d:%02d" % divmod(e, 60),
                       "days": sorted(rng.sample(range(7), rng.randrange(0, 8))), "slot": rng.randrange(8),
                       "form": ["set", "set", "list", "tuple", "frozenset"][len(rb) % 5]})     # the days as a set, a list, a tuple, a frozenset
    ctx.run_cases(LIST, "listed-replies-under-zones", lst, exhaustive=False, sample_every=max(1, len(lst) // 3))
    bad = [{"zone": "UTC", "now": 1.75e9, "reply": r} for r in ["-", "00" * 10, "00" * 49, "00" * 50, "00" * 57, "00" * 64, "00" * 65, "00" * 66]]
    # arbitrary instants are far from the clock reading, outside the exported zone window: a zone without transitions
    bad += [{"zone": rng.choice(["UTC", "Etc/GMT-14", "Etc/GMT+11"]), "now": 1.75e9, "reply": rng.randbytes(rng.randrange(0, 200)).hex() or "-"}
            for _ in range(ctx.n(300, 3000))]
    ctx.run_cases(LIST, "short-partial-and-random-replies", bad, exhaustive=False, sample_every=150)
    ctx.run_cases(RB, "create-then-list-back", rb, exhaustive=False, sample_every=max(1, len(rb) // 3))
    # the shipped reply
    import os
    p = os.path.join(C.REPO, "tests", "testresources", "dummy_responses", "get_schedules_response.txt")
    if os.path.exists(p):
        ctx.run_cases(LIST, "shipped-reply", [{"zone": z, "now": 1.62e9, "reply": open(p).read().strip()} for z in ("UTC", "Asia/Jerusalem")], exhaustive=True)


def search(ctx, broken):
    rng = ctx.rng
    for zone in ZONES:
        for now in Z.interesting_instants(rng, zone, 60):
            recs = gen_recs(rng, now)
            a = {"zone": zone, "now": now, "recs": recs, "reply": build_reply(recs, rng)}
            for kind, args in ((LIST, a), (RB, {"zone": zone, "now": now, "start": "%02d:%02d" % divmod(rng.randrange(1440), 60),
                                                "stop": "%02d:%02d" % divmod(rng.randrange(1440), 60), "days": sorted(rng.sample(range(7), rng.randrange(0, 8))),
                                                "slot": rng.randrange(8)})):
                o = kind.impl(args)
                js = kind.judge(args, o)
                got = C.run_exe("specjudge", [l for l, _ in js])
                for (l, e), g in zip(js, got):
                    if g != e:
                        return {"kind": kind.name, "args": args, "impl": o, "judge": l, "expected": e, "got": g}
    return None
