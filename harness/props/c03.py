"""C03 — every operation logs in first and binds its commands to that login's session."""
import itertools

import apiharness as H
import common as C
import gens as G
import histharness as HH

RULE = ("histories: every ordered pair of the 15 operation kinds on one connection (exhaustive for length 2), seeded sequences up to "
        "length 20 on one connection, and two API instances with different ids/keys whose exchanges are interleaved under forced "
        "schedules; the fake device issues a fresh random session id on every login and the clock advances between operations; some logins "
        "inside a sequence are not answered or answered short; a device that takes 0.5 s .. 2 min over some replies (virtual loop clock: "
        "every timeout the client arms fires, stale replies stay in the stream); "
        "non-trivial = distinct (sequence of operation kinds per instance, schedule shape)")
ASSUMPTIONS = ["the system-level model is evaluated through theorem `locality` (per-instance sequential runs); that the Python objects "
               "share nothing is exactly what this correspondence tests (bounded)",
               "deterministic scheduler on in-memory streams stands in for varied reply delays; create_schedule is only used in "
               "single-connection histories (it reads the clock a second time after the login reply)"]

T1 = ["getState", "control", "autoshutdown", "setname", "getschedules", "delsched", "createsched"]
T2 = ["stop", "setpos", "getshutter", "getbreeze", "ctlbreeze"]
# the 15 operation kinds of the property: the 12 public methods, with thermostat control in its three frame shapes
KINDS15 = T1 + ["stop", "setpos", "getshutter", "getbreeze", "ctlbreeze:cmd", "ctlbreeze:swing", "ctlbreeze:status"]


def gen_op(rng, kind, now, allow_create=True, faults=False):
    op = kind.split(":")[0]
    if op == "createsched" and not allow_create:
        op = "control"
    req = G.gen_req(rng, op)
    if op == "ctlbreeze":
        shape = kind.split(":")[1] if ":" in kind else rng.choice(["cmd", "swing", "status"])
        ir = G.gen_irset(rng, special=(shape == "swing") or None)
        req = dict(req, ir=ir)
        if shape == "swing":
            req.update(state=None, mode=None, temp=0, fan=None, swing=rng.choice(["ON", "OFF"]), upd=0)
        elif shape == "status":
            req.update(upd=1, state=req["state"] or "ON")
        else:
            req.update(upd=0, state=req["state"] or "ON")
    replies = [G.gen_login(rng, n=rng.choice([12, 48, 82]))]
    if op in ("getState", "getshutter", "getbreeze", "ctlbreeze"):
        replies.append(G.gen_state_reply(rng, op))
    replies += ["%02x" % rng.randrange(1, 256) * rng.randrange(1, 12) for _ in range(3)]
    if faults and rng.random() < 0.2:
        # the device does not answer this login (it closed its sending side), or answers with less than a session id: whatever the
        # client then writes must come from THIS exchange, not from an earlier one on the connection
        replies[0] = rng.choice(["-", "-", replies[0][:2 * rng.randrange(1, 12)]])
    return {"now": now, "req": req, "replies": replies}


def gen_instance(rng, api, kinds, t0, allow_create=True, burst=False, faults=False):
    did, key = G.gen_ids(rng)
    ops, now = [], t0
    for k in kinds:
        # burst: the operations follow each other within the same clock second (a caller that does not wait)
        now += rng.choice([0, 0, 0.125, 0.25]) if burst else rng.choice([1, 2, 5, 60, 3600]) + rng.choice([0.0, 0.25, 0.5])
        # create_schedule reads the clock twice (rounded and truncated): at whole seconds the two agree on the date
        ops.append(gen_op(rng, k, float(int(now)) if k == "createsched" else now, allow_create, faults and len(ops) > 0))
    return {"did": did, "key": key, "api": api, "ops": ops}


def api_of(kind):
    return "type2" if kind.split(":")[0] in T2 else "type1"


def _judge(hist, out):
    lines = []
    parts = HH.split_history_output(hist, out)
    for inst, outs in zip(hist["instances"], parts):
        for op, o in zip(inst["ops"], outs):
            frames = H.frames_of(o)
            login = bytes.fromhex(op["replies"][0]) if op["replies"][0] != "-" else b""
            reading = int(round(float(op["now"])))
            if not frames or not (0 <= reading < 2 ** 32):
                continue
            ts = reading.to_bytes(4, "little").hex()
            lop = "login2" if op["req"]["op"] in H.TYPE2_OPS else "login1"
            lines.append((f"c02 00000000 {ts} {inst['did']} {inst['key']} {C.hx(frames[0])} {lop}", "1"))
            bound = 4 if op["req"]["op"] == "ctlbreeze" else 2
            if len(frames) > bound:
                lines.append(("c02acc login1", f"too-many-frames:{len(frames)}>{bound}"))
            if len(login) >= 12:
                for f in frames[1:]:
                    lines.append((f"c03 {login[8:12].hex()} {ts} {inst['did'].lower()} {C.hx(f)}", "1"))
    return lines


def _shape(hist):
    return tuple(tuple(op["req"]["op"] + (":%d%d" % (op["req"].get("upd", 0), op["req"].get("swing") is not None) if op["req"]["op"] == "ctlbreeze" else "")
                       for op in inst["ops"]) for inst in hist["instances"])


def _shrink(hist):
    insts = hist["instances"]
    if len(insts) > 1:
        for i in range(len(insts)):
            yield dict(hist, instances=insts[:i] + insts[i + 1:], schedule=[])
    for i, inst in enumerate(insts):
        if len(inst["ops"]) > 1:
            for j in range(len(inst["ops"])):
                ni = dict(inst, ops=inst["ops"][:j] + inst["ops"][j + 1:])
                yield dict(hist, instances=insts[:i] + [ni] + insts[i + 1:])


HIST = C.Kind("history", impl=HH.run_history, model=HH.model_lines, assemble=HH.assemble, judge=_judge, compare=H.same("frames"),
              classify=lambda h, o: f"{len(h['instances'])}inst:{sum(len(i['ops']) for i in h['instances'])}ops",
              nontrivial=lambda h, o: (_shape(h), tuple(h.get("schedule", [])[:6])), shrink=_shrink)
KINDS = {"history": HIST}


def _pairs(rng):
    out = []
    for a, b in itertools.product(KINDS15, repeat=2):
        if api_of(a) == api_of(b):
            out.append({"tz": "UTC", "instances": [gen_instance(rng, api_of(a), [a, b], 1_700_000_000 + rng.randrange(10 ** 6))], "schedule": []})
        else:   # different API classes: two connections, second starts after the first
            out.append({"tz": "UTC", "instances": [gen_instance(rng, api_of(a), [a], 1_700_000_000, allow_create=False),
                                                   gen_instance(rng, api_of(b), [b], 1_700_000_500, allow_create=False)],
                        "schedule": [0, 0, 0, 0, 1, 1, 1, 1]})
    return out


def _sequences(rng, n, burst=False, faults=False):
    out = []
    for _ in range(n):
        api = rng.choice(["type1", "type2"])
        pool = [k for k in KINDS15 if api_of(k) == api and not (burst and k == "createsched")]
        kinds = [rng.choice(pool) for _ in range(rng.randrange(3, 21))]
        out.append({"tz": rng.choice(list(H.FIXED_ZONES)), "instances": [gen_instance(rng, api, kinds, rng.randrange(1_600_000_000, 1_900_000_000), burst=burst, faults=faults)], "schedule": []})
    return out


def _pairs_in_one_second(rng):
    return [{"tz": "UTC", "instances": [gen_instance(rng, api_of(a), [a, b], 1_700_000_000 + rng.randrange(10 ** 6), burst=True)], "schedule": []}
            for a, b in itertools.product(KINDS15, repeat=2) if api_of(a) == api_of(b) and "createsched" not in (a, b)]


def _interleaved(rng, n):
    out = []
    for _ in range(n):
        insts = []
        for _i in range(2):
            api = rng.choice(["type1", "type2"])
            pool = [k for k in KINDS15 if api_of(k) == api and k != "createsched"]
            insts.append(gen_instance(rng, api, [rng.choice(pool) for _ in range(rng.randrange(1, 5))], rng.randrange(1_600_000_000, 1_900_000_000),
                                      allow_create=False))
        sched = [rng.randrange(2) for _ in range(rng.randrange(2, 24))]
        out.append({"tz": "UTC", "instances": insts, "schedule": sched})
    return out


def streams(ctx):
    rng = ctx.rng
    ctx.run_cases(HIST, "all-ordered-pairs-of-15-operation-kinds", _pairs(rng), exhaustive=True, sample_every=97)
    ctx.run_cases(HIST, "sequences-up-to-20-on-one-connection", _sequences(rng, ctx.n(120, 3000)), exhaustive=False, sample_every=60)
    ctx.run_cases(HIST, "same-class-pairs-within-one-clock-second", _pairs_in_one_second(rng), exhaustive=True, sample_every=41)
    ctx.run_cases(HIST, "sequences-within-one-clock-second", _sequences(rng, ctx.n(40, 1000), burst=True), exhaustive=False, sample_every=20)
    ctx.run_cases(HIST, "sequences-in-which-some-logins-are-not-answered", _sequences(rng, ctx.n(100, 2000), faults=True), exhaustive=False, sample_every=50)
    # a device that takes its time (up to two minutes of the loop's virtual clock) over some replies: nothing is lost, so nothing changes
    slow = [HH.with_slow_replies(rng, h) for h in _sequences(rng, ctx.n(80, 1500))]
    ctx.run_cases(HIST, "sequences-with-a-device-that-is-slow-to-answer-under-a-virtual-clock", slow, exhaustive=False, sample_every=40)
    ctx.run_cases(HIST, "two-instances-interleaved", _interleaved(rng, ctx.n(250, 7000)), exhaustive=False, sample_every=120)
    # two clients of ONE device (same address, same API class), connected at the same time
    same = [dict(h, same_ip=True) for h in _interleaved(rng, ctx.n(120, 3000)) if h["instances"][0]["api"] == h["instances"][1]["api"]]
    ctx.run_cases(HIST, "two-instances-on-one-address", same, exhaustive=False, sample_every=60)


def search(ctx, broken):
    rng = ctx.rng
    hs = _pairs(rng) + _sequences(rng, 300) + _interleaved(rng, 600)
    for h in hs:
        o = HH.run_history(h)
        js = _judge(h, o)
        got = C.run_exe("specjudge", [l for l, _ in js])
        bad = [(l, e, g) for (l, e), g in zip(js, got) if g != e]
        if bad:
            def still(x):
                oo = HH.run_history(x)
                jj = _judge(x, oo)
                return any(a != b for a, b in zip(C.run_exe("specjudge", [j for j, _ in jj]), [e2 for _, e2 in jj]))
            small = C.shrink_case(HIST, h, still, budget=60)
            o2 = HH.run_history(small)
            jj = _judge(small, o2)
            g2 = C.run_exe("specjudge", [j for j, _ in jj])
            b2 = [(l, e, g) for (l, e), g in zip(jj, g2) if g != e] or bad
            return {"kind": "history", "args": small, "impl": o2, "judge": b2[0][0], "expected": b2[0][1], "got": b2[0][2]}
    return None
