"""C19 — device types, categories, classes and ports are mutually consistent."""
import common as C

RULE = ("exhaustive: all 9 device types x all 4 device classes constructed for real (36; then again in reverse and shuffled orders, since a "
        "guard must not depend on earlier constructions), every type's category ports from "
        "both port tables, the set of model codes; non-trivial = distinct (class, type, accepted) triples and distinct "
        "(type, ports) rows; the constructions, the port rows and the codes are looked at a second time after the library has handled "
        "broadcast traffic and datagrams whose decoding fails half-way")
ASSUMPTIONS = ["the tables the theorems are about are regenerated from the working tree on every run (Gen.Tables, Gen.Guards)",
               "that the class guards behave as their AST reads is checked by constructing all 36 (class, type) pairs"]


def _mk(cls_name, t, v=None):
    """an instance of the class for type t; `v` (a dict) overrides the fields' values, all taken from the fields' own domains"""
    import aioswitcher.device as d
    v = v or {}
    cls = getattr(d, cls_name)
    via = v.get("via")
    if via:     # a class the USER derived from the device class: plain, as a dataclass of its own, or twice removed
        import dataclasses
        sub = type("My" + cls_name, (cls,), {"__doc__": "user subclass"})
        if via == "dataclass-subclass":
            sub = dataclasses.dataclass(sub)
        elif via == "sub-subclass":
            sub = type("MyOther" + cls_name, (sub,), {})
        cls = sub
    base = (t, d.DeviceState[v.get("state", "ON")], v.get("id", "ab1234"), v.get("key", "18"), v.get("ip", "1.2.3.4"),
            v.get("mac", "AA:BB:CC:DD:EE:FF"), v.get("name", "name"))
    if cls_name == "SwitcherPowerPlug":
        return cls(*base, v.get("power", 0), v.get("current", 0.0))
    if cls_name == "SwitcherWaterHeater":
        return cls(*base, v.get("power", 0), v.get("current", 0.0), v.get("remaining", "00:00:00"), v.get("auto", "01:00:00"))
    if cls_name == "SwitcherThermostat":
        return cls(*base, d.ThermostatMode[v.get("mode", "COOL")], v.get("temp", 24.0), v.get("target", 24),
                   d.ThermostatFanLevel[v.get("fan", "LOW")], d.ThermostatSwing[v.get("swing", "OFF")], v.get("remote", "ELEC7001"))
    return cls(*base, v.get("position", 0), d.ShutterDirection[v.get("direction", "SHUTTER_STOP")])


def gen_variant(rng):
    """values for every field of every class, from the whole of each field's domain (boundaries included): a guard looks at the type,
    never at these"""
    import aioswitcher.device as d
    up = rng.random() < 0.3
    return {"state": rng.choice(["ON", "OFF"]), "id": rng.randbytes(3).hex().upper() if up else rng.randbytes(3).hex(),
            "key": ("%02X" if up and rng.random() < 0.7 else "%02x") % rng.randrange(256),
            "ip": ".".join(str(rng.choice([0, 1, 10, 127, 192, 255, rng.randrange(256)])) for _ in range(4)),
            "mac": ":".join("%02X" % rng.choice([0, 255, rng.randrange(256)]) for _ in range(6)),
            "name": rng.choice(["", "a", "Boiler", "\u05d3\u05d5\u05d3", "x" * 32, "\u05d0" * 16]),
            "power": rng.choice([0, 1, 2300, 3520, 65535, rng.randrange(65536)]),
            "current": rng.choice([0.0, 0.1, 10.5, 16.0, 297.9]),
            "remaining": rng.choice(["00:00:00", "00:00:01", "01:00:00", "23:59:59"]),
            "auto": rng.choice(["00:00:00", "01:00:00", "23:59:00", "23:59:59"]),
            "mode": rng.choice([m.name for m in d.ThermostatMode]), "temp": rng.choice([0.0, 0.1, 24.5, 99.9, 6553.5]),
            "target": rng.choice([0, 16, 24, 30, 255, rng.randrange(256)]), "fan": rng.choice([m.name for m in d.ThermostatFanLevel]),
            "swing": rng.choice([m.name for m in d.ThermostatSwing]), "remote": rng.choice(["ELEC7001", "ELEC7022", "", "DLK10"]),
            "position": rng.choice([0, 1, 50, 99, 100, rng.randrange(101)]), "direction": rng.choice([m.name for m in d.ShutterDirection])}


def _impl_construct(a):
    import aioswitcher.device as d
    cls_name, tname = a[0], a[1]
    t = d.DeviceType[tname]
    try:
        o = _mk(cls_name, t, a[2] if len(a) > 2 else None)
        assert o.device_type is t
        return "1"
    except ValueError:
        return "0"


def _judge_construct(a, out):
    import aioswitcher.device as d
    return [(f"c19accept {a[0]} {d.DeviceType[a[1]].category.name} {out}", "1")]


CONSTRUCT = C.Kind("construct", impl=_impl_construct, model=lambda a: f"accepts {a[0]} {a[1]}", judge=_judge_construct,
                   classify=lambda a, o: f"{a[0]}:{'accepted' if o == '1' else 'refused'}", nontrivial=lambda a, o: (a[0], a[1], o))


def _impl_extra(a):
    """the same construction with something more than the documented arguments (one more positional argument, `category=`, a later
    dataclasses.replace): whatever the class makes of it, a type of another category must not come out as an instance"""
    import dataclasses
    import aioswitcher.device as d
    cls_name, tname, how, cat = a
    t = d.DeviceType[tname]
    extra = d.DeviceCategory[cat]
    cls = getattr(d, cls_name)
    try:
        if how == "positional":
            ok = _mk(cls_name, t)       # the documented arguments first, to learn the arity
            fields = [getattr(ok, f.name) for f in dataclasses.fields(ok) if f.init][:len(dataclasses.fields(ok))]
            o = cls(*fields, extra)
        elif how == "keyword":
            base = _mk(cls_name, d.DeviceType[_own_type(cls_name)])
            kw = {f.name: getattr(base, f.name) for f in dataclasses.fields(base) if f.init}
            kw["device_type"] = t
            kw["category"] = extra
            o = cls(**kw)
        else:
            base = _mk(cls_name, d.DeviceType[_own_type(cls_name)])
            o = dataclasses.replace(base, device_type=t, category=extra) if how == "replace+category" else dataclasses.replace(base, device_type=t)
        return "1" if o.device_type is t else "0"
    except Exception:
        return "0"


def _own_type(cls_name):
    return {"SwitcherPowerPlug": "POWER_PLUG", "SwitcherWaterHeater": "V4", "SwitcherThermostat": "BREEZE", "SwitcherShutter": "RUNNER"}[cls_name]


def _judge_extra(a, out):
    import aioswitcher.device as d
    own = {"SwitcherPowerPlug": "POWER_PLUG", "SwitcherWaterHeater": "WATER_HEATER", "SwitcherThermostat": "THERMOSTAT", "SwitcherShutter": "SHUTTER"}[a[0]]
    wrong = d.DeviceType[a[1]].category.name != own
    return [("c06gate -", f"a {a[0]} of type {a[1]} was constructed ({a[2]}, {a[3]})" if (wrong and out == "1") else "0")]


EXTRA = C.Kind("construct-with-more-than-the-documented-arguments", impl=_impl_extra, judge=_judge_extra,
               classify=lambda a, o: f"{a[2]}:{'constructed' if o == '1' else 'refused'}", nontrivial=lambda a, o: (a[0], a[1], a[2], o))


def _impl_handed_out(a):
    """what the bridge's parser hands to the callback for a series of broadcasts (the same device id coming back as a device of
    another family): class name and type name of every object"""
    import bridgeharness as BH
    out = []
    for h in a:                                      # through the parser directly ...
        r = BH.parse_direct(h)
        out.append((r.split(" ")[1] + "/" + r.split(" ")[2]) if r.startswith("device ") else r.split(" ")[0])
    shown = BH.run_bridge_sequence(1, [(0, h) for h in a])      # ... and through a running bridge object
    for d in ([] if shown == "-" else shown.split(" | ")):
        t = d.split(" ")
        out.append(t[1] + "/" + t[2] if len(t) > 2 and t[1].startswith("Switcher") else t[1] if len(t) > 1 else d)
    return " ".join(out)


def _judge_handed_out(a, out):
    import aioswitcher.device as d
    lines = []
    for tok in out.split(" "):
        if "/" in tok:
            cls, tname = tok.split("/")
            lines.append((f"c19accept {cls} {d.DeviceType[tname].category.name} 1", "1"))
    return lines or [("c06gate -", "0")]


HANDED = C.Kind("objects-handed-out-by-the-bridge", impl=_impl_handed_out, judge=_judge_handed_out,
                classify=lambda a, o: f"{len(a)}-broadcasts", nontrivial=lambda a, o: o)


def _handed_out_cases(rng, n):
    import bgen as B
    import props.c05 as c05
    c05._sync_types()
    cases = []
    for _ in range(n):
        did = rng.randbytes(3).hex()
        fams = [rng.choice(["t1", "shutter", "thermo"]) for _ in range(rng.randrange(2, 6))]
        cases.append([x["dgram"] for x in B.encode_all([B.gen_device(rng, f, dev_id=did) for f in fams])])
    return cases


def _impl_ports(tname):
    import aioswitcher.device as d
    from aioswitcher.api import SWITCHER_DEVICE_TO_TCP_PORT
    from aioswitcher.bridge import SWITCHER_DEVICE_TO_UDP_PORT
    t = d.DeviceType[tname]
    try:
        return f"{t.protocol_type} {SWITCHER_DEVICE_TO_UDP_PORT[t.category]} {SWITCHER_DEVICE_TO_TCP_PORT[t.category]}"
    except KeyError:
        return "none"


PORTS = C.Kind("ports", impl=_impl_ports, model=lambda t: f"ports {t}",
               judge=lambda t, o: [("c19ports " + o, "1")] if o != "none" else [("c19ports 0 0 0", "1")],
               classify=lambda t, o: "protocol" + o.split()[0], nontrivial=lambda t, o: (t, o))


def _impl_codes(_):
    import aioswitcher.device as d
    return ",".join(sorted(t.hex_rep for t in d.DeviceType))


CODES = C.Kind("codes", impl=_impl_codes, model=lambda _: "codes", judge=lambda _, o: [("c19codes " + o, "1")],
               classify=lambda a, o: "codes", nontrivial=lambda a, o: o)

KINDS = {"construct": CONSTRUCT, "ports": PORTS, "codes": CODES, "construct-with-more-than-the-documented-arguments": EXTRA,
         "objects-handed-out-by-the-bridge": HANDED}


def _traffic(ctx):
    import bgen as B
    import bridgeharness as BH
    import props.c05 as c05
    import props.c07 as c07
    rng = ctx.rng
    c05._sync_types()
    pool = B.encode_all([B.gen_device(rng, f) for f in ("t1", "t1", "shutter", "shutter", "thermo") for _ in range(3)])
    try:
        wk = BH.default_ports()
        with BH.WellKnownPorts(wait=20.0) as mine:
            if mine and len(wk) == 4 and all(BH.bindable(p) for p in wk):
                for sq in c07.wellknown_sequences(rng, pool, 2):
                    c07._impl(sq)
        for _ in range(3):
            c07._impl(c07.gen_sequence(rng, pool))
    except Exception as e:  # noqa
        ctx.notes.append(f"traffic before the second look could not be produced: {type(e).__name__}")
    # clients of the API classes come and go (they may read the port table for their default port), with every combination of the
    # optional arguments their constructors offer; if one of those can take a device type, with every device type - twice
    try:
        import inspect
        import aioswitcher.api as A
        import aioswitcher.device as dd
        for cls in (A.SwitcherType1Api, A.SwitcherType2Api, A.SwitcherApi):
            params = list(inspect.signature(cls.__init__).parameters.values())[1:]
            required = [p for p in params if p.default is inspect.Parameter.empty]
            optional = [p for p in params if p.default is not inspect.Parameter.empty]
            base = ["127.0.0.1", "a123bc", "18"][:len(required)]
            variants = [{}] + [{p.name: v} for p in optional for v in ([12345] if "port" in p.name else list(dd.DeviceType) + list(dd.DeviceType))]
            for kw in variants:
                try:
                    cls(*base, **kw)
                except Exception:  # noqa
                    pass
    except Exception as e:  # noqa
        ctx.notes.append(f"API clients could not be constructed before the second look: {type(e).__name__}")
    # datagrams that pass the gate and then fail somewhere inside the decoding (unknown direction, undecodable name, unknown enum
    # value), fed last so that whatever they leave behind is still there
    for v in pool:
        b = bytearray.fromhex(v["dgram"])
        for (i, val) in ((137, 0x77), (138, 0x77), (42, 0xff), (140, 0xff), (133, 0x01)):
            if i < len(b):
                c = bytearray(b)
                c[i] = val
                if i == 42:
                    c[43] = 0xfe
                BH.parse_direct(bytes(c).hex())
    # and, last of all, one whose decoding certainly fails after the gate (a shutter with an unknown direction code)
    last = "none"
    for v in pool:
        if v["family"] == "shutter":
            c = bytearray.fromhex(v["dgram"])
            c[137:139] = b"\x77\x77"
            last = BH.parse_direct(bytes(c).hex())
    if not last.startswith("raise"):
        ctx.notes.append("no datagram whose decoding fails half-way could be produced for the second look: " + last[:60])


def streams(ctx):
    import aioswitcher.device as d
    types = [t.name for t in d.DeviceType]
    classes = ["SwitcherPowerPlug", "SwitcherWaterHeater", "SwitcherThermostat", "SwitcherShutter"]
    ctx.run_cases(CONSTRUCT, "all-class-x-type-constructions", [(c, t) for c in classes for t in types], exhaustive=True, sample_every=7)
    # the guards must not depend on what was constructed before: the same 36 pairs again in reverse and in shuffled orders
    pairs = [(c, t) for c in classes for t in types]
    again = list(reversed(pairs))
    for _ in range(ctx.n(20, 300)):
        q = pairs[:]
        ctx.rng.shuffle(q)
        again += q
    ctx.run_cases(CONSTRUCT, "constructions-in-other-orders", again, exhaustive=False, sample_every=97)
    # ... nor on what the other fields hold: the 36 pairs with every other field drawn from the whole of its domain
    varied = [(c, t, gen_variant(ctx.rng)) for _ in range(ctx.n(25, 400)) for c in classes for t in types]
    ctx.run_cases(CONSTRUCT, "constructions-with-the-other-fields-over-their-domains", varied, exhaustive=False, sample_every=211)
    derived = [(c, t, {"via": via}) for via in ("subclass", "dataclass-subclass", "sub-subclass") for c in classes for t in types]
    ctx.run_cases(CONSTRUCT, "constructions-through-classes-the-user-derived", derived, exhaustive=True, sample_every=37)
    cats = [c.name for c in d.DeviceCategory]
    ctx.run_cases(EXTRA, "constructions-with-extra-arguments",
                  [(c, t, how, cat) for c in classes for t in types for how in ("positional", "keyword", "replace", "replace+category") for cat in cats],
                  exhaustive=True, sample_every=97)
    ctx.run_cases(PORTS, "ports-of-every-type", types, exhaustive=True)
    # the tables and guards are facts about the library, not about what it has been doing: look again after it has handled traffic -
    # broadcasts of every family through a bridge on the well-known and on other ports, and datagrams whose decoding fails half-way
    ctx.run_cases(HANDED, "objects-the-bridge-hands-out-for-one-id-under-changing-families", _handed_out_cases(ctx.rng, ctx.n(40, 600)),
                  exhaustive=False, sample_every=13)
    _traffic(ctx)      # last before the second look: what a failed decoding leaves behind must still be there (nothing good parsed after it)
    ctx.run_cases(CONSTRUCT, "constructions-after-traffic", pairs, exhaustive=True, sample_every=13)
    ctx.run_cases(PORTS, "ports-after-traffic", types, exhaustive=True)
    ctx.run_cases(CODES, "model-codes-after-traffic", [1], exhaustive=True)
    ctx.run_cases(CODES, "model-codes", [0], exhaustive=True)


def search(ctx, broken):
    """The domain is finite and was enumerated completely by streams(); re-judge it without the model."""
    import aioswitcher.device as d
    for kind, cases in ((CONSTRUCT, [(c, t.name) for c in ["SwitcherPowerPlug", "SwitcherWaterHeater", "SwitcherThermostat",
                                                           "SwitcherShutter"] for t in d.DeviceType]),
                        (PORTS, [t.name for t in d.DeviceType]), (CODES, [0])):
        for a in cases:
            out = kind.impl(a)
            for line, exp in kind.judge(a, out):
                got = C.run_exe("specjudge", [line])[0]
                if got != exp:
                    return {"kind": kind.name, "args": a, "impl": out, "judge": line, "expected": exp, "got": got}
    return None
