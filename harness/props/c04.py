"""C04 — the signature is the protocol's double CRC-16 for every byte string."""
import binascii
import os

import common as C

RULE = ("inputs: EVERY byte string of length 0..2 (both tiers; the two-byte strings take the CRC through all 65 536 values), every single-bit "
        "flip of the shipped frames, random strings up to 4 KiB, upper/lower/mixed-case spellings, and a malformed stream "
        "(odd length, non-hex, non-ASCII); a case is non-trivial when its byte string is non-empty and distinct "
        "by (CRC value | rejection kind)")
ASSUMPTIONS = ["binascii.crc_hqx/hexlify/unhexlify and struct.pack are modelled (Spec.crc16, Spec.hexlify, "
               "Model.packBE32); their agreement with CPython is validated by this run's correspondence streams"]


def _impl_sign(p: str) -> str:
    from aioswitcher.device.tools import sign_packet_with_crc_key
    try:
        r = sign_packet_with_crc_key(p)
    except Exception as e:  # noqa
        return "raise " + C.exc_name(e)
    return "ok " + C.ut(r)


def _judge_sign(p: str, out: str):
    """Spec: valid hex -> p ++ hex(sigBytes(bytes p)); invalid -> raises."""
    try:
        bs = binascii.unhexlify(p) if p.isascii() else None
    except Exception:
        bs = None
    if bs is None:
        return [("sig zz", "bad-arg")] if out.startswith("raise") else [("sig -", "must-raise")]
    if not out.startswith("ok "):
        return [("sig " + C.hx(bs), "impl-raised")]
    r = C.un_ut(out[3:])
    if r[:len(p)] != p or len(r) != len(p) + 8:
        return [("sig " + C.hx(bs), "not-a-4-byte-extension-of-p")]
    return [("sig " + C.hx(bs), r[len(p):].lower())]


def _classify(p, out):
    if out.startswith("raise"):
        return "rejected:" + ("odd" if len(p) % 2 else "nonhex")
    n = len(p) // 2
    return "len" + ("0" if n == 0 else "1" if n == 1 else "2" if n == 2 else "3-63" if n < 64 else "64-511" if n < 512 else "512+")


def _nontrivial(p, out):
    if out.startswith("raise"):
        return ("rej", len(p) % 2, len(p) > 8)
    return None if len(p) == 0 else out[-12:]


def _shrink(p):
    for k in (len(p) // 2, 8, 2):
        if k and len(p) > k:
            yield p[:-k]
            yield p[k:]


SIGN = C.Kind("sign", impl=_impl_sign, model=lambda p: "sign " + C.ut(p), judge=_judge_sign,
              classify=_classify, nontrivial=_nontrivial, shrink=_shrink)


class _Shouting(str):
    """a str whose renderings differ from its characters"""
    def __str__(self):
        return "<packet>"

    def __format__(self, spec):
        return "<packet>"

    def __repr__(self):
        return "<packet>"


class _Plain(str):
    pass


def _impl_kw(p):
    from aioswitcher.device.tools import sign_packet_with_crc_key
    import functools
    try:
        r = functools.partial(sign_packet_with_crc_key, hex_packet=p)() if len(p) % 4 else sign_packet_with_crc_key(hex_packet=p)
    except Exception as e:  # noqa
        return "raise " + C.exc_name(e)
    return "ok " + C.ut(r)


SIGNKW = C.Kind("sign-by-keyword", impl=_impl_kw, model=lambda p: "sign " + C.ut(p), judge=_judge_sign, classify=_classify, nontrivial=_nontrivial,
                shrink=_shrink)


def _impl_substr(a):
    import enum
    kind, text = a
    if kind == "shouting":
        p = _Shouting(text)
    elif kind == "plain-subclass":
        p = _Plain(text)
    else:
        try:
            p = enum.Enum("Packet", {"FRAME": text}, type=str).FRAME      # class Packet(str, Enum): FRAME = text
        except Exception:  # noqa
            p = _Plain(text)
    return _impl_sign(p)


SUBSTR = C.Kind("sign-str-subclass", impl=_impl_substr, model=lambda a: "sign " + C.ut(a[1]), judge=lambda a, o: _judge_sign(a[1], o),
                classify=lambda a, o: a[0] + ":" + o.split(" ")[0], nontrivial=lambda a, o: (a[0], a[1][:16], o[:5]))


def _impl_threads(a):
    """the batch signed by four threads at once (switch interval at its minimum): every result is what a single thread gets"""
    import sys
    from concurrent.futures import ThreadPoolExecutor
    alone = [_impl_sign(p) for p in a]
    old = sys.getswitchinterval()
    sys.setswitchinterval(1e-6)
    try:
        with ThreadPoolExecutor(4) as ex:
            runs = [list(ex.map(_impl_sign, a)) for _ in range(3)]
    finally:
        sys.setswitchinterval(old)
    bad = sum(1 for r in runs for x, y in zip(alone, r) if x != y)
    return f"{bad}-of-{3 * len(a)}-differ-from-the-single-threaded-result"


THREADS = C.Kind("sign-from-four-threads", impl=_impl_threads,
                 judge=lambda a, o: [("c06gate -", "0" if o.startswith("0-of-") else o)],
                 classify=lambda a, o: "threads", nontrivial=lambda a, o: len(a))


THREADS.debug_rerun = False      # (the batches are large; the log level is exercised by the other streams)


def _impl_crc(a):
    return str(binascii.crc_hqx(bytes.fromhex(a[1]), a[0]))


CRC = C.Kind("crc_hqx", impl=_impl_crc, judge=lambda a, out: [(f"crc {a[0]} {C.hx(bytes.fromhex(a[1]))}", out)],
             classify=lambda a, o: "crc", nontrivial=lambda a, o: (a[0], o))

KINDS = {"sign-by-keyword": SIGNKW, "sign": SIGN, "crc_hqx": CRC, "sign-str-subclass": SUBSTR, "sign-from-four-threads": THREADS}


def shipped_frames():
    import re
    out = []
    d = os.path.join(C.REPO, "tests", "testresources")
    for root, _, fs in os.walk(d):
        for f in sorted(fs):
            if f.endswith(".txt"):
                t = open(os.path.join(root, f)).read().strip()
                if re.fullmatch(r"[0-9a-fA-F]+", t) and len(t) % 2 == 0:
                    out.append(t.lower())
    return out


def streams(ctx: C.Ctx):
    rng = ctx.rng
    # exhaustive short strings
    short = [""] + ["%02x" % b for b in range(256)]
    # every string of 0..2 bytes, in both tiers: the 65 536 two-byte strings take the first CRC through EVERY 16-bit value exactly
    # once (CRC-16 of two bytes is a bijection), hence also every reachable value of the second one — a defect confined to one
    # CRC value (a table one slot short, a zero byte stripped) cannot hide from a sample
    ctx.run_cases(SIGN, "short-0..2-exhaustive", short + ["%04x" % v for v in range(65536)], exhaustive=True, sample_every=9973)
    # bit flips of shipped frames
    frames = shipped_frames()
    flips = []
    for fr in frames:
        b = bytearray.fromhex(fr)
        pos = range(len(b) * 8) if not ctx.quick else rng.sample(range(len(b) * 8), min(200, len(b) * 8))
        for i in pos:
            c = bytearray(b)
            c[i // 8] ^= 1 << (i % 8)
            flips.append(c.hex())
    ctx.run_cases(SIGN, "bitflips-of-shipped-frames", frames + flips, exhaustive=False)
    # random up to 4 KiB, case spellings
    rnd = []
    for _ in range(ctx.n(600, 6000)):
        n = rng.choice([rng.randrange(3, 64), rng.randrange(64, 512), rng.randrange(512, 4097)])
        h = rng.randbytes(n).hex()
        c = rng.random()
        rnd.append(h.upper() if c < 0.25 else "".join(ch.upper() if rng.random() < .5 else ch for ch in h) if c < 0.5 else h)
    ctx.run_cases(SIGN, "random-upto-4KiB-mixed-case", rnd, exhaustive=False)
    # "every byte string" has no upper end: a few long ones, around the sizes where a 16-bit length would give out
    longs = [rng.randbytes(n).hex() for n in (16380, 32765, 32766, 32768, 65531, 65532, 65536, 100003)]
    ctx.run_cases(SIGN, "long-packets-16KiB-to-100KiB", longs, exhaustive=False, sample_every=3)
    # the same bytes in another spelling, one call after the other: the result extends THIS spelling, whatever was signed before
    again = []
    for h in [x for x in rnd[:ctx.n(150, 1500)]] + frames[:20] + ["aabb", "00ff10", "deadbeef" * 4]:
        lo = h.lower()
        again += [lo, lo.upper(), "".join(c.upper() if i % 3 == 0 else c for i, c in enumerate(lo)), lo]
    ctx.run_cases(SIGN, "same-bytes-respelled-one-after-the-other", again, exhaustive=False, sample_every=max(1, len(again) // 2))
    # what was signed is a packet like any other: signing it again appends four more bytes (and once more)
    resign = []
    for h in frames[:30] + [x.lower() for x in rnd[:ctx.n(150, 1500)]] + ["", "00", "aabb", "30" * 40]:
        o = _impl_sign(h)
        if o.startswith("ok "):
            once = C.un_ut(o[3:])
            resign.append(once)
            o2 = _impl_sign(once)
            if o2.startswith("ok "):
                resign.append(C.un_ut(o2[3:]))
    ctx.run_cases(SIGN, "signing-what-is-already-signed", resign, exhaustive=False, sample_every=max(1, len(resign) // 2))
    # malformed
    bad = ["fe f0 31", "aabb  ", "  ", "aa bb ", " aabb ", "aa\tbb\t", "aabb\n\n", "\n\naabb", "aa  bb", "    ", "aabb \n",
           "just a regular string", "0", "abc", "zz", "0g", " 00", "00 ", "0x00", "é0", "٠٠", "00\n", "+1", "f" * 4097]
    for _ in range(ctx.n(300, 3000)):
        h = list(rng.randbytes(rng.randrange(0, 20)).hex())
        k = rng.random()
        if k < .4 and h:
            h[rng.randrange(len(h))] = rng.choice("ghxyzGXZ _-\téא１")
        elif k < .7:
            h.append(rng.choice("0123456789abcdef"))
        elif k < .85:
            h.insert(rng.randrange(len(h) + 1), rng.choice("gG: ."))
        else:       # blanks exactly where a tolerant parser would skip them: between two byte pairs, in pairs (the length stays even)
            at = 2 * rng.randrange(len(h) // 2 + 1)
            h[at:at] = list(rng.choice(["  ", " \t", "\n\n", "    ", "\r\n"]))
        bad.append("".join(h))
    ctx.run_cases(SIGN, "malformed", bad, exhaustive=False)
    # refused once is refused every time: the same malformed texts again (twice), now interleaved with valid packets
    mixed = []
    for i, b in enumerate(bad):
        mixed += [b, rnd[i % len(rnd)].lower()[:64] if i % 3 == 0 else b]
    ctx.run_cases(SIGN, "malformed-texts-asked-again", mixed + bad, exhaustive=False, sample_every=max(1, len(mixed) // 2))
    ctx.run_cases(SIGNKW, "packet-passed-by-keyword-or-bound-by-partial", rnd[:ctx.n(300, 3000)] + bad[:200] + ["", "00", "aabb"], exhaustive=False,
                  sample_every=211)
    ctx.run_cases(THREADS, "batches-signed-by-four-threads-at-once", [[rng.randbytes(rng.randrange(1, 120)).hex() for _ in range(ctx.n(4000, 20000))]
                                                                       for _ in range(ctx.n(3, 10))], exhaustive=False)
    # the packet handed over as an instance of a str SUBCLASS (an enum member with str mixed in, a str whose __str__/__format__/
    # __repr__ say something else): the text that is signed and returned is the string's own characters
    odd = []
    for h in frames[:10] + [x for x in rnd[:ctx.n(60, 600)]] + ["", "00", "aabb", "zz", "0"]:
        odd += [("shouting", h), ("enum", h), ("plain-subclass", h)]
    ctx.run_cases(SUBSTR, "packet-given-as-a-str-subclass", odd, exhaustive=False, sample_every=max(1, len(odd) // 2))
    # crc_hqx itself against the bit-serial Spec
    crcs = [(0x1021, "%02x" % b) for b in range(256)] + [(rng.randrange(65536), rng.randbytes(rng.randrange(0, 40)).hex())
                                                         for _ in range(ctx.n(1500, 20000))]
    ctx.run_cases(CRC, "crc_hqx-vs-bitserial", crcs, exhaustive=False)


def search(ctx: C.Ctx, broken):
    """Failing-input search: implementation vs Spec (`sig`), on the regions this code is fragile in."""
    rng = ctx.rng
    cands = [""] + ["%02x" % b for b in range(256)] + ["%04x" % v for v in range(0, 65536, 7)]
    cands += shipped_frames()
    cands += [rng.randbytes(rng.randrange(1, 300)).hex() for _ in range(3000)]
    cands += [c.upper() for c in cands[:400]] + ["0", "zz", "0g", "abc"]
    outs = [_impl_sign(p) for p in cands]
    jl = [(_judge_sign(p, o)[0]) for p, o in zip(cands, outs)]
    got = C.run_exe("specjudge", [l for l, _ in jl])
    for p, o, (l, e), g in zip(cands, outs, jl, got):
        if g != e:
            small = C.shrink_case(SIGN, p, lambda q: C.run_exe("specjudge", [_judge_sign(q, _impl_sign(q))[0][0]])[0]
                                  != _judge_sign(q, _impl_sign(q))[0][1])
            o2 = _impl_sign(small)
            l2, e2 = _judge_sign(small, o2)[0]
            return {"kind": "sign", "args": small, "impl": o2, "judge": l2, "expected": e2,
                    "got": C.run_exe("specjudge", [l2])[0]}
    return None
