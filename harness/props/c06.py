"""C06 — only genuine Switcher broadcasts are accepted; anything else is ignored quietly."""
import bgen as B
import bridgeharness as BH
import common as C
import props.c05 as c05

RULE = ("byte strings: every length 0..400 with and without the magic and with random content, the shipped captures truncated / "
        "extended by 1..3 bytes, and two-byte model codes inside otherwise valid frames of each of the three shapes and both states "
        "(quick: a seeded sample + every known code +-1; thorough: all 65,536 codes x 3 shapes); Spec gate (c06gate) decides what "
        "must happen: not a broadcast -> 'ignored' (no device, no warning, no exception); broadcast with unknown code -> 'warn'; "
        "non-trivial = distinct (length class, magic?, outcome)")
ASSUMPTIONS = ["warnings observed with warnings.catch_warnings(record=True); exceptions observed as raised from "
               "_parse_device_from_datagram (inside a running bridge they reach the loop's exception handler: C07)"]


def _known_codes():
    import aioswitcher.device as d
    return {t.hex_rep for t in d.DeviceType}


def _judge(h, out):
    data = bytes.fromhex(h) if h != "-" else b""
    code = data[74:76].hex()
    known = code in _known_codes()
    lines = [(f"c06gate {h}", "1" if out != "ignored" else "0")] if not known or out == "ignored" else []
    # the Spec gate says whether it is a broadcast; if it is and the code is unknown the outcome must be 'warn'
    if not known and out not in ("ignored", "warn"):
        lines.append((f"c06gate {h}", "outcome-must-be-ignored-or-warn: " + out.split(" u:")[0][:60]))
    if known and out == "ignored":
        pass
    return lines


def _cls(h, out):
    n = 0 if h == "-" else len(h) // 2
    magic = h.startswith("fef0")
    lc = "159" if n == 159 else "165" if n == 165 else "168" if n == 168 else "0" if n == 0 else "<159" if n < 159 else "other"
    return f"len{lc}:magic{int(magic)}:{out.split()[0]}"


def _same_fate(m, i):
    """C06 is about what BECOMES of a datagram (ignored / warned about / an exception / a device), not about the fields of the device
    decoded from a genuine one (C05)"""
    return m == i if (m.startswith("raise") or i.startswith("raise")) else m.split(" ", 1)[0] == i.split(" ", 1)[0]


GATE = C.Kind("datagram", impl=BH.parse_direct, model=lambda h: "dgram " + h, judge=_judge, classify=_cls, compare=_same_fate,
              nontrivial=lambda h, o: (_cls(h, o), h[:8], h[148:152]))
def _fate_only(out):
    return out.split(" ", 1)[0]


GATE_VIA = C.Kind("datagram-arriving-at-a-running-bridge", impl=lambda h: BH.bridge_fate(h), model=lambda h: "dgram " + h,
                  judge=lambda h, o: _judge(h, o if not o.startswith("raise") else "raise " + o[6:]), classify=_cls,
                  compare=lambda m, i: _fate_only(m) == _fate_only(i) or (m.startswith("raise") and i.startswith("raise")),
                  nontrivial=lambda h, o: (_cls(h, o), h[:8], h[148:152]))
GATE_VIA.debug_rerun = False
GATE_BUF = C.Kind("datagram-in-a-reused-buffer", impl=lambda h: BH.parse_direct(h, "buffer"), model=lambda h: "dgram " + h, judge=_judge,
                  classify=_cls, compare=_same_fate, nontrivial=lambda h, o: (_cls(h, o), h[:8], h[148:152]))
GATE_DBG = C.Kind("datagram-with-debug-logging", impl=lambda h: BH.parse_direct(h, "debug"), model=lambda h: "dgram " + h, judge=_judge,
                  classify=_cls, compare=_same_fate, nontrivial=lambda h, o: (_cls(h, o), h[:8], h[148:152]))
def _impl_kept(a):
    """ONE DatagramParser object kept over a receive buffer that is refilled: the gate is asked about what is in the buffer now"""
    from aioswitcher.bridge import DatagramParser
    buf = bytearray(bytes.fromhex(a[0]) if a[0] != "-" else b"")
    try:
        p = DatagramParser(buf)
        r1 = p.is_switcher_originator()
        buf[:] = bytes.fromhex(a[1]) if a[1] != "-" else b""
        r2 = p.is_switcher_originator()
        return f"{int(bool(r1))} {int(bool(r2))}"
    except Exception as e:  # noqa
        return "raise " + C.exc_name(e)


KEPT = C.Kind("gate-of-a-parser-kept-over-a-refilled-buffer", impl=_impl_kept,
              judge=lambda a, o: [(f"c06gate {a[0]}", o.split(" ")[0]), (f"c06gate {a[1]}", o.split(" ")[-1])],
              classify=lambda a, o: o, nontrivial=lambda a, o: (o, a[0][:6], a[1][:6], len(a[0]), len(a[1])))
KINDS = {"datagram-arriving-at-a-running-bridge": GATE_VIA, "gate-of-a-parser-kept-over-a-refilled-buffer": KEPT, "datagram": GATE, "datagram-in-a-reused-buffer": GATE_BUF, "datagram-with-debug-logging": GATE_DBG}


def _lengths(rng):
    out = ["-"]
    for n in range(1, 401):
        body = rng.randbytes(n)
        out.append(body.hex())
        if n >= 2:
            out.append((b"\xfe\xf0" + body[2:]).hex())
        out.append((b"\xfe\xf0" + bytes(n - 2)).hex() if n >= 2 else "fe")
        if n >= 4:      # a header that is consistent with the datagram's own length is still not a broadcast unless the length is one of the three
            out.append((b"\xfe\xf0" + n.to_bytes(2, "little") + body[4:]).hex())
            out.append((b"\xfe\xf0" + n.to_bytes(2, "little") + bytes(n - 4)).hex())
    for n in (158, 160, 161, 164, 166, 167, 169, 170):       # next to the three lengths, ending in bytes that text matching treats specially
        for last in (0x0a, 0x0d, 0x00, 0x20, 0xff):
            out.append((b"\xfe\xf0" + rng.randbytes(n - 3) + bytes([last])).hex())
            out.append((b"\xfe\xf0" + bytes(n - 3) + bytes([last])).hex())
    for n in (159, 165, 168):
        for first in (b"\xfe\xf1", b"\xff\xf0", b"\xf0\xfe", b"\xfe\x0f", b"\x00\x00"):
            out.append((first + rng.randbytes(n - 2)).hex())
    return out


def _around_captures():
    import base64
    out = []
    for c in c05.captures():
        b = bytes.fromhex(c["dgram"])
        for k in (1, 2, 3):
            out += [b[:-k].hex(), (b + bytes(k)).hex(), b[k:].hex()]
            # one to three bytes too long is too long whatever the extra bytes are (line ends, blanks, NULs, 0xff - the bytes that
            # text-minded matching treats specially)
            for tail in (0x0a, 0x0d, 0x20, 0xff, 0x09):
                out.append((b + bytes([tail]) * k).hex())
        out += [(b + b"\r\n").hex(), (b[:-1] + b"\n").hex(), (b"\n" + b).hex()]
        # a genuine broadcast in some other guise is not a broadcast: its hex dump as text (lower, upper, with a newline), base64,
        # sent twice in one datagram, reversed, with a text prefix
        t = b.hex()
        for other in (t.encode(), t.upper().encode(), (t + "\n").encode(), (" " + t).encode(), base64.b64encode(b), b + b, b[::-1],
                      b"broadcast:" + b, b[:2] + b):
            out.append(other.hex())
    return out


def _codes(rng, codes):
    c05._sync_types()
    out = []
    fams = {"t1": 165, "shutter": 159, "thermo": 168}
    base = {f: [bytes.fromhex(x["dgram"]) for x in B.encode_all([B.gen_device(rng, f) for _ in range(4)])] for f in fams}
    for code in codes:
        for f in fams:
            b = bytearray(rng.choice(base[f]))
            b[74:76] = code.to_bytes(2, "big")
            b[133] = rng.randrange(2)          # device state byte: ON and OFF
            if rng.random() < 0.3:
                b[137] = rng.randrange(2)
            out.append(bytes(b).hex())
    return out


def streams(ctx):
    rng = ctx.rng
    ctx.run_cases(GATE, "every-length-0..400", _lengths(rng), exhaustive=False, sample_every=397)
    ctx.run_cases(GATE, "captures-truncated-or-extended", _around_captures(), exhaustive=True, sample_every=31)
    # the same kinds of datagram arriving in ONE receive buffer that is refilled every time (genuine and foreign ones alternating),
    # and with the library logging at DEBUG (unknown models with undecodable names included)
    alt = []
    gen = _codes(rng, [rng.randrange(65536) for _ in range(ctx.n(60, 600))] + [int(c, 16) for c in _known_codes()])
    for i, h in enumerate(gen):
        alt += [h, rng.choice([rng.randbytes(len(h) // 2).hex(), (b"\xfe\xf1" + rng.randbytes(len(h) // 2 - 2)).hex(), h[:-2], "-"])]
    # the same kinds of datagram ARRIVING at a running bridge on loopback (what the bridge adds around the parser is part of the gate)
    ctx.run_cases(GATE_VIA, "datagrams-arriving-at-a-running-bridge", alt[:ctx.n(60, 600)] + _codes(rng, [0x9999, 0x0000, 0xffff]), exhaustive=False,
                  sample_every=23)
    ctx.run_cases(GATE_BUF, "datagrams-in-one-reused-receive-buffer", alt, exhaustive=False, sample_every=97)
    ctx.run_cases(KEPT, "one-parser-object-over-a-refilled-buffer", [(alt[i], alt[i + 1]) for i in range(0, len(alt) - 1)], exhaustive=False,
                  sample_every=97)
    dbg = list(gen)
    for h in gen[:ctx.n(120, 1200)]:
        b = bytearray.fromhex(h)
        b[42:46] = b"\xff\xfe\xc3\x28"          # a name that is not UTF-8
        dbg.append(bytes(b).hex())
        b[74:76] = rng.randbytes(2)                # ... under an arbitrary (mostly unknown) model code
        dbg.append(bytes(b).hex())
    ctx.run_cases(GATE_DBG, "datagrams-while-the-library-logs-at-debug-level", dbg + _around_captures(), exhaustive=False, sample_every=97)
    known = sorted(int(c, 16) for c in _known_codes())
    if ctx.quick:
        codes = sorted(set([k + d for k in known for d in (-1, 0, 1)] + [0, 1, 0xffff, 0x9999] + [rng.randrange(65536) for _ in range(900)]))
        ctx.run_cases(GATE, "model-codes-sample", _codes(rng, [c for c in codes if 0 <= c < 65536]), exhaustive=False, sample_every=701)
    else:
        for lo in range(0, 65536, 8192):
            ctx.run_cases(GATE, "all-65536-model-codes", _codes(rng, range(lo, lo + 8192)), exhaustive=True, sample_every=20011)


def search(ctx, broken):
    rng = ctx.rng
    cases = _lengths(rng) + _around_captures() + _codes(rng, [rng.randrange(65536) for _ in range(3000)] + [0x9999])
    outs = [BH.parse_direct(h) for h in cases]
    flat = [(h, o, l, e) for h, o in zip(cases, outs) for (l, e) in _judge(h, o)]
    got = C.run_exe("specjudge", [l for _, _, l, _ in flat])
    for (h, o, l, e), g in zip(flat, got):
        if g != e:
            return {"kind": "datagram", "args": h, "impl": o, "judge": l, "expected": e, "got": g}
    return None
