"""C12 — weekday sets and their one-byte mask are a bijection."""
import itertools

import common as C

RULE = ("exhaustive: all 127 non-empty subsets in each accepted input form (set, frozenset, list, tuple, and single members), "
        "the empty collection in each form, all sequences of length <= 3 over the 7 days (with and without duplicates), "
        "all integer masks -2..300; non-trivial = distinct (form, day multiset) / distinct mask")
ASSUMPTIONS = ["Python's `len(x) == len(set(x))` is modelled as 'x has no duplicates'; `set`/`frozenset` arguments are "
               "duplicate-free by construction"]


def _days():
    from aioswitcher.schedule import Days
    return list(Days)


def _csv(l):
    return ",".join(map(str, l)) if l else "-"


def _impl_enc(a):
    from aioswitcher.schedule.tools import weekdays_to_hexadecimal
    form, idx = a[0], a[1]
    D = _days()
    ms = [D[i] for i in idx]
    arg = {"single": lambda: ms[0], "set": lambda: set(ms), "frozenset": lambda: frozenset(ms), "list": lambda: list(ms),
           "tuple": lambda: tuple(ms)}[form]()
    try:
        return "ok " + (weekdays_to_hexadecimal(days=arg) if len(a) > 2 and a[2] == "keyword" else weekdays_to_hexadecimal(arg))
    except Exception as e:
        return "raise " + C.exc_name(e)


def _obs(out):
    return "raise" if out.startswith("raise") else out[3:]


ENC = C.Kind("weekdays_to_hexadecimal", impl=_impl_enc,
             model=lambda a: f"w2h {'set' if a[0] == 'set' else 'single' if a[0] == 'single' else 'seq'} {_csv(a[1])}",
             judge=lambda a, o: [(f"c12enc {'set' if a[0] in ('set',) else a[0]} {_csv(a[1])} {_obs(o)}", "1")],
             classify=lambda a, o: f"{a[0]}:{'raise' if o.startswith('raise') else 'len%d' % len(a[1])}",
             nontrivial=lambda a, o: (a[0], tuple(sorted(a[1]))) if a[1] else None)


def _impl_dec(n):
    from aioswitcher.schedule.tools import bit_summary_to_days
    D = _days()
    try:
        r = bit_summary_to_days(sum_weekdays_bit=n) if (n % 3 == 0) else bit_summary_to_days(n)      # every third mask by keyword
        assert isinstance(r, set)
        shown = "ok " + _csv(sorted(D.index(d) for d in r))
        # the caller owns the set it was given: whatever it does with it must not show in a later answer
        r.discard(next(iter(r), None))
        r.add(D[(n // 2) % 7])
        return shown
    except Exception as e:
        return "raise " + C.exc_name(e)


DEC = C.Kind("bit_summary_to_days", impl=_impl_dec, model=lambda n: f"bs2d {n}",
             judge=lambda n, o: [(f"c12dec {n} {_obs(o)}", "1")],
             classify=lambda n, o: "raise" if o.startswith("raise") else "even" if n % 2 == 0 else "odd",
             nontrivial=lambda n, o: n)


def _impl_rt(idx):
    """round trip through the real functions: set -> mask -> set"""
    from aioswitcher.schedule.tools import bit_summary_to_days, weekdays_to_hexadecimal
    D = _days()
    s = {D[i] for i in idx}
    h = weekdays_to_hexadecimal(s)
    back = bit_summary_to_days(int(h, 16))
    return f"{h} {'same' if back == s else 'DIFFERENT'} {len(h)}"


RT = C.Kind("roundtrip", impl=_impl_rt,
            judge=lambda idx, o: [(f"c12enc set {_csv(idx)} {o.split()[0]}", "1"), (f"c12dec {int(o.split()[0], 16)} {_csv(sorted(idx))}", "1")],
            classify=lambda a, o: o.split()[1], nontrivial=lambda a, o: tuple(a))

KINDS = {"weekdays_to_hexadecimal": ENC, "bit_summary_to_days": DEC, "roundtrip": RT}


def _all_cases():
    subsets = [list(c) for r in range(1, 8) for c in itertools.combinations(range(7), r)]
    enc = []
    for form in ("set", "frozenset", "list", "tuple"):
        enc += [(form, s) for s in subsets] + [(form, [])]
        enc += [(form, list(reversed(s))) for s in subsets if len(s) > 1 and form in ("list", "tuple")]
    enc += [("single", [d]) for d in range(7)]
    seqs = [list(p) for r in range(1, 4) for p in itertools.product(range(7), repeat=r)]
    enc += [("list", s) for s in seqs] + [("tuple", s) for s in seqs]
    return subsets, enc


def _with_repeats(rng, subsets, per):
    """every subset as a list / tuple in which one to seven members occur again, in a shuffled order (lengths up to 14): a repeated
    member is refused however much of the week the sequence covers"""
    out = []
    for sub in subsets:
        for _ in range(per):
            seq = list(sub) + [rng.choice(sub) for _ in range(rng.choice([1, 1, 2, 3, 7]))]
            rng.shuffle(seq)
            out.append((rng.choice(["list", "tuple"]), seq))
    return out


def streams(ctx):
    subsets, enc = _all_cases()
    ctx.run_cases(ENC, "encode-all-forms-exhaustive", enc, exhaustive=True, sample_every=397)
    ctx.run_cases(ENC, "single-days-on-their-own", [("single", [d]) for d in range(7)] + [("single", [d], "keyword") for d in range(7)], exhaustive=True)
    ctx.run_cases(ENC, "argument-passed-by-keyword", [(f, i, "keyword") for (f, i) in enc], exhaustive=True, sample_every=397)
    ctx.run_cases(ENC, "sequences-of-any-length-with-repeated-members", _with_repeats(ctx.rng, subsets, ctx.n(3, 40)), exhaustive=False, sample_every=97)
    ctx.run_cases(DEC, "decode-all-masks-exhaustive", list(range(-2, 301)), exhaustive=True, sample_every=97)
    ctx.run_cases(RT, "roundtrip-127-subsets", subsets, exhaustive=True, sample_every=41)
    # every mask again, after the sets returned the first time have been modified by their caller; and the encodings again, in another
    # order, after everything above (an answer must not depend on what was asked before)
    ctx.run_cases(DEC, "decode-all-masks-again-after-the-caller-changed-the-returned-sets", list(range(300, -3, -1)), exhaustive=True, sample_every=97)
    ctx.run_cases(ENC, "encode-all-forms-again-in-reverse-order", list(reversed(enc)), exhaustive=True, sample_every=397)


def search(ctx, broken):
    subsets, enc = _all_cases()
    for kind, cases in ((ENC, enc), (DEC, list(range(-300, 600))), (RT, subsets)):
        for a in cases:
            try:
                out = kind.impl(a)
            except Exception as e:
                out = "raise " + C.exc_name(e)
            js = kind.judge(a, out)
            got = C.run_exe("specjudge", [l for l, _ in js])
            for (line, exp), g in zip(js, got):
                if g != exp:
                    return {"kind": kind.name, "args": a, "impl": out, "judge": line, "expected": exp, "got": g}
    return None
