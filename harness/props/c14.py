"""C14 — a schedule's duration is (end - start) modulo 24 hours."""
import common as C

RULE = ("pairs (start, end) of minutes of the day: a boundary grid (0,1,59,60,61,719,720,721,1379,1380,1438,1439 and neighbours) "
        "squared plus seeded random pairs (quick), all 1440 x 1440 pairs (thorough); plus unpadded spellings and a malformed "
        "stream for the strptime model; plus the same function on hosts in 11 zones on the days their clocks change (and other dates): "
        "the result must not depend on zone or date; non-trivial = distinct (start, end) with start != 0 or end != 0")
ASSUMPTIONS = ["datetime.strptime('%H:%M') and str(timedelta) are modelled (Model.parseHM, Model.strTimedelta) for ASCII text; "
               "validated by this correspondence (complete over canonical HH:MM pairs in the thorough tier)"]


def _fmt(m):
    return "%02d:%02d" % divmod(m, 60)


def _impl_pair(a):
    from aioswitcher.schedule.tools import calc_duration
    try:
        return "ok " + C.ut(C.call_in_form(calc_duration, ("start_time", "end_time"), (_fmt(a[0]), _fmt(a[1])), a[2] if len(a) > 2 else "positional"))
    except Exception as e:
        return "raise " + C.exc_name(e)


PAIR = C.Kind("calc_duration", impl=_impl_pair, model=lambda a: f"calcdur {C.ut(_fmt(a[0]))} {C.ut(_fmt(a[1]))}",
              judge=lambda a, o: [(f"c14 {a[0]} {a[1]} {o[3:] if o.startswith('ok ') else 'u:-'}", "1")],
              classify=lambda a, o: "equal" if a[0] == a[1] else "wraps" if a[1] < a[0] else "same-day",
              nontrivial=lambda a, o: tuple(a) if tuple(a[:2]) != (0, 0) else None,
              shrink=lambda a: [x + tuple(a[2:]) for x in ((a[0] // 2, a[1]), (a[0], a[1] // 2), (a[0] - 1, a[1]), (a[0], a[1] - 1))] if min(a[:2]) > 0 else [])


def _impl_text(a):
    from aioswitcher.schedule.tools import calc_duration
    try:
        return "ok " + C.ut(calc_duration(a[0], a[1]))
    except Exception as e:
        return "raise " + C.exc_name(e)


TEXT = C.Kind("calc_duration_text", impl=_impl_text, model=lambda a: f"calcdur {C.ut(a[0])} {C.ut(a[1])}",
              classify=lambda a, o: "raise" if o.startswith("raise") else "accepted",
              nontrivial=lambda a, o: tuple(a))



def _impl_zoned(a):
    """the same function on a host in another zone, on another date: the result must not depend on either"""
    import zoneharness as Z
    return Z.under(a[0], a[1], lambda: _impl_pair((a[2], a[3])))


ZONED = C.Kind("calc_duration_zoned", impl=_impl_zoned, model=lambda a: f"calcdur {C.ut(_fmt(a[2]))} {C.ut(_fmt(a[3]))}",
               judge=lambda a, o: [(f"c14 {a[2]} {a[3]} {o[3:] if o.startswith('ok ') else 'u:-'}", "1")],
               classify=lambda a, o: a[0], nontrivial=lambda a, o: (a[0], int(a[1] // 86400), a[2], a[3]),
               shrink=lambda a: [(a[0], a[1], a[2] // 2, a[3]), (a[0], a[1], a[2], a[3] // 2)] if min(a[2], a[3]) > 0 else [])

import props.c10 as _c10  # noqa: E402  (the duration a LISTED schedule reports goes through the same rule)



def _durations_only(out):
    """of a listed-schedules observation, what C14 is about: per record its id, start, end and the duration reported"""
    if not out.startswith("ok ") or out[3:] == "-":
        return out.split(" ", 1)[0]
    rows = []
    for row in out[3:].split(";"):
        sid, _rec, _days, start, stop, dur, _disp = _c10._fields(row)
        rows.append((sid, start, stop, dur))
    return "ok " + ";".join(",".join(r) for r in sorted(rows))


LISTD = C.Kind("listed-durations", impl=_c10.LIST.impl, model=_c10.LIST.model,
               judge=lambda a, o: [j for j in _c10.LIST.judge(a, o) if j[0].startswith("c14 ")],
               compare=lambda m, i: _durations_only(m) == _durations_only(i),
               classify=_c10.LIST.classify, nontrivial=_c10.LIST.nontrivial, shrink=_c10.LIST.shrink)
KINDS = {"calc_duration": PAIR, "calc_duration_text": TEXT, "calc_duration_zoned": ZONED, "listed-durations": LISTD}


def _zoned_cases(rng, per_zone_instants, pairs_per_instant):
    import zoneharness as Z
    grid = [0, 1, 59, 60, 90, 119, 120, 150, 179, 180, 181, 239, 240, 1380, 1410, 1439]
    out = []
    for zone in Z.ZONES:
        tr = Z.transitions_near(zone)
        # the local days on which the zone changes its clocks come first (read at several hours of that day), then other dates
        nows = [t + d for t in tr for d in (-7200, 0, 7200)][:per_zone_instants] or []
        nows += Z.interesting_instants(rng, zone, max(2, per_zone_instants // 3))
        for now in nows:
            for _ in range(pairs_per_instant):
                a, b = (rng.choice(grid), rng.choice(grid)) if rng.random() < 0.7 else (rng.randrange(1440), rng.randrange(1440))
                out.append((zone, float(now), a, b))
    return out


def _texts(rng, n):
    out = [("7:5", "07:05"), ("0:0", "23:59"), ("24:00", "00:00"), ("12:60", "00:00"), ("1200", "00:00"), ("", ""), ("12:00:00", "1:00"),
           (" 12:00", "13:00"), ("12:00 ", "13:00"), ("-1:00", "00:00"), ("1:000", "0:0"), ("001:00", "0:0"), ("12:0a", "0:0"), (":", "0:0"),
           ("9:9", "9:09"), ("23:5", "0:59"), ("+1:00", "0:00"), ("1 :00", "0:00")]
    alphabet = "0123456789:: -ax"
    for _ in range(n):
        k = rng.random()
        if k < .5:
            a = "".join(rng.choice(alphabet) for _ in range(rng.randrange(0, 7)))
        else:
            h, m = rng.randrange(0, 30), rng.randrange(0, 70)
            a = (("%d" if rng.random() < .5 else "%02d") % h) + ":" + (("%d" if rng.random() < .5 else "%02d") % m)
        b = "%d:%02d" % (rng.randrange(24), rng.randrange(60))
        out.append((a, b) if rng.random() < .5 else (b, a))
    return out


def streams(ctx):
    rng = ctx.rng
    if ctx.quick:
        g = sorted({x for b in (0, 1, 59, 60, 61, 599, 600, 719, 720, 721, 1379, 1380, 1438, 1439) for x in (b - 1, b, b + 1) if 0 <= x < 1440})
        ctx.run_cases(PAIR, "boundary-grid", [(a, b) for a in g for b in g], exhaustive=False, sample_every=211)
        ctx.run_cases(PAIR, "random-pairs", [(rng.randrange(1440), rng.randrange(1440)) for _ in range(20000)], exhaustive=False)
        ctx.run_cases(PAIR, "equal-times-all", [(a, a) for a in range(1440)], exhaustive=True)
    else:
        for lo in range(0, 1440, 60):
            ctx.run_cases(PAIR, "all-1440x1440-pairs", [(a, b) for a in range(lo, lo + 60) for b in range(1440)], exhaustive=True,
                          sample_every=40000)
    # the same function with its arguments spelled differently (by keyword, in either order, through functools.partial), and asked
    # again for pairs it has been asked before
    forms = [(rng.randrange(1440), rng.randrange(1440), f) for f in C.CALL_FORMS[1:] for _ in range(ctx.n(150, 3000))]
    forms += [(a, b, f) for (a, b, f) in forms[:200]]
    ctx.run_cases(PAIR, "arguments-by-keyword-in-either-order-or-through-partial", forms, exhaustive=False, sample_every=499)
    zc = _zoned_cases(rng, ctx.n(9, 40), ctx.n(40, 200))
    ctx.run_cases(ZONED, "zones-and-dates(DST days first)", zc, exhaustive=False, sample_every=max(1, len(zc) // 3))
    # the duration reported for schedules listed by a device (timestamps with seconds, on hosts in several zones): it is the rule
    # applied to the start and end shown, nothing else
    lst = []
    for zone in _c10.ZONES:
        import zoneharness as Z
        for now in Z.interesting_instants(rng, zone, ctx.n(6, 60)):
            recs = _c10.gen_recs(rng, now)
            lst.append({"zone": zone, "now": now, "recs": recs, "reply": _c10.build_reply(recs, rng)})
    ctx.run_cases(LISTD, "durations-of-listed-schedules", lst, exhaustive=False, sample_every=max(1, len(lst) // 2))
    ctx.run_cases(TEXT, "spellings-and-malformed", _texts(rng, ctx.n(2000, 20000)), exhaustive=False, sample_every=500)


def search(ctx, broken):
    grid = [(a, a) for a in range(1440)] + [(a, (a + d) % 1440) for a in range(1440) for d in (1, 59, 60, 61, 719, 1380, 1439)]
    grid += [(ctx.rng.randrange(1440), ctx.rng.randrange(1440)) for _ in range(30000)]
    outs = [_impl_pair(a) for a in grid]
    js = [PAIR.judge(a, o)[0] for a, o in zip(grid, outs)]
    got = C.run_exe("specjudge", [l for l, _ in js])
    for a, o, (l, e), g in zip(grid, outs, js, got):
        if g != e:
            return {"kind": "calc_duration", "args": a, "impl": o, "judge": l, "expected": e, "got": g}
    return None
