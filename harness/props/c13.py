"""C13 — the next-run text names the earliest upcoming run of the schedule."""
import datetime
import re
from zoneinfo import ZoneInfo

import common as C
import zoneharness as Z

RULE = ("(zone, clock reading, start minute, day set): all 7 current weekdays x all 128 day sets x (current, start) minute pairs on a "
        "grid with equality and both neighbours, incl. pairs that cross an hour boundary, x zones east and west of UTC incl. instants "
        "where the local and the UTC weekday differ; the text of the real function must be the rendering of an earliest run "
        "(Spec.IsEarliest, with weekday and 'still ahead' computed independently from the zone database) and equal the model's; "
        "non-trivial = distinct (weekday, day mask, ahead?, zone class)")
ASSUMPTIONS = ["datetime.now()/strptime under TZ + time_machine; a Python set of Days is represented by its sorted members (the "
               "function only uses membership and a sort)"]

ZONES = ["UTC", "Asia/Jerusalem", "America/New_York", "Pacific/Kiritimati", "Etc/GMT+11", "Asia/Kathmandu", "Australia/Lord_Howe", "America/Los_Angeles"]


def _impl(a):
    from aioswitcher.schedule import Days, tools
    zone, now, start, days = a
    D = list(Days)

    def f():
        try:
            return "ok " + C.ut(tools.pretty_next_run(start, {D[i] for i in days}))
        except Exception as e:  # noqa
            return "raise " + C.exc_name(e)
    return Z.under(zone, now, f)


def _local(zone, now):
    return datetime.datetime.fromtimestamp(now, ZoneInfo(zone))


def _judge(a, out):
    zone, now, start, days = a
    if not re.fullmatch(r"\d?\d:\d?\d", start) or not out.startswith("ok "):
        return []
    lt = _local(zone, now)
    cur = lt.weekday()
    sh, sm = map(int, start.split(":"))
    ahead = (lt.hour * 60 + lt.minute) < (sh * 60 + sm)
    mask = sum(2 ** (d + 1) for d in set(days))
    return [(f"c13 {cur} {mask} {int(ahead)} {C.ut(start)} {out[3:]}", "1")]


def _nt(a, out):
    zone, now, start, days = a
    lt = _local(zone, now)
    sh, sm = tuple(map(int, start.split(":"))) if re.fullmatch(r"\d?\d:\d?\d", start) else (0, 0)
    return (lt.weekday(), tuple(sorted(set(days))), (lt.hour * 60 + lt.minute) < sh * 60 + sm, zone in ("UTC",))


NEXT = C.Kind("pretty_next_run", impl=_impl,
              model=lambda a: f"pretty {Z.zone_token(a[0], a[1])} {int(a[1] // 1)} {C.ut(a[2])} {','.join(map(str, a[3])) or '-'}",
              judge=_judge, classify=lambda a, o: (C.un_ut(o[3:]).split(" at ")[0] if o.startswith("ok ") else o)[:16],
              nontrivial=_nt)


def _impl_remade(a):
    """the text a SwitcherSchedule OBJECT displays when it is a re-made copy of another schedule (dataclasses.replace with another
    start and other days, copy, pickle): it is the text of ITS start and days"""
    import copy
    import dataclasses
    import pickle
    from aioswitcher.schedule import Days
    from aioswitcher.schedule.parser import SwitcherSchedule
    zone, now, start, days = a[:4]
    D = list(Days)

    def f():
        try:
            first = SwitcherSchedule("3", True, {D[(i + 3) % 7] for i in days} or {D[0]}, "%02d:%02d" % ((int(start[:2]) + 7) % 24, 5), "23:59")
            made = dataclasses.replace(first, start_time=start, days={D[i] for i in days}, schedule_id="4", recurring=bool((sum(days) + len(days)) % 2))
            made = pickle.loads(pickle.dumps(copy.deepcopy(copy.copy(made))))
            return "ok " + C.ut(made.display)
        except Exception as e:  # noqa
            return "raise " + C.exc_name(e)
    return Z.under(zone, now, f)


REMADE = C.Kind("display-of-a-re-made-schedule-object", impl=_impl_remade,
                model=lambda a: f"pretty {Z.zone_token(a[0], a[1])} {int(a[1] // 1)} {C.ut(a[2])} {','.join(map(str, a[3])) or '-'}",
                judge=_judge, classify=lambda a, o: (C.un_ut(o[3:]).split(" at ")[0] if o.startswith("ok ") else o)[:16], nontrivial=_nt)


def _impl_nodays(a):
    """the days argument left out altogether (its default): "today" """
    from aioswitcher.schedule import tools
    zone, now, start = a

    def f():
        try:
            return "ok " + C.ut(tools.pretty_next_run(start))
        except Exception as e:  # noqa
            return "raise " + C.exc_name(e)
    return Z.under(zone, now, f)


NODAYS = C.Kind("pretty_next_run-without-days", impl=_impl_nodays,
                model=lambda a: f"pretty {Z.zone_token(a[0], a[1])} {int(a[1] // 1)} {C.ut(a[2])} -",
                judge=lambda a, o: _judge((a[0], a[1], a[2], []), o), classify=lambda a, o: "no-days", nontrivial=lambda a, o: (a[0], a[2]))

import props.c10 as _c10  # noqa: E402  (the text a LISTED schedule displays is this function's)


def _displays_only(out):
    if not out.startswith("ok ") or out[3:] == "-":
        return out.split(" ", 1)[0]
    rows = []
    for row in out[3:].split(";"):
        f = _c10._fields(row)
        rows.append((f[0], f[3], f[6]))
    return "ok " + ";".join(",".join(r) for r in sorted(rows))


LISTED = C.Kind("listed-display", impl=_c10.LIST.impl, model=_c10.LIST.model,
                judge=lambda a, o: [j for j in _c10.LIST.judge(a, o) if j[0].startswith("c13 ")],
                compare=lambda m, i: _displays_only(m) == _displays_only(i),
                classify=_c10.LIST.classify, nontrivial=lambda a, o: (a["zone"], int(a["now"] // 3600), o[:40]), shrink=_c10.LIST.shrink)
KINDS = {"display-of-a-re-made-schedule-object": REMADE, "pretty_next_run": NEXT, "pretty_next_run-without-days": NODAYS, "listed-display": LISTED}


def _cases(rng, full):
    import itertools
    out = []
    subsets = [list(c) for r in range(0, 8) for c in itertools.combinations(range(7), r)]
    base = 1_750_000_000 - (1_750_000_000 % 86400)     # a UTC midnight
    zones = ZONES if full else ZONES[:4] + rng.sample(ZONES[4:], 1)
    for zone in zones:
        for wd in range(7):
            day0 = base + wd * 86400
            # local minute pairs (now, start): equality, both neighbours, hour-boundary crossings
            pairs = [(600, 600), (600, 601), (601, 600), (659, 700), (700, 659), (670, 630), (630, 670), (0, 1439), (1439, 0), (1, 0), (720, 720)]
            if full:
                pairs += [(rng.randrange(1440), rng.randrange(1440)) for _ in range(20)]
            else:
                pairs = rng.sample(pairs, 5) + [(rng.randrange(1440), rng.randrange(1440))]
            for (nm, sm) in pairs:
                # choose the instant so that the LOCAL time of day is nm on some local weekday
                off = int(_local(zone, day0).utcoffset().total_seconds())
                now = day0 - off + nm * 60 + rng.choice([0, 30, 59]) + rng.choice([0.0, 0.5])
                for ds in (subsets if full else rng.sample(subsets, 26) + [[wd], [wd, (wd + 1) % 7], [(wd + 6) % 7], []]):
                    out.append((zone, now, "%02d:%02d" % divmod(sm, 60), ds))
    return out


def streams(ctx):
    rng = ctx.rng
    ctx.run_cases(NEXT, "weekdays-x-daysets-x-minute-pairs-x-zones", _cases(rng, not ctx.quick), exhaustive=False, sample_every=3001)
    # local weekday differs from UTC weekday
    extra = []
    import itertools
    for zone in ("Pacific/Kiritimati", "Etc/GMT+11", "Asia/Jerusalem", "America/Los_Angeles"):
        for k in range(ctx.n(20, 200)):
            now = 1_750_000_000 + k * 7919 * 13 + rng.randrange(86400)
            lt = _local(zone, now)
            if lt.weekday() != datetime.datetime.fromtimestamp(now, datetime.timezone.utc).weekday():
                for ds in ([lt.weekday()], [(lt.weekday() + 1) % 7], [lt.weekday(), (lt.weekday() + 2) % 7]):
                    m = (lt.hour * 60 + lt.minute + rng.choice([-1, 0, 1, 60])) % 1440
                    extra.append((zone, float(now), "%02d:%02d" % divmod(m, 60), ds))
    ctx.run_cases(NEXT, "local-weekday-differs-from-utc", extra, exhaustive=False, sample_every=101)
    # the SAME schedule asked again later on the same local date, first while its start is still ahead, then at it, then after it:
    # the answer must follow the clock, not an earlier answer
    again = []
    base = 1_750_000_000 - (1_750_000_000 % 86400)
    for zone in ("UTC", "Asia/Jerusalem", "America/New_York", "Asia/Kathmandu"):
        for k in range(ctx.n(12, 120)):
            day0 = base + rng.randrange(0, 400) * 86400
            off = int(_local(zone, day0 + 43200).utcoffset().total_seconds())
            sm = rng.randrange(5, 1430)
            wd = _local(zone, day0 - off + sm * 60).weekday()
            ds = rng.choice([[wd], [wd, (wd + 1) % 7], [wd, (wd + 3) % 7], sorted({wd, rng.randrange(7), rng.randrange(7)})])
            for delta in (-120, -60, 0, 60, 180):
                again.append((zone, float(day0 - off + sm * 60 + delta), "%02d:%02d" % divmod(sm, 60), ds))
    ctx.run_cases(NEXT, "same-schedule-before-at-and-after-its-start", again, exhaustive=False, sample_every=53)
    # the weeks in which a zone changes its clocks: days of 23 and 25 hours lie between "now" and the next run; starts close to midnight
    dst = []
    for zone in [z for z in ZONES if Z.transitions_near(z)][:6]:
        for t in Z.transitions_near(zone)[:4]:
            for back in range(0, 7):
                for hour_min in (5, 30, 719, 1410, 1435):
                    now = t - back * 86400 + rng.choice([-7200, 3600, 40000])
                    lt = _local(zone, now)
                    for ds in ([lt.weekday()], [(lt.weekday() + 1) % 7], [(lt.weekday() + 2) % 7, (lt.weekday() + 6) % 7], [(lt.weekday() + back + 1) % 7]):
                        dst.append((zone, float(now), "%02d:%02d" % divmod(hour_min, 60), sorted(set(ds))))
    if ctx.quick:
        dst = rng.sample(dst, min(len(dst), 900))
    ctx.run_cases(NEXT, "weeks-with-a-clock-change", dst, exhaustive=False, sample_every=211)
    # schedules listed by a device, the SAME reply polled again hours and days later (the text follows the clock, not the first poll),
    # their day sets changed by the caller in between; and in between those, the function called without a days argument
    polled, nod = [], []
    for zone in ("UTC", "Asia/Jerusalem", "America/New_York", "Asia/Kathmandu"):
        for now in Z.interesting_instants(rng, zone, ctx.n(5, 40)):
            recs = _c10.gen_recs(rng, now)
            reply = _c10.build_reply(recs, rng)
            for later in (0, 3 * 3600 + 60, 86400 + 7 * 3600, 3 * 86400 - 1800):
                polled.append({"zone": zone, "now": float(now + later), "recs": recs, "reply": reply})
                nod.append((zone, float(now + later), "%02d:%02d" % divmod(rng.randrange(1440), 60)))
    ctx.run_cases(LISTED, "the-same-reply-polled-again-later", polled, exhaustive=False, sample_every=max(1, len(polled) // 2))
    ctx.run_cases(NODAYS, "days-argument-left-out", nod, exhaustive=False, sample_every=max(1, len(nod) // 2))
    ctx.run_cases(LISTED, "listed-again-after-the-caller-changed-day-sets", polled[: len(polled) // 2], exhaustive=False)
    ctx.run_cases(NODAYS, "days-argument-left-out-again", nod[: len(nod) // 2], exhaustive=False)
    # start times spelled without the leading zeros ("9:05", "14:5", "0:0"): the same instant as the padded spelling
    unpadded = [(z, now, "%d:%d" % (int(st[:2]), int(st[3:])) if rng.random() < 0.5 else "%d:%02d" % (int(st[:2]), int(st[3:])), ds)
                for (z, now, st, ds) in rng.sample(dst, min(len(dst), ctx.n(500, 5000)))]
    ctx.run_cases(NEXT, "start-times-without-leading-zeros", unpadded, exhaustive=False, sample_every=199)
    ctx.run_cases(REMADE, "schedule-objects-re-made-by-replace-copy-and-pickle", rng.sample(dst, min(len(dst), ctx.n(300, 3000))), exhaustive=False,
                  sample_every=149)
    bad = [("UTC", 1.75e9, s, [0]) for s in ("7:5", "24:00", "x", "", "12:60", "1200")]
    ctx.run_cases(NEXT, "malformed-start", bad, exhaustive=False)


def search(ctx, broken):
    rng = ctx.rng
    cases = _cases(rng, False) + _cases(rng, False)
    outs = [_impl(a) for a in cases]
    flat = [(a, o, l, e) for a, o in zip(cases, outs) for (l, e) in _judge(a, o)]
    got = C.run_exe("specjudge", [l for _, _, l, _ in flat])
    for (a, o, l, e), g in zip(flat, got):
        if g != e:
            return {"kind": "pretty_next_run", "args": list(a), "impl": o, "judge": l, "expected": e, "got": g}
    return None
