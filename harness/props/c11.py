"""C11 — clock times survive encoding and decoding in every time zone and on every date."""
import common as C
import zoneharness as Z

RULE = ("(zone, clock reading, minute of the day): 18 zones covering +14..-12, half/quarter-hour offsets and both DST hemispheres x "
        "clock readings around every transition 2024-2026 (day before/of/after), year ends, leap days and random instants x "
        "minutes (boundary set + random; thorough: all 1440 around transitions); the real encoder must return one of the model's "
        "candidate instants, the real decoder must return what the model returns; the Spec judge checks encode->decode returns the "
        "same HH:MM and that the encoded instant shows HH:MM today in the exported zone table; plus a malformed stream; "
        "non-trivial = distinct (zone, day class, minute class, #candidates)")
ASSUMPTIONS = ["zone behaviour is exported from zoneinfo over +-3 days around the clock reading (cross-checked by the decoder stream "
               "against time.localtime); the host zone is set by TZ + tzset, the clock by time_machine.travel(float)",
               "for wall times inside a DST gap only 'does not raise / is one of the normalised candidates' is checked",
               "ASCII clock strings"]


def _enc(a):
    from aioswitcher.schedule import tools
    zone, now, s = a

    def f():
        try:
            return "ok " + tools.time_to_hexadecimal_timestamp(s)
        except Exception as e:  # noqa
            return "raise " + C.exc_name(e)
    return Z.under(zone, now, f)


def _cmp_member(model, impl):
    if impl.startswith("ok ") and model.startswith("ok "):
        return impl[3:] in model[3:].split(",")
    return model == impl


def _strict_hm(s):
    parts = s.split(":")
    if len(parts) != 2 or not all(1 <= len(p) <= 2 and p.isascii() and p.isdigit() for p in parts):
        return None
    h, m = int(parts[0]), int(parts[1])
    return (h, m) if h < 24 and m < 60 else None


def _known_f8(s):
    if not C.finding_open("F8"):      # repaired: these inputs are judged like any other
        return False
    parts = s.split(":")
    if len(parts) < 2:
        return False
    lead = parts[0] != parts[0].lstrip(" \t\n\r\x0b\x0c\x1c\x1d\x1e\x1f")
    return (lead or len(parts) > 2) and _strict_hm(parts[0].lstrip(" \t\n\r\x0b\x0c\x1c\x1d\x1e\x1f") + ":" + parts[1]) is not None


def _judge_enc(a, out):
    """Spec: valid HH:MM -> an instant showing HH:MM on today's local date (checked by decoding with the zone table);
    anything else must raise."""
    zone, now, s = a
    hm = _strict_hm(s)
    if hm is None:
        return [] if out.startswith("raise") else [("h2l z=0 -", "not-HH:MM-must-raise: " + repr(s))]
    if not out.startswith("ok "):
        return [("h2l z=0 -", "valid-HH:MM-raised: " + out)]
    return [(f"h2l {Z.zone_token(zone, now)} {out[3:]}", "ok %02d:%02d" % hm)]


ENC = C.Kind("time_to_hexadecimal_timestamp", impl=_enc, model=lambda a: f"t2h {Z.zone_token(a[0], a[1])} {int(a[1] // 1)} {C.ut(a[2])}",
             compare=_cmp_member, judge=None, known=lambda a, o: "F8" if (not o.startswith("raise") and _strict_hm(a[2]) is None and _known_f8(a[2])) else None,
             classify=lambda a, o: f"{a[0]}:{'raise' if o.startswith('raise') else 'ok'}",
             nontrivial=lambda a, o: (a[0], int(a[1] // 86400), a[2]))


def _dec(a):
    from aioswitcher.schedule import tools
    zone, now, h = a[0], a[1], a[2]

    def f():
        try:
            # (the timestamp as bytes, as the parser hands it over - or, 4th element "str", as the same characters in a str, which the
            # function's slicing and int(…, 16) take just as well)
            return "ok " + tools.hexadecimale_timestamp_to_localtime(h if len(a) > 3 and a[3] == "str" else h.encode())
        except Exception as e:  # noqa
            return "raise " + C.exc_name(e)
    return Z.under(zone, now, f)


DEC = C.Kind("hexadecimale_timestamp_to_localtime", impl=_dec, model=lambda a: f"h2l {Z.zone_token(a[0], a[1])} {a[2] or '-'}",
             classify=lambda a, o: f"{a[0]}:{'raise' if o.startswith('raise') else 'ok'}", nontrivial=lambda a, o: (a[0], a[2]))


def _rt(a):
    """encode with the real encoder, decode with the real decoder, under the zone"""
    from aioswitcher.schedule import tools
    zone, now, s = a

    def f():
        try:
            h = tools.time_to_hexadecimal_timestamp(s)
            return f"ok {h} {tools.hexadecimale_timestamp_to_localtime(h.encode())}"
        except Exception as e:  # noqa
            return "raise " + C.exc_name(e)
    return Z.under(zone, now, f)


def _judge_rt(a, out):
    zone, now, s = a
    hm = _strict_hm(s)
    if hm is None or not out.startswith("ok "):
        return []
    _, h, back = out.split()
    want = "%02d:%02d" % hm
    tok = Z.zone_token(zone, now)
    # does the wall time exist today?  (model candidates that really show it) — gaps are only checked for 'does not raise'
    lines = [(f"c11exists {tok} {int(now // 1)} {hm[0]} {hm[1]} {h} {back}", "1")]
    return lines


RT = C.Kind("encode-then-decode", impl=_rt, judge=_judge_rt, classify=lambda a, o: f"{a[0]}:{'raise' if o.startswith('raise') else 'ok'}",
            nontrivial=lambda a, o: (a[0], int(a[1] // 86400), a[2]))
KINDS = {"time_to_hexadecimal_timestamp": ENC, "hexadecimale_timestamp_to_localtime": DEC, "encode-then-decode": RT}

MALFORMED = ["2100", "24:00", "12:60", "ab:cd", "", ":", "1:", ":5", "12:00 ", "1 2:00", "-1:30", "+1:30", "1.5:00", "12:0x", "12;00", "001:00",
             "12:000", " 21:00", "21:00:99", "\t7:05", "7:5", "07:5", "7:05", "23:59", "00:00", "21:00:", "21::00", "\n12:00", "12:00\n", "9:09:09:09"]


def _minutes(rng, full):
    base = [0, 1, 59, 60, 61, 119, 120, 121, 150, 179, 180, 181, 719, 720, 1380, 1438, 1439]
    if full:
        return list(range(1440))
    return sorted(set(base + [rng.randrange(1440) for _ in range(6)]))


def streams(ctx):
    rng = ctx.rng
    enc, dec, rt = [], [], []
    zones = Z.ZONES if not ctx.quick else Z.ZONES[:10] + rng.sample(Z.ZONES[10:], 3)
    for zone in zones:
        inst = Z.interesting_instants(rng, zone, ctx.n(30, 120))
        for i, now in enumerate(inst):
            for m in _minutes(rng, full=(not ctx.quick and i < 12)):
                s = "%02d:%02d" % divmod(m, 60)
                enc.append((zone, now, s))
                if rng.random() < 0.3:
                    rt.append((zone, now, s))
            for _ in range(3):
                t = int(now) + rng.randrange(-2 * 86400, 2 * 86400)
                dec.append((zone, now, t.to_bytes(4, "little").hex()))
    ctx.run_cases(ENC, "encode-zones-x-dates-x-minutes", enc, exhaustive=False, sample_every=max(1, len(enc) // 3))
    ctx.run_cases(DEC, "decode-zones-x-instants", dec + [("UTC", 1.7e9, ""), ("UTC", 1.7e9, "zz"), ("UTC", 1.7e9, "00"), ("UTC", 1.7e9, "ffffffff")],
                  exhaustive=False, sample_every=max(1, len(dec) // 2))
    ctx.run_cases(DEC, "decode-timestamps-given-as-text", [(z, n, h, "str") for (z, n, h) in dec[::3]], exhaustive=False, sample_every=max(1, len(dec) // 6))
    ctx.run_cases(RT, "encode-then-decode", rt, exhaustive=False, sample_every=max(1, len(rt) // 2))
    # ONE process living through a local midnight (and through a UTC midnight that is not a local one): "today" must follow the clock
    import datetime as _dt
    from zoneinfo import ZoneInfo
    across = []
    for zone in ("Pacific/Kiritimati", "Asia/Kathmandu", "Asia/Kolkata", "America/New_York", "Pacific/Pago_Pago", "Asia/Jerusalem", "UTC"):
        for k in range(ctx.n(3, 20)):
            day = _dt.datetime(2025, rng.randrange(1, 13), rng.randrange(1, 28), tzinfo=ZoneInfo(zone))
            mid = day.timestamp()                      # a local midnight
            utc_mid = (int(mid) // 86400 + 1) * 86400  # the next UTC midnight
            for t in (mid - 600, mid + 600, mid + 3600, utc_mid - 600, utc_mid + 600, mid + 86400 - 600, mid + 86400 + 600):
                for s in ("00:05", "12:00", "23:55"):
                    across.append((zone, float(t), s))
            # the last second of a local day and the first of the next, to fractions of a second: the date is the clock's date, a
            # reading of 23:59:59.7 is still today
            for dt in (-1.0, -0.75, -0.5, -0.49, -0.25, -0.001, 0.0, 0.25, 0.5, 0.999):
                across.append((zone, mid + dt, rng.choice(["00:00", "00:05", "12:00", "23:59"])))
    ctx.run_cases(RT, "one-process-across-local-and-utc-midnights", across, exhaustive=False, sample_every=max(1, len(across) // 2))
    mal = [(rng.choice(Z.ZONES), float(rng.randrange(1_700_000_000, 1_800_000_000)), s) for s in MALFORMED]
    alpha = "0123456789:: \tax-"
    for _ in range(ctx.n(2000, 20000)):
        mal.append((rng.choice(["UTC", "Asia/Jerusalem", "America/New_York"]), 1.75e9, "".join(rng.choice(alpha) for _ in range(rng.randrange(0, 8)))))
    ctx.run_cases(ENC, "malformed-clock-strings", mal, exhaustive=False, sample_every=700)
    # the Spec's view of the same strings: anything that is not HH:MM must raise (known finding F8 classes excepted)
    ctx.run_cases(STRICT, "strict-language", mal, exhaustive=False, sample_every=900)


def _judge_strict(a, out):
    s = a[2]
    if _strict_hm(s) is None and not out.startswith("raise"):
        return [("h2l z=0 -", "not-HH:MM-accepted: " + repr(s))]
    if _strict_hm(s) is not None and out.startswith("raise"):
        return [("h2l z=0 -", "valid-HH:MM-raised: " + repr(s))]
    return []


STRICT = C.Kind("strict-language", impl=_enc, judge=_judge_strict,
                known=lambda a, o: "F8" if (not o.startswith("raise") and _strict_hm(a[2]) is None and _known_f8(a[2])) else None,
                classify=lambda a, o: "accepted" if o.startswith("ok") else "raised", nontrivial=lambda a, o: a[2])
KINDS["strict-language"] = STRICT


def known_witness(entry):
    if entry["id"] != "F8":
        return None
    hits = [w for w in entry["witnesses"] if not _enc(("UTC", 1.7e9, w)).startswith("raise")]
    return hits or None


def search(ctx, broken):
    rng = ctx.rng
    cases = []
    for zone in Z.ZONES:
        for now in Z.interesting_instants(rng, zone, 60):
            for m in _minutes(rng, False):
                cases.append((zone, now, "%02d:%02d" % divmod(m, 60)))
    outs = [_rt(a) for a in cases]
    flat = [(a, o, l, e) for a, o in zip(cases, outs) for (l, e) in _judge_rt(a, o)]
    got = C.run_exe("specjudge", [l for _, _, l, _ in flat])
    for (a, o, l, e), g in zip(flat, got):
        if g != e:
            return {"kind": "encode-then-decode", "args": list(a), "impl": o, "judge": l, "expected": e, "got": g}
    for s in MALFORMED + ["25:00", "12:61", "a:b", "1200"]:
        a = ("UTC", 1.7e9, s)
        o = _enc(a)
        if STRICT.known(a, o):
            continue
        for l, e in _judge_strict(a, o):
            return {"kind": "strict-language", "args": list(a), "impl": o, "judge": l, "expected": e, "got": "accepted"}
    return None
