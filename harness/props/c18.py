"""C18 — the TCP client is connected exactly between connect and disconnect."""
import common as C
import lifeharness as L

RULE = ("action sequences (length <= 20) over {connect, refused connect, successful operation, operation that raises, body exception "
        "inside `async with`, clean `async with`, disconnect} for both API types against a scripted device on REAL loopback TCP; after "
        "every action: what the caller saw, the `connected` flag and the device-side count of open connections are compared with the "
        "model and judged by the Spec (connected <=> last of connect/disconnect was a connect; open connections = 1 iff connected); one stream "
        "respects 'no connect while connected', a second one does not (theorem sockets_exactly_all, runtime parameter reclaim = true); "
        "non-trivial = distinct (API type, action word)")
ASSUMPTIONS = ["PARTIAL: that closing the writer makes the device see end-of-stream and that a refused connection raises OSError are "
               "runtime facts observed here, not proved", "connecting over an open connection: the earlier socket is closed by the runtime when the overwritten StreamWriter is collected "
               "(CPython >= 3.11.5; observed here, model parameter `reclaim`); on older runtimes it would stay open"]


def _impl(a):
    return L.run_client_life(a["api"], a["acts"])


def _judge(a, out):
    if "NOT-RUN" in out:
        return []
    if "HARNESS-TIMEOUT" in out:
        return [("c06gate -", out)]     # the real object never came back: judged as a failure of the property, not of the machine
    lines = []
    connected = False
    for act, o in zip(a["acts"], out.split(" ")):
        res, flag, opened = o.split(":")
        if act == "cok" and res == "ok":
            connected = True
        if act == "disc" or (act.startswith("with") and act != "withref"):     # a refused entry leaves the client as it was
            connected = False
        ok = (flag == ("1" if connected else "0")) and (opened == ("1" if connected else "0"))
        if act in ("cref", "crefs", "withref", "ccancel") and res != "raise_OSError":
            ok = False
        if act.startswith("withx") and res != "raise_BodyError":
            ok = False
        if act in ("disc", "with", "withop", "cok") and res != "ok":
            ok = False
        if not ok:
            lines.append(("c06gate -", f"after {act}: {o} (expected connected={int(connected)}, open={int(connected)})"))
    return lines or [("c06gate -", "0")]


LIFE = C.Kind("client-life", impl=_impl, model=lambda a: "clife " + " ".join(a["acts"]), judge=_judge, compare=lambda m, i: "NOT-RUN" in i or m == i,
              classify=lambda a, o: f"{a['api']}:len{len(a['acts']) // 5 * 5}", nontrivial=lambda a, o: (a["api"], tuple(a["acts"])),
              shrink=lambda a: _shrunk(a))
KINDS = {"client-life": LIFE}


def _body(rng):
    """the body of `async with` raises: an exception of the harness, or one of the classes a failing socket operation raises"""
    return "withx" if rng.random() < 0.4 else "withx:" + rng.choice(sorted(set(L.BODY_EXCEPTIONS) - {"BodyError"}))


def gen(rng):
    acts, connected, dead = [], False, False
    for _ in range(rng.choice([3, 6, 10, rng.randrange(1, 21)])):
        if connected:
            a = rng.choice(["opeof", "disc", "opeof", "opeofdown"] if dead else ["op", "opx", "disc", "disc", "op", "opeof", "opdown", "opchat"])
            if a == "opchat":       # what the device went on sending sits unread on the connection: the next thing is a disconnect
                acts += ["opchat", "disc"]
                connected = False
                continue
            dead = dead or a == "opeof"
        else:
            a = rng.choice(["cok", "cok", "cref", "crefs", "disc", "with", "withx", "withref", "withop", "ccancel"])
            a = _body(rng) if a == "withx" else a
        if a == "cok":
            connected, dead = True, False
        if a == "disc":
            connected = False
        acts.append(a)
    return {"api": rng.choice(["type1", "type2"]), "acts": acts}


def gen_any(rng):
    """no restriction on connect: connecting over an open connection is allowed too.  The client overwrites its writer; on this
    runtime (CPython >= 3.11.5) the unreferenced StreamWriter closes its transport, so the device still sees exactly one
    open connection while connected (model parameter reclaim = true, theorem sockets_exactly_all)"""
    acts, connected, dead = [], False, False
    for _ in range(rng.randrange(2, 16)):
        a = rng.choice(["cok", "cok", "cref", "disc", "with", "withx", "withop"] + ((["opeof"] if dead else ["op", "opx", "opeof"]) if connected else ["withref", "crefs"]))
        dead = dead or a == "opeof"
        if a == "cok":
            dead = False
        a = _body(rng) if a == "withx" else a
        if a == "cok":
            connected = True
        if a == "disc" or a.startswith("with"):
            connected = False
        acts.append(a)
    return {"api": rng.choice(["type1", "type2"]), "acts": acts}


def _in_domain(acts):
    """operations are only asked of a client that is connected (and, once the device has hung up, only further hang-ups until the
    next disconnect): what an operation does on a client that was never connected is not part of the property or of the model"""
    connected = dead = False
    for a in acts:
        if a in ("op", "opx", "opdown", "opchat") and (not connected or dead):
            return False
        if a == "opeofdown" and not (connected and dead):
            return False
        if a == "opeof":
            if not connected:
                return False
            dead = True
        if a == "cok":
            connected, dead = True, False
        if a == "disc" or (a.startswith("with") and a != "withref"):
            connected = False
    return True     # (o:… actions, another client's, are never out of the domain)


def _shrunk(a):
    return [c for c in (dict(a, acts=a["acts"][:i] + a["acts"][i + 1:]) for i in range(len(a["acts"]))) if _in_domain(c["acts"])]


def _double(acts):
    c = False
    for a in acts:
        if (a == "cok" or a.startswith("with")) and c:
            return True
        if a == "cok":
            c = True
        if a == "disc" or a.startswith("with"):
            c = False
    return False


ANY = C.Kind("client-life-unrestricted", impl=_impl, model=lambda a: "clife " + " ".join(a["acts"]), judge=_judge, compare=lambda m, i: "NOT-RUN" in i or m == i,
             classify=lambda a, o: f"{a['api']}:{'connects-over-open-connection' if _double(a['acts']) else 'alternating'}:maxopen{max([int(x.split(':')[2].rstrip('R')) for x in o.split(' ') if x.count(':') == 2 and x.split(':')[2].rstrip('R').isdigit()] or [0])}",
             nontrivial=lambda a, o: (a["api"], tuple(a["acts"])),
             shrink=lambda a: _shrunk(a))
KINDS["client-life-unrestricted"] = ANY

FIXED = [{"api": t, "acts": acts} for t in ("type1", "type2") for acts in (
    ["disc", "disc", "cref", "cok", "op", "opx", "op", "disc", "disc", "cok", "disc"],
    ["withx", "with", "cok", "disc", "withx:TimeoutError", "cref", "cok", "opx", "disc", "withx:ConnectionResetError", "withx:CancelledError",
     "withx:KeyError", "cok", "disc"],
    ["cok", "disc", "cok", "disc", "cok", "op", "disc"],
    ["cok", "op", "opeof", "opeof", "disc", "cok", "op", "disc"],
    ["withref", "withop", "withref", "withref", "with", "withop", "cref", "withop", "cok", "op", "disc"],
    ["crefs", "cok", "op", "disc", "crefs", "crefs", "cok", "disc", "crefs", "withop"])]


def with_another_client(rng, a):
    """the same history while ANOTHER client object connects to the same device, operates and disconnects in between: the first
    client's flag and sockets must be what they are without it (theorem foreign_is_invisible)"""
    acts, oc = [], False
    for x in a["acts"]:
        while rng.random() < 0.45:
            o = rng.choice(["o:cok", "o:cok", "o:op", "o:disc", "o:cpdrop"] if not oc else ["o:op", "o:disc", "o:op", "o:cok", "o:cpdrop"])
            oc = True if o == "o:cok" else False if o == "o:disc" else oc
            acts.append(o)
        acts.append(x)
    acts.append("o:cok" if not oc else "o:disc")
    if rng.random() < 0.4:
        acts.insert(0, "o:copy")        # the other client object is a copy.copy() of this one, made before anything was connected
    return dict(a, acts=acts)


FIXED += [{"api": t, "acts": acts} for t in ("type1", "type2") for acts in (
    ["ccancel", "cok", "op", "disc", "ccancel", "ccancel", "with", "cok", "disc"],
    ["o:cpdrop", "cok", "o:cpdrop", "op", "o:cpdrop", "disc", "o:cpdrop", "cok", "op", "disc"],
    ["cok", "opdown", "op", "opeof", "opeofdown", "opeofdown", "disc", "cok", "opchat", "disc", "cok", "op", "disc"],
    ["o:copy", "cok", "o:cok", "op", "o:disc", "op", "disc", "o:cok", "o:op", "cok", "disc", "o:disc"],
    ["cok", "o:cok", "op", "o:op", "op", "o:disc", "op", "disc", "o:cok", "cok", "o:disc", "op", "disc"],
    ["o:cok", "cok", "op", "disc", "o:op", "with", "withop", "o:disc", "cref", "o:cok", "withx", "o:disc"])]


def streams(ctx):
    rng = ctx.rng
    ctx.run_cases(LIFE, "fixed-scenarios", FIXED, exhaustive=True)
    ctx.run_cases(LIFE, "histories-with-another-client-object-on-the-same-device", [with_another_client(rng, gen(rng)) for _ in range(ctx.n(50, 1000))],
                  exhaustive=False, sample_every=25)
    ctx.run_cases(LIFE, "random-action-sequences", [gen(rng) for _ in range(ctx.n(140, 3000))], exhaustive=False, sample_every=60)
    ctx.run_cases(ANY, "unrestricted-sequences", [gen_any(rng) for _ in range(ctx.n(60, 1200))], exhaustive=False, sample_every=30)


def search(ctx, broken):
    rng = ctx.rng
    for a in FIXED + [gen(rng) for _ in range(300)]:
        o = _impl(a)
        js = [j for j in _judge(a, o) if j[1] != "0"]
        if js:
            return {"kind": "client-life", "args": a, "impl": o, "judge": js[0][0], "expected": "invariant", "got": js[0][1]}
    return None
