"""C15 — the IR command built is the stored code that best matches the request."""
import json
import os
import tempfile

import apiharness as H
import common as C
import gens as G

RULE = ("generated IR sets (toggle / non-toggle, separate-swing ids and ordinary ids, sparse and dense key coverage, texts of 1..2000 "
        "bytes, duplicate keys) loaded through the real SwitcherBreezeRemote (a sample through SwitcherBreezeRemoteManager and a temp "
        "JSON) x requests over 2 states x 5 modes x temperatures 0..60 x 4 fan levels x 2 swings x previous {none, on, off}; the "
        "command (payload + length field) must equal the Spec's (specjudge c15: most specific stored key, clamped temperature, "
        "'off' / toggle prefix rules, refusal of unsupported modes) and the model's; capabilities compared with Spec.c15caps; histories of the remote "
        "manager (database files written, replaced, removed; several managers; get_remote in any order; object identity and a command per answer) against Model.Manager; "
        "non-trivial = distinct (set class, request class, outcome class)")
ASSUMPTIONS = ["ASCII keys and texts; re.match / str.isdigit modelled for ASCII", "the error message text is only checked to name every supported mode"]

STATES, MODES, FANS, SWINGS = ["ON", "OFF"], ["AUTO", "DRY", "FAN", "COOL", "HEAT"], ["LOW", "MEDIUM", "HIGH", "AUTO"], ["OFF", "ON"]


def _remote(ir):
    from aioswitcher.api.remotes import SwitcherBreezeRemote
    return SwitcherBreezeRemote(ir)


def _impl(a):
    from aioswitcher.device import DeviceState, ThermostatFanLevel, ThermostatMode, ThermostatSwing
    try:
        r = a.get("_r") or _remote(a["ir"])
    except Exception as e:  # noqa
        return "ctor-raise " + C.exc_name(e)
    st, md, tt, fan, sw, cur = a["req"]
    try:
        c = C.call_in_form(r.build_command, ("state", "mode", "target_temp", "fan_level", "swing", "current_state"),
                           (DeviceState[st], ThermostatMode[md], tt, ThermostatFanLevel[fan], ThermostatSwing[sw],
                            None if cur is None else DeviceState[cur]), a.get("form", "positional"))
        return f"ok {c.command} {c.length}"
    except RuntimeError as e:
        # the message must name every supported mode
        names = [m.display for m in r.supported_modes]
        return "raise RuntimeError" + ("" if all(n in str(e) for n in names) else " message-omits-a-supported-mode")
    except Exception as e:  # noqa
        return "raise " + C.exc_name(e)


def _tok(a):
    st, md, tt, fan, sw, cur = a["req"]
    return f"{H.ir_token(a['ir'])} {st} {md} {tt} {fan} {sw} {cur or '-'}"


def _cls(a, o):
    st, md, tt, fan, sw, cur = a["req"]
    return f"{'toggle' if a['ir']['OnOffType'] == 1 else 'plain'}:{st}:{md}:{'raise' if o.startswith('raise') else o.split()[0]}"


BUILD = C.Kind("build_command", impl=_impl, model=lambda a: "irbuild " + _tok(a),
               judge=lambda a, o: [] if o.startswith("ctor-raise") else [("c15 " + _tok(a), o)],
               classify=_cls,
               nontrivial=lambda a, o: (a["ir"]["OnOffType"], a["ir"]["IRSetID"] in G.SPECIAL_IDS, tuple(a["req"][:2]), a["req"][2] // 5, tuple(a["req"][3:]),
                                        o.split()[0], len(o) // 64))


def _impl_swing(a):
    from aioswitcher.device import ThermostatSwing
    try:
        r = H.make_remote(a["ir"]) if a.get("form") else _remote(a["ir"])      # with a form: ONE remote object per IR set, asked repeatedly
    except Exception as e:  # noqa
        return "ctor-raise " + C.exc_name(e)
    try:
        c = r.build_swing_command(swing=ThermostatSwing[a["swing"]]) if a.get("form") == "keyword" else r.build_swing_command(ThermostatSwing[a["swing"]])
        return f"ok {c.command} {c.length}"
    except Exception as e:  # noqa
        return "raise " + C.exc_name(e)


SWING = C.Kind("build_swing_command", impl=_impl_swing, model=lambda a: f"irswing {H.ir_token(a['ir'])} {a['swing']}",
               judge=lambda a, o: [] if o.startswith("ctor-raise") else [(f"c15swing {H.ir_token(a['ir'])} {a['swing']}", o)],
               classify=lambda a, o: "swing:" + o.split()[0], nontrivial=lambda a, o: (a["swing"], o[:40]))


def _impl_caps(a):
    try:
        if a.get("via_manager"):
            from aioswitcher.api.remotes import SwitcherBreezeRemoteManager
            with tempfile.NamedTemporaryFile("w", suffix=".json", dir=C.workdir(), delete=False) as f:
                json.dump({a["ir"]["IRSetID"]: a["ir"], "OTHER": {"IRSetID": "OTHER", "OnOffType": 0, "IRWaveList": []}}, f)
            m = SwitcherBreezeRemoteManager(f.name)
            r = m.get_remote(a["ir"]["IRSetID"])
            assert m.get_remote(a["ir"]["IRSetID"]) is r       # cached
            os.unlink(f.name)
        else:
            r = _remote(a["ir"])
    except Exception as e:  # noqa
        return "ctor-raise " + C.exc_name(e)
    # what a caller does with the list it was handed (sort it, drop entries while filtering, clear it) is the caller's business:
    # the remote must answer the same afterwards
    handed = r.supported_modes
    try:
        handed.reverse()
        del handed[1:]
    except Exception:  # noqa
        pass
    return (f"caps modes={','.join(m.name for m in r.supported_modes)} min={r.min_temperature} max={r.max_temperature} "
            f"toggle={int(r.on_off_type)} sepswing={int(r.separated_swing_command)} id={C.ut(r.remote_id)}")


CAPS = C.Kind("capabilities", impl=_impl_caps, model=lambda a: "ircaps " + H.ir_token(a["ir"]),
              judge=lambda a, o: [] if o.startswith("ctor-raise") else [("c15caps " + H.ir_token(a["ir"]), o)],
              classify=lambda a, o: o.split()[0] + (":mgr" if a.get("via_manager") else ""), nontrivial=lambda a, o: o[:80])
# --- the remote manager as a state machine: files written / replaced / removed, several managers, get_remote in any order -----------
def _mgr_tok(act):
    k = act[0]
    if k == "new":
        return f"new@{act[1]}"
    if k == "rm":
        return f"rm@{act[1]}"
    if k == "wr":
        return "@".join(["wr", str(act[1])] + [x for key, ir in act[2] for x in (C.ut(key), H.ir_token(ir))])
    st, md, tt, fan, sw, cur = act[3]
    return f"get@{act[1]}@{C.ut(act[2])}@{st}@{md}@{tt}@{fan}@{sw}@{cur or '-'}"


def _impl_mgr(a):
    from aioswitcher.api.remotes import SwitcherBreezeRemoteManager
    from aioswitcher.device import DeviceState, ThermostatFanLevel, ThermostatMode, ThermostatSwing
    d = tempfile.mkdtemp(dir=C.workdir())
    path = lambda p: os.path.join(d, f"db{p}.json")          # noqa: E731
    mgrs, objs, outs = [], [], []
    try:
        for act in a["acts"]:
            k = act[0]
            if k == "new":
                mgrs.append(SwitcherBreezeRemoteManager(path(act[1])))
                outs.append("done")
            elif k == "rm":
                if os.path.exists(path(act[1])):
                    os.unlink(path(act[1]))
                outs.append("done")
            elif k == "wr":
                tmp = path(act[1]) + ".new"                      # replaced the way a careful updater does it: write aside, rename over
                with open(tmp, "w") as f:
                    json.dump({key: ir for key, ir in act[2]}, f)
                os.replace(tmp, path(act[1]))
                outs.append("done")
            else:
                try:
                    r = mgrs[act[1]].get_remote(act[2])
                except Exception as e:  # noqa
                    outs.append("raise " + C.exc_name(e))
                    continue
                n = next((i for i, o in enumerate(objs) if o is r), None)
                if n is None:
                    objs.append(r)
                    n = len(objs) - 1
                caps = (f"obj{n} modes={','.join(m.name for m in r.supported_modes)} min={r.min_temperature} max={r.max_temperature} "
                        f"toggle={int(r.on_off_type)} sepswing={int(r.separated_swing_command)} id={C.ut(r.remote_id)}")
                st, md, tt, fan, sw, cur = act[3]
                try:
                    c = r.build_command(DeviceState[st], ThermostatMode[md], tt, ThermostatFanLevel[fan], ThermostatSwing[sw],
                                        None if cur is None else DeviceState[cur])
                    outs.append(caps + f" | ok {c.command} {c.length}")
                except Exception as e:  # noqa
                    outs.append(caps + " | raise " + C.exc_name(e))
    finally:
        import shutil
        shutil.rmtree(d, ignore_errors=True)
    return " ; ".join(outs)


def gen_mgr_history(rng, small=False):
    ids = rng.sample(["ELEC7022", "DLK10", "X", "ZM079055", "AUX01"], 3)
    npaths = rng.choice([1, 2, 2, 3])
    acts, nm = [], 0
    acts.append(("wr", 0, [(i, G.gen_irset(rng, dense=False)) for i in ids[:rng.randrange(1, 4)]]))
    for _ in range(rng.randrange(4, 9 if small else 16)):
        x = rng.random()
        if nm == 0 or x < 0.15:
            acts.append(("new", rng.randrange(npaths)))
            nm += 1
        elif x < 0.35:
            db = []
            for i in ids[:rng.randrange(1, 4)]:
                ir = G.gen_irset(rng, dense=rng.random() < 0.2)
                if rng.random() < 0.6:
                    ir["IRSetID"] = i
                db.append((i, ir))
            acts.append(("wr", rng.randrange(npaths), db))
        elif x < 0.42:
            acts.append(("rm", rng.randrange(npaths)))
        else:
            acts.append(("get", rng.randrange(nm), rng.choice(ids + ["NONE"] if rng.random() < 0.1 else ids), gen_request(rng)))
    return {"acts": acts}


def _shrink_mgr(a):
    acts = a["acts"]
    for i in range(len(acts)):
        if acts[i][0] == "new":          # dropping a manager would renumber the others
            continue
        yield {"acts": acts[:i] + acts[i + 1:]}


def _judge_mgr(a, out):
    """Spec (C15) on every answer: the command must be the one `Spec.specCommand` yields for the IR set that the manager's OWN file held
    under the requested id when this manager first loaded it (plain bookkeeping of the history; no model involved)"""
    files, paths, loaded, lines = {}, [], {}, []
    for act, o in zip(a["acts"], out.split(" ; ")):
        k = act[0]
        if k == "new":
            paths.append(act[1])
        elif k == "rm":
            files.pop(act[1], None)
        elif k == "wr":
            files[act[1]] = dict(act[2])
        elif o.startswith("obj") and " | " in o:
            key = (act[1], act[2])
            if key not in loaded:
                ir = files.get(paths[act[1]], {}).get(act[2])
                if ir is None:
                    lines.append(("c15caps ir=u:2d,0", "a remote was returned for an id the manager's file does not hold: " + o[:60]))
                    continue
                loaded[key] = ir
            lines.append(("c15 " + _tok({"ir": loaded[key], "req": act[3]}), o.split(" | ", 1)[1]))
    return lines


MGR = C.Kind("manager_history", impl=_impl_mgr, judge=_judge_mgr, model=lambda a: "mgr " + " ".join(_mgr_tok(x) for x in a["acts"]),
             classify=lambda a, o: f"mgr:len{len(a['acts']) // 4 * 4}:raise{min(2, o.count('raise '))}:objs{min(4, len(set(x.split()[0] for x in o.split(' ; ') if x.startswith('obj'))))}",
             nontrivial=lambda a, o: (tuple(x[0] for x in a["acts"]), o.count("raise"), o.count("obj")),
             shrink=_shrink_mgr)
KINDS = {"build_command": BUILD, "build_swing_command": SWING, "capabilities": CAPS, "manager_history": MGR}


def gen_request(rng):
    return [rng.choice(STATES), rng.choice(MODES), rng.choice([0, 15, 16, 17, 20, 24, 29, 30, 31, 60, rng.randrange(0, 61)]), rng.choice(FANS),
            rng.choice(SWINGS), rng.choice([None, "ON", "OFF"])]


def streams(ctx):
    rng = ctx.rng
    nsets = ctx.n(60, 500)
    builds, swings, caps = [], [], []
    for i in range(nsets):
        ir = G.gen_irset(rng)
        if rng.random() < 0.1:          # duplicate key: the later entry wins
            w = dict(rng.choice(ir["IRWaveList"]))
            w["HexCode"] = "DUP"
            ir["IRWaveList"].append(w)
        if rng.random() < 0.05:
            ir["IRWaveList"].append({"Key": "aa_f7", "Para": "x", "HexCode": "y"})   # fan level the library does not know
        try:
            r = _remote(ir)
        except Exception:
            r = None
        for _ in range(ctx.n(100, 300)):
            builds.append({"ir": ir, "req": gen_request(rng), "_r": r} if r else {"ir": ir, "req": gen_request(rng)})
        swings += [{"ir": ir, "swing": s} for s in SWINGS]
        caps.append({"ir": ir, "via_manager": i % 5 == 0})
    for b in builds:
        b.pop("_r", None) if False else None
    ctx.run_cases(BUILD, "requests-on-generated-ir-sets", builds, exhaustive=False, sample_every=max(1, len(builds) // 3))
    ctx.run_cases(SWING, "separate-swing-commands", swings, exhaustive=False, sample_every=max(1, len(swings) // 2))
    ctx.run_cases(CAPS, "capabilities", caps, exhaustive=False, sample_every=max(1, len(caps) // 2))
    # the same remote OBJECTS asked again with the arguments spelled by keyword (in either order, through partial, mixed): an answer
    # depends on the values asked for, not on how they were passed or on what this remote was asked before
    spelled = [dict(b, form=rng.choice(C.CALL_FORMS[1:])) for b in rng.sample(builds, min(len(builds), ctx.n(1500, 20000)))]
    ctx.run_cases(BUILD, "same-remotes-asked-again-with-arguments-by-keyword", spelled, exhaustive=False, sample_every=max(1, len(spelled) // 3))
    sw2 = [dict(x, form=rng.choice(["keyword", "positional-shared"])) for x in swings for _ in range(2)]
    rng.shuffle(sw2)
    ctx.run_cases(SWING, "swing-commands-asked-repeatedly-of-one-remote-object", sw2, exhaustive=False, sample_every=max(1, len(sw2) // 2))
    # the manager as a state machine: database files written aside and renamed over, removed, several managers on one or several
    # paths, get_remote in any order; every returned object is identified (same object again / a new one) and asked for a command
    hist = [gen_mgr_history(rng) for _ in range(ctx.n(120, 1500))]
    # a fixed one first: read, replace the file, same manager again (same object), a NEW manager on the same path (new content)
    a1, a2 = G.gen_irset(rng, toggle=True, dense=True), G.gen_irset(rng, toggle=False, dense=False)
    a2["IRSetID"] = a1["IRSetID"]
    rq = ["ON", "COOL", 24, "LOW", "OFF", "OFF"]
    hist.insert(0, {"acts": [("wr", 0, [("K", a1)]), ("new", 0), ("get", 0, "K", rq), ("wr", 0, [("K", a2)]), ("get", 0, "K", rq),
                             ("new", 0), ("get", 1, "K", rq), ("new", 1), ("get", 2, "K", rq), ("rm", 0), ("get", 0, "K", rq), ("get", 1, "Q", rq)]})
    ctx.run_cases(MGR, "manager-histories-files-replaced-several-managers", hist, exhaustive=False, sample_every=max(1, len(hist) // 3))
    # payload length boundaries: texts whose payload is 5, 15, 16, 17, 255, 256, 257, 2000 bytes
    lens = []
    for n in (1, 5, 11, 12, 13, 251, 252, 253, 1000, 1996, 2000):
        ir = {"IRSetID": "X", "OnOffType": 0, "IRWaveList": [{"Key": "off", "Para": "P", "HexCode": "A" * max(0, n - 2)}, {"Key": "aa", "Para": "", "HexCode": ""}]}
        lens.append({"ir": ir, "req": ["OFF", "AUTO", 0, "LOW", "OFF", None]})
    ctx.run_cases(BUILD, "payload-length-boundaries", lens, exhaustive=False)


def _strip(a):
    return {k: v for k, v in a.items() if k != "_r"}


def search(ctx, broken):
    rng = ctx.rng
    for _ in range(150):
        ir = G.gen_irset(rng)
        for _ in range(120):
            a = {"ir": ir, "req": gen_request(rng)}
            o = _impl(a)
            if o.startswith("ctor-raise"):
                break
            g = C.run_exe("specjudge", ["c15 " + _tok(a)])[0]
            if g != o:
                return {"kind": "build_command", "args": a, "impl": o, "judge": "c15 " + _tok(a), "expected": o, "got": g}
    return None
