"""C07 — the bridge delivers each valid broadcast once, in order, whatever else arrives."""
import bgen as B
import bridgeharness as BH
import common as C
import props.c05 as c05

RULE = ("datagram sequences (length <= 40) over the alphabet {valid broadcast of each family, foreign, truncated, bit-flipped, unknown "
        "model, undecodable name} sent over loopback UDP to a RUNNING bridge with 1..4 ports, cross-port interleavings, callbacks "
        "that raise on chosen invocations; a sentinel broadcast per datagram is the delivery barrier (no sleeps); the observed "
        "callback invocations (port, device) in order must equal the model's delivery list; non-trivial = distinct (alphabet word, "
        "ports, failure pattern); one stream runs the bridge constructed without a port list, i.e. on the protocol's well-known "
        "ports, with every family on every port; one restarts the bridge first; one sends bursts with nothing in between (the same "
        "broadcast on several ports / twice) and compares the multiset of deliveries")
ASSUMPTIONS = ["PARTIAL: UDP ordering/loss on loopback and asyncio's isolation of exceptions raised in datagram_received are "
               "runtime facts the model assumes (`loopIsolates`); they are exercised here, not proved",
               "one datagram in flight per step, so arrival order is the send order"]


def _impl(a):
    return BH.run_bridge_sequence(a["ports"], [(p, h) for p, h, _ in a["arrivals"]], fail_on=a["fail_on"], wellknown=a.get("wellknown", False),
                                  restart=a.get("restart", False), burst=a.get("burst", False), cbform=a.get("cbform", "function"))


def _model(a):
    return "bridge " + " ".join(f"{p}:{h}" for p, h, _ in a["arrivals"]) if a["arrivals"] else "bridge"


def _judge(a, out):
    """Spec: exactly the datagrams that the Spec encoder produced (kind 'valid') are delivered, in order."""
    if "NOT-RUN" in out:
        return []                   # the bridge had already stopped delivering in earlier sequences: nothing observed, nothing judged
    n_valid = sum(1 for _, _, k in a["arrivals"] if k.startswith("valid"))
    n_out = 0 if out == "-" else len(out.split(" | "))
    lines = []
    if n_out != n_valid:
        lines.append(("c06gate -", f"deliveries={n_out} valid-broadcasts={n_valid}"))
    # each valid one must be delivered as the device the Spec expects, in arrival order
    exp = [(p, f) for p, _, k in a["arrivals"] if k.startswith("valid") for f in [k.split("|", 1)[1]]]
    got = [] if out == "-" else out.split(" | ")
    for (p, f), g in zip(exp, got):
        fam, fields = f.split(" ", 1)
        lines.append((f"c05exp {fam} {fields}", "device " + g.split(" ", 1)[1] if g.split(" ", 1)[0] == str(p) else "wrong-port:" + g[:20]))
    return lines


def _shrink(a):
    BH.GIVE_UP_AFTER = 10 ** 9      # while minimising a failure every candidate is really run
    arr = a["arrivals"]
    for i in range(len(arr)):
        yield dict(a, arrivals=arr[:i] + arr[i + 1:])
    if a["fail_on"]:
        yield dict(a, fail_on=[])


SEQ = C.Kind("bridge-sequence", impl=_impl, model=_model, judge=_judge, compare=lambda m, i: "NOT-RUN" in i or m == i,
             classify=lambda a, o: f"{'wellknown-' if a.get('wellknown') else ''}ports{a['ports']}:len{len(a['arrivals']) // 10 * 10}:fails{min(len(a['fail_on']), 3)}",
             nontrivial=lambda a, o: (a["ports"], a.get("wellknown", False), tuple((p, k.split("|")[0]) for p, _, k in a["arrivals"]), tuple(a["fail_on"])),
             shrink=_shrink)


def _canon_burst(model_out):
    """the model's delivery list as a multiset: ports dropped, devices sorted"""
    if model_out == "-":
        return "-"
    return " | ".join("* " + d for d in sorted(x.split(" ", 1)[1] for x in model_out.split(" | ")))


def _judge_burst(a, out):
    if "NOT-RUN" in out:
        return []
    n_valid = sum(1 for _, _, k in a["arrivals"] if k.startswith("valid"))
    n_out = 0 if out == "-" else len(out.split(" | "))
    return [("c06gate -", "0" if n_out == n_valid else f"deliveries={n_out} valid-broadcasts={n_valid}")]


BURST = C.Kind("bridge-burst", impl=_impl, model=_model, judge=_judge_burst, compare=lambda m, i: "NOT-RUN" in i or _canon_burst(m) == i,
               classify=lambda a, o: f"ports{a['ports']}:len{len(a['arrivals'])}",
               nontrivial=lambda a, o: (a["ports"], tuple((p, k.split("|")[0]) for p, _, k in a["arrivals"])), shrink=_shrink)
KINDS = {"bridge-sequence": SEQ, "bridge-burst": BURST}


def gen_burst(rng, pool):
    """2..8 datagrams sent back to back over 2..4 ports, nothing in between; often the SAME broadcast on several ports (a device
    announcing itself on the old and the new port) or twice on one port: each must be delivered"""
    ports = rng.randrange(2, 5)
    arr = []
    v = rng.choice(pool)
    for _ in range(rng.randrange(2, 9)):
        if rng.random() < 0.5:
            v = rng.choice(pool)          # else: the same broadcast again
        p = rng.randrange(ports)
        if rng.random() < 0.85:
            arr.append((p, v["dgram"], f"valid|{v['family']} {v['fields']}"))
        else:
            arr.append((p, rng.randbytes(rng.randrange(0, 200)).hex() or "-", "foreign"))
    return {"ports": ports, "arrivals": arr, "fail_on": [], "burst": True}


def gen_sequence(rng, pool):
    ports = rng.randrange(1, 5)
    n = rng.choice([1, 2, 5, 10, rng.randrange(1, 41)])
    arr = []
    for _ in range(n):
        p = rng.randrange(ports)
        k = rng.random()
        if arr and rng.random() < 0.12:       # the very same datagram once more (a device repeats itself): on the same port or on another
            last = arr[-1]
            arr.append((last[0] if rng.random() < 0.6 else p, last[1], last[2]))
            continue
        v = rng.choice(pool)
        b = bytes.fromhex(v["dgram"])
        if k < 0.5:
            arr.append((p, v["dgram"], f"valid|{v['family']} {v['fields']}"))
        elif k < 0.6:
            arr.append((p, rng.randbytes(rng.randrange(0, 300)).hex() or "-", "foreign"))
        elif k < 0.7:
            cut = rng.choice([n for n in range(1, len(b)) if n not in (159, 165, 168)])
            arr.append((p, b[:cut].hex(), "truncated"))
        elif k < 0.8:
            c = bytearray(b)
            c[rng.randrange(2)] ^= 1 << rng.randrange(8)      # flip a bit of the magic: no longer a broadcast
            arr.append((p, bytes(c).hex(), "bitflip-magic"))
        elif k < 0.9:
            c = bytearray(b)
            c[74:76] = b"\x99\x99"
            arr.append((p, bytes(c).hex(), "unknown-model"))
        else:
            c = bytearray(b)
            c[42:44] = b"\xff\xfe"                            # undecodable name: parsing raises inside the protocol callback
            arr.append((p, bytes(c).hex(), "undecodable-name"))
    nvalid = sum(1 for x in arr if x[2].startswith("valid"))
    fail_on = sorted(rng.sample(range(1, nvalid + 1), rng.randrange(0, min(3, nvalid) + 1))) if nvalid and rng.random() < 0.5 else []
    return {"ports": ports, "arrivals": arr, "fail_on": fail_on}


def wellknown_sequences(rng, pool, n):
    """a bridge constructed WITHOUT a port list, i.e. on the protocol's well-known broadcast ports: every family on every port
    (the bridge does not care which device talks on which port), plus ordinary mixed sequences"""
    fams = sorted({v["family"] for v in pool})
    every = [(p, v["dgram"], f"valid|{v['family']} {v['fields']}") for f in fams for p in range(4)
             for v in [next(x for x in pool if x["family"] == f)]]
    out = [{"ports": 4, "arrivals": every, "fail_on": [], "wellknown": True}]
    while len(out) < n:
        s = gen_sequence(rng, pool)
        if s["ports"] == 4:
            out.append(dict(s, wellknown=True))
    return out


def streams(ctx):
    rng = ctx.rng
    c05._sync_types()
    pool = B.encode_all([B.gen_device(rng) for _ in range(60)])
    wk = BH.default_ports()
    with BH.WellKnownPorts() as mine:       # one check at a time on this machine uses the protocol's well-known ports
        if mine and len(wk) == 4 and all(BH.bindable(p) for p in wk):
            ctx.run_cases(SEQ, "bridge-on-the-well-known-ports", wellknown_sequences(rng, pool, ctx.n(12, 120)), exhaustive=False, sample_every=5)
        else:
            ctx.notes.append(f"well-known broadcast ports {wk} are not all free in this sandbox: that stream was skipped")
    ctx.run_cases(SEQ, "sequences-on-a-running-bridge", [gen_sequence(rng, pool) for _ in range(ctx.n(150, 3000))], exhaustive=False,
                  sample_every=70)
    ctx.run_cases(SEQ, "sequences-on-a-bridge-that-was-stopped-and-started-again",
                  [dict(gen_sequence(rng, pool), restart=True) for _ in range(ctx.n(15, 300))], exhaustive=False, sample_every=7)
    # the callback handed over as an inline lambda, a bound method of an object nobody else keeps, a partial, a callable object - and
    # a second start() attempted (in vain) on the running bridge before the traffic
    forms = [dict(gen_sequence(rng, pool), cbform=f) for f in BH.CALLBACK_FORMS[1:] for _ in range(ctx.n(4, 60))]
    ctx.run_cases(SEQ, "callbacks-of-other-kinds-that-only-the-bridge-refers-to", forms, exhaustive=False, sample_every=7)
    # a bridge that has been running for a while: 150 valid broadcasts in a row through one bridge, every one delivered
    long = []
    for _ in range(ctx.n(2, 10)):
        vs = [rng.choice(pool) for _ in range(150)]
        long.append({"ports": 1, "arrivals": [(0, v["dgram"], f"valid|{v['family']} {v['fields']}") for v in vs], "fail_on": [], "burst": True})
    ctx.run_cases(BURST, "150-broadcasts-in-a-row-through-one-bridge", long, exhaustive=False)
    ctx.run_cases(BURST, "bursts-without-anything-in-between", [gen_burst(rng, pool) for _ in range(ctx.n(40, 800))], exhaustive=False,
                  sample_every=19)


def search(ctx, broken):
    rng = ctx.rng
    c05._sync_types()
    pool = B.encode_all([B.gen_device(rng) for _ in range(60)])
    for _ in range(400):
        a = gen_sequence(rng, pool)
        o = _impl(a)
        js = _judge(a, o)
        got = C.run_exe("specjudge", [l for l, _ in js])
        bad = [(l, e, g) for (l, e), g in zip(js, got) if g != e]
        if bad:
            def still(x):
                oo = _impl(x)
                jj = _judge(x, oo)
                return any(g2 != e2 for (_, e2), g2 in zip(jj, C.run_exe("specjudge", [j for j, _ in jj])))
            small = C.shrink_case(SEQ, a, still, budget=80)
            o2 = _impl(small)
            jj = _judge(small, o2)
            g2 = C.run_exe("specjudge", [j for j, _ in jj])
            b2 = [(l, e, g) for (l, e), g in zip(jj, g2) if g != e] or bad
            return {"kind": "bridge-sequence", "args": small, "impl": o2, "judge": b2[0][0], "expected": b2[0][1], "got": b2[0][2]}
    return None
