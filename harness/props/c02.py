"""C02 — each operation's frame encodes exactly that operation and the caller's arguments."""
import datetime

import apiharness as H
import common as C
import gens as G

RULE = ("cases = type-1 operations and shutter operations x argument values from the property's domains (minutes 0..2^32/60 and "
        "beyond, timedeltas at second and microsecond resolution around both range ends, names of 0..40 characters over ASCII / "
        "Hebrew / accented / 4-byte code points, slot ids, all day sets x start/end minutes, positions) x random id/key/session "
        "id/clock/zone; the command frame must EQUAL the Spec's reference frame of the semantic arguments (computed by the "
        "harness independently of the code), rejected arguments must raise with only the login frame written; "
        "non-trivial = distinct (operation, accepted?, argument class)")
ASSUMPTIONS = ["semantic arguments (seconds, UTF-8 bytes, day mask, epoch of HH:MM today) are computed by the harness with plain "
               "integer/datetime arithmetic, independent of the library's encoders",
               "scripted in-memory streams; time frozen with time_machine; fixed-offset host zones"]


def semantic(case):
    """-> (spec op tokens or None if the property does not define the encoding, accepted?)"""
    r = case["req"]
    op = r["op"]
    if op == "getState":
        return "getstate1", True
    if op == "getschedules":
        return "getschedules", True
    if op == "stop":
        return "stop", True
    if op == "getshutter":
        return "getstate2", True
    if op == "control":
        m = r["minutes"]
        if m < 0:
            return None, True
        return f"control {int(r['on'])} {m}", 60 * m < 2 ** 32
    if op == "autoshutdown":
        s = 60 * (r["micros"] // 60_000_000)
        return f"autooff {max(s, 0)}", 3600 <= s <= 86340
    if op == "setname":
        n = r["name"]
        try:
            u = n.encode()
        except UnicodeEncodeError:
            return None, False
        return f"setname {len(n)} {C.hx(u)}", len(n) >= 2 and len(u) <= 32
    if op == "delsched":
        i = r["id"]
        if len(i) == 1 and i in "0123456789abcdef":
            return f"delsched {int(i, 16)}", True
        return None, None      # outside the property's domain (slot ids are single digits)
    if op == "setpos":
        p = r["pos"]
        if 0 <= p <= 100:
            return f"setpos {p}", True
        return None, None
    if op == "createsched":
        def hm(s):
            parts = s.split(":")
            if len(parts) != 2 or not all(1 <= len(p) <= 2 and p.isascii() and p.isdigit() for p in parts):
                return None
            h, m = int(parts[0]), int(parts[1])
            return h * 60 + m if h < 24 and m < 60 else None
        a, b = hm(r["start"]), hm(r["stop"])
        days = r["days"]
        dup = len(set(days)) != len(days)
        if a is None or b is None or dup:
            known = (r["start"].split(":")[0] != r["start"].split(":")[0].lstrip() or r["start"].count(":") > 1
                     or r["stop"].split(":")[0] != r["stop"].split(":")[0].lstrip() or r["stop"].count(":") > 1)
            return ("known-F8" if known and not dup and C.finding_open("F8") else None), False
        off = H.FIXED_ZONES[case.get("tz", "UTC")]
        now = H.clock_reading(case)
        # "today" is read by the library from the frozen clock itself (not its rounding)
        day = int((float(case["now"]) + off) // 86400)
        ta, tb = day * 86400 + a * 60 - off, day * 86400 + b * 60 - off
        if not (0 <= ta < 2 ** 32 and 0 <= tb < 2 ** 32):
            return None, None
        return f"createsched {sum(2 ** (d + 1) for d in days)} {ta} {tb}", True
    return None, None


def _ids(case):
    login = bytes.fromhex(case["replies"][0])
    sid = login[8:12].hex()
    ts = H.clock_reading(case).to_bytes(4, "little").hex() if 0 <= H.clock_reading(case) < 2 ** 32 else None
    return sid, ts


def _judge(case, out):
    spec, acc = semantic(case)
    login = bytes.fromhex(case["replies"][0]) if case["replies"][0] != "-" else b""
    if len(login) < 12 or acc is None:
        return []
    sid, ts = _ids(case)
    if ts is None:
        return []
    frames = H.frames_of(out)
    outcome = H.outcome_of(out)
    lop = "login2" if case["req"]["op"] in H.TYPE2_OPS else "login1"
    lines = []
    if frames:
        lines.append((f"c02 00000000 {ts} {case['did']} {case['key']} {C.hx(frames[0])} {lop}", "1"))
    if acc:
        if spec is None:
            return lines
        if len(frames) < 2:
            lines.append((f"c02acc {spec}", "accepted-arguments-but-no-command-frame: " + outcome))
        else:
            lines.append((f"c02 {sid} {ts} {case['did']} {case['key']} {C.hx(frames[1])} {spec}", "1"))
    else:
        if spec == "known-F8":
            return lines
        if not outcome.startswith("raise") or len(frames) != 1:
            lines.append(("c02acc login1", f"rejected-arguments-must-raise-and-write-no-command-frame: {len(frames)} frames, {outcome}"))
        elif spec is not None:
            lines.append((f"c02acc {spec}", "0"))
    return lines


def _known(case, out):
    spec, acc = semantic(case)
    if spec == "known-F8" and not H.outcome_of(out).startswith("raise"):
        return "F8"
    return None


def _nontrivial(case, out):
    spec, acc = semantic(case)
    import props.c01 as c01
    return (case["req"]["op"], acc, c01._arg_class(case["req"]), (spec or "").split(" ")[0])


import props.c01 as _c01  # noqa: E402

OPARGS = C.Kind("op-arguments", impl=H.run_case, model=H.model_line, judge=_judge, known=_known, compare=H.same("class"),
                classify=lambda c, o: f"{c['req']['op']}:{'accepted' if semantic(c)[1] else 'rejected' if semantic(c)[1] is False else 'outside'}",
                nontrivial=_nontrivial, shrink=_c01._shrink)
KINDS = {"op-arguments": OPARGS}
OPS = ["getState", "control", "autoshutdown", "setname", "getschedules", "delsched", "createsched", "stop", "setpos", "getshutter"]


# ---- create_schedule on hosts whose zone changes its clocks: the two clock fields of the frame, read back through the zone table ----

import zoneharness as Z  # noqa: E402


def _impl_zoned(a):
    zone, now, start, stop, days = a
    return H.run_case({"did": "a123bc", "key": "18", "now": now, "tz": zone, "replies": [H.login_reply(b"\x01\x02\x03\x04"), "00"],
                       "req": {"op": "createsched", "start": start, "stop": stop, "days": days, "form": "set"}})


def _judge_zoned(a, out):
    """Spec: the frame's start and end fields are instants that show the requested HH:MM on today's local date in that zone (decoded
    with the zone's own table by the Spec)"""
    zone, now, start, stop, days = a
    frames = H.frames_of(out)
    if len(frames) != 2:
        return [("h2l z=0 -", f"two-frames-expected: {len(frames)} ({H.outcome_of(out)[:40]})")]
    h = frames[1].hex()
    tok = Z.zone_token(zone, now)
    # (a wall time inside a spring-forward gap does not exist that day: the Spec then only asks that nothing was raised)
    return [(f"c11exists {tok} {int(now // 1)} {int(t[:2])} {int(t[3:])} {fld} {t}", "1") for t, fld in ((start, h[174:182]), (stop, h[182:190]))]


ZONED = C.Kind("create_schedule-in-a-zone", impl=_impl_zoned, judge=_judge_zoned, classify=lambda a, o: a[0],
               nontrivial=lambda a, o: (a[0], int(a[1] // 3600), a[2], a[3]))


KINDS["create_schedule-in-a-zone"] = ZONED


def _zoned_cases(rng, n_instants):
    out = []
    for zone in ("Asia/Jerusalem", "America/New_York", "Australia/Lord_Howe", "Europe/London", "Asia/Kathmandu"):
        tr = Z.transitions_near(zone)
        nows = [t + d for t in tr[:6] for d in (-7200, 1800, 30000)] + Z.interesting_instants(rng, zone, 4)
        for now in nows[:n_instants]:
            for _ in range(3):
                a, b = rng.randrange(1440), rng.randrange(1440)
                out.append((zone, float(now), "%02d:%02d" % divmod(a, 60), "%02d:%02d" % divmod(b, 60), sorted(rng.sample(range(7), rng.randrange(0, 4)))))
    return out


def _targeted(rng):
    out = []
    base = {"did": "a123bc", "key": "18", "now": 1700000000.0, "tz": "UTC", "replies": [H.login_reply(b"\x01\x02\x03\x04"), "00"]}
    for m in list(range(0, 201)) + [2 ** 32 // 60 + d for d in range(-2, 3)]:
        out.append(dict(base, req={"op": "control", "on": m % 2, "minutes": m}))
    # whole days must count: a value that is in range only modulo 24 h is out of range
    far = [86400 + 3600, 86400 + 7200, 90000, 2 * 86400, 2 * 86400 + 5000, 365 * 86400 + 40000, -7200, -86400 + 7200, -86400, -3 * 86400 + 50000]
    for s in list(range(3540, 3720)) + list(range(86280, 86460)) + [-60, 0, 59, 60] + far:
        for us in (0, 1, 999_999):
            out.append(dict(base, req={"op": "autoshutdown", "micros": s * 1_000_000 + us}))
    for i in "01234567":
        out.append(dict(base, req={"op": "delsched", "id": i}))
    for p in range(0, 101):
        out.append(dict(base, req={"op": "setpos", "pos": p}))
    import itertools
    grid = [0, 1, 59, 60, 719, 720, 1380, 1439]
    subsets = [list(c) for r in range(0, 8) for c in itertools.combinations(range(7), r)]
    for k, ds in enumerate(subsets):
        a, b = grid[k % len(grid)], grid[(k // 8) % len(grid)]
        out.append(dict(base, tz=list(H.FIXED_ZONES)[k % 5], req={"op": "createsched", "start": "%02d:%02d" % divmod(a, 60),
                                                                 "stop": "%02d:%02d" % divmod(b, 60), "days": ds, "form": "set"}))
    return out


def streams(ctx):
    rng = ctx.rng
    ctx.run_cases(OPARGS, "targeted-boundaries", _targeted(rng), exhaustive=False, sample_every=301)
    ctx.run_cases(OPARGS, "names-0..40-chars-4-scripts",
                  [{"did": "a123bc", "key": "18", "now": 1700000000.5, "tz": "UTC", "req": {"op": "setname", "name": G.gen_name(rng)},
                    "replies": [G.gen_login(rng), "00"]} for _ in range(ctx.n(1500, 40000))], exhaustive=False, sample_every=700)
    zc = _zoned_cases(rng, ctx.n(8, 40))
    ctx.run_cases(ZONED, "create_schedule-on-days-the-clocks-change", zc, exhaustive=False, sample_every=max(1, len(zc) // 2))
    per = ctx.n(250, 5000)
    for op in OPS:
        ctx.run_cases(OPARGS, f"random-{op}", [G.gen_case(rng, op) for _ in range(per)], exhaustive=False, sample_every=max(1, per // 2))


def known_witness(entry):
    """replay the recorded witnesses of an open finding on the implementation"""
    if entry["id"] != "F8":
        return None
    hits = []
    for w in entry["witnesses"]:
        case = {"did": "a123bc", "key": "18", "now": 1700000000.0, "tz": "UTC", "req": {"op": "createsched", "start": w, "stop": "22:00",
                "days": [0], "form": "set"}, "replies": [H.login_reply(b"\x01\x02\x03\x04"), "00"]}
        out = H.run_case(case)
        if not H.outcome_of(out).startswith("raise"):
            hits.append(w)
    return hits or None


def search(ctx, broken):
    rng = ctx.rng
    cases = _targeted(rng) + [G.gen_case(rng, rng.choice(OPS)) for _ in range(5000)]
    outs = [H.run_case(c) for c in cases]
    lines, meta = [], []
    for c, o in zip(cases, outs):
        if _known(c, o):
            continue
        for l, e in _judge(c, o):
            lines.append(l)
            meta.append((c, o, e))
    got = C.run_exe("specjudge", lines)
    for (c, o, e), l, g in zip(meta, lines, got):
        if g != e:
            def still(x):
                oo = H.run_case(x)
                if _known(x, oo):
                    return False
                js = _judge(x, oo)
                return any(a != b for a, b in zip(C.run_exe("specjudge", [j for j, _ in js]), [e2 for _, e2 in js]))
            small = C.shrink_case(OPARGS, c, still)
            o2 = H.run_case(small)
            bad = [(j, e2, C.run_exe("specjudge", [j])[0]) for (j, e2) in _judge(small, o2)]
            bad = [b for b in bad if b[1] != b[2]] or [(l, e, g)]
            return {"kind": "op-arguments", "args": small, "impl": o2, "judge": bad[0][0], "expected": bad[0][1], "got": bad[0][2]}
    return None
