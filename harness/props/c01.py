"""C01 — every frame written to a device is self-consistent and correctly signed."""
import apiharness as H
import common as C
import gens as G

RULE = ("cases = (operation of either API incl. thermostat control with generated IR sets of text length 1..2000, argument values "
        "from accepted and rejected domains, random 3-byte id (also with leading zeros / upper case), 1-byte key, random 4-byte "
        "session id in login replies of 12..100 bytes, clock readings over the whole 32-bit range with fractional parts, 5 fixed-"
        "offset zones); one api object used for a while (reconnected, failed logins in between), also against a device that takes 0.5 s .. 2 min "
        "over some replies under a virtual loop clock; every frame the real API object writes is judged by Spec.wellFormedB and compared with the model's frame; "
        "non-trivial = distinct (operation, argument class, frame-length bucket, outcome class)")
ASSUMPTIONS = ["asyncio stream objects replaced by scripted in-memory reader/writer (the real connect()/write/read code path of "
               "the API classes runs); time frozen with time_machine; host zone set with TZ + tzset",
               "theorems cover device ids/keys that are 6/2 hex characters and login replies of >= 12 bytes (the property's premise)"]


def _judge(case, out):
    frames = H.frames_of(out)
    lines = []
    login_ok = len(bytes.fromhex(case["replies"][0])) >= 12 if case["replies"] and case["replies"][0] != "-" else False
    for i, f in enumerate(frames):
        if i == 0 or login_ok:
            lines.append(("wf " + C.hx(f), "1"))
    return lines


def _arg_class(req):
    op = req["op"]
    if op == "setname":
        n = req["name"]
        return f"chars{min(len(n), 33)}bytes{'>' if len(n.encode()) > 32 else '<='}32{'ascii' if n.isascii() else 'multi'}"
    if op == "control":
        return "timer" if req["minutes"] > 0 else "notimer"
    if op == "ctlbreeze":
        return f"upd{req['upd']}sw{req['swing']}sep{req['ir']['IRSetID'] in G.SPECIAL_IDS}"
    if op == "createsched":
        return f"days{len(req['days'])}{req['form']}"
    return ""


def _nontrivial(case, out):
    fr = H.frames_of(out)
    return (case["req"]["op"], _arg_class(case["req"]), tuple(len(f) // 16 for f in fr), H.outcome_of(out).split()[0])


def _shrink(case):
    c = dict(case)
    if len(case["replies"]) > 1:
        yield dict(c, replies=case["replies"][:-1])
    if case["now"] != 1700000000.0:
        yield dict(c, now=1700000000.0)
    if case.get("tz") != "UTC":
        yield dict(c, tz="UTC")
    if case["did"] != "a123bc":
        yield dict(c, did="a123bc", key="18")
    r = case["req"]
    if r["op"] == "setname" and len(r["name"]) > 2:
        yield dict(c, req=dict(r, name=r["name"][:-1]))
        yield dict(c, req=dict(r, name=r["name"][1:]))
    if r["op"] == "ctlbreeze" and len(r["ir"]["IRWaveList"]) > 1:
        w = r["ir"]["IRWaveList"]
        for i in range(len(w)):
            yield dict(c, req=dict(r, ir=dict(r["ir"], IRWaveList=w[:i] + w[i + 1:])))


OPFRAMES = C.Kind("op-frames", impl=H.run_case, model=H.model_line, judge=_judge, compare=H.same("frames"),
                  classify=lambda c, o: f"{c['req']['op']}:{H.outcome_of(o).split()[0]}:{len(H.frames_of(o))}frames",
                  nontrivial=_nontrivial, shrink=_shrink)
import histharness as HH  # noqa: E402


def _judge_hist(hist, out):
    lines = []
    for inst, outs in zip(hist["instances"], HH.split_history_output(hist, out)):
        for op, o in zip(inst["ops"], outs):
            lines += _judge({"did": inst["did"], "key": inst["key"], "now": op["now"], "tz": hist.get("tz", "UTC"), "req": op["req"],
                             "replies": op["replies"]}, o)
    return lines


def gen_reconnecting(rng):
    """ONE api object used for a while: operations in quick succession and after long pauses, the object disconnected and connected
    again in between (at once, and much later), failed exchanges in between - every frame it ever writes is well formed"""
    api = rng.choice(["type1", "type2"])
    pool = [o for o in G.ALL_OPS if (o in H.TYPE2_OPS) == (api == "type2") and o != "createsched"]
    did, key = G.gen_ids(rng)
    now, ops = float(rng.randrange(1_600_000_000, 1_900_000_000)), []
    for k in range(rng.randrange(2, 9)):
        c = G.gen_case(rng, rng.choice(pool))
        now += rng.choice([0, 1, 2, 9, 11, 3600])
        if rng.random() < 0.25:
            c["replies"][0] = "-" if rng.random() < 0.5 else c["replies"][0][:16]     # the login of this exchange fails
        ops.append({"now": now, "req": c["req"], "replies": c["replies"], "reconnect": bool(k and rng.random() < 0.5)})
    return {"tz": "UTC", "instances": [{"did": did, "key": key, "api": api, "ops": ops}], "schedule": []}


LONGUSE = C.Kind("one-api-object-used-for-a-while", impl=HH.run_history, model=HH.model_lines, assemble=HH.assemble, judge=_judge_hist,
                 compare=H.same("frames"), classify=lambda h, o: f"{h['instances'][0]['api']}:{len(h['instances'][0]['ops'])}ops",
                 nontrivial=lambda h, o: o[:160],
                 shrink=lambda h: [dict(h, instances=[dict(h["instances"][0], ops=h["instances"][0]["ops"][:j] + h["instances"][0]["ops"][j + 1:])])
                                   for j in range(len(h["instances"][0]["ops"])) if len(h["instances"][0]["ops"]) > 1])
KINDS = {"op-frames": OPFRAMES, "one-api-object-used-for-a-while": LONGUSE}


def _targeted(rng):
    """the regions this code is fragile in: long IR texts (total >= 256), multi-byte names at the 32-byte boundary"""
    out = []
    for n in (1, 5, 15, 16, 17, 160, 164, 165, 166, 255, 256, 257, 1000, 2000):
        ir = {"IRSetID": rng.choice(["ELEC7001", "ELEC7022"]), "OnOffType": 0,
              "IRWaveList": [{"Key": "aa_f1", "Para": "P", "HexCode": "A" * max(0, n - 2)}, {"Key": "FUN_d1", "Para": "S", "HexCode": "B" * n},
                             {"Key": "off", "Para": "O", "HexCode": "C" * n}]}
        for st, sw in (("ON", None), ("OFF", None), ("ON", "ON")):
            out.append({"did": "a123bc", "key": "18", "now": 1700000000.0, "tz": "UTC",
                        "req": {"op": "ctlbreeze", "ir": ir, "state": st, "mode": "AUTO", "temp": 0, "fan": "LOW", "swing": sw, "upd": 0},
                        "replies": [H.login_reply(b"\x01\x02\x03\x04"), H.thermo_reply(), "00", "00"]})
    for ch in ("a", "é", "ש", "😀"):
        for n in range(0, 36):
            out.append({"did": "00ab12", "key": "00", "now": 1700000000.5, "tz": "UTC", "req": {"op": "setname", "name": ch * n},
                        "replies": [H.login_reply(b"\xaa\xbb\xcc\xdd"), "00"]})
    return out


def streams(ctx):
    rng = ctx.rng
    ctx.run_cases(OPFRAMES, "targeted-lengths-and-names", _targeted(rng), exhaustive=False, sample_every=37)
    ctx.run_cases(LONGUSE, "one-api-object-reconnected-and-used-again", [gen_reconnecting(rng) for _ in range(ctx.n(150, 3000))], exhaustive=False,
                  sample_every=70)
    ctx.run_cases(LONGUSE, "one-api-object-and-a-device-that-is-slow-to-answer-under-a-virtual-clock",
                  [HH.with_slow_replies(rng, gen_reconnecting(rng)) for _ in range(ctx.n(80, 1500))], exhaustive=False, sample_every=40)
    # thermostat control that sends the main command AND the separate swing command, the device slow over the state reply or the
    # acknowledgement in between: the clock second ticks between the login and the later frames of the same exchange
    tick = []
    for _ in range(ctx.n(40, 600)):
        c = G.gen_case(rng, "ctlbreeze")
        c["req"] = dict(c["req"], ir=G.gen_irset(rng, special=True, dense=True), swing=rng.choice(["ON", "OFF"]), upd=0, state=c["req"].get("state") or "ON")
        d = [0.0] * len(c["replies"])
        d[rng.choice([1, 2, 2])] = rng.choice([1.0, 1.6, 3.5, 61.0])
        tick.append({"tz": "UTC", "schedule": [], "virtual_clock": True,
                     "instances": [{"did": c["did"], "key": c["key"], "api": "type2", "ops": [{"now": c["now"], "req": c["req"], "replies": c["replies"], "delays": d}]}]})
    ctx.run_cases(LONGUSE, "command-plus-separate-swing-with-the-clock-ticking-in-between", tick, exhaustive=False, sample_every=20)
    per = ctx.n(220, 4500)
    for op in G.ALL_OPS:
        ctx.run_cases(OPFRAMES, f"random-{op}", [G.gen_case(rng, op) for _ in range(per if op != "ctlbreeze" else per * 2)],
                      exhaustive=False, sample_every=max(1, per // 2))


def search(ctx, broken):
    rng = ctx.rng
    cases = _targeted(rng) + [G.gen_case(rng) for _ in range(4000)]
    outs = [H.run_case(c) for c in cases]
    lines, meta = [], []
    for c, o in zip(cases, outs):
        for l, e in _judge(c, o):
            lines.append(l)
            meta.append((c, o, e))
    got = C.run_exe("specjudge", lines)
    for (c, o, e), l, g in zip(meta, lines, got):
        if g != e:
            def still(x):
                oo = H.run_case(x)
                js = _judge(x, oo)
                return any(a != b for a, b in zip(C.run_exe("specjudge", [j for j, _ in js]), [e2 for _, e2 in js]))
            small = C.shrink_case(OPFRAMES, c, still)
            o2 = H.run_case(small)
            bad = [(j, e2) for (j, e2) in _judge(small, o2) if C.run_exe("specjudge", [j])[0] != e2]
            return {"kind": "op-frames", "args": small, "impl": o2, "judge": bad[0][0] if bad else l, "expected": "1", "got": "0"}
    return None
