"""C17 — the bridge listens exactly while running and leaves nothing behind."""
import common as C
import lifeharness as L

RULE = ("action sequences (length <= 25) over {start, stop, enter/leave the async context, send a valid broadcast to port i, another "
        "socket occupies / releases port i, a start() whose task is cancelled while it is suspended in the bind of port k} on a REAL SwitcherBridge with 1..4 ephemeral UDP ports; after every action: what the caller "
        "saw (ok / OSError), is_running, whether a broadcast was delivered, and for every configured port whether the bridge still "
        "holds it (probe bind after the loop has cycled) are compared with the model; the Spec judge re-checks the invariant on the "
        "observed state; non-trivial = distinct (ports, action word)")
ASSUMPTIONS = ["PARTIAL: socket release timing is the kernel's and asyncio's (observed after two loop cycles); a broadcast counts as "
               "dropped when the port is held by nobody (30 ms grace) or when a port that is held produced no callback within 2 s"]


def _impl(a):
    return L.run_bridge_life(a["ports"], a["acts"])


def _judge(a, out):
    """Spec (C17) on the observed states: running <=> all configured ports held; not running => none held; after a failed start the
    held set is what it was; after stop nothing is delivered."""
    if "NOT-RUN" in out:
        return []
    if "HARNESS-TIMEOUT" in out:
        return [("c06gate -", out)]     # the real object never came back: judged as a failure of the property, not of the machine
    lines = []
    prev_held = "0" * a["ports"]
    prev_run = "0"
    for act, o in zip(a["acts"], out.split(" ")):
        res, run, held = o.split(":")
        ok = True
        if run == "1" and "0" in held:
            ok = False
        if run == "0" and "1" in held:
            ok = False
        if (act in ("start", "enter") or act.startswith("cstart:")) and res != "ok" and (held != prev_held or run != prev_run):
            ok = False
        if act.startswith("cstart:") and res == "ok" and prev_run == "0":
            ok = False        # a cancelled start of a stopped bridge cannot have succeeded
        if (act in ("stop", "leave") or act.startswith("sstop:")) and (run != "0" or "1" in held or res != "ok"):
            ok = False
        if act.startswith("send:"):
            i = int(act[5:])
            if (res == "delivered") != (held[i] == "1"):
                ok = False
        if not ok:
            lines.append(("c06gate -", f"after {act}: {o} (before: run={prev_run} held={prev_held})"))
        prev_held, prev_run = held, run
    return lines or [("c06gate -", "0")]


def _in_domain(acts):
    """the bridge is carried over to another event loop only while it is stopped (a running bridge belongs to the loop it was
    started under; what happens to it when that loop is abandoned is not part of the property)"""
    maybe_running = False
    for a in acts:
        if a in ("start", "enter") or a.startswith("cstart:"):
            maybe_running = True
        elif a in ("stop", "leave") or a.startswith("sstop:"):
            maybe_running = False
        elif a == "newloop" and maybe_running:
            return False
    return True


def _known(a, out):
    """F9 (open): port 0 configured and a start while running - the second start binds a second system-chosen socket"""
    if not any(x.startswith("zero:") for x in a["acts"]) or not C.finding_open("F9"):
        return None
    running = False
    for act, o in zip(a["acts"], out.split(" ")):
        if (act in ("start", "enter") or act.startswith("cstart:")) and running:
            return "F9"
        parts = o.split(":")
        running = len(parts) > 1 and parts[1] == "1"
    return None


def known_witness(entry):
    if entry["id"] != "F9":
        return None
    hits = []
    for w in entry["witnesses"]:
        out = _impl(w)
        if any(j[1] != "0" for j in _judge(w, out)):
            hits.append(w)
    return hits or None


LIFE = C.Kind("bridge-life", impl=_impl, model=lambda a: f"blife {a['ports']} " + " ".join(a["acts"]), judge=_judge, known=_known, compare=lambda m, i: "NOT-RUN" in i or m == i,
              classify=lambda a, o: f"ports{a['ports']}:len{len(a['acts']) // 5 * 5}:{'fail' if 'raise' in o else 'nofail'}",
              nontrivial=lambda a, o: (a["ports"], tuple(a["acts"])),
              shrink=lambda a: [c for c in (dict(a, acts=a["acts"][:i] + a["acts"][i + 1:]) for i in range(len(a["acts"]))) if _in_domain(c["acts"])])
KINDS = {"bridge-life": LIFE}


def gen(rng):
    n = rng.randrange(1, 5)
    acts = []
    for _ in range(rng.choice([3, 6, 10, rng.randrange(1, 26)])):
        k = rng.random()
        i = rng.randrange(n)
        if rng.random() < 0.07:
            acts.append(rng.choice(["ostop", "ostart"]))
            continue
        acts.append("start" if k < 0.22 else "stop" if k < 0.4 else f"send:{i}" if k < 0.6 else f"occ:{i}" if k < 0.72 else f"rel:{i}" if k < 0.82
                    else "enter" if k < 0.9 else "leave")
    return {"ports": n, "acts": acts}


def gen_cancel(rng):
    h = gen(rng)
    n, acts = h["ports"], list(h["acts"])
    for _ in range(rng.randrange(1, 4)):
        acts.insert(rng.randrange(len(acts) + 1), f"cstart:{rng.randrange(n)}")
    return {"ports": n, "acts": acts}


def gen_bad(rng):
    """one configured port (not the first) can never be bound: every start must fail AFTER having bound the ports before it, and
    leave none of them held"""
    n = rng.randrange(2, 5)
    bad = rng.randrange(1, n)
    acts = [f"bad:{bad}"]
    for _ in range(rng.randrange(2, 12)):
        k = rng.random()
        i = rng.randrange(n)
        acts.append("start" if k < 0.35 else "stop" if k < 0.5 else f"send:{i}" if k < 0.8 else "enter" if k < 0.9 else "leave")
    return {"ports": n, "acts": acts}


def gen_zero(rng):
    """one configured port is 0 (the system chooses a free one at every start): it is listened on while running and gone after stop
    like any other - looked for among the UDP sockets of the process, since its number is not known beforehand"""
    n = rng.randrange(1, 4)
    z = rng.randrange(n)
    acts = [f"zero:{z}"]
    for _ in range(rng.randrange(2, 12)):
        k = rng.random()
        i = rng.randrange(n)
        acts.append("start" if k < 0.3 else "stop" if k < 0.5 else f"send:{i}" if k < 0.8 else (f"occ:{i}" if i != z else "stop") if k < 0.86
                    else "enter" if k < 0.93 else "leave")
    return {"ports": n, "acts": acts}


def gen_form(rng):
    """the ports handed over as a tuple, a set, a frozenset or a dict's keys instead of a list"""
    a = gen(rng) if rng.random() < 0.5 else gen_bad(rng)
    return dict(a, acts=["as:" + rng.choice(["tuple", "set", "frozenset", "keys"])] + a["acts"])


def gen_newloop(rng):
    """the same bridge OBJECT used under one event loop after another (asyncio.run called again, a worker restarted): stopped, it
    belongs to no loop, and starts under the next one like a new bridge"""
    n = rng.randrange(1, 4)
    acts = []
    for _ in range(rng.randrange(2, 4)):
        for _ in range(rng.randrange(1, 5)):
            k = rng.random()
            i = rng.randrange(n)
            acts.append("start" if k < 0.35 else "stop" if k < 0.5 else f"send:{i}" if k < 0.85 else "enter" if k < 0.93 else "leave")
        acts += ["stop", "newloop"]
    acts += ["start", "send:0", "stop", "send:0"]
    return {"ports": n, "acts": acts}


FIXED = [{"ports": 3, "acts": ["occ:2", "start", "send:0", "send:1", "rel:2", "start", "send:0", "send:2", "stop", "send:0", "start", "start", "send:1", "stop", "stop"]},
         {"ports": 1, "acts": ["stop", "stop", "start", "send:0", "stop", "send:0", "start", "send:0"]},
         {"ports": 2, "acts": ["enter", "send:1", "leave", "send:1", "enter", "enter", "send:0", "leave"]},
         {"ports": 4, "acts": ["occ:3", "start", "send:0", "send:1", "send:2", "occ:0", "rel:3", "start", "rel:0", "start", "send:3"]}]


def streams(ctx):
    rng = ctx.rng
    ctx.run_cases(LIFE, "fixed-scenarios", FIXED, exhaustive=True)
    ctx.run_cases(LIFE, "a-configured-port-that-cannot-be-bound", [{"ports": 3, "acts": ["bad:2", "start", "send:0", "send:1", "stop", "start", "send:0"]}]
                  + [gen_bad(rng) for _ in range(ctx.n(25, 400))], exhaustive=False, sample_every=9)
    # stop() called while a broadcast is on its way, 0..7 loop turns after it was sent, on one and on several ports
    races = [{"ports": n, "acts": ["start", f"sstop:{i}:{k}", f"send:{i}", "start", f"sstop:{(i + 1) % n}:{(k + 3) % 8}"]}
             for n in (1, 3) for i in range(n) for k in range(8)]
    ctx.run_cases(LIFE, "stop-while-a-broadcast-is-on-its-way", races if not ctx.quick else races[::1], exhaustive=True, sample_every=11)
    twin = [{"ports": n, "acts": acts} for n in (1, 3) for acts in (
        ["start", "ostop", "send:0", "ostart", "send:0", "stop", "send:0"],
        ["ostop", "start", "send:0", "ostop", "send:0", "ostart", "ostop", "send:0", "stop", "ostart", "start", "send:0"])]
    ctx.run_cases(LIFE, "a-second-bridge-object-on-the-same-ports", twin, exhaustive=True)
    ctx.run_cases(LIFE, "a-configured-port-0-chosen-by-the-system", [{"ports": 1, "acts": ["zero:0", "start", "send:0", "stop", "send:0", "start", "stop"]},
                                                                     {"ports": 2, "acts": ["zero:1", "occ:0", "start", "rel:0", "start", "send:1", "stop"]}]
                  + [gen_zero(rng) for _ in range(ctx.n(20, 300))], exhaustive=False, sample_every=9)
    ctx.run_cases(LIFE, "ports-handed-over-in-another-container", [{"ports": 3, "acts": ["as:set", "bad:2", "start", "send:0", "stop"]},
                                                                   {"ports": 3, "acts": ["as:tuple", "occ:1", "start", "send:0", "rel:1", "start", "send:2", "stop"]}]
                  + [gen_form(rng) for _ in range(ctx.n(20, 300))], exhaustive=False, sample_every=9)
    # start() cancelled while it is suspended in the bind of port k (0 .. n-1), on a stopped and on a running bridge, then used on
    cancels = [{"ports": n, "acts": [f"cstart:{k}"] + [f"send:{i}" for i in range(n)] + ["start", f"send:{k}", f"cstart:{k}", f"send:{k}", "stop", f"cstart:{(k + 1) % n}", "send:0", "start", "send:0", "stop"]}
               for n in (1, 2, 3, 4) for k in range(n)]
    ctx.run_cases(LIFE, "a-start-that-is-cancelled-at-the-k-th-bind", cancels + [gen_cancel(rng) for _ in range(ctx.n(20, 300))], exhaustive=False, sample_every=9)
    ctx.run_cases(LIFE, "the-same-bridge-object-under-one-event-loop-after-another", [{"ports": 2, "acts": ["start", "send:0", "stop", "newloop", "start", "send:1", "stop", "send:1"]}]
                  + [gen_newloop(rng) for _ in range(ctx.n(12, 200))], exhaustive=False, sample_every=5)
    ctx.run_cases(LIFE, "random-action-sequences", [gen(rng) for _ in range(ctx.n(110, 2500))], exhaustive=False, sample_every=50)


def search(ctx, broken):
    rng = ctx.rng
    for a in FIXED + [gen(rng) for _ in range(300)]:
        o = _impl(a)
        js = [j for j in _judge(a, o) if j[1] != "0"]
        if js:
            return {"kind": "bridge-life", "args": a, "impl": o, "judge": js[0][0], "expected": "invariant", "got": js[0][1]}
    return None
