"""C08 — state replies are decoded into exactly what the device reported."""
import os

import apiharness as H
import common as C

RULE = ("replies are produced by the Spec's reference encoders (specjudge c08enc) from field values drawn over their whole domains "
        "(times 0..86399 s, power 0..65535, positions 0..255, temperatures 0..6553.5, all enumerants, remote ids of 1..8 characters) "
        "written into random backgrounds of the lengths real devices send (and longer/shorter admissible ones); the real response "
        "classes must report exactly the encoded values (expected text from specjudge c08exp) and agree with the model; "
        "the shipped replies are re-encoded by the reference encoder and must come out unchanged; "
        "non-trivial = distinct (kind, field-class vector)")
ASSUMPTIONS = ["floats are compared through repr against the model's tenths", "remote ids are ASCII without NUL"]


def _parse(kind, hexreply, how="fresh"):
    from aioswitcher.api import messages as M
    raw = bytes.fromhex(hexreply) if hexreply != "-" else b""
    cls = {"state": M.SwitcherStateResponse, "thermo": M.SwitcherThermostatStateResponse, "shutter": M.SwitcherShutterStateResponse,
           "login": M.SwitcherLoginResponse}[kind]
    try:
        if how == "replace" and kind in _EARLIER:
            # the response object of an EARLIER reply re-made for this one (dataclasses.replace with the new bytes): every decoded
            # field is this reply's
            import dataclasses
            r = dataclasses.replace(_EARLIER[kind], unparsed_response=raw)
        elif how == "copies":
            import copy
            import pickle
            r = pickle.loads(pickle.dumps(copy.deepcopy(copy.copy(cls(raw)))))
        else:
            r = cls(raw)
        _EARLIER[kind] = r
        return H.show_resp(r)
    except Exception as e:  # noqa
        return "raise " + C.exc_name(e)


_EARLIER = {}


def _impl(a):
    return _parse(a["kind"], a["reply"], a.get("how", "fresh"))


def _model(a):
    return {"state": "parsestate", "thermo": "parsethermo", "shutter": "parseshutter", "login": "sessionid"}[a["kind"]] + " " + a["reply"]


def _fields_tokens(a):
    f = a["fields"]
    k = a["kind"]
    if k == "state":
        return f"state {f['on']} {f['power']} {f['left']} {f['ton']} {f['auto']}"
    if k == "shutter":
        return f"shutter {f['pos']} {f['dir']}"
    if k == "thermo":
        return f"thermo {f['on']} {f['mode']} {f['fan']} {f['swing']} {f['temp']} {f['target']} {f['remote']}"
    return f"login {f['sid']}"


def _judge(a, out):
    if a["kind"] == "login":
        return [(f"c08enc login {a['bg']} {a['fields']['sid']}", a["reply"])] + ([] if out == "login " + a["fields"]["sid"] else
                                                                                  [("c08enc login - -", "session-id-differs: " + out)])
    return [("c08exp " + _fields_tokens(a), out)]


def _cls(a, out):
    f = a["fields"]
    if a["kind"] == "state":
        return f"state:on{f['on']}:p{'0' if f['power'] == 0 else 'lo' if f['power'] < 256 else 'hi'}:len{len(a['reply']) // 2 // 25 * 25}"
    if a["kind"] == "thermo":
        return f"thermo:m{f['mode']}f{f['fan']}s{f['swing']}on{f['on']}"
    if a["kind"] == "shutter":
        return f"shutter:dir{f['dir']}"
    return "login"


ENC = C.Kind("encoded-reply", impl=_impl, model=_model, judge=_judge, classify=_cls,
             nontrivial=lambda a, o: (a["kind"], _cls(a, o), o[:60]))


def _impl_raw(a):
    return _parse(a["kind"], a["reply"])


def _judge_raw(a, out):
    """a shipped reply: re-encode what the real parser reported with the reference encoder over the capture itself"""
    if out.startswith("raise"):
        return []
    t = out.split()
    if a["kind"] == "state":
        def secs(x):
            h, m, s = x.split(":")
            return int(h) * 3600 + int(m) * 60 + int(s)
        return [(f"c08enc state {a['reply']} {int(t[1] == 'ON')} {t[5]} {secs(t[2])} {secs(t[3])} {secs(t[4])}", a["reply"])]
    if a["kind"] == "shutter":
        return [(f"c08enc shutter {a['reply']} {t[1]} {['SHUTTER_STOP', 'SHUTTER_UP', 'SHUTTER_DOWN'].index(t[2])}", a["reply"])]
    if a["kind"] == "thermo":
        modes = ["", "AUTO", "DRY", "FAN", "COOL", "HEAT"]
        fans = ["AUTO", "LOW", "MEDIUM", "HIGH"]
        temp = t[4].replace(".", "")
        rid = C.un_ut(t[7]).encode().hex() or "-"
        return [(f"c08enc thermo {a['reply']} {int(t[1] == 'ON')} {modes.index(t[2])} {fans.index(t[3])} {int(t[6] == 'ON')} {int(temp)} {t[5]} {rid}", a["reply"])]
    if a["kind"] == "login":
        return [(f"c08enc login {a['reply']} {t[1]}", a["reply"])]
    return []


RAW = C.Kind("shipped-reply", impl=_impl_raw, model=_model, judge=_judge_raw, classify=lambda a, o: a["kind"] + ":" + a["name"],
             nontrivial=lambda a, o: (a["name"], o[:40]))
KINDS = {"encoded-reply": ENC, "shipped-reply": RAW}


def _gen_fields(rng, kind):
    if kind == "state":
        def t():
            return rng.choice([0, 1, 59, 60, 3599, 3600, 86399, rng.randrange(86400)])
        return {"on": rng.randrange(2), "power": rng.choice([0, 1, 255, 256, 2600, 65535, rng.randrange(65536)]), "left": t(), "ton": t(), "auto": t()}
    if kind == "shutter":
        return {"pos": rng.choice([0, 1, 100, 255, rng.randrange(256)]), "dir": rng.randrange(3)}
    if kind == "thermo":
        n = rng.randrange(1, 9)
        rid = bytes(rng.choice(b"ABCDEFGHIJKLMNOPQRSTUVWXYZ0123456789@P`_") for _ in range(n)).hex()
        return {"on": rng.randrange(2), "mode": rng.randrange(1, 6), "fan": rng.randrange(4), "swing": rng.randrange(2),
                "temp": rng.choice([0, 1, 245, 255, 256, 65535, rng.randrange(65536)]), "target": rng.choice([0, 16, 30, 255, rng.randrange(256)]),
                "remote": rid}
    return {"sid": rng.randbytes(4).hex()}


MINLEN = {"state": 101, "shutter": 80, "thermo": 92, "login": 12}
REALLEN = {"state": [124, 121], "shutter": [100, 95], "thermo": [109, 100], "login": [44, 48, 82]}


def _encode_all(rng, n, kind):
    items = []
    for _ in range(n):
        ln = rng.choice(REALLEN[kind] + [MINLEN[kind], MINLEN[kind] + 1, rng.randrange(MINLEN[kind], 400)])
        bg = rng.randbytes(ln).hex() if rng.random() < 0.7 else "00" * ln
        items.append({"kind": kind, "bg": bg, "fields": _gen_fields(rng, kind)})
    lines = [f"c08enc {_fields_tokens(a).split(' ', 1)[0]} {a['bg']} {_fields_tokens(a).split(' ', 1)[1]}" for a in items]
    reps = C.run_exe("specjudge", lines)
    for a, r in zip(items, reps):
        a["reply"] = r
    return items


def shipped():
    d = os.path.join(C.REPO, "tests", "testresources")
    m = {"dummy_responses/get_state_response.txt": "state", "dummy_responses/get_breeze_state.txt": "thermo",
         "dummy_responses/get_shutter_state_response.txt": "shutter", "dummy_responses/login_response.txt": "login",
         "dummy_responses/login2_response.txt": "login", "test_api_messages/test_the_state_message_parser_device_off.txt": "state",
         "test_api_messages/test_switcher_login_response_dataclass.txt": "login"}
    out = []
    for rel, kind in m.items():
        p = os.path.join(d, rel)
        if os.path.exists(p):
            t = open(p).read().strip()
            try:
                bytes.fromhex(t)
            except ValueError:
                continue
            out.append({"kind": kind, "reply": t, "name": os.path.basename(rel)})
    return out


def streams(ctx):
    rng = ctx.rng
    ctx.run_cases(RAW, "shipped-replies-reencoded", shipped(), exhaustive=True)
    # response objects re-made from an earlier one (dataclasses.replace with the new reply), copied, deep-copied and pickled
    for kind in ("state", "thermo", "shutter", "login"):
        items = [dict(a, how=("replace" if i % 3 else "copies")) for i, a in enumerate(_encode_all(rng, ctx.n(200, 4000), kind))]
        ctx.run_cases(ENC, f"{kind}-responses-re-made-from-earlier-ones-or-copied", items, exhaustive=False, sample_every=97)
    for kind in ("state", "thermo", "shutter", "login"):
        ctx.run_cases(ENC, f"encoded-{kind}", _encode_all(rng, ctx.n(1000, 20000), kind), exhaustive=False, sample_every=499)
    # what a reply says does not depend on where the client's host is: the same streams on hosts in other zones
    import apiharness as H
    try:
        for zone in ("Asia/Kathmandu", "America/St_Johns", "Pacific/Kiritimati"):
            H.set_tz(zone)
            for kind in ("state", "thermo"):
                ctx.run_cases(ENC, f"encoded-{kind}-on-a-host-in-{zone}", _encode_all(rng, ctx.n(150, 3000), kind), exhaustive=False, sample_every=149)
    finally:
        H.set_tz("UTC")
    # every power value through the real watts_to_amps (quick: a sample)
    ws = range(65536) if not ctx.quick else sorted(set(list(range(0, 65536, 16)) + [rng.randrange(65536) for _ in range(2000)]))
    items = [{"kind": "state", "bg": "00" * 124, "fields": {"on": 1, "power": w, "left": 0, "ton": 0, "auto": 3600}} for w in ws]
    reps = C.run_exe("specjudge", [f"c08enc state {a['bg']} 1 {a['fields']['power']} 0 0 3600" for a in items])
    for a, r in zip(items, reps):
        a["reply"] = r
    ctx.run_cases(ENC, "all-power-values" if not ctx.quick else "power-values-sample", items, exhaustive=not ctx.quick, sample_every=9999)


def search(ctx, broken):
    rng = ctx.rng
    for kind in ("state", "thermo", "shutter", "login"):
        items = _encode_all(rng, 3000, kind)
        outs = [_impl(a) for a in items]
        js = [_judge(a, o) for a, o in zip(items, outs)]
        flat = [(a, o, l, e) for a, o, j in zip(items, outs, js) for (l, e) in j]
        got = C.run_exe("specjudge", [l for _, _, l, _ in flat])
        for (a, o, l, e), g in zip(flat, got):
            if g != e:
                return {"kind": "encoded-reply", "args": a, "impl": o, "judge": l, "expected": e, "got": g}
    return None
