"""C16 — thermostat control changes only what was asked."""
import apiharness as H
import common as C
import gens as G

RULE = ("exchanges of control_breeze_device with a scripted device: current state (2 states x 5 modes x target 16..30 x 4 fan levels x "
        "2 swings, reported in the state reply) x all 2^5 subsets of requested settings x requested values x remote kinds (toggle / "
        "non-toggle x separate-swing or not, generated IR sets) x update-only flag x an empty reply injected at each step; the frames "
        "and the outcome are compared with the model and judged by the Spec: status frame = reference frame of the merged settings, IR "
        "frame = reference frame of the Spec's command for the merged settings, swing frame iff due, RuntimeError when nothing is "
        "actionable, never a success after an empty reply; non-trivial = distinct (subset, remote kind, update flag, fault step, outcome)")
ASSUMPTIONS = ["scripted reader (an empty reply can be followed by a non-empty one, which a real socket cannot produce)",
               "merged settings are computed by the harness from the request and from the state reply it generated"]

MODES = ["", "AUTO", "DRY", "FAN", "COOL", "HEAT"]
FANS = ["AUTO", "LOW", "MEDIUM", "HIGH"]


def gen_ir(rng):
    special = rng.random() < 0.5
    toggle = rng.random() < 0.5
    ir = G.gen_irset(rng, special=special, toggle=toggle, dense=rng.random() < 0.8)
    have = {w["Key"] for w in ir["IRWaveList"]}
    for k in ("aa", "ad", "aw", "ar", "ah", "off", "FUN_d0", "FUN_d1", "on_aa", "on_ad", "on_aw", "on_ar", "on_ah"):
        if k not in have and rng.random() < 0.9:
            ir["IRWaveList"].append({"Key": k, "Para": "P" + k, "HexCode": "C0DE"})
    return ir


def gen_case(rng, fault=None, ir=None):
    ir = ir or gen_ir(rng)
    cur = {"on": rng.randrange(2), "mode": rng.randrange(1, 6), "target": rng.randrange(16, 31), "fan": rng.randrange(4), "swing": rng.randrange(2)}
    subset = rng.randrange(32)
    req = {"op": "ctlbreeze", "ir": ir,
           "state": rng.choice(["ON", "OFF"]) if subset & 1 else None,
           "mode": rng.choice(MODES[1:]) if subset & 2 else None,
           "temp": rng.choice([16, 20, 25, 30, rng.randrange(10, 36)]) if subset & 4 else 0,
           "fan": rng.choice(FANS) if subset & 8 else None,
           "swing": rng.choice(["ON", "OFF"]) if subset & 16 else None,
           "upd": int(rng.random() < 0.35)}
    did, key = G.gen_ids(rng)
    sid = rng.randbytes(4)
    replies = [H.login_reply(sid, rng.choice([12, 48])),
               H.thermo_reply(state=cur["on"], mode=cur["mode"], temp=rng.randrange(150, 350), target=cur["target"], fan=cur["fan"], swing=cur["swing"],
                              remote=ir["IRSetID"].encode()[:8]),
               "%02x" % rng.randrange(1, 256) * rng.randrange(1, 9), "%02x" % rng.randrange(1, 256) * rng.randrange(1, 9)]
    c = {"did": did, "key": key, "now": float(rng.randrange(1_600_000_000, 1_900_000_000)), "tz": "UTC", "req": req, "replies": replies,
         "_cur": cur, "_fault": fault}
    if fault is not None:
        c["replies"][fault] = "-"
    return c


def merged(case):
    r, cur = case["req"], case["_cur"]
    special = r["ir"]["IRSetID"] in G.SPECIAL_IDS
    st = r["state"] or ("ON" if cur["on"] else "OFF")
    md = r["mode"] or MODES[cur["mode"]]
    tt = r["temp"] or cur["target"]
    fan = r["fan"] or FANS[cur["fan"]]
    sw = "OFF" if special else (r["swing"] or ("ON" if cur["swing"] else "OFF"))
    return st, md, tt, fan, sw, special


def _judge(case, out):
    r = case["req"]
    frames = H.frames_of(out)
    outcome = H.outcome_of(out)
    st, md, tt, fan, sw, special = merged(case)
    wants_main = bool(r["state"] or r["mode"] or r["temp"] or r["fan"] or (r["swing"] and not special))
    wants_swing = bool(special and r["swing"] and not r["upd"])
    login = bytes.fromhex(case["replies"][0]) if case["replies"][0] != "-" else b""
    lines = []
    fault = case.get("_fault")
    # never a false success
    if fault is not None and fault < len(frames) and outcome == "base 1":
        lines.append(("c09base 1 1", f"success-reported-although-reply-{fault}-was-empty"))
    if fault is not None:
        return lines
    if len(login) < 12:
        return lines
    sid, ts = login[8:12].hex(), int(round(case["now"])).to_bytes(4, "little").hex()
    pre = f"{sid} {ts} {case['did']} {case['key']}"
    if not wants_main and not wants_swing:
        lines.append(("c09 0 1 0 %d %s" % (len(frames), outcome if outcome.startswith("raise") else "ok"), "1"))
        if outcome != "raise RuntimeError" or len(frames) != 1:
            lines.append(("c09base 0 0", "nothing-actionable-must-raise-RuntimeError-after-login: %d frames %s" % (len(frames), outcome)))
        return lines
    exp = 1 + (2 if wants_main else 0)
    if wants_main:
        if len(frames) < 3:
            # the command may legitimately fail (unsupported mode / no stored code): then the Spec must say so
            lines.append((f"c16cmd {pre} - {H.ir_token(r['ir'])} {st} {md} {tt} {fan} {sw} {'ON' if case['_cur']['on'] else 'OFF'}",
                          "refused" if outcome == "raise RuntimeError" else "missing" if outcome == "raise KeyError" else "main-frame-missing:" + outcome)
                         if not r["upd"] else ("c09base 0 0", "status-frame-missing:" + outcome))
            return lines
        if r["upd"]:
            lines.append((f"c02 {pre} {C.hx(frames[2])} breezestatus {int(st == 'ON')} {MODES.index(md)} {tt} {FANS.index(fan)} {int(sw == 'ON')}", "1"))
        else:
            lines.append((f"c16cmd {pre} {C.hx(frames[2])} {H.ir_token(r['ir'])} {st} {md} {tt} {fan} {sw} {'ON' if case['_cur']['on'] else 'OFF'}", "1"))
    if wants_swing and (not wants_main or len(frames) >= 3):
        idx = 3 if wants_main else 1
        if len(frames) > idx:
            lines.append((f"c16swing {pre} {C.hx(frames[idx])} {H.ir_token(r['ir'])} {r['swing']}", "1"))
            exp += 1
        else:
            lines.append((f"c16swing {pre} - {H.ir_token(r['ir'])} {r['swing']}", "missing" if outcome == "raise RuntimeError" else "swing-frame-missing:" + outcome))
    if len(frames) > exp:
        lines.append(("c09base 0 0", f"too-many-frames:{len(frames)}>{exp}"))
    return lines


def _nt(case, out):
    r = case["req"]
    sub = tuple(int(bool(x)) for x in (r["state"], r["mode"], r["temp"], r["fan"], r["swing"]))
    return (sub, r["ir"]["IRSetID"] in G.SPECIAL_IDS, r["ir"]["OnOffType"], r["upd"], case.get("_fault"), H.outcome_of(out)[:18], len(H.frames_of(out)))


def _model(case):
    return H.model_line({k: v for k, v in case.items() if not k.startswith("_")})


def _impl(case):
    return H.run_case({k: v for k, v in case.items() if not k.startswith("_")})


CTL = C.Kind("control_breeze_device", impl=_impl, model=_model, judge=_judge, compare=H.same("class"),
             classify=lambda c, o: f"upd{c['req']['upd']}:fault{c.get('_fault')}:{H.outcome_of(o).split()[0] if not H.outcome_of(o).startswith('raise') else H.outcome_of(o)}:{len(H.frames_of(o))}f",
             nontrivial=_nt)
import histharness as HH  # noqa: E402


def _judge_hist(hist, out):
    lines = []
    for inst, outs in zip(hist["instances"], HH.split_history_output(hist, out)):
        for op, o in zip(inst["ops"], outs):
            lines += _judge(dict(op["_case"], did=inst["did"], key=inst["key"]), o)
    return lines


def gen_history(rng):
    """several control requests through ONE api object on one connection (actionable ones, ones that ask for nothing, update-only
    ones, ones whose replies are missing), each with the device in another state: every one is judged on its own"""
    ir = gen_ir(rng)
    did, key = G.gen_ids(rng)
    ops, now = [], float(rng.randrange(1_600_000_000, 1_900_000_000))
    for _ in range(rng.randrange(2, 7)):
        c = gen_case(rng, fault=rng.choice([None, None, None, 1, 2, 3]), ir=ir if rng.random() < 0.8 else None)
        if rng.random() < 0.3:          # a request that asks for nothing (or for the swing only, with update_state)
            c["req"].update(state=None, mode=None, temp=0, fan=None, swing=rng.choice([None, "ON", "OFF"]), upd=rng.randrange(2))
        now += rng.choice([1, 5, 60])
        c["now"] = now
        ops.append({"now": now, "req": c["req"], "replies": c["replies"], "_case": c})
    return {"tz": "UTC", "instances": [{"did": did, "key": key, "api": "type2", "ops": ops}], "schedule": []}


def _strip_hist(h):
    return dict(h, instances=[dict(i, ops=[{k: v for k, v in op.items() if k != "_case"} for op in i["ops"]]) for i in h["instances"]])


SERIES = C.Kind("requests-through-one-api-object", impl=lambda h: HH.run_history(_strip_hist(h)), model=lambda h: HH.model_lines(_strip_hist(h)),
                assemble=HH.assemble, judge=_judge_hist, compare=H.same("class"),
                classify=lambda h, o: f"{len(h['instances'][0]['ops'])}ops", nontrivial=lambda h, o: o[:200],
                shrink=lambda h: [dict(h, instances=[dict(h["instances"][0], ops=h["instances"][0]["ops"][:j] + h["instances"][0]["ops"][j + 1:])])
                                  for j in range(len(h["instances"][0]["ops"])) if len(h["instances"][0]["ops"]) > 1])
KINDS = {"control_breeze_device": CTL, "requests-through-one-api-object": SERIES}


def streams(ctx):
    rng = ctx.rng
    ctx.run_cases(CTL, "requests-x-states-x-remotes", [gen_case(rng) for _ in range(ctx.n(1500, 40000))], exhaustive=False, sample_every=700)
    faults = []
    for step in range(4):
        faults += [gen_case(rng, fault=step) for _ in range(ctx.n(300, 8000))]
    ctx.run_cases(CTL, "empty-reply-injected-at-each-step", faults, exhaustive=False, sample_every=500)
    # ONE remote object used for a series of requests, the same request recurring under different current states of the device
    series = []
    for _ in range(ctx.n(25, 400)):
        ir = gen_ir(rng)
        base = gen_case(rng, ir=ir)
        for _k in range(10):
            c = gen_case(rng, ir=ir)
            if rng.random() < 0.6:      # the same request again, the device in another state
                c["req"] = dict(base["req"])
            series.append(c)
    ctx.run_cases(SERIES, "several-requests-through-one-api-object-on-one-connection", [gen_history(rng) for _ in range(ctx.n(150, 3000))], exhaustive=False,
                  sample_every=70)
    # the same kind of history against a thermostat that takes 0.5 s .. 2 min over some replies (virtual loop clock): what is sent and
    # what is reported must not depend on how long the device took
    slow = [HH.with_slow_replies(rng, gen_history(rng)) for _ in range(ctx.n(60, 1200))]
    ctx.run_cases(SERIES, "several-requests-and-a-thermostat-that-is-slow-to-answer-under-a-virtual-clock", slow, exhaustive=False, sample_every=30)
    ctx.run_cases(CTL, "series-of-requests-through-one-remote-object", series, exhaustive=False, sample_every=len(series) // 3)


def search(ctx, broken):
    rng = ctx.rng
    cases = [gen_case(rng) for _ in range(3000)] + [gen_case(rng, fault=s) for s in range(4) for _ in range(600)]
    for c in cases:
        o = _impl(c)
        js = _judge(c, o)
        if not js:
            continue
        got = C.run_exe("specjudge", [l for l, _ in js])
        for (l, e), g in zip(js, got):
            if g != e:
                return {"kind": "control_breeze_device", "args": {k: v for k, v in c.items()}, "impl": o, "judge": l, "expected": e, "got": g}
    return None
