"""C05 — a status broadcast is decoded into exactly the device the sender described."""
import os

import bgen as B
import bridgeharness as BH
import common as C

RULE = ("devices of all 9 types generated over their field domains (all IPv4/MAC byte values, names of 1..32 UTF-8 bytes in 4 scripts, "
        "power 0..65535, times 0..86399, positions 0..100, all enumerants, temperatures 0..6553.5, 8-character remote ids), encoded "
        "by the Spec's reference encoder into random backgrounds, parsed by the real code (directly, and for a sample through a "
        "running bridge on loopback UDP); the device object must show exactly the Spec's expected values and agree with the model; "
        "the shipped captures are cross-checked against the model; non-trivial = distinct (type, state, field-class vector)")
ASSUMPTIONS = ["last_data_update and object identity are not compared; floats compared through repr",
               "the reference encoder is checked against the captures shipped in tests/testresources (stream shipped-captures)"]


def _impl(a):
    return BH.parse_direct(a["dgram"])


ENC = C.Kind("encoded-broadcast", impl=_impl, model=lambda a: "dgram " + a["dgram"],
             judge=lambda a, o: [(f"c05exp {a['family']} {a['fields']}", o)],
             classify=lambda a, o: a["fields"].split()[0] + ":" + (o.split()[3] if o.startswith("device") else o.split()[0]),
             nontrivial=lambda a, o: (a["fields"].split()[0], o[:90]))


def _impl_bridge(a):
    out = BH.run_bridge_sequence(1, [(0, a["dgram"])], cbform=BH.CALLBACK_FORMS[len(a["fields"]) % 5])     # a function, a lambda, a bound method, …
    return "device " + out[2:] if out != "-" else "nothing"


VIA = C.Kind("via-running-bridge", impl=_impl_bridge, model=lambda a: "dgram " + a["dgram"],
             judge=lambda a, o: [(f"c05exp {a['family']} {a['fields']}", o)],
             classify=lambda a, o: "udp:" + a["fields"].split()[0], nontrivial=lambda a, o: (a["fields"].split()[0], o[:60]))

def _impl_thrice(a):
    """the same broadcast three times in a row through one running bridge: three deliveries, each the device described"""
    n = a.get("times", 3)
    out = BH.run_bridge_sequence(1, [(0, a["dgram"])] * n, burst=True)      # one after the other, nothing in between
    got = [] if out == "-" else out.split(" | ")
    if len(got) != n or len(set(got)) != 1:
        return f"{len(got)}-deliveries-for-{n}-identical-broadcasts"
    return "device " + got[0][2:]


THRICE = C.Kind("same-broadcast-three-times", impl=_impl_thrice, model=lambda a: "dgram " + a["dgram"],
                judge=lambda a, o: [(f"c05exp {a['family']} {a['fields']}", o)],
                classify=lambda a, o: "x3:" + a["fields"].split()[0], nontrivial=lambda a, o: (a["fields"].split()[0], o[:60]))

def _impl_group(a):
    """several broadcasts of ONE device (same id; other fields, another moment of the device's clock) through one running bridge"""
    n = len(a["items"])
    out = BH.run_bridge_sequence(1, [(0, x["dgram"]) for x in a["items"]])      # one after the other, in this order
    got = [] if out == "-" else out.split(" | ")
    if len(got) != n:
        return f"{len(got)}-deliveries-for-{n}-broadcasts-of-one-device"
    return " | ".join("device " + g[2:] for g in got)


GROUP = C.Kind("one-device-heard-several-times", impl=_impl_group, model=lambda a: ["dgram " + x["dgram"] for x in a["items"]],
               assemble=lambda a, outs: " | ".join(outs),
               judge=lambda a, o: ([(f"c05exp {x['family']} {x['fields']}", part) for x, part in zip(a["items"], o.split(" | "))]
                                   if o.count(" | ") == len(a["items"]) - 1 and o.startswith("device") else [("c06gate -", o)]),
               classify=lambda a, o: f"group{len(a['items'])}:" + o.split()[0][:12], nontrivial=lambda a, o: (len(a["items"]), o[:60]),
               shrink=lambda a: [dict(a, items=a["items"][:i] + a["items"][i + 1:]) for i in range(len(a["items"])) if len(a["items"]) > 1])

RAW = C.Kind("shipped-capture", impl=lambda a: BH.parse_direct(a["dgram"]), model=lambda a: "dgram " + a["dgram"],
             classify=lambda a, o: "capture:" + o.split()[0], nontrivial=lambda a, o: a["name"])
ENC_BUF = C.Kind("encoded-broadcast-in-a-reused-buffer", impl=lambda a: BH.parse_direct(a["dgram"], "buffer"), model=lambda a: "dgram " + a["dgram"],
                 judge=lambda a, o: [(f"c05exp {a['family']} {a['fields']}", o)],
                 classify=lambda a, o: "buf:" + a["fields"].split()[0], nontrivial=lambda a, o: (a["fields"].split()[0], o[:90]))
KINDS = {"one-device-heard-several-times": GROUP, "same-broadcast-three-times": THRICE, "encoded-broadcast-in-a-reused-buffer": ENC_BUF, "encoded-broadcast": ENC, "via-running-bridge": VIA, "shipped-capture": RAW}


def captures():
    out = []
    d = os.path.join(C.REPO, "tests", "testresources")
    for sub in ("test_device_parsing", "test_udp_datagram_parsing", "test_bridge"):
        p = os.path.join(d, sub)
        if not os.path.isdir(p):
            continue
        for f in sorted(os.listdir(p)):
            t = open(os.path.join(p, f)).read().strip()
            try:
                bytes.fromhex(t)
            except ValueError:
                continue
            out.append({"dgram": t, "name": f})
    return out


def _sync_types():
    try:
        B.T1, B.SH, B.TH = B.types_from_source()
    except Exception:
        pass


def streams(ctx):
    rng = ctx.rng
    _sync_types()
    ctx.run_cases(RAW, "shipped-captures", captures(), exhaustive=True, sample_every=9)
    for fam in ("t1", "shutter", "thermo"):
        items = B.encode_all([B.gen_device(rng, fam) for _ in range(ctx.n(700, 17000))])
        ctx.run_cases(ENC, f"encoded-{fam}", items, exhaustive=False, sample_every=349)
    # a caller of the parser with ONE receive buffer that is refilled for every broadcast
    items = B.encode_all([B.gen_device(rng) for _ in range(ctx.n(300, 6000))])
    ctx.run_cases(ENC_BUF, "broadcasts-in-one-reused-receive-buffer", items, exhaustive=False, sample_every=149)
    items = B.encode_all([B.gen_device(rng) for _ in range(ctx.n(40, 400))])
    ctx.run_cases(VIA, "through-a-running-bridge-on-loopback", items, exhaustive=False, sample_every=20)
    items = B.encode_all([B.gen_device(rng) for _ in range(ctx.n(15, 200))])
    ctx.run_cases(THRICE, "the-same-broadcast-three-times-in-a-row", items, exhaustive=False, sample_every=7)
    # a bridge that has been running for a while: the 130th broadcast is decoded and delivered like the first
    ctx.run_cases(THRICE, "the-same-broadcast-130-times-in-a-row", [dict(x, times=130) for x in items[:ctx.n(3, 12)]], exhaustive=False)
    # a broadcast says the same on a host in any zone (remaining time and auto shutdown are durations, not clock times)
    import apiharness as H
    try:
        for zone in ("Asia/Kathmandu", "America/St_Johns"):
            H.set_tz(zone)
            items = B.encode_all([B.gen_device(rng, "t1") for _ in range(ctx.n(150, 3000))])
            ctx.run_cases(ENC, f"encoded-t1-on-a-host-in-{zone}", items, exhaustive=False, sample_every=149)
    finally:
        H.set_tz("UTC")
    # the same device id heard again with another name / address / key / state: every broadcast is decoded on its own
    again = []
    for _ in range(ctx.n(60, 1500)):
        fam = rng.choice(["t1", "shutter", "thermo"])
        did = rng.randbytes(3).hex()
        again += [B.gen_device(rng, fam if rng.random() < 0.6 else rng.choice(["t1", "shutter", "thermo"]), dev_id=did) for _ in range(rng.randrange(2, 5))]
    again = B.encode_all(again)
    ctx.run_cases(ENC, "same-device-id-heard-again-with-other-fields", again, exhaustive=False, sample_every=len(again) // 2)
    ctx.run_cases(VIA, "same-device-id-again-through-a-running-bridge", again[:ctx.n(40, 300)], exhaustive=False, sample_every=20)
    # ONE device heard 2..5 times by ONE running bridge: its fields change, and the clock it stamps into the header (bytes 24..27) runs
    # on, stands still or jumps BACK (a reboot, a time sync) - every broadcast is decoded and delivered on its own
    groups = []
    for _ in range(ctx.n(25, 400)):
        fam = rng.choice(["t1", "shutter", "thermo"])
        did = rng.randbytes(3).hex()
        items = B.encode_all([B.gen_device(rng, fam, dev_id=did) for _ in range(rng.randrange(2, 6))])
        clock = rng.randrange(1_600_000_000, 1_900_000_000)
        for x in items:
            d = bytearray.fromhex(x["dgram"])
            d[24:28] = clock.to_bytes(4, "little")
            x["dgram"] = d.hex()
            clock = max(0, min(2 ** 32 - 1, clock + rng.choice([0, 1, 4, 60, -1, -4, -3600, -clock + 5])))
        groups.append({"items": items})
    ctx.run_cases(GROUP, "one-device-heard-several-times-by-one-bridge-its-clock-running-on-or-jumping-back", groups, exhaustive=False, sample_every=9)


def search(ctx, broken):
    rng = ctx.rng
    _sync_types()
    items = B.encode_all([B.gen_device(rng) for _ in range(8000)])
    outs = [_impl(a) for a in items]
    got = C.run_exe("specjudge", [f"c05exp {a['family']} {a['fields']}" for a in items])
    for a, o, g in zip(items, outs, got):
        if g != o:
            return {"kind": "encoded-broadcast", "args": a, "impl": o, "judge": f"c05exp {a['family']} {a['fields']}", "expected": o, "got": g}
    return None
