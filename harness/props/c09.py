"""C09 — no device reply can crash the client or be mistaken for success."""
import apiharness as H
import common as C
import gens as G

RULE = ("fault enumeration: every operation x every step of its exchange x replies from {empty, EVERY prefix length of a valid reply, "
        "random bytes of length 1..1024, a valid reply with single fields corrupted}; observed outcome class and frame count judged by "
        "Spec.c09ok / Spec.baseOk and compared with the model's outcome and frames; non-trivial = distinct (operation, step, fault "
        "kind, outcome); plus histories good-operation ; operation-under-fault ; good-operation on ONE connection (an earlier success must "
        "not help a later operation whose login is not answered)")
ASSUMPTIONS = ["a scripted reader returns the chosen bytes at the chosen step (on a real socket an empty read means end of stream); "
               "well-formed configuration and clock < 2^32 (else the login frame itself cannot be built)"]

STATE_QUERIES = {"getState", "getshutter", "getbreeze"}


def _judge(case, out):
    op = case["req"]["op"]
    outcome = H.outcome_of(out)
    frames = H.frames_of(out)
    oc = "ok" if not outcome.startswith("raise") else outcome
    login_empty = case["replies"][0] == "-" if case["replies"] else True
    lines = [(f"c09 {int(op in STATE_QUERIES)} {int(op in H.TYPE2_OPS)} {int(login_empty)} {len(frames)} {oc}", "1")]
    if outcome.startswith("base "):
        # the reply wrapped by the generic response is the last one consumed = reply number len(frames)-1
        k = len(frames) - 1
        rep = case["replies"][k] if k < len(case["replies"]) else "-"
        lines.append((f"c09base {int(rep == '-')} {outcome.split()[1]}", "1"))
    return lines


def _fault_kind(case):
    return case.get("_fault", "none")


FAULT = C.Kind("op-under-fault", impl=H.run_case, model=H.model_line, judge=_judge, compare=H.same("class"),
               classify=lambda c, o: f"{c['req']['op']}:{_fault_kind(c).split('@')[0]}:{H.outcome_of(o).split()[0] if not H.outcome_of(o).startswith('raise') else H.outcome_of(o)}",
               nontrivial=lambda c, o: (c["req"]["op"], _fault_kind(c), H.outcome_of(o).split(" u:")[0][:40]),
               shrink=lambda c: [dict(c, replies=c["replies"][:-1])] if len(c["replies"]) > 1 else [])
KINDS = {"op-under-fault": FAULT}


# ---- the same faults in the middle of a connection's life: an operation that succeeded before must not help a later one ----------

import histharness as HH  # noqa: E402


def _judge_hist(hist, out):
    lines = []
    for inst, outs in zip(hist["instances"], HH.split_history_output(hist, out)):
        for op, o in zip(inst["ops"], outs):
            lines += _judge({"req": op["req"], "replies": op["replies"]}, o)
    return lines


HIST = C.Kind("fault-after-success", impl=HH.run_history, model=HH.model_lines, assemble=HH.assemble, judge=_judge_hist, compare=H.same("class"),
              classify=lambda h, o: "+".join(op["req"]["op"] + ":" + op.get("_fault", "none").split("@")[0] for op in h["instances"][0]["ops"])[:60],
              nontrivial=lambda h, o: tuple((op["req"]["op"], op.get("_fault", "none")) for op in h["instances"][0]["ops"]),
              shrink=lambda h: [dict(h, instances=[dict(h["instances"][0], ops=h["instances"][0]["ops"][:i] + h["instances"][0]["ops"][i + 1:])])
                                for i in range(len(h["instances"][0]["ops"])) if len(h["instances"][0]["ops"]) > 1])
KINDS["fault-after-success"] = HIST


def _histories(rng, n):
    """[an operation that succeeds] ; [an operation under fault] ; [the first one again], all on ONE connection"""
    out = []
    ops = [o for o in G.ALL_OPS if o != "createsched"]     # create_schedule reads the clock twice: single-operation streams only
    while len(out) < n:
        op = rng.choice(ops)
        if len(out) % 3 == 2 and rng.random() < 0.6:
            op = rng.choice(["getState", "getshutter", "getbreeze", "ctlbreeze"])
        fl = _faults(rng, op, full=False)
        faulty = [c for c in fl if c["_fault"].split("@")[0] in ("empty", "prefix")]
        c = rng.choice(faulty)
        t2 = op in H.TYPE2_OPS
        good_op = rng.choice(["stop", "getshutter", "setpos"] if t2 else ["getState", "control", "getschedules"])
        g, _ = _base_case(rng, good_op)
        t = float(rng.randrange(1_600_000_000, 1_900_000_000))
        mk = lambda case, at, tag: {"now": at, "req": case["req"], "replies": case["replies"], "_fault": tag}  # noqa: E731
        g2, _ = _base_case(rng, good_op)
        if len(out) % 3 == 2:
            # the SAME operation: answered well, then twice in a row with the very same bad replies, then answered well again -
            # a bad reply is a bad reply however often it comes and whatever was parsed before
            ok = fl[0]
            out.append({"tz": "UTC", "schedule": [], "instances": [{"did": c["did"], "key": c["key"], "api": "type2" if t2 else "type1",
                        "ops": [mk(ok, t, "none"), mk(c, t + 7, c["_fault"]), mk(c, t + 9, c["_fault"]), mk(ok, t + 20, "none")]}]})
            continue
        out.append({"tz": "UTC", "schedule": [], "instances": [{"did": c["did"], "key": c["key"], "api": "type2" if t2 else "type1",
                    "ops": [mk(g, t, "none"), mk(c, t + 7, c["_fault"]), mk(g2, t + 20, "none")]}]})
    return out


def _base_case(rng, op):
    c = G.gen_case(rng, op)
    c["now"] = float(rng.randrange(1_600_000_000, 1_900_000_000))
    c["tz"] = "UTC"
    r = c["req"]
    # accepted arguments so that every step is reached
    if op == "control":
        r["minutes"] = rng.choice([0, 30])
    if op == "autoshutdown":
        r["micros"] = 7200 * 10 ** 6
    if op == "setname":
        r["name"] = "my device"
    if op == "delsched":
        r["id"] = "3"
    if op == "createsched":
        r.update(start="10:00", stop="11:30", days=[0, 3], form="set")
    if op == "setpos":
        r["pos"] = 40
    if op == "ctlbreeze":
        ir = G.gen_irset(rng, dense=True)
        ir["IRWaveList"] += [{"Key": k, "Para": "P", "HexCode": "AA"} for k in ("aa", "ad", "aw", "ar", "ah", "off", "FUN_d0", "FUN_d1", "on_aa", "on_ar", "on_ah", "on_ad", "on_aw")]
        shape = rng.choice(["cmd", "status", "swing-only", "cmd+swing"])
        if shape in ("swing-only", "cmd+swing"):
            ir["IRSetID"] = rng.choice(G.SPECIAL_IDS)
        r["ir"] = ir
        if shape == "swing-only":
            r.update(state=None, mode=None, temp=0, fan=None, swing=rng.choice(["ON", "OFF"]), upd=0)
        elif shape == "cmd+swing":
            r.update(state=r["state"] or "ON", swing=rng.choice(["ON", "OFF"]), upd=0)
        elif shape == "status":
            r.update(state=r["state"] or "ON", upd=1)
        else:
            r.update(state=r["state"] or "ON", upd=0)
    nsteps = 4 if op == "ctlbreeze" else 2
    valid = [G.gen_login(rng, 48)]
    if op in ("getState", "getshutter", "getbreeze", "ctlbreeze"):
        valid.append(G.gen_state_reply(rng, op))
    while len(valid) < nsteps:
        valid.append("00" * rng.randrange(1, 30))
    c["replies"] = valid
    return c, nsteps


def _with(c, step, rep, tag):
    r = list(c["replies"])
    r[step] = rep
    return dict(c, replies=r, _fault=f"{tag}@{step}")


def _faults(rng, op, full):
    c, nsteps = _base_case(rng, op)
    out = [dict(c, _fault="none")]
    for step in range(nsteps):
        valid = bytes.fromhex(c["replies"][step])
        out.append(_with(c, step, "-", "empty"))
        for ws in ("20", "0a", "090d0a20", "2020202020202020", "00", "0000"):      # not empty: blanks only, NULs only
            out.append(_with(c, step, ws, "blank"))
        plens = range(1, len(valid) + 1) if full else sorted(set([1, 2, 8, 11, 12, 13, 40, 74, 75, 76, 77, 78, 80, 81, 82, 84, 88, 89, 92, 93, 96, 97, 100, 101]
                                                               + [rng.randrange(1, len(valid) + 1) for _ in range(6)]))
        for n in plens:
            if n <= len(valid):
                out.append(_with(c, step, valid[:n].hex(), "prefix"))
        for _ in range(6 if full else 2):
            out.append(_with(c, step, rng.randbytes(rng.choice([1, 2, rng.randrange(1, 200), rng.randrange(1, 1025)])).hex(), "random"))
        for _ in range(12 if full else 4):
            b = bytearray(valid)
            i = rng.randrange(len(b))
            b[i] = rng.randrange(256)
            if rng.random() < 0.3 and len(b) > 100:
                j = rng.choice([75, 76, 77, 78, 79, 80, 81, 84, 89, 93, 97])
                b[j:j + 4] = rng.randbytes(4)
            out.append(_with(c, step, bytes(b).hex(), "corrupt"))
    return out


def streams(ctx):
    rng = ctx.rng
    for op in G.ALL_OPS:
        cases = []
        for _ in range(ctx.n(1, 12) * (6 if op == "ctlbreeze" else 1)):
            cases += _faults(rng, op, full=not ctx.quick)
        ctx.run_cases(FAULT, f"faults-{op}", cases, exhaustive=False, sample_every=max(1, len(cases) // 2))
    # every prefix of the valid state replies (the parsers' whole truncation domain), always complete
    pref = []
    for op in ("getState", "getshutter", "getbreeze"):
        c, _ = _base_case(rng, op)
        valid = bytes.fromhex(c["replies"][1])
        pref += [_with(c, 1, valid[:n].hex() if n else "-", "prefix") for n in range(0, len(valid) + 1)]
    ctx.run_cases(FAULT, "every-prefix-of-valid-state-replies", pref, exhaustive=True, sample_every=90)
    hs = _histories(rng, ctx.n(150, 3000))
    ctx.run_cases(HIST, "fault-after-a-successful-operation-on-the-same-connection", hs, exhaustive=False, sample_every=max(1, len(hs) // 3))
    # the same kind of history against a device that takes 0.5 s .. 2 min over some replies (virtual loop clock): a reply that is late is
    # still that reply - never an error by itself, never somebody else's success
    slow = [HH.with_slow_replies(rng, h) for h in _histories(rng, ctx.n(60, 1200))]
    ctx.run_cases(HIST, "faults-and-a-device-that-is-slow-to-answer-under-a-virtual-clock", slow, exhaustive=False, sample_every=max(1, len(slow) // 3))


def search(ctx, broken):
    rng = ctx.rng
    cases = []
    for op in G.ALL_OPS:
        for _ in range(12 if op == "ctlbreeze" else 3):
            cases += _faults(rng, op, full=True)
    outs = [H.run_case(c) for c in cases]
    lines, meta = [], []
    for c, o in zip(cases, outs):
        for l, e in _judge(c, o):
            lines.append(l)
            meta.append((c, o, e))
    got = C.run_exe("specjudge", lines)
    for (c, o, e), l, g in zip(meta, lines, got):
        if g != e:
            return {"kind": "op-under-fault", "args": c, "impl": o, "judge": l, "expected": e, "got": g}
    return None
