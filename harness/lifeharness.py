"""Real-socket life cycles: SwitcherBridge on loopback UDP ports (C17) and SwitcherType1Api / SwitcherType2Api against a
scripted TCP device on loopback (C18).  Output per action: `<outcome>:<flag>:<observed resource state>`."""
from __future__ import annotations

import asyncio
import os
import socket
import warnings
from typing import List

import apiharness as H
import bridgeharness as BH
import common as C


# ---------------------------------------------------------------------------------------------
# C17


def udp_sockets_of_this_process() -> dict:
    """{inode: local port} of the UDP sockets this process holds: what a bridge 'leaves behind' is looked for here, whatever port
    number it sits on.  Every socket descriptor of the process is asked directly (a duplicate of the descriptor, closed again at
    once); nothing is read from the machine-wide tables, which other processes change while they are being read."""
    out = {}
    for fd in os.listdir("/proc/self/fd"):
        try:
            link = os.readlink(f"/proc/self/fd/{fd}")
        except OSError:
            continue
        if not link.startswith("socket:["):
            continue
        try:
            dup = socket.socket(fileno=os.dup(int(fd)))
        except OSError:
            continue
        try:
            if dup.family in (socket.AF_INET, socket.AF_INET6) and dup.type == socket.SOCK_DGRAM:
                out[int(link[8:-1])] = dup.getsockname()[1]
        except OSError:
            pass
        finally:
            dup.close()
    return out


def _abort_transports_opened_since(loop, fds_before) -> None:
    """a transport the bridge has forgotten (finding F9) would sit in this process, and in its selector, for the rest of the run:
    whatever the event loop watches now and did not watch when the case began is aborted when the case is over"""
    try:
        for key in list(loop._selector.get_map().values()):
            if key.fd in fds_before:
                continue
            for handle in (key.data if isinstance(key.data, tuple) else (key.data,)):
                owner = getattr(getattr(handle, "_callback", None), "__self__", None)
                if owner is not None and hasattr(owner, "abort"):
                    owner.abort()
    except Exception:  # noqa - housekeeping only
        pass


def _inode(sock) -> int:
    return os.fstat(sock.fileno()).st_ino


_HUNG = {"bridge": 0, "client": 0}             # histories in which the object under test hung; after three, no more are attempted
_PATIENCE = {"bridge": 120, "client": 60}      # seconds a history may take before the object under test is declared hung

PORT_FORMS = {"list": list, "tuple": tuple, "set": set, "frozenset": frozenset, "keys": lambda ps: dict.fromkeys(ps).keys()}


async def _bridge_life(nports: int, acts: List[str], st: dict, all_acts: List[str], last: bool) -> str:
    """one segment of a bridge history; `st` carries the bridge object, the ports and the harness's sockets from one segment (one
    event loop) to the next"""
    from aioswitcher.bridge import SwitcherBridge
    loop = asyncio.get_running_loop()
    loop.set_exception_handler(lambda l, ctx: None)
    if "bridge" not in st:
        ports = BH.free_udp_ports(nports)
        form = "list"
        for a in all_acts:
            if a.startswith("bad:"):        # this configured port can never be bound (outside 0..65535: bind raises OverflowError, not OSError)
                ports[int(a[4:])] = 70000 + int(a[4:])
            if a.startswith("zero:"):       # this configured port is 0: the system chooses a free one at every start
                ports[int(a[5:])] = 0
            if a.startswith("as:"):         # the ports are handed over in another kind of container
                form = a[3:]
        st["count"] = [0]

        def cb(device, _c=st["count"]):
            _c[0] += 1
        st["ports"] = ports
        st["bridge"] = SwitcherBridge(cb, PORT_FORMS[form](ports))
        st["before"] = set(udp_sockets_of_this_process())     # whatever earlier cases may have left in this process is not this case's
        st["other_bridge"] = [None]       # a second bridge OBJECT configured with the same ports (created when first used)
        st["others"] = {}
        st["tx"] = socket.socket(socket.AF_INET, socket.SOCK_DGRAM)
    ports, count, bridge, before = st["ports"], st["count"], st["bridge"], st["before"]
    other_bridge, others, tx = st["other_bridge"], st["others"], st["tx"]
    try:
        watched_before = set(loop._selector.get_map().keys())
    except Exception:  # noqa
        watched_before = None
    dgram = BH.sentinel_datagram(0).replace(BH.SENTINEL_NAME.encode(), b"xx-ordinary")
    out = []

    def unaccounted():
        """local ports of UDP sockets of this process that are neither the harness's nor sit on a configured (non-zero) port"""
        mine = {_inode(tx)} | {_inode(x) for x in others.values()}
        return [p for ino, p in udp_sockets_of_this_process().items() if ino not in before and ino not in mine and p not in ports]
    with warnings.catch_warnings(record=True):
        warnings.simplefilter("always")
        try:
            for a in acts:
                res = "ok"
                try:
                    if a in ("start", "enter"):
                        if a == "enter":
                            await bridge.__aenter__()
                        else:
                            await bridge.start()
                    elif a.startswith("cstart:"):
                        # start() is CANCELLED while it is suspended in the create_datagram_endpoint of port k (the task is cancelled
                        # for real at the moment that call is made; asyncio then takes back the endpoint it was creating): a start
                        # that fails, fails - nothing may be left listening, whatever was bound before
                        k = int(a[7:])
                        real, calls = loop.create_datagram_endpoint, [0]
                        task = asyncio.ensure_future(bridge.start())

                        async def endpoint(*args, _real=real, _calls=calls, _k=k, _task=task, **kw):
                            _calls[0] += 1
                            if _calls[0] - 1 == _k:
                                _task.cancel()
                            return await _real(*args, **kw)
                        loop.create_datagram_endpoint = endpoint
                        try:
                            await task
                            if calls[0] > k:
                                res = "cancelled-start-returned-normally"
                        except asyncio.CancelledError:
                            res = "raise_OSError"
                        finally:
                            del loop.create_datagram_endpoint
                    elif a in ("stop", "leave"):
                        if a == "leave":
                            await bridge.__aexit__(None, None, None)
                        else:
                            await bridge.stop()
                    elif a in ("ostop", "ostart"):
                        # another bridge object with the same ports, never running: stopping it, or trying (in vain, while this
                        # one holds the ports) to start it, is none of this bridge's business
                        if other_bridge[0] is None:
                            other_bridge[0] = SwitcherBridge(lambda d: None, list(ports))
                        try:
                            await (other_bridge[0].stop() if a == "ostop" else other_bridge[0].start())
                        except OSError:
                            pass
                        if other_bridge[0].is_running:      # it could start (this bridge was not running): stop it again at once
                            await other_bridge[0].stop()
                            await asyncio.sleep(0)
                            await asyncio.sleep(0)
                    elif a.startswith("sstop:"):
                        # a broadcast is on its way (sent k loop turns ago) when stop() is called: whatever happens to it, no
                        # callback may come once stop() has returned
                        _, i, k = a.split(":")
                        i, k = int(i), int(k)
                        if ports[i] <= 65535:
                            tx.sendto(dgram, ("127.0.0.1", ports[i]))
                        for _ in range(k):
                            await asyncio.sleep(0)
                        await bridge.stop()
                        c0 = count[0]
                        for _ in range(12):
                            await asyncio.sleep(0)
                        await asyncio.sleep(0.02)
                        if count[0] > c0:
                            res = "callback-after-stop-returned"
                    elif a.startswith("send:"):
                        i = int(a[5:])
                        n0 = count[0]
                        # nobody holds the port -> the datagram goes nowhere (short grace only); somebody other than the
                        # harness holds it -> that can only be the bridge: a delivery must follow, wait for it generously
                        # (so a loaded machine cannot turn a delivery into a "dropped")
                        if ports[i] > 65535:             # nothing can be sent to (or listen on) a port that does not exist
                            got = False
                        elif ports[i] == 0:              # the system's choice: whatever unaccounted-for socket there is, is it
                            cand = unaccounted()
                            for p in cand:
                                tx.sendto(dgram, ("127.0.0.1", p))
                            got = await BH.pump(lambda: count[0] > n0, timeout=2.0 if cand else 0.03)
                        else:
                            held_by_bridge = i not in others and not BH.bindable(ports[i])
                            tx.sendto(dgram, ("127.0.0.1", ports[i]))
                            got = await BH.pump(lambda: count[0] > n0, timeout=2.0 if held_by_bridge else 0.03)
                        res = "delivered" if got else "dropped"
                        if count[0] > n0 + 1:
                            res = "delivered-more-than-once"
                    elif a.startswith("occ:"):
                        i = int(a[4:])
                        s = socket.socket(socket.AF_INET, socket.SOCK_DGRAM)
                        try:
                            s.bind(("0.0.0.0", ports[i]))
                            others[i] = s
                        except OSError:
                            s.close()
                            res = "busy"
                    elif a.startswith("bad:") or a.startswith("zero:") or a.startswith("as:") or a == "newloop":
                        pass        # "newloop": the rest of the history runs under another event loop (see run_bridge_life)
                    elif a.startswith("rel:"):
                        i = int(a[4:])
                        if i in others:
                            others.pop(i).close()
                except OSError:
                    res = "raise_OSError"
                except Exception as e:  # noqa
                    # a start that fails, fails - whatever the class of the error (an out-of-range port gives OverflowError)
                    res = "raise_OSError" if a in ("start", "enter") else "raise_" + C.exc_name(e)
                # let the loop cycle so that closed transports release their ports
                await asyncio.sleep(0)
                await asyncio.sleep(0)
                loose = unaccounted()
                held = "".join(("1" if loose else "0") if p == 0 else "0" if (i in others or p > 65535 or BH.bindable(p)) else "1"
                               for i, p in enumerate(ports))
                if len(loose) > sum(1 for p in ports if p == 0):
                    res += f"+{len(loose)}-sockets-nobody-configured"      # more than the bridge was asked to listen on
                out.append(f"{res}:{int(bridge.is_running)}:{held}")
        finally:
            if last:
                try:
                    await bridge.stop()
                    if other_bridge[0] is not None:
                        await other_bridge[0].stop()
                except Exception:
                    pass
                for s in others.values():
                    s.close()
                tx.close()
                await asyncio.sleep(0)
                if watched_before is not None:
                    _abort_transports_opened_since(loop, watched_before)
                    await asyncio.sleep(0)
    return " ".join(out)


def run_bridge_life(nports: int, acts: List[str]) -> str:
    """the history is cut at every "newloop": each piece runs under an event loop of its own (the first under the harness's usual
    one), the bridge OBJECT stays the same - a bridge that is not running belongs to no loop"""
    if _HUNG["bridge"] >= 3:
        return "NOT-RUN(the bridge hung in three earlier histories of this run)"
    segments, cur = [], []
    for a in acts:
        cur.append(a)
        if a == "newloop":
            segments.append(cur)
            cur = []
    segments.append(cur)
    st: dict = {}
    outs = []
    for k, seg in enumerate(segments):
        last = k == len(segments) - 1
        if k == 0:
            loop = H.loop()
        else:
            loop = asyncio.new_event_loop()

        async def bounded(seg=seg, last=last):
            try:
                return await asyncio.wait_for(_bridge_life(nports, seg, st, acts, last), _PATIENCE["bridge"])
            except asyncio.TimeoutError:
                _PATIENCE["bridge"] = 15       # once a bridge has hung in this process, later histories (and the shrinking) wait less
                _HUNG["bridge"] += 1
                return "HARNESS-TIMEOUT(the bridge did not come back within 120 s)"
        try:
            if k:
                asyncio.set_event_loop(loop)
            r = loop.run_until_complete(bounded())
        finally:
            if k:
                loop.run_until_complete(asyncio.sleep(0))
                loop.close()
                asyncio.set_event_loop(H.loop())
        if seg:
            outs.append(r)
        if "HARNESS-TIMEOUT" in r:
            break
    return " ".join(o for o in outs if o)


# ---------------------------------------------------------------------------------------------
# C18


class Device:
    """a scripted TCP device: answers every frame; counts open connections and the ones that saw end-of-stream"""

    def __init__(self):
        self.open = 0
        self.eofs = 0
        self.resets = 0            # connections that ended with a reset instead of an orderly end-of-stream
        self.garbage = False
        self.hangup = False        # answer the next frame by half-closing the connection
        self.chatty = False        # after the next answer, go on sending: eight more bursts of 1 KiB that nobody asked for
        self.chat_done = None
        self.server = None
        self.port = 0

    async def start(self):
        self.server = await asyncio.start_server(self._serve, "127.0.0.1", 0)
        self.port = self.server.sockets[0].getsockname()[1]

    async def _serve(self, reader, writer):
        self.open += 1
        dead = False
        try:
            step = 0
            while True:
                data = await reader.read(4096)
                if not data:
                    self.eofs += 1
                    break
                step += 1
                if self.hangup or dead:
                    # the device stops talking on this connection: it half-closes (the client reads end-of-stream instead of a reply)
                    # but keeps listening, so it still sees when the client closes
                    if not dead:
                        writer.write_eof()
                    dead, self.hangup = True, False
                    continue
                if data[6:8] == b"\xa1\x00" or data[6:8] == b"\xa6\x00":      # login
                    writer.write(bytes.fromhex(H.login_reply(b"\x11\x22\x33\x44")))
                elif self.garbage:
                    writer.write(b"\x01\x02\x03")
                else:
                    writer.write(bytes.fromhex(H.state_reply(1, 100, 10, 20, 3600)))
                await writer.drain()
                if self.chatty:
                    self.chatty = False
                    for _ in range(8):
                        await asyncio.sleep(0.005)
                        writer.write(b"\xfe\xf0" + bytes(1022))
                        await writer.drain()
                    if self.chat_done is not None:
                        self.chat_done.set()
        except (ConnectionResetError, BrokenPipeError):
            self.resets += 1
        finally:
            self.open -= 1
            writer.close()

    async def pause(self):
        """stop listening (connections are refused) but keep the port number for resume()"""
        self.server.close()         # the listening socket is gone at once; connections that exist stay (wait_closed() would wait for them)
        await asyncio.sleep(0)

    async def resume(self):
        self.server = await asyncio.start_server(self._serve, "127.0.0.1", self.port, reuse_address=True)

    async def stop(self):
        self.server.close()
        await self.server.wait_closed()


class BodyError(Exception):
    pass


# what the body of `async with api:` may raise: leaving the context must disconnect whatever it is
BODY_EXCEPTIONS = {"BodyError": BodyError, "TimeoutError": TimeoutError, "ConnectionResetError": ConnectionResetError,
                   "BrokenPipeError": BrokenPipeError, "OSError": OSError, "RuntimeError": RuntimeError, "KeyError": KeyError,
                   "CancelledError": asyncio.CancelledError}


async def _client_life(api_type: str, acts: List[str]) -> str:
    import aioswitcher.api as A
    dev = Device()
    await dev.start()
    dead = BH.free_udp_ports(1)[0]     # a port nothing listens on (TCP): connection refused
    target = {"port": dev.port}
    real_open = asyncio.open_connection

    transports = []     # the transport of every client-side stream this run has opened (not the StreamWriter: an overwritten writer
                        # must stay collectable)

    async def redirected(host=None, port=None, family=None, **kw):
        r, w = await real_open(host="127.0.0.1", port=target["port"], family=family)
        transports.append(w.transport)
        return r, w
    cls = A.SwitcherType2Api if api_type == "type2" else A.SwitcherType1Api
    api = cls("127.0.0.1", "a123bc", "18")
    saved = A.open_connection
    # The client is pointed at the scripted device through its own address and port attributes, so that the library's own way of
    # opening the connection is what runs; only if a client has no such attributes is `open_connection` replaced instead.
    by_attr = hasattr(api, "_port") and hasattr(api, "_ip_address")
    if not by_attr:
        A.open_connection = redirected

    def aim(port):
        target["port"] = port
        if by_attr:
            api._ip_address, api._port = "127.0.0.1", port

    def note_transport():
        w = getattr(api, "_writer", None)
        t = getattr(w, "transport", None)
        if t is not None and all(t is not x for x in transports):
            transports.append(t)

    # ANOTHER client object talking to the same device (actions o:cok, o:op, o:disc): nothing it does may show on the first
    other = {"api": None, "transports": []}

    def other_api():
        if other["api"] is None:
            other["api"] = cls("127.0.0.1", "a123bc", "18")
        o = other["api"]
        if hasattr(o, "_port") and hasattr(o, "_ip_address"):
            o._ip_address, o._port = "127.0.0.1", dev.port
        else:
            target["port"] = dev.port
        return o

    def note_other():
        w = getattr(other["api"], "_writer", None)
        t = getattr(w, "transport", None)
        if t is not None and all(t is not x for x in other["transports"]) and all(t is not x for x in transports):
            other["transports"].append(t)

    def other_open():
        return sum(1 for t in other["transports"] if not t.is_closing())
    out = []
    try:
        for a in acts:
            res = "ok"
            try:
                if a == "cok":
                    aim(dev.port)
                    await api.connect()
                elif a == "cref":
                    aim(dead)
                    await api.connect()
                elif a == "crefs":          # refused on the device's OWN address: it is not listening for a moment, then it is again
                    aim(dev.port)
                    await dev.pause()
                    try:
                        await api.connect()
                    finally:
                        await dev.resume()
                elif a == "op":
                    dev.garbage = False
                    r = await (api.get_state() if api_type == "type1" else api.stop())
                elif a == "opx":
                    dev.garbage = True
                    r = await (api.get_state() if api_type == "type1" else api.get_shutter_state())
                elif a == "opeof":
                    dev.hangup = True
                    r = await (api.get_state() if api_type == "type1" else api.stop())
                elif a in ("opdown", "opeofdown"):
                    # an operation while the device is not LISTENING any more (the connection that exists stays what it is: alive, or
                    # - opeofdown - already hung up by the device): the client uses the connection it has
                    dev.garbage = False
                    await dev.pause()
                    try:
                        r = await (api.get_state() if api_type == "type1" else api.stop())
                    finally:
                        await dev.resume()
                elif a == "opchat":
                    # the device answers and then keeps sending (8 KiB in bursts nobody reads): once it is done and the data has
                    # arrived, a disconnect is still an orderly one - the device sees end-of-stream, not a reset
                    dev.garbage = False
                    dev.chatty, dev.chat_done = True, asyncio.Event()
                    r = await (api.get_state() if api_type == "type1" else api.stop())
                    try:
                        await asyncio.wait_for(dev.chat_done.wait(), 2)
                    except asyncio.TimeoutError:
                        pass
                    await asyncio.sleep(0.05)
                elif a == "disc":
                    await api.disconnect()
                elif a == "ccancel":
                    # a connect that never completes (the device does not answer the SYN) and is given up by its caller: the task is
                    # cancelled - wait_for does that - and the client is what it was, able to connect later
                    import asyncio as _aio

                    async def hang(*args, **kw):
                        await _aio.Event().wait()
                    saved_open = (A.open_connection, _aio.open_connection)
                    A.open_connection = _aio.open_connection = hang
                    try:
                        aim(dev.port)
                        try:
                            await _aio.wait_for(api.connect(), 0.05)
                            hung = False
                        except (_aio.TimeoutError, _aio.CancelledError):
                            hung = True
                    finally:
                        A.open_connection, _aio.open_connection = saved_open
                    if not hung:            # this client opens its connections some other way: the scenario cannot be staged; undo
                        await api.disconnect()
                    raise OSError("connect given up")
                elif a == "o:cpdrop":
                    # a copy of this client (copy.copy, whatever state it is in) is made and dropped again at once: an object that
                    # goes away takes nothing of this client's with it
                    import copy
                    import gc
                    c = copy.copy(api)
                    del c
                    gc.collect()
                    await asyncio.sleep(0)
                elif a == "o:copy":
                    import copy
                    if other["api"] is None:
                        other["api"] = copy.copy(api)       # the other client is a COPY of this one, made before either connected
                elif a.startswith("o:"):
                    o = other_api()
                    try:
                        if a == "o:cok":
                            await o.connect()
                        elif a == "o:disc":
                            await o.disconnect()
                        else:
                            await (o.get_state() if api_type == "type1" else o.stop())
                    except Exception:  # noqa - what happens to the OTHER client is not this property's business here
                        pass
                    note_other()
                elif a == "withref":            # `async with` while the device refuses the connection: the error comes out of the
                    aim(dead)                   # entry, the client stays as it was
                    async with api:
                        res = "entered-although-refused"
                elif a == "withop":             # a body that USES the connection: inside it the client is connected and an operation works
                    aim(dev.port)
                    dev.garbage = False
                    async with api:
                        inside = api.connected
                        await (api.get_state() if api_type == "type1" else api.stop())
                    if not inside:
                        res = "not-connected-inside-the-context"
                elif a == "with" or a.startswith("withx"):
                    aim(dev.port)
                    body_exc = None
                    if a.startswith("withx"):
                        body_exc = BODY_EXCEPTIONS[a.split(":", 1)[1] if ":" in a else "BodyError"]()
                    try:
                        async with api:
                            if body_exc is not None:
                                raise body_exc
                    except BaseException as e:  # noqa
                        if e is body_exc:
                            res = "raise_BodyError"      # the body's own exception came out again, whatever its class
                        else:
                            raise
            except RuntimeError:
                res = "raise_RuntimeError"
            except OSError:
                res = "raise_OSError"
            except Exception as e:  # noqa
                res = "raise_" + C.exc_name(e)
            # what the device sees.  The number of client-side streams that are not closed says what it WILL see once the accept /
            # the end-of-stream has travelled through the loop: wait for that (up to 2 s, so that a loaded machine cannot make the
            # observation early), then report the device's own count whatever it is.
            note_transport()
            want = sum(1 for t in transports if not t.is_closing()) + other_open()
            for _ in range(4000):
                await asyncio.sleep(0.0005)
                if dev.open == want:
                    break
                want = sum(1 for t in transports if not t.is_closing()) + other_open()
            await asyncio.sleep(0.001)
            # the device's connections that are not the other client's are this client's
            out.append(f"{res}:{int(api.connected)}:{dev.open - other_open()}" + ("R" if dev.resets else ""))
            dev.resets = 0
    finally:
        A.open_connection = saved
        try:
            await asyncio.wait_for(api.disconnect(), 2)
        except Exception:
            pass
        if other["api"] is not None:
            try:
                await asyncio.wait_for(other["api"].disconnect(), 2)
            except Exception:
                pass
        for t in other["transports"]:
            t.abort()
        for t in transports:            # whatever the client left open (a leak is reported above, it must not hang the harness:
            t.abort()                   # Server.wait_closed() waits for every connection)
        try:
            await asyncio.wait_for(dev.stop(), 3)
        except Exception:
            pass
    return " ".join(out)


def run_client_life(api_type: str, acts: List[str]) -> str:
    if _HUNG["client"] >= 3:
        return "NOT-RUN(the client hung in three earlier histories of this run)"
    async def bounded():
        try:
            return await asyncio.wait_for(_client_life(api_type, acts), _PATIENCE["client"])
        except asyncio.TimeoutError:
            _PATIENCE["client"] = 10
            _HUNG["client"] += 1
            return "HARNESS-TIMEOUT(the client did not come back within 60 s)"
    return H.loop().run_until_complete(bounded())
