"""./check Cxx --tier quick|thorough [--replay file]   (DESIGN.md §4)

exit 0  property held on everything explored (proofs checked, model == implementation, Spec
        predicate true of every observed behaviour)
exit 1  line `VIOLATION property=<id> replay=<path>` printed
exit 2  infrastructure failure (never a VIOLATION line)
"""
from __future__ import annotations

import argparse
import importlib
import json
import os
import random
import re
import subprocess
import sys
import time
import traceback

sys.path.insert(0, os.path.dirname(os.path.abspath(__file__)))
import common as C  # noqa: E402


def load_known(prop: str):
    p = os.path.join(C.VERIF, "known_findings.json")
    if not os.path.exists(p):
        return [], []
    d = json.load(open(p))
    return ([e for e in d.get("open", []) if prop in e.get("properties", [e.get("property")])],
            [e for e in d.get("fixed", []) if prop in e.get("properties", [e.get("property")])])


def run_corpus(ctx, mod, prop: str) -> None:
    """harness/corpus/<Cxx>.jsonl: minimised inputs on which this property failed before (under a seeded change or a since
    repaired defect).  They run first, on every run, whatever the seed."""
    p = os.path.join(C.VERIF, "harness", "corpus", f"{prop}.jsonl")
    if not os.path.exists(p):
        return
    by_kind = {}
    for line in open(p):
        if line.strip():
            c = json.loads(line)
            if c["kind"] in mod.KINDS:
                a = C.jsonable(c["args"])
                by_kind.setdefault(c["kind"], []).append(tuple(a) if isinstance(a, list) else a)
    for k, cases in by_kind.items():
        # an input that was recorded on a CHANGED tree may not even be expressible on this one (a device type that only the change
        # had, say): such an entry is skipped - the corpus exists to re-run known failing inputs, never to raise an alarm of its own
        usable, outs = [], []
        for a in cases:
            try:
                outs.append(mod.KINDS[k].impl(a))          # run ONCE: this is the observation that is compared and judged
                usable.append(a)
            except Exception as e:  # noqa
                ctx.notes.append(f"corpus entry of kind {k} skipped: not expressible on this tree ({type(e).__name__})")
        if usable:
            ctx.run_cases(mod.KINDS[k], f"corpus:{k}", usable, exhaustive=True, outs=outs)


def write_replay(prop: str, seed: int, payload: dict) -> str:
    d = os.path.join(C.VERIF, "replays")
    os.makedirs(d, exist_ok=True)
    path = os.path.join(d, f"{prop}-{int(time.time())}-{seed}.json")
    if os.path.exists(path):        # another run of the same check in the same second (checks running side by side)
        path = os.path.join(d, f"{prop}-{int(time.time())}-{seed}-{os.getpid()}.json")
    with open(path, "w") as f:
        json.dump(C.jsonable(payload), f, indent=1, default=str)
    return os.path.relpath(path, C.VERIF)


def audit(prop: str):
    """#print axioms for every property theorem; returns (ok, per-theorem axioms, problems)."""
    names = C.theorem_names(prop)
    wd = C.workdir()
    f = os.path.join(wd, f"Audit{prop}.lean")
    with open(f, "w") as fh:
        fh.write(f"import Switcher.Props.{prop}\n" + "".join(f"#print axioms {n}\n" for n in names))
    rc, out = C.run(["lake", "env", "lean", f])
    axioms, problems = {}, []
    for m in re.finditer(r"'([^']+)' depends on axioms: \[([^\]]*)\]", out.replace("\n ", " ")):
        axioms[m.group(1)] = [a.strip() for a in m.group(2).split(",") if a.strip()]
    for m in re.finditer(r"'([^']+)' does not depend on any axioms", out):
        axioms[m.group(1)] = []
    for n in names:
        if n not in axioms:
            problems.append(f"{n}: no axiom report")
        else:
            bad = [a for a in axioms[n] if a not in C.ALLOWED_AXIOMS]
            if bad:
                problems.append(f"{n}: depends on {bad}")
    if rc != 0:
        problems.append("audit file failed: " + "; ".join(C.first_errors(out)))
    return not problems, axioms, problems


def main() -> int:
    ap = argparse.ArgumentParser()
    ap.add_argument("prop")
    ap.add_argument("--tier", default=os.environ.get("VERIF_TIER", "quick"), choices=["quick", "thorough"])
    ap.add_argument("--replay")
    ap.add_argument("--no-build", action="store_true")
    a = ap.parse_args()
    prop = a.prop.upper()
    seed = int(os.environ.get("VERIF_SEED", "20240927"))
    t0 = time.time()

    C.use_repo()
    mod = importlib.import_module(f"props.{prop.lower()}")
    import harvest
    # plain random.Random on the pinned tree; on a tree that has literals the pinned tree has not, a generator that also tries those
    ctx = C.Ctx(prop=prop, tier=a.tier, seed=seed, rng=harvest.steered(f"{prop}-{seed}"))
    nov = harvest.novel()
    if nov["ints"] or nov["strs"]:
        ctx.notes.append(f"generators steered towards literals new in this tree: ints {nov['ints'][:24]} texts {nov['strs'][:12]}")
    digest = C.source_digest()

    # 1. regenerate Gen/ from the working tree, 2. build ------------------------------------
    import gen_model

    broken = []          # names of theorems / modules / streams that no longer check
    proof_ok = True
    gen_missing = []
    build_log = ""
    with C.BuildLock():
        try:
            gen_missing = gen_model.generate()
        except Exception as e:  # translator could not read the source as it stands
            gen_missing = [f"translator failed: {type(e).__name__}: {e}"]
        if not a.no_build:
            ok_j, log_j = C.lake_build(["specjudge"])
            if not ok_j:
                print(log_j[-3000:])
                print("infrastructure failure: specjudge does not build")
                return 2
            ok_p, build_log = C.lake_build([f"Switcher.Props.{prop}"])
            if not ok_p:
                proof_ok = False
                broken += [f"lake build Switcher.Props.{prop}: module {m}" for m in C.failed_modules(build_log)]
                broken += C.first_errors(build_log)
            ok_d, log_d = C.lake_build(["modeldriver"])
            if not ok_d:
                ctx.driver_ok = False
                broken += [f"lake build modeldriver: module {m}" for m in C.failed_modules(log_d)]
        # only what THIS property's theorems import counts: a rewrite the translator cannot follow in some other part of the code
        # is not this property's business
        areas = C.gen_areas(prop)
        gen_missing = [m for m in gen_missing if not isinstance(m, tuple) or m[0] in areas]
        if gen_missing:
            proof_ok = False
            broken += [f"translator ({m[0]}): {m[1]}" if isinstance(m, tuple) else f"translator: {m}" for m in gen_missing]

    # 3. audit -----------------------------------------------------------------------------
    names = C.theorem_names(prop)
    axioms = {}
    if proof_ok:
        ok_a, axioms, problems = audit(prop)
        forb = C.grep_forbidden()
        if forb:
            problems += [f"forbidden construct {h}" for h in forb]
        if problems:
            proof_ok = False
            broken += problems
    leanchecker = None
    if proof_ok and a.tier == "thorough" and not a.replay:
        mods = getattr(mod, "LEANCHECK_MODULES", [f"Switcher.Props.{prop}"])
        rc, out = C.run(["lake", "env", "leanchecker"] + mods, timeout=3600)
        leanchecker = rc == 0
        if rc != 0:
            proof_ok = False
            broken.append("leanchecker rejected: " + out[-300:])

    # replay mode -----------------------------------------------------------------------------
    if a.replay:
        rp = json.load(open(a.replay if os.path.isabs(a.replay) else os.path.join(C.VERIF, a.replay)))
        bad = 0
        for case in rp.get("cases", []):
            kind = mod.KINDS[case["kind"]]
            for pre in case.get("preceding", []):     # the calls that were made before it in the run that found it
                try:
                    kind.impl(tuple(pre) if isinstance(pre, list) and not isinstance(case["args"], list) else pre)
                except Exception:
                    pass
            out = C.impl_for_stream(kind, case.get("stream", ""))(case["args"])
            print(f"replay {case['kind']} args={json.dumps(case['args'])[:300]}\n  impl: {out[:300]}")
            if kind.judge:
                for line, exp in kind.judge(case["args"], out):
                    got = C.run_exe("specjudge", [line])[0]
                    okj = got == exp
                    print(f"  spec: {line[:200]} -> {got[:200]} (expected {exp[:200]}) {'ok' if okj else 'FALSE'}")
                    bad += 0 if okj else 1
            if kind.model and ctx.driver_ok:
                ml = kind.model(case["args"])
                m = kind.assemble(case["args"], C.run_exe("modeldriver", ml)) if isinstance(ml, list) else C.run_exe("modeldriver", [ml])[0]
                cmp = kind.compare or (lambda x, y: x == y)
                print(f"  model: {m[:300]} {'==' if cmp(m, out) else '!='} impl")
        if bad or not rp.get("cases"):
            print(f"VIOLATION property={prop} replay={a.replay}" + ("" if rp.get("cases") else " no-failing-input-found"))
            return 1
        print("replay: behaviour now satisfies the Spec predicate")
        return 0

    # 4. correspondence + Spec judgment of observed behaviour --------------------------------
    try:
        run_corpus(ctx, mod, prop)
        mod.streams(ctx)
    except (C.InfrastructureError, FileNotFoundError, PermissionError, MemoryError, subprocess.TimeoutExpired):
        traceback.print_exc()
        print("infrastructure failure in correspondence harness")
        return 2
    except Exception as e:
        # the harness could not make sense of what the implementation did (an output shape it has never produced on a tree where the
        # property holds): that is a broken correspondence, not an infrastructure problem - the failing-input search decides
        traceback.print_exc()
        broken.append(f"correspondence harness could not interpret the implementation's behaviour: {type(e).__name__}: {e}"[:300])

    # 5. known findings ----------------------------------------------------------------------
    open_k, fixed_k = load_known(prop)
    for e in open_k:
        hit = ctx.known_hits.get(e["id"])
        wit = mod.known_witness(e) if hasattr(mod, "known_witness") else None
        if hit or wit:
            print(f"KNOWN-FINDING: property={prop} {e['what']}")
    unknown_known = [k for k in ctx.known_hits if k not in {e["id"] for e in open_k}]
    for k in unknown_known:   # a hit classified to a finding that is not listed as open -> real failure
        ctx.spec_failures.append({"stream": "known-classifier", "kind": ctx.known_hits[k]["kind"],
                                  "args": ctx.known_hits[k]["args"], "impl": ctx.known_hits[k]["impl"],
                                  "judge": f"finding {k} is not listed open", "expected": "", "got": ""})

    # 6. verdict -------------------------------------------------------------------------------
    violation = None
    if ctx.spec_failures:
        f0 = next(f for f in ctx.spec_failures if "args" in f)
        kind = mod.KINDS[f0["kind"]]

        run_as = C.impl_for_stream(kind, f0.get("stream", ""))

        def still(args):
            out = run_as(args)
            if kind.known and kind.known(args, out):
                return False
            return any(C.run_exe("specjudge", [l])[0] != e for l, e in kind.judge(args, out))

        if kind.judge and kind.shrink:
            small = C.shrink_case(kind, f0["args"], still)
            if small != f0["args"]:
                f0 = dict(f0, args=small, impl=run_as(small), minimised_from=f0["args"])
        violation = {"stage": "search", "what": "the Spec predicate of the property is false of the implementation on this input",
                     "cases": [f0], "others": len(ctx.spec_failures) - 1}
    elif broken or ctx.disagreements:
        if ctx.disagreements:
            broken.append(f"correspondence: {len(ctx.disagreements)} disagreement(s) model != implementation, first in stream "
                          f"{ctx.disagreements[0]['stream']}")
        found = None
        try:
            found = mod.search(ctx, broken) if hasattr(mod, "search") else None
        except Exception:
            traceback.print_exc()
        if found:
            violation = {"stage": "search", "what": "proof/correspondence broke; failing-input search found this input",
                         "broken": broken, "cases": [found]}
        else:
            violation = {"stage": "proof" if not proof_ok else "correspondence", "broken": broken, "cases": [],
                         "disagreements": [d for d in ctx.disagreements if "args" in d][:5],
                         "what": "no longer shown to hold: the named theorem / correspondence stream does not check; "
                                 "the failing-input search found no input on which the Spec predicate is false",
                         "no_failing_input_found": True}

    # evidence ---------------------------------------------------------------------------------
    n_ex = C.count_examples(prop)
    obligations = len(names) + n_ex
    discharged = obligations if proof_ok else 0
    ev = {
        "property_id": prop, "tier": a.tier, "seed": seed, "level": "proof",
        "coverage": {
            "obligations": obligations, "discharged": discharged,
            "theorems": names, "nonvacuity_examples": n_ex,
            "checker_cmd": f"lake build Switcher.Props.{prop} && lake env lean <#print axioms of every theorem>"
                           + (" && lake env leanchecker" if a.tier == "thorough" else ""),
            "trusted_base": ["Lean 4.33.0 kernel", "axioms used: " + ", ".join(sorted({x for v in axioms.values() for x in v})),
                             "translator harness/gen_model.py", "correspondence harness + compiled modeldriver/specjudge",
                             "CPython/glibc primitives modelled in Model/Py.lean (validated by correspondence only)"],
            "axioms_per_theorem": axioms,
            "leanchecker": leanchecker,
            "evaluations": ctx.evaluations,
            "distinct_nontrivial": len(ctx.nontrivial_keys),
            "rule": getattr(mod, "RULE", ""),
            "traces_validated_against_impl": ctx.model_compared,
            "spec_judgements": ctx.judged,
            "streams": ctx.streams,
            "exhaustive_streams": {k: v for k, v in ctx.exhaustive.items()},
            "exhaustive": bool(ctx.streams) and all(ctx.exhaustive.get(s, False) for s in ctx.streams),
            "distribution": {k: dict(v.most_common(40)) for k, v in ctx.distribution.items()},
            "samples": ctx.samples[:12],
            "source_digest": digest, "repo": C.REPO,
            "known_findings_open": [e["id"] for e in open_k], "known_findings_fixed": [e["id"] for e in fixed_k],
            "notes": ctx.notes,
        },
        "assumptions": getattr(mod, "ASSUMPTIONS", []),
        "wall_s": round(time.time() - t0, 2),
        "violations": 0 if violation is None else 1,
    }
    # evidence/<id>.json describes a run against /repo with the project's own Lean directory; a maintenance run against some other
    # tree (a seeded change in a scratch worktree, VERIF_REPO / VERIF_LEAN_DIR / VERIF_EVIDENCE_DIR set) keeps its record elsewhere
    evdir = os.environ.get("VERIF_EVIDENCE_DIR") or (
        os.path.join(C.VERIF, ".work", "evidence-scratch") if (os.environ.get("VERIF_REPO") or os.environ.get("VERIF_LEAN_DIR"))
        else os.path.join(C.VERIF, "evidence"))
    os.makedirs(evdir, exist_ok=True)
    with open(os.path.join(evdir, f"{prop}.json"), "w") as f:
        json.dump(ev, f, indent=1, default=str)

    print(f"{prop} {a.tier} seed={seed}: theorems={len(names)} examples={n_ex} proofs={'ok' if proof_ok else 'BROKEN'} "
          f"evaluations={ctx.evaluations} model-compared={ctx.model_compared} spec-judged={ctx.judged} "
          f"disagreements={len(ctx.disagreements)} spec-failures={len(ctx.spec_failures)} wall={ev['wall_s']}s")
    if violation is None:
        return 0
    violation.update({"property": prop, "seed": seed, "tier": a.tier, "source_digest": digest})
    path = write_replay(prop, seed, violation)
    for b in broken[:8]:
        print("  broken:", b[:300])
    if violation["cases"]:
        c0 = violation["cases"][0]
        print("  failing input:", json.dumps(c0.get("args"), default=str)[:400])
        print("  implementation:", str(c0.get("impl"))[:300])
        print("  spec:", str(c0.get("judge"))[:200], "->", str(c0.get("got"))[:100], "expected", str(c0.get("expected"))[:100])
        print(f"VIOLATION property={prop} replay={path}")
    else:
        print(f"VIOLATION property={prop} replay={path} no-failing-input-found")
    return 1


if __name__ == "__main__":
    try:
        sys.exit(main())
    except SystemExit:
        raise
    except Exception:
        traceback.print_exc()
        print("infrastructure failure")
        sys.exit(2)
