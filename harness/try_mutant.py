"""Validate a seeded change and run the checks against it (maintenance tool, not a check).

usage: try_mutant.py <dir with patch.diff demo.py meta.json> <seed-id> [--props C01,C02] [--tier quick] [--keep]
Applies the patch to /repo's working tree, confirms: demo passes without / fails with it, the test-suite
result is unchanged, then runs ./check for the listed properties (default: the one in meta.json), undoes
the patch and (with --keep) stores the seed under /verif/seeded/<seed-id>/ with what was observed.
"""
import json, os, shutil, subprocess, sys, re

V = os.path.dirname(os.path.dirname(os.path.abspath(__file__)))
PY = "/venv/bin/python"


def sh(cmd, **kw):
    # the checks run by this tool look at changed trees: their evidence records do not belong in evidence/
    env = dict(os.environ, VERIF_EVIDENCE_DIR=os.path.join(V, ".work", "evidence-maintenance"))
    return subprocess.run(cmd, shell=True, capture_output=True, text=True, env=env, **kw)


def failing_tests():
    r = sh(f"cd /repo && {PY} -m pytest -q -p no:cacheprovider --timeout=900 -x --co -q >/dev/null 2>&1; "
           f"{PY} -m pytest -q -p no:cacheprovider --timeout=900 -rf tests 2>&1 | grep -E '^(FAILED|ERROR)' | sed 's/ - .*//' | sort")
    return r.stdout.strip().splitlines()


def main():
    d, sid = sys.argv[1], sys.argv[2]
    args = sys.argv[3:]
    meta = json.load(open(os.path.join(d, "meta.json")))
    props = [meta["property"]]
    tier = "quick"
    if "--props" in args:
        props = args[args.index("--props") + 1].split(",")
    if "--tier" in args:
        tier = args[args.index("--tier") + 1]
    patch = os.path.abspath(os.path.join(d, "patch.diff"))
    demo = os.path.abspath(os.path.join(d, "demo.py"))
    assert sh("git -C /repo status --porcelain").stdout.strip() == "", "repo not clean"
    res = {"seed": sid, "property": meta["property"], "summary": meta.get("summary"), "needs_to_manifest": meta.get("needs_to_manifest")}
    fast = "--fast" in args
    base_fail = [] if fast else failing_tests()
    r0 = sh(f"PYTHONPATH=/repo/src {PY} {demo}")
    res["demo_clean_exit"] = r0.returncode
    a = sh(f"git -C /repo apply {patch}")
    if a.returncode != 0:
        print("patch does not apply:", a.stderr)
        return 2
    try:
        r1 = sh(f"PYTHONPATH=/repo/src {PY} {demo}")
        res["demo_patched_exit"] = r1.returncode
        res["demo_patched_out"] = (r1.stdout + r1.stderr)[-400:]
        mut_fail = [] if fast else failing_tests()
        if mut_fail != base_fail:      # a few shipped tests depend on the wall clock (minute boundaries): look again
            import time as _t
            _t.sleep(2)
            mut_fail = failing_tests()
            if mut_fail != base_fail:
                sh("git -C /repo stash -q")
                base_fail = failing_tests()
                sh("git -C /repo stash pop -q")
                mut_fail = failing_tests()
        res["tests_unchanged"] = mut_fail == base_fail
        if mut_fail != base_fail:
            res["tests_diff"] = sorted(set(mut_fail) ^ set(base_fail))
        res["checks"] = {}
        for p in props:
            c = sh(f"cd {V} && timeout 1500 ./check {p} --tier {tier}")
            lines = [l for l in c.stdout.splitlines() if l.startswith(("VIOLATION", "KNOWN-FINDING", "  broken", "  failing input", "  spec", "  implementation"))]
            res["checks"][p] = {"exit": c.returncode, "lines": [l[:300] for l in lines][:8]}
    finally:
        sh("git -C /repo checkout -- . && git -C /repo clean -fdq -- src")
        sh("git -C /repo status --porcelain")
    valid = res["demo_clean_exit"] == 0 and res["demo_patched_exit"] != 0 and res["tests_unchanged"]
    res["valid_seed"] = valid
    res["caught_by"] = [p for p, c in res["checks"].items() if c["exit"] == 1]
    print(json.dumps(res, indent=1))
    if "--fast" in args:
        return 0
    if "--keep" in args and valid:
        out = os.path.join(V, "seeded", sid)
        os.makedirs(out, exist_ok=True)
        for src, name in ((patch, "patch.diff"), (demo, "demo.py")):
            if os.path.abspath(src) != os.path.abspath(os.path.join(out, name)):
                shutil.copy(src, os.path.join(out, name))
        m = dict(meta)
        m.update({"seed_id": sid, "breaks_property": meta["property"], "validated": {
            "demo_exit_clean": res["demo_clean_exit"], "demo_exit_patched": res["demo_patched_exit"],
            "test_suite_unchanged": res["tests_unchanged"]},
            "what_was_run": [f"git -C /repo apply seeded/{sid}/patch.diff", f"PYTHONPATH=/repo/src {PY} seeded/{sid}/demo.py",
                             "baseline pytest command (failing set compared)", *[f"./check {p} --tier {tier}" for p in props],
                             "git -C /repo checkout -- ."],
            "check_results": res["checks"], "caught_by": res["caught_by"]})
        json.dump(m, open(os.path.join(out, "meta.json"), "w"), indent=1)
    return 0


if __name__ == "__main__":
    sys.exit(main())
