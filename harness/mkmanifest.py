"""Writes MANIFEST.json from the table below (kept in one place so it is always valid)."""
import json, os
V = os.path.dirname(os.path.dirname(os.path.abspath(__file__)))
props = [json.loads(l) for l in open(os.path.join(V, "properties.jsonl"))]
CHECKS = {
 "C04": dict(text="Lean 4 theorems (sign_spec, sign_bytes, sign_rejects, sign_prefix, sign_total, spelling_lower / spelling_upper / sign_upper for "
                  "the two case spellings of every byte string) about a line-by-line model of "
                  "sign_packet_with_crc_key for ALL strings, against an independent bit-serial CRC-16; the model is tied to the "
                  "code by a differential correspondence stream (exhaustive on byte strings of length 0..1 / 0..2) and the real "
                  "function is judged directly against the Spec on every generated input.",
             note="Trusted: Lean kernel, axioms propext/Quot.sound, the correspondence harness, CPython's unhexlify/hexlify/"
                  "crc_hqx/struct.pack as modelled (validated by the stream, exhaustively for short inputs).",
             tech="Lean 4 proof by induction over the hex codec + differential correspondence (model vs code) + Spec judge",
             ref="§7 C04"),
 "C19": dict(text="Every clause of the property is a Lean theorem decided by kernel evaluation over the complete tables "
                  "(9 types, 4 classes, 4 categories, both port maps) which the translator regenerates from the working tree on "
                  "every run; the class guards are additionally exercised by constructing all 36 (class, type) pairs for real.",
             note="Trusted: Lean kernel (axioms: propext at most), translator (import of the enums/dicts; class guards observed by constructing all 36 (class, type) "
                  "pairs), exhaustive correspondence of the guards, repeated in other orders and after bridge traffic.",
             tech="Lean 4 `decide` over tables regenerated from source + exhaustive correspondence (36 constructions)",
             ref="§7 C19"),
 "C12": dict(text="Lean theorems for ALL duplicate-free day collections of any length/order (induction: sum of bit values = mask of "
                  "the set), all 127 masks both ways, all rejected inputs; models of weekdays_to_hexadecimal/bit_summary_to_days "
                  "tied to the code by exhaustive correspondence over every accepted input form and all masks.",
             note="Trusted: Lean kernel (propext, Quot.sound), generated Days table, Python's len(set(x)) modelled as 'no duplicates'.",
             tech="Lean 4 induction + `decide +kernel` over the finite mask domain + exhaustive correspondence",
             ref="§7 C12"),
 "C14": dict(text="Lean theorem duration_mod_24h for ALL 1440 x 1440 pairs at once (omega + kernel-evaluated text lemmas over the 1440 "
                  "minute values), plus equal/earlier-end corollaries and rejection of malformed text; the model of calc_duration "
                  "(strptime language, str(timedelta)) is tied to the code by correspondence: boundary grid + random pairs (quick), "
                  "every pair (thorough).",
             note="Trusted: Lean kernel (propext, Quot.sound), datetime.strptime('%H:%M') and str(timedelta) as modelled for ASCII text.",
             tech="Lean 4 proof (omega + `decide +kernel` text lemmas) + differential correspondence, exhaustive in thorough tier",
             ref="§7 C14"),
 "C01": dict(text="Lean theorems: (1) every reference frame of every operation kind is well formed (refWire_wellFormed: any session "
                  "id, id, key, timestamp, accepted argument, IR payload of any length < 65446) via skeleton reflection on the Spec "
                  "layouts; (2) the frames the model of each type-1/shutter operation writes ARE those reference frames (C02 theorems, "
                  "whose template/wiring facts are decided on data regenerated from the source), hence well formed; rejected "
                  "arguments write no command frame. The model's frames are compared byte for byte with the frames the real API "
                  "objects write (all 12 public operations incl. thermostat control), and every real frame is judged by Spec.wellFormedB.",
             note="Trusted: Lean kernel (propext, Classical.choice, Quot.sound), translator (templates via string.Formatter.parse, "
                  "format-argument wiring observed by tracing one run per operation shape, harness/trace_wiring.py), scripted in-memory streams instead of sockets, CPython primitives as modelled. "
                  "Thermostat-control frames: theorem at the reference-layout level + correspondence (per-operation theorem is in C16).",
             tech="Lean 4 proof by reflection over generated templates (decide +kernel) + differential correspondence + Spec judge",
             ref="§7 C01"),
 "C02": dict(text="Lean theorems per operation (control, auto-shutdown, name, schedules list/delete/create, stop, position, state "
                  "queries, both logins): for ALL accepted arguments, ids, keys, session ids and clock readings the command frame "
                  "equals the Spec's reference frame (fixed bytes per operation + reference encoding of each argument), each field "
                  "sits at the protocol's offset and decodes back (refFrame_field, *_decodes), rejected arguments raise after the login "
                  "frame with no command frame. Facts about templates and argument wiring are decided by the kernel on data regenerated "
                  "from the source each run. Real API objects are run on generated cases; their frames must equal the reference frame of "
                  "the independently computed semantic arguments.",
             note="Trusted: Lean kernel (propext, Classical.choice, Quot.sound), translator, in-memory streams, fixed-offset zones for "
                  "create_schedule (general zones: C11), CPython primitives as modelled. Known finding F8 (lenient clock strings) excluded by class.",
             tech="Lean 4 proof (symbolic-layout reflection + encoder laws) + differential correspondence + Spec judge",
             ref="§7 C02"),
 "C03": dict(text="Lean theorems: every operation is `_login` first and its first frame is the reference login frame of ITS OWN clock "
                  "reading with key (type 1) / device id (type 2) (starts_with_login, first_frame_is_login); at most 2 frames per "
                  "simple operation and 4 for thermostat control for every device behaviour (induction over the interaction tree); "
                  "command frames are the reference frames of that very login's session id (C02); `locality`/`no_leak`: for EVERY "
                  "schedule of ANY number of instances an instance's behaviour is its own sequential run (induction over the schedule). "
                  "PARTIAL: that the Python objects share nothing is checked by correspondence on histories (all ordered pairs of the 15 "
                  "operation kinds, sequences to length 20 with fresh session ids and an advancing clock - also with logins that are not answered or answered short inside a sequence, and with a device that is slow to answer under a virtual loop clock -, two instances under forced "
                  "interleavings); the asyncio scheduler itself is not modelled.",
             note="Trusted: Lean kernel (propext, Classical.choice, Quot.sound); deterministic scheduler on in-memory streams in place "
                  "of real reply delays; same-instance concurrency is outside the property.",
             tech="Lean 4 proof (interaction trees, induction over schedules) + history correspondence with forced interleavings",
             ref="§7 C03"),
 "C09": dict(text="Lean theorems for EVERY byte string at every step: state queries return a parsed response or RuntimeError and nothing "
                  "else (parsers shown to fail only with KeyError/ValueError, which the API layer converts; the query frame can be built "
                  "after ANY login reply); successful iff reply non-empty; an empty login reply makes state queries and all type-2 "
                  "operations raise RuntimeError with only the login frame written. Fault enumeration on the real API: every operation "
                  "x every step x {empty, every prefix, random 1..1024 bytes, corrupted fields} compared with the model and judged by Spec.c09ok; "
                  "histories on one connection: a fault after a success, the SAME bad reply twice in a row after a good one, and the same against a device that is slow to answer (virtual loop clock).",
             note="Trusted: Lean kernel (propext, Classical.choice, Quot.sound), CPython exception classes of int()/dict lookup/decode/"
                  "datetime.time as modelled (validated by the fault streams), scripted reader.",
             tech="Lean 4 proof (totality of parsers for all byte strings) + fault enumeration correspondence + Spec judge",
             ref="§7 C09"),
 "C05": dict(text="Lean theorems type1_decodes / shutter_decodes / thermo_decodes: for EVERY background, every device type of the family, "
                  "both states and every field value in its domain (all IPv4/MAC bytes, every UTF-8 name of 1..32 bytes incl. a proved "
                  "UTF-8 encode/decode round trip for all scalar values, power, times, position, direction, mode, temperatures, fan, "
                  "swing, remote id) the model of _parse_device_from_datagram yields exactly the Spec's expected device (OFF => zeros); "
                  "amps = round(w/220,1) simulated exactly and proved within 0.05 A for all 65,536 power values (kernel evaluation). "
                  "The model is compared with the real parser on reference-encoded broadcasts and the shipped captures, also through a running bridge "
                  "(one broadcast; the same one 3 and 130 times; ONE device heard 2..5 times by one bridge with other fields and its header clock "
                  "running on, standing still or jumping back).",
             note="Trusted: Lean kernel (propext, Classical.choice, Quot.sound), generated DeviceType table, CPython decode/int/inet_ntoa/"
                  "round as modelled (validated by correspondence; watts_to_amps exhaustively in the thorough tier).",
             tech="Lean 4 proof (field windows over arbitrary backgrounds, UTF-8 round trip, exact float simulation) + correspondence",
             ref="§7 C05"),
 "C06": dict(text="Lean theorems for EVERY byte string: the gate equals 'starts fe f0 and length in {165,168,159}' (gate_iff); anything "
                  "else yields `ignored` (no device, warning or exception); a gated frame with a model code outside the generated "
                  "table yields the unknown-device warning and never raises (unknown_model), known codes = the 9 generated ones. "
                  "Correspondence: every length 0..400, captures truncated/extended, model codes inside valid frames of all three shapes.",
             note="Trusted: Lean kernel (propext, Classical.choice, Quot.sound), generated tables, warnings/exception observation in the harness.",
             tech="Lean 4 proof for all byte strings + correspondence (all 65,536 model codes x 3 shapes in the thorough tier)",
             ref="§7 C06"),
 "C07": dict(text="PARTIAL. Lean theorems about the delivery function of a running bridge for EVERY datagram sequence on any ports: "
                  "exactly one delivery per valid broadcast (exactly_once), bad datagrams are transparent (bad_is_transparent), arrival "
                  "order overall and per port (in_order, per_port_order), independence from callback failures, each delivery is the "
                  "decoded device. The runtime facts the model assumes (asyncio isolates exceptions raised in datagram_received; loopback "
                  "UDP keeps order) are exercised on a REAL running bridge with 1..4 ports, cross-port interleavings and raising "
                  "callbacks, compared delivery by delivery with the model and judged against the Spec's expected devices.",
             note="Trusted: Lean kernel, assumption loopIsolates (asyncio) and UDP loopback ordering (observed, not proved).",
             tech="Lean 4 proof over all sequences (induction) + correspondence on a real UDP bridge with delivery barriers",
             ref="§7 C07"),
 "C08": dict(text="Lean theorems state1_decodes / shutter_decodes / thermo_decodes / login_session: for EVERY background of any sufficient "
                  "length and every field value in its domain the model of the response classes returns exactly what the Spec's "
                  "reference encoder wrote (HH:MM:SS times, watts, amps, position, direction, mode, fan, swing, tenths, target, remote "
                  "id, session bytes). Correspondence: real response classes on reference-encoded replies + the shipped replies "
                  "re-encoded by the Spec encoder; all power values in the thorough tier.",
             note="Trusted: Lean kernel (propext, Classical.choice, Quot.sound), generated enum tables, CPython int()/decode/round as modelled.",
             tech="Lean 4 proof (field windows over arbitrary backgrounds) + differential correspondence + Spec expectations",
             ref="§7 C08"),
 "C10": dict(text="Lean theorems: empty/short replies give no schedules; record_decodes: every well-formed 16-byte record parses to exactly "
                  "its id, recurrence flag, day set, local start/end (HH:MM shown by ANY zone table), their duration (C14) and the "
                  "next-run text (C13); list_decodes: a reply of ANY number of whole records yields the first record per distinct slot id "
                  "(ids pairwise distinct); create_reads_back: for every zone table, instant, pair of existing minutes and day set, "
                  "whatever instants mktime picks, the emitted record listed back parses to the same start, end and days. "
                  "Correspondence under 8 host zones incl. DST-change days, Spec judges per field, and a real create->list-back loop.",
             note="Trusted: Lean kernel (propext, Classical.choice, Quot.sound), zone tables exported from zoneinfo, textwrap.wrap/"
                  "localtime/strftime as modelled, a device lists back mask/start/end unchanged.",
             tech="Lean 4 proof (zone-table arithmetic by omega, induction over records) + correspondence under real zones",
             ref="§7 C10"),
 "C11": dict(text="Lean theorems for ANY zone table and ANY instant: mktime is a relation (all instants showing the wall time); every "
                  "possible encoding of an existing HH:MM is the LE32 of an instant showing HH:MM today (encode_is_epoch, candidate set "
                  "complete), decoding any of them returns the same HH:MM (decode_encode, roundtrip by omega); malformed text raises, "
                  "with the accepted language characterised exactly (known finding F8: leading blanks, extra ':' fields). "
                  "Correspondence: 18 zones x instants around every 2024-26 transition x minutes; real results must be model candidates.",
             note="Trusted: Lean kernel (propext, Classical.choice, Quot.sound), zone tables exported from zoneinfo over +-3 days, "
                  "strftime/strptime/mktime/localtime as modelled; gap times only 'does not raise'. KNOWN-FINDING F8 printed, exit 0.",
             tech="Lean 4 proof over arbitrary zone tables (relational mktime) + correspondence under TZ/time_machine",
             ref="§7 C11"),
 "C13": dict(text="Lean theorems: the decision core is verified for all 7 weekdays x 127 day sets x both time orders by kernel evaluation "
                  "against the declarative Spec.IsEarliest (minimal distance to the next occurrence); lifted to EVERY local instant, "
                  "start minute and day set: the text is the rendering of an earliest run (next_run_earliest), the named weekday is "
                  "selected, 'today' only if today is selected and the start is ahead, no days => today; the text depends on the times only "
                  "through 'start still ahead' and on the date only through the weekday. Correspondence under 8 zones incl. instants where "
                  "local and UTC weekday differ.",
             note="Trusted: Lean kernel (propext, Classical.choice, Quot.sound), generated Days table, datetime.now/strptime as modelled; "
                  "a set of days is represented by its sorted members.",
             tech="Lean 4 proof (`decide +kernel` over the finite decision domain, lifted by arithmetic lemmas) + correspondence",
             ref="§7 C13"),
 "C15": dict(text="Lean theorems for EVERY IR set that loads and every request of the enum domains: build_spec (the model of build_command "
                  "equals the Spec's command: refusal of exactly the unsupported modes, 'off' for non-toggle OFF, toggle prefix only when a "
                  "toggle remote must change state, temperature clamped into the set's range, the BEST KEY of the request, KeyError when "
                  "nothing is stored there); bestKey_isBest (declarative: most specific stored candidate, every more specific one absent); "
                  "capabilities (modes, temperature range, toggle, separate swing are those present in the set, via invariants of the "
                  "capability fold); payload (four zero bytes + text, LE16 length) for every text length; the remote MANAGER as a state machine "
                  "over a file system whose database files are written, replaced and removed and any number of manager objects "
                  "(Model.Manager): manager_first_load, manager_fresh_reads_current, manager_stable (the same object for ever), "
                  "manager_isolated / manager_answer_independent, manager_command_spec and manager_capabilities (the property itself through the manager), manager_returns_stored (for every history every remote handed out is "
                  "mkRemote of a set some version of the manager's OWN file held under that id). Correspondence on generated IR sets "
                  "loaded through the real classes and on manager histories with real files (object identity and a command per answer), "
                  "Spec judge on every build and on every manager answer.",
             note="Trusted: Lean kernel (propext, Classical.choice, Quot.sound), generated command tables, re.match/isdigit/json as "
                  "modelled for ASCII; requested temperature |t| <= 100 in build_spec (domain 0..60).",
             tech="Lean 4 proof (fold invariants, recursion on key prefixes) + differential correspondence + Spec judge",
             ref="§7 C15"),
 "C16": dict(text="Lean theorems about the thermostat-control program for every current state, request subset, remote and device behaviour: "
                  "merge_spec/separate_swing_excluded (what is sent per setting); status_update_frames (update-only: exactly login, state "
                  "query and the reference status frame of the merged settings, no IR frame); command_frame_payload (the IR frame is the "
                  "reference frame of build_command's payload for the merged settings and the reported previous state); swing_frame_iff; "
                  "nothing_actionable (RuntimeError after login); never_false_success (induction over the interaction tree: a reported "
                  "success implies no consumed reply was empty, for ALL reply sequences). Correspondence: subsets x states x remotes x "
                  "update flag, empty reply injected at each step, several requests through one api object (also against a thermostat that is slow to answer, under a virtual loop clock), Spec judges per frame.",
             note="Trusted: Lean kernel (propext, Classical.choice, Quot.sound), scripted reader, Python truthiness of the arguments as modelled "
                  "(target_temp 0 = omitted; enum members truthy).",
             tech="Lean 4 proof (interaction-tree invariants, frame reflection) + fault-injection correspondence + Spec judge",
             ref="§7 C16"),
 "C17": dict(text="PARTIAL. Lean theorems about the bridge's life-cycle state machine (start: bind the configured ports in order, roll back "
                  "and raise on the first failure; stop: close everything; async context = start/stop) for EVERY action sequence, every "
                  "number of ports and every interference by other sockets: inv_run (is_running <=> every configured port is held; not "
                  "running => none is held), stop_silences (after stop no broadcast is delivered, whatever follows until the next start), "
                  "stop_releases, failed_start_clean (a failed start changes nothing and leaves no port held), start_fails_iff, "
                  "stop_idempotent, restartable; code_refines / code_inv / code_stop_closes: a second model at the granularity of the code "
                  "(the `_transports` dictionary, the bind loop with `started_ports`, the rollback, stop's test) refines the abstract machine "
                  "for every action sequence; code_start_failing_at / code_start_failing_at_abs (a start that fails at ANY bind for ANY reason - the task cancelled while "
                  "suspended there, an error of any class - leaves exactly what was open before and the flag as it was; exercised by cancelling "
                  "a real start() at the k-th bind); foreign_is_invisible (what another bridge object does changes nothing). Configured port 0: "
                  "startZ_eq (configurations without port 0 are unaffected) and zero_port_leak - the OPEN finding F9 (start while running "
                  "with port 0 leaks a socket), printed as KNOWN-FINDING and listed in known_findings.json. What a theorem cannot carry (that closing a transport releases the OS port and that a bound "
                  "port receives datagrams) is observed by the correspondence on a REAL SwitcherBridge over loopback UDP after every action.",
             note="Trusted: Lean kernel (propext, Classical.choice, Quot.sound); hand model of start/stop tied by correspondence only "
                  "(no translator for this part); OS/asyncio socket behaviour observed, not proved.",
             tech="Lean 4 proof (invariant by induction over action lists) + differential correspondence on real loopback sockets + Spec judge",
             ref="§7 C17"),
 "C18": dict(text="PARTIAL. Lean theorems about the TCP client's connection state machine for EVERY action sequence: connected_exactly "
                  "(the `connected` flag is true exactly from a successful connect to the next disconnect/context exit; no hypothesis), "
                  "sockets_exactly (open sockets = 1 iff connected, else 0: nothing leaks, including after an operation that raises or a "
                  "body exception inside `async with`; on any runtime for sequences that do not connect over an open connection) and "
                  "sockets_exactly_all (the same for ALL sequences on a runtime that closes the transport of an unreferenced StreamWriter, "
                  "which is what this sandbox's CPython does and the harness observes), disconnect_closes, context_closes (normal and "
                  "exceptional exit), disconnect_first/twice harmless, refused_connect leaves the client as it was, reconnect works, "
                  "foreign_is_invisible (what another client object does - to the same device or not - changes nothing about this one); "
                  "client_code_refines / client_code_inv: a second model at the granularity of the code (the attributes `_writer`, `_reader`, "
                  "`_connected`, `hasattr(self, '_writer')`, the statements of connect / disconnect / __aenter__ / __aexit__ in order) refines "
                  "the abstract machine for every action sequence - it is this code-level model the correspondence runs -, "
                  "context_exit_ignores_exception (the exit closes whatever class of exception the body raised). "
                  "That closing the writer makes the device see end-of-stream is observed by the correspondence against a scripted device on "
                  "REAL loopback TCP (device-side open-connection count after every action), both API types, with and without the "
                  "restriction on connect.",
             note="Trusted: Lean kernel (propext, Classical.choice, Quot.sound); hand model of connect/disconnect/__aenter__/__aexit__ tied "
                  "by correspondence only; OS/asyncio stream behaviour (incl. StreamWriter.__del__) observed, not proved.",
             tech="Lean 4 proof (invariant by induction over action lists) + differential correspondence on real loopback TCP + Spec judge",
             ref="§7 C18"),
}
NOT_YET = "check not built yet in this revision (work in progress; see DESIGN.md Appendix B)"
m = {
 "version": 1,
 "setup_cmd": "./setup.sh",
 "hooks": {"guard": "AIOSWITCHER_VERIF", "enable": "no source hooks: the harness observes the public API in-process "
           "(PYTHONPATH=/repo/src) and through loopback sockets", "baseline_off_cmd":
           "cd /repo && /venv/bin/python -m pytest -ra -q -p no:cacheprovider --timeout=900 --continue-on-collection-errors",
           "source_commits": [], "add_only": True},
 "engines": [
  {"name": "lean-proofs", "path": "lean/Switcher/Props", "serves_properties": sorted(CHECKS), "kind_free_text":
   "Lean 4 theorems about the executable model (lean/Switcher/Model) and the independent Spec (lean/Switcher/Spec)"},
  {"name": "translator", "path": "harness/gen_model.py", "serves_properties": sorted(CHECKS), "kind_free_text":
   "regenerates lean/Switcher/Gen/*.lean from /repo on every run: templates and tables by import, wiring by tracing one run per operation shape (trace_wiring.py), guards by probing"},
  {"name": "correspondence", "path": "harness/check.py", "serves_properties": sorted(CHECKS), "kind_free_text":
   "differential run of the real code and the compiled Lean model (modeldriver) on the same inputs/histories; observed "
   "behaviour judged by the Spec predicates (specjudge); failing-input search when a proof or the correspondence breaks"}],
 "checks": [],
 "not_applicable": [],
 "notes": "All checks: ./check <id> --tier quick|thorough. exit 0 held / exit 1 VIOLATION line / exit 2 infrastructure.",
}
for p in props:
    i = p["id"]
    if i in CHECKS:
        c = CHECKS[i]
        m["checks"].append({"property_id": i, "quick_cmd": f"./check {i} --tier quick", "thorough_cmd": f"./check {i} --tier thorough",
                            "evidence_file": f"evidence/{i}.json", "replay_cmd_template": f"./check {i} --replay {{path}}",
                            "engine": "lean-proofs", "level_claimed": {"category": "proof", "text": c["text"], "design_ref": c["ref"]},
                            "level_note": c["note"], "technique": c["tech"]})
    else:
        m["not_applicable"].append({"property_id": i, "reason": NOT_YET})
json.dump(m, open(os.path.join(V, "MANIFEST.json"), "w"), indent=1)
print("checks:", len(m["checks"]), "not yet:", len(m["not_applicable"]))
