"""Maintenance: seeded/SUMMARY.md - one line per seeded breaking change: what it breaks (from its meta.json) and how the check of the
property it targets reported it in the last matrix run (seeded/matrix.json, written by harness/seed_matrix.py)."""
import glob
import json
import os

V = os.path.dirname(os.path.dirname(os.path.abspath(__file__)))
mx = json.load(open(os.path.join(V, "seeded", "matrix.json"))) if os.path.exists(os.path.join(V, "seeded", "matrix.json")) else {}
# changes the checks do not report, and why (DESIGN.md 10.13 - 10.15)
WHY_NOT = {
    "C02-m16": "breaks only when two tasks use ONE api object at the same time; with real streams the pinned library does not support that (StreamReader refuses a second pending read)",
    "C09-m15": "as C02-m16: needs two tasks reading on one connection",
    "C10-m15": "as C02-m16: concurrent create_schedule calls on one api object",
    "C18-m19": "as C02-m16: disconnect() waits for another task's request on the same object",
    "C02-m19": "wrong only through the NEW parameter `repeat=` it adds",
    "C03-m20": "wrong only in the NEW operation `set_light()` it adds",
    "C09-m19": "implements SwitcherType2Api.set_device_name (NotImplementedError on the pinned tree): a new operation",
    "C11-m20": "wrong only through the NEW parameter `tz=` it adds",
    "C12-m20": "wrong only for the NEW input type it adds (days given by name)",
    "C14-m19": "wrong only in the NEW method SwitcherSchedule.update() it adds",
    "C14-m20": "wrong only in the NEW method SwitcherSchedule.extend() it adds",
    "C17-m20": "wrong only through the NEW parameter `local_addresses=` it adds",
    "C19-m19": "wrong only for the NEW input type it adds (device type given as text)",
    "C19-m20": "wrong only in the NEW classmethod from_dict() it adds",
    "C04-m22": "only under warnings-as-errors (-W error): the warning it adds becomes an exception; with the default filters every result is identical",
    "C06-m22": "only for an unknown-model frame arriving at the OTHER protocol family's well-known port of a bridge on the default ports; the running-bridge stream of C06 uses private ports",
    "C18-m22": "an operation asked of a client that is NOT connected (it now connects by itself); the model's domain asks operations of connected clients only",
    "C01-m21": "needs a second api object's login to fail exactly between another object's IR command and its separate swing frame",
}
rows = []
for d in sorted(glob.glob(os.path.join(V, "seeded", "*", "meta.json"))):
    sid = os.path.basename(os.path.dirname(d))
    m = json.load(open(d))
    tgt = m.get("breaks_property") or m.get("property")
    r = mx.get(sid, {}).get(tgt)
    if r is None:
        how = "(not in the last matrix run)"
    elif r.get("concrete_input"):
        how = "VIOLATION with failing input `" + (r.get("input", "")[:110].replace("|", "/").replace("`", "'")) + "`"
    elif r.get("violation"):
        how = "VIOLATION … no-failing-input-found (" + "; ".join(b[:90] for b in r.get("broken", [])[:1]).replace("|", "/") + ")"
    else:
        how = "**not reported** - " + WHY_NOT.get(sid, "(exit %s)" % r.get("exit"))
    others = sorted(p for p, x in mx.get(sid, {}).items() if x.get("violation") and p != tgt)
    summ = (m.get("summary") or "").replace("\n", " ").replace("|", "/")
    rows.append(f"| {sid} | {summ[:260]} | {how} | {' '.join(others) or '-'} |")
with open(os.path.join(V, "seeded", "SUMMARY.md"), "w") as f:
    f.write("# Seeded breaking changes\n\nEach was written by a sub-agent that saw only the property text and a scratch worktree, validated here "
            "(demo passes on the clean tree and fails with the patch; shipped test-suite result unchanged). Columns: what was changed; how the "
            "quick check of the targeted property reported it; which other properties' quick checks also reported it.\n\n"
            "| change | what it does | reported by its property's check as | also reported by |\n|---|---|---|---|\n")
    f.write("\n".join(rows) + "\n")
print(len(rows), "rows")
