"""Host time zone + virtual clock for the schedule functions (C10, C11, C13): the zone is set with TZ +
tzset, the clock with time_machine.travel(<float>), and the zone's behaviour over a window around the
clock reading is exported from zoneinfo as a table (base offset + transitions) for the Lean model."""
from __future__ import annotations

import datetime
import os
import time
from functools import lru_cache
from zoneinfo import ZoneInfo

import time_machine

import apiharness as H
import common as C

ZONES = ["UTC", "Asia/Jerusalem", "America/New_York", "Australia/Lord_Howe", "Asia/Kathmandu", "Pacific/Kiritimati",
         "America/St_Johns", "Pacific/Apia", "Europe/London", "Pacific/Chatham", "Etc/GMT+11", "Etc/GMT-14", "America/Sao_Paulo",
         "Europe/Berlin", "Asia/Tokyo", "America/Los_Angeles", "Asia/Tehran", "Australia/Sydney"]
WINDOW = 6 * 86400      # the farthest instant a stream decodes lies 4 days from its clock reading (C13: polled 3 days later, slots a day back)


def _off(zi, t):
    return int(datetime.datetime.fromtimestamp(t, zi).utcoffset().total_seconds())


@lru_cache(maxsize=4096)
def zone_table(zone: str, day_bucket: int):
    """(base, [(instant, offset)…]) for instants within WINDOW of the bucket's day"""
    zi = ZoneInfo(zone)
    lo = day_bucket * 86400 - WINDOW
    hi = day_bucket * 86400 + WINDOW + 86400
    base = _off(zi, lo)
    trans = []
    t, cur = lo, base
    step = 1800
    while t < hi:
        n = min(t + step, hi)
        o = _off(zi, n)
        if o != cur:
            a, b = t, n
            while b - a > 1:
                mid = (a + b) // 2
                if _off(zi, mid) == cur:
                    a = mid
                else:
                    b = mid
            trans.append((b, _off(zi, b)))
            cur = _off(zi, b)
            t = b
        else:
            t = n
    return base, tuple(trans)


def zone_token(zone: str, now: float) -> str:
    base, trans = zone_table(zone, int(now // 86400))
    return "z=" + str(base) + "".join(f";{a}:{o}" for a, o in trans)


def transitions_near(zone: str, year_lo=2024, year_hi=2026):
    """UTC instants of the zone's transitions in the given years"""
    zi = ZoneInfo(zone)
    out = []
    t = int(datetime.datetime(year_lo, 1, 1, tzinfo=datetime.timezone.utc).timestamp())
    end = int(datetime.datetime(year_hi + 1, 1, 1, tzinfo=datetime.timezone.utc).timestamp())
    cur = _off(zi, t)
    while t < end:
        n = t + 86400
        if _off(zi, n) != cur:
            a, b = t, n
            while b - a > 1:
                mid = (a + b) // 2
                if _off(zi, mid) == cur:
                    a = mid
                else:
                    b = mid
            out.append(b)
            cur = _off(zi, b)
        t = n
    return out


def under(zone: str, now: float, fn):
    H.set_tz(zone)
    with time_machine.travel(float(now), tick=False):
        return fn()


def interesting_instants(rng, zone, n):
    """clock readings: around every transition of the zone (day before/of/after), year ends, leap days, random"""
    tr = transitions_near(zone)
    out = []
    for t in tr:
        for d in (-86400, -3600, -1, 0, 1, 3600, 86400):
            out.append(t + d + rng.choice([0, 0.5]))
    for y in (2024, 2025, 2026):
        for mo, da in ((12, 31), (1, 1), (2, 28), (3, 1)):
            out.append(datetime.datetime(y, mo, da, rng.randrange(24), rng.randrange(60), tzinfo=datetime.timezone.utc).timestamp())
    out.append(datetime.datetime(2024, 2, 29, 12, 0, tzinfo=datetime.timezone.utc).timestamp())
    # beyond 2038: the timestamps of the protocol are UNSIGNED 32-bit seconds
    out.append(float(2 ** 31 + rng.randrange(0, 10 ** 8)))
    out.append(float(2 ** 32 - 1 - rng.randrange(20 * 86400, 10 ** 8)))
    while len(out) < n:
        out.append(float(rng.randrange(1_700_000_000, 1_800_000_000)))
    rng.shuffle(out)
    return out[:n] if n < len(out) else out
