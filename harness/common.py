"""Shared machinery of the /verif checks (see DESIGN.md §3, §4).

Run with /venv/bin/python.  The implementation under test is always imported from the
*working tree* $VERIF_REPO/src (default /repo/src); that is asserted, never assumed.
"""
from __future__ import annotations

import atexit
import fcntl
import hashlib
import json
import os
import random
import re
import shutil
import subprocess
import sys
import time
from collections import Counter
from dataclasses import dataclass, field
from typing import Any, Callable, Dict, Iterable, List, Optional, Tuple

VERIF = os.path.dirname(os.path.dirname(os.path.abspath(__file__)))
REPO = os.path.abspath(os.environ.get("VERIF_REPO", "/repo"))
LEAN = os.path.abspath(os.environ.get("VERIF_LEAN_DIR", os.path.join(VERIF, "lean")))   # override: maintenance only (a scratch copy of the project)
BIN = os.path.join(LEAN, ".lake", "build", "bin")
ALLOWED_AXIOMS = {"propext", "Classical.choice", "Quot.sound"}
FORBIDDEN = re.compile(
    r"\b(sorry|admit|native_decide|bv_decide|implemented_by)\b|^\s*axiom\s|\bunsafe\s|maxHeartbeats\s+0\b",
    re.M,
)


def use_repo() -> None:
    """Make `import aioswitcher` resolve to the working tree and assert that it did."""
    src = os.path.join(REPO, "src")
    if sys.path[0] != src:
        sys.path.insert(0, src)
    for m in [m for m in sys.modules if m == "aioswitcher" or m.startswith("aioswitcher.")]:
        f = getattr(sys.modules[m], "__file__", "") or ""
        if not f.startswith(src):
            del sys.modules[m]
    import aioswitcher  # noqa

    assert os.path.abspath(aioswitcher.__file__).startswith(src + os.sep), (
        aioswitcher.__file__,
        src,
    )


def source_digest() -> str:
    h = hashlib.sha256()
    root = os.path.join(REPO, "src", "aioswitcher")
    for d, _, fs in sorted(os.walk(root)):
        for f in sorted(fs):
            if f.endswith(".py"):
                p = os.path.join(d, f)
                h.update(os.path.relpath(p, root).encode())
                h.update(open(p, "rb").read())
    return h.hexdigest()[:16]


_workdir: Optional[str] = None


def workdir() -> str:
    global _workdir
    if _workdir is None:
        _workdir = os.path.join(VERIF, ".work", str(os.getpid()))
        os.makedirs(_workdir, exist_ok=True)
        atexit.register(lambda: shutil.rmtree(_workdir, ignore_errors=True))
    return _workdir


class InfrastructureError(RuntimeError):
    """the machinery itself failed (executable missing, driver crashed, time-out): exit 2, never a verdict"""


class BuildLock:
    def __enter__(self):
        # one lock per Lean project directory (regenerating Gen/ and building must not interleave there)
        self.f = open(os.path.join(LEAN, ".build.lock"), "w")
        fcntl.flock(self.f, fcntl.LOCK_EX)
        return self

    def __exit__(self, *a):
        fcntl.flock(self.f, fcntl.LOCK_UN)
        self.f.close()


def run(cmd: List[str], cwd: str = LEAN, timeout: int = 3600, inp: Optional[str] = None) -> Tuple[int, str]:
    p = subprocess.run(cmd, cwd=cwd, input=inp, capture_output=True, text=True, timeout=timeout)
    return p.returncode, p.stdout + p.stderr


def lake_build(targets: List[str]) -> Tuple[bool, str]:
    rc, out = run(["lake", "build"] + targets, timeout=7200)
    return rc == 0, out


def failed_modules(log: str) -> List[str]:
    return sorted(set(re.findall(r"^- (\S+)", log, re.M)))


def first_errors(log: str, n: int = 6) -> List[str]:
    return [l for l in log.splitlines() if l.startswith("error:")][:n]


def run_exe(exe: str, lines: List[str]) -> List[str]:
    """Pipe `lines` to a compiled Lean executable; one output line per input line."""
    if not lines:
        return []
    wd = workdir()
    fin = os.path.join(wd, f"{exe}.in")
    with open(fin, "w") as f:
        f.write("\n".join(lines) + "\n")
    with open(fin) as f:
        p = subprocess.run([os.path.join(BIN, exe)], stdin=f, capture_output=True, text=True, timeout=3600)
    if p.returncode != 0:
        raise InfrastructureError(f"{exe} exited {p.returncode}: {p.stderr[:400]}")
    out = p.stdout.split("\n")
    if out and out[-1] == "":
        out.pop()
    if len(out) != len(lines):
        raise InfrastructureError(f"{exe}: {len(lines)} lines in, {len(out)} out")
    return out


# ---------------------------------------------------------------------------------------------
# wire helpers (mirror Switcher/Model/Wire.lean)


def hx(b: bytes) -> str:
    return b.hex() if b else "-"


def ut(s: str) -> str:
    """arbitrary text as a token"""
    return "u:" + hx(s.encode("utf-8", "surrogatepass"))


def un_ut(tok: str) -> str:
    assert tok.startswith("u:")
    h = tok[2:]
    return "" if h == "-" else bytes.fromhex(h).decode()


def jsonable(x):
    """x with everything that is not plain data removed (a case may carry live objects for the harness's own use; they do not belong
    in a replay file or in the corpus)"""
    if isinstance(x, dict):
        return {k: jsonable(v) for k, v in x.items() if isinstance(v, (dict, list, tuple, str, int, float, bool, type(None)))}
    if isinstance(x, (list, tuple)):
        return [jsonable(v) for v in x]
    return x


def finding_open(fid: str) -> bool:
    """is this finding listed as OPEN in the committed known_findings.json (only then may a check set it aside)"""
    try:
        return any(e.get("id") == fid for e in json.load(open(os.path.join(VERIF, "known_findings.json"))).get("open", []))
    except OSError:
        return False


def exc_name(e: BaseException) -> str:
    """Python exception -> the model's small enum (class family)."""
    import struct

    if isinstance(e, RuntimeError) and not isinstance(e, (NotImplementedError, RecursionError)):
        return "RuntimeError"
    if isinstance(e, struct.error):
        return "StructError"
    if isinstance(e, ValueError):
        return "ValueError"
    if isinstance(e, KeyError):
        return "KeyError"
    if isinstance(e, IndexError):
        return "IndexError"
    if isinstance(e, TypeError):
        return "TypeError"
    if isinstance(e, AttributeError):
        return "AttributeError"
    return "Other"


# ---------------------------------------------------------------------------------------------
# kinds, cases, context


@dataclass
class Kind:
    """One sort of observable behaviour of the implementation.

    impl(args)            -> canonical string of what the real code did
    model(args)           -> op line for `modeldriver` (its output must equal impl's), or None
    judge(args, out)      -> list of (specjudge line, expected output) — the Spec predicate of the
                             property evaluated on the observed behaviour; [] if not judged
    classify(args, out)   -> label for the input-distribution histogram
    nontrivial(args, out) -> key (hashable) if the case counts as non-trivial, else None
    known(args, out)      -> id of an open known finding this case belongs to, else None
    compare(model, impl)  -> bool (default equality)
    """

    name: str
    impl: Callable[[Any], str]
    model: Optional[Callable[[Any], Optional[str]]] = None
    judge: Optional[Callable[[Any, str], List[Tuple[str, str]]]] = None
    classify: Optional[Callable[[Any, str], str]] = None
    nontrivial: Optional[Callable[[Any, str], Any]] = None
    known: Optional[Callable[[Any, str], Optional[str]]] = None
    compare: Optional[Callable[[str, str], bool]] = None
    shrink: Optional[Callable[[Any], Iterable[Any]]] = None
    assemble: Optional[Callable[[Any, List[str]], str]] = None   # when model(args) returns several lines


@dataclass
class Ctx:
    prop: str
    tier: str
    seed: int
    rng: random.Random
    t0: float = field(default_factory=time.time)
    evaluations: int = 0
    model_compared: int = 0
    judged: int = 0
    distribution: Dict[str, Counter] = field(default_factory=dict)
    nontrivial_keys: set = field(default_factory=set)
    samples: List[Any] = field(default_factory=list)
    disagreements: List[dict] = field(default_factory=list)   # model != impl
    spec_failures: List[dict] = field(default_factory=list)   # Spec predicate false of impl
    known_hits: Dict[str, dict] = field(default_factory=dict)
    exhaustive: Dict[str, bool] = field(default_factory=dict)
    notes: List[str] = field(default_factory=list)
    driver_ok: bool = True
    judge_ok: bool = True
    streams: List[str] = field(default_factory=list)

    @property
    def quick(self) -> bool:
        return self.tier == "quick"

    def n(self, quick: int, thorough: int) -> int:
        return quick if self.quick else thorough

    # -- run a batch of cases of one kind through impl, model and judge ---------------------
    def run_cases(self, kind: Kind, stream: str, cases: List[Any], exhaustive: Optional[bool] = None,
                  sample_every: int = 0, outs: Optional[List[str]] = None) -> List[str]:
        if stream not in self.streams:
            self.streams.append(stream)
        if exhaustive is not None:
            self.exhaustive[stream] = exhaustive and self.exhaustive.get(stream, True)
        if outs is None:
            outs = [kind.impl(a) for a in cases]
        self.evaluations += len(cases)
        dist = self.distribution.setdefault(stream, Counter())
        for a, o in zip(cases, outs):
            if kind.classify:
                dist[kind.classify(a, o)] += 1
            if kind.nontrivial:
                k = kind.nontrivial(a, o)
                if k is not None:
                    self.nontrivial_keys.add((stream, k))
        step = sample_every or max(1, len(cases) // 2)
        for i in range(0, len(cases), step):
            if len([s for s in self.samples if s["stream"] == stream]) < 3:
                arg = {k: v for k, v in cases[i].items() if not k.startswith("_")} if isinstance(cases[i], dict) else cases[i]
                self.samples.append({"stream": stream, "kind": kind.name, "args": arg, "impl": outs[i][:300]})
        # model
        if kind.model and self.driver_ok:
            idx, lines, flat, spans = [], [], [], []
            for i, a in enumerate(cases):
                l = kind.model(a)
                if l is not None:
                    idx.append(i)
                    if isinstance(l, list):
                        spans.append((len(flat), len(l)))
                        flat.extend(l)
                        lines.append(" ;; ".join(l))
                    else:
                        spans.append((len(flat), None))
                        flat.append(l)
                        lines.append(l)
            fo = run_exe("modeldriver", flat)
            mo = []
            for (st, ln), i in zip(spans, idx):
                mo.append(fo[st] if ln is None else kind.assemble(cases[i], fo[st:st + ln]))
            self.model_compared += len(lines)
            cmp = kind.compare or (lambda m, i: m == i)
            for i, l, m in zip(idx, lines, mo):
                if not cmp(m, outs[i]):
                    kid = kind.known(cases[i], outs[i]) if kind.known else None
                    if kid:
                        self.known_hits.setdefault(kid, {"kind": kind.name, "args": cases[i], "impl": outs[i]})
                        continue
                    if len(self.disagreements) < 50:
                        self.disagreements.append({"stream": stream, "kind": kind.name, "args": cases[i],
                                                   "op": l, "impl": outs[i], "model": m})
                    else:
                        self.disagreements.append({"stream": stream})
        # judge
        if kind.judge and self.judge_ok:
            jl, meta = [], []
            for i, a in enumerate(cases):
                for (line, exp) in kind.judge(a, outs[i]):
                    jl.append(line)
                    meta.append((i, exp))
            jo = run_exe("specjudge", jl)
            self.judged += len(jl)
            for (i, exp), line, got in zip(meta, jl, jo):
                if got != exp:
                    kid = kind.known(cases[i], outs[i]) if kind.known else None
                    if kid:
                        self.known_hits.setdefault(kid, {"kind": kind.name, "args": cases[i], "impl": outs[i]})
                        continue
                    if len(self.spec_failures) < 50:
                        f = {"stream": stream, "kind": kind.name, "args": cases[i],
                             "impl": outs[i], "judge": line, "expected": exp, "got": got}
                        if not self.spec_failures:
                            # the calls made just before it in this process: a failure that depends on earlier calls (a cache, a
                            # remembered session) replays only after them
                            pre = list(cases[max(0, i - 40):i])
                            try:
                                if len(json.dumps(pre)) < 200_000:
                                    f["preceding"] = pre
                            except (TypeError, ValueError):
                                pass
                        self.spec_failures.append(f)
                    else:
                        self.spec_failures.append({"stream": stream})
        # a sample of every stream once more with the library logging at DEBUG (a log line that decodes, indexes or mutates something
        # is code like any other)
        if not stream.endswith(DEBUG_SUFFIX) and not stream.startswith("corpus:") and cases and getattr(kind, "debug_rerun", True):
            n = self.n(25, 150)
            sample = cases[::max(1, len(cases) // n)][:n]
            run = impl_for_stream(kind, stream + DEBUG_SUFFIX)
            self.run_cases(kind, stream + DEBUG_SUFFIX, sample, exhaustive=False, outs=[run(a) for a in sample])
        return outs


def shrink_case(kind: Kind, args: Any, still_fails: Callable[[Any], bool], budget: int = 200) -> Any:
    """Greedy shrinking with the kind's own candidate generator."""
    if not kind.shrink:
        return args
    cur = args
    progress = True
    while progress and budget > 0:
        progress = False
        for cand in kind.shrink(cur):
            budget -= 1
            if budget <= 0:
                break
            try:
                if still_fails(cand):
                    cur = cand
                    progress = True
                    break
            except Exception:
                continue
    return cur


def gen_areas(prop: str) -> set:
    """the generated files (Gen/<Area>.lean) the theorems of a property depend on: the import closure of Props/<prop>.lean"""
    seen, todo, areas = set(), [f"Switcher.Props.{prop}"], set()
    while todo:
        m = todo.pop()
        if m in seen:
            continue
        seen.add(m)
        path = os.path.join(LEAN, *m.split(".")) + ".lean"
        if m.startswith("Switcher.Gen."):
            areas.add(m.split(".")[-1])
        if not os.path.exists(path):
            continue
        for im in re.findall(r"^import\s+(Switcher\.[A-Za-z0-9_.]+)", open(path).read(), re.M):
            todo.append(im)
    return areas - {"Missing"}


def theorem_names(prop: str) -> List[str]:
    p = os.path.join(LEAN, "Switcher", "Props", f"{prop}.lean")
    names = []
    for m in re.finditer(r"^theorem\s+([A-Za-z0-9_'.]+)", open(p).read(), re.M):
        names.append(f"Props.{prop}.{m.group(1)}")
    return names


def count_examples(prop: str) -> int:
    p = os.path.join(LEAN, "Switcher", "Props", f"{prop}.lean")
    return len(re.findall(r"^example\b", open(p).read(), re.M))


def grep_forbidden() -> List[str]:
    hits = []
    for d, _, fs in os.walk(LEAN):
        if ".lake" in d:
            continue
        for f in fs:
            if not f.endswith(".lean"):
                continue
            p = os.path.join(d, f)
            src = open(p).read()
            # strip comments
            src2 = re.sub(r"/-.*?-/", lambda m: "\n" * m.group(0).count("\n"), src, flags=re.S)
            src2 = re.sub(r"--.*", "", src2)
            for m in FORBIDDEN.finditer(src2):
                line = src2.count("\n", 0, m.start()) + 1
                hits.append(f"{os.path.relpath(p, LEAN)}:{line}: {m.group(0).strip()}")
    return hits


CALL_FORMS = ("positional", "keyword", "keyword-reversed", "partial-last", "mixed")


def call_in_form(fn, names, values, form="positional"):
    """call fn with the documented parameter names (as they are at the pinned commit) in another equally legitimate form: all by
    keyword, by keyword in the opposite order, the last argument bound first through functools.partial, first positional + rest by
    keyword.  What a function returns must not depend on how its arguments were spelled."""
    import functools
    if form == "positional" or not names:
        return fn(*values)
    kw = dict(zip(names, values))
    if form == "keyword":
        return fn(**kw)
    if form == "keyword-reversed":
        return fn(**dict(reversed(list(kw.items()))))
    if form == "partial-last":
        return functools.partial(fn, **{names[-1]: values[-1]})(**dict(list(kw.items())[:-1]))
    return fn(values[0], **dict(list(kw.items())[1:]))


class debug_logging:
    """`with debug_logging():` - the library's loggers at DEBUG with a handler that formats every record and throws it away (the
    harness otherwise runs with logging disabled): what the library does must not depend on the log level"""

    def __enter__(self):
        import logging

        class Swallow(logging.Handler):
            def emit(self, record):
                record.getMessage()
        self.lg = logging.getLogger("aioswitcher")
        self.saved = (logging.root.manager.disable, self.lg.level, self.lg.propagate)
        self.h = Swallow()
        logging.disable(logging.NOTSET)
        self.lg.setLevel(logging.DEBUG)
        self.lg.propagate = False
        self.lg.addHandler(self.h)
        return self

    def __exit__(self, *exc):
        import logging
        self.lg.removeHandler(self.h)
        self.lg.setLevel(self.saved[1])
        self.lg.propagate = self.saved[2]
        logging.disable(self.saved[0])
        return False


DEBUG_SUFFIX = "@debug-logging"


def impl_for_stream(kind, stream):
    """the implementation runner of a kind as the given stream runs it (a stream named …@debug-logging runs with the library logging at DEBUG)"""
    if stream and stream.endswith(DEBUG_SUFFIX):
        def run(a):
            with debug_logging():
                return kind.impl(a)
        return run
    return kind.impl
