"""Maintenance tool (not a check): apply every seeded change in turn to /repo's working tree, run ALL quick checks against it,
record which checks report a VIOLATION (and whether with a concrete failing input), undo the change.  Writes
seeded/MATRIX.md and seeded/matrix.json, and appends the minimised failing inputs to harness/corpus/<Cxx>.jsonl (which every
check runs first).  /repo must be clean; it is left clean.

usage: seed_matrix.py [--root seeded|benign] [--only C01-m1,...] [--props C01,C02,...] [--own] [--jobs 4] [--shard i/n] [--merge]
--shard i/n: work on every n-th change starting at i, in a worktree of /repo and a copy of the Lean project of its own under
/tmp (created, used through VERIF_REPO / VERIF_LEAN_DIR, removed afterwards), writing <root>/matrix.<i>.json; several shards can run side
by side and /repo itself is not touched.  --merge: combine the shard files into matrix.json and write MATRIX.md.
With --root benign the changes under benign/ (behaviour-preserving rewrites) are run instead: every VIOLATION there is a false
alarm to be looked at; nothing is added to the corpus.
"""
import concurrent.futures as cf
import glob
import json
import os
import re
import subprocess
import sys

V = os.path.dirname(os.path.dirname(os.path.abspath(__file__)))


def sh(cmd, **kw):
    # the checks run by this tool look at changed trees: their evidence records do not belong in evidence/
    env = dict(os.environ, VERIF_EVIDENCE_DIR=os.path.join(V, ".work", "evidence-maintenance"))
    return subprocess.run(cmd, shell=True, capture_output=True, text=True, env=env, **kw)


ENV = ""
REPO = "/repo"
# --relevant: which source files a property's check looks at closely enough for a rewrite there to matter to it
RELEVANT = {"C01": ["api/__init__.py", "messages.py", "device/tools.py", "packets.py", "remotes.py"], "C15": ["remotes.py"], "C17": ["bridge.py"], "C07": ["bridge.py"], "C05": ["bridge.py", "device/__init__.py", "device/tools.py"], "C18": ["api/__init__.py"], "C03": ["api/__init__.py", "messages.py", "device/tools.py", "packets.py"],
            "C09": ["api/__init__.py", "messages.py"]}


def run_check(prop):
    r = sh(f"cd {V} && {ENV} ./check {prop} --tier quick", timeout=2400)
    m = re.search(r"VIOLATION property=(\S+) replay=(\S+)( no-failing-input-found)?", r.stdout)
    return prop, r.returncode, (m.group(2) if m else None), bool(m and m.group(3)), r.stdout[-600:]


def main():
    args = sys.argv[1:]
    root = args[args.index("--root") + 1] if "--root" in args else "seeded"
    seeds = sorted(os.path.basename(os.path.dirname(p)) for p in glob.glob(os.path.join(V, root, "*", "patch.diff")))
    if "--only" in args:
        seeds = args[args.index("--only") + 1].split(",")
    props = ["C%02d" % i for i in range(1, 20)]
    if "--props" in args:
        props = args[args.index("--props") + 1].split(",")
    jobs = int(args[args.index("--jobs") + 1]) if "--jobs" in args else 4
    global ENV, REPO
    shard = None
    if "--shard" in args:
        i, n = map(int, args[args.index("--shard") + 1].split("/"))
        shard = i
        seeds = seeds[i::n]
        REPO = f"/tmp/mx_repo_{i}"
        lean = f"/tmp/mx_lean_{i}"
        sh(f"git -C /repo worktree remove --force {REPO}; rm -rf {REPO} {lean}")
        assert sh(f"git -C /repo worktree add --detach {REPO} HEAD").returncode == 0
        assert sh(f"cp -a {V}/lean {lean}").returncode == 0
        ENV = f"VERIF_REPO={REPO} VERIF_LEAN_DIR={lean}"
    if "--merge" in args:
        merged = {}
        for f in sorted(glob.glob(os.path.join(V, root, "matrix.*.json"))):
            merged.update(json.load(open(f)))
            os.remove(f)
        mp = os.path.join(V, root, "matrix.json")
        if os.path.exists(mp):
            old = json.load(open(mp))
            old.update(merged)
            merged = old
        json.dump(merged, open(mp, "w"), indent=1)
        seeds = []
    assert "--merge" in args or sh(f"git -C {REPO} status --porcelain").stdout.strip() == "", "repo not clean"
    mpath = os.path.join(V, root, "matrix.json" if shard is None else f"matrix.{shard}.json")
    matrix = json.load(open(mpath)) if os.path.exists(mpath) else {}
    os.makedirs(os.path.join(V, "harness", "corpus"), exist_ok=True)
    for sid in seeds:
        patch = os.path.join(V, root, sid, "patch.diff")
        a = sh(f"git -C {REPO} apply {patch}")
        if a.returncode:
            print(sid, "patch does not apply", a.stderr)
            continue
        row = {}
        props_here = props
        if "--relevant" in args:      # only the checks whose part of the code the change touches
            touched = re.findall(r"^\+\+\+ b/(\S+)", open(patch).read(), re.M)
            props_here = [p for p in props if any(t.endswith(x) for t in touched for x in RELEVANT.get(p, [""]))]
            if not props_here:
                sh(f"git -C {REPO} checkout -- . && git -C {REPO} clean -fdq -- src")
                continue
        if "--own" in args or "--props" in args:       # a partial run: the other cells keep what an earlier run put there
            mp0 = os.path.join(V, root, "matrix.json")
            row = dict((json.load(open(mp0)) if os.path.exists(mp0) else {}).get(sid, {}))
        try:
            # builds are serialised by the checks' own lock; the harness parts run in parallel
            with cf.ThreadPoolExecutor(jobs) as ex:
                # --own: only the check of the property the change was written against (the other cells keep what an earlier run put there)
                for prop, rc, replay, nofail, tail in ex.map(run_check, [sid[:3]] if "--own" in args else props_here):
                    row[prop] = {"exit": rc, "violation": replay is not None, "concrete_input": replay is not None and not nofail}
                    if rc not in (0, 1):
                        row[prop]["tail"] = tail
                    if replay and nofail:
                        rp = json.load(open(os.path.join(V, replay)))
                        row[prop]["broken"] = [b[:200] for b in rp.get("broken", [])[:3]]
                    if replay and not nofail:
                        rp = json.load(open(os.path.join(V, replay)))
                        for c in rp.get("cases", [])[:1]:
                            row[prop]["input"] = json.dumps(c["args"], ensure_ascii=False)[:220]
                            row[prop]["kind"] = c["kind"]
                            line = json.dumps({"kind": c["kind"], "args": c["args"], "origin": f"seeded change {sid}"}, ensure_ascii=False)
                            cp = os.path.join(V, "harness", "corpus", f"{prop}.jsonl")
                            have = open(cp).read().splitlines() if os.path.exists(cp) else []
                            if line not in have and root == "seeded":
                                open(cp, "a").write(line + "\n")
        finally:
            sh(f"git -C {REPO} checkout -- . && git -C {REPO} clean -fdq -- src")
        matrix[sid] = row
        json.dump(matrix, open(mpath, "w"), indent=1)
        caught = [p for p in props if row.get(p, {}).get("violation")]
        print(sid, "caught by", caught, "infrastructure:", [p for p in props if row.get(p, {}).get("exit") not in (0, 1)], flush=True)
    # table (from the merged file when shards were used)
    if shard is not None:
        sh(f"git -C /repo worktree remove --force {REPO}; rm -rf /tmp/mx_lean_{shard}")
        return 0
    matrix = json.load(open(os.path.join(V, root, "matrix.json"))) if os.path.exists(os.path.join(V, root, "matrix.json")) else matrix
    allprops = ["C%02d" % i for i in range(1, 20)]
    with open(os.path.join(V, root, "MATRIX.md"), "w") as f:
        f.write(("# Which quick check reports which seeded change\n\n" if root == "seeded" else
                 "# Behaviour-preserving rewrites: every mark other than `.` is a false alarm\n\n") + "`X` = VIOLATION with a concrete failing input, `x` = VIOLATION ending "
                "`no-failing-input-found`, `.` = exit 0, `!` = exit 2 (infrastructure). Generated by harness/seed_matrix.py.\n\n")
        f.write("| seed | " + " | ".join(p[1:] for p in allprops) + " |\n|---|" + "---|" * len(allprops) + "\n")
        for sid in sorted(matrix):
            cells = []
            for p in allprops:
                r = matrix[sid].get(p)
                cells.append(" " if r is None else "!" if r["exit"] not in (0, 1) else "X" if r["concrete_input"] else "x" if r["violation"] else ".")
            f.write(f"| {sid} | " + " | ".join(cells) + " |\n")
    assert "--merge" in args or sh(f"git -C {REPO} status --porcelain").stdout.strip() == "", "repo not clean afterwards"
    if shard is not None:
        sh(f"git -C /repo worktree remove --force {REPO}; rm -rf /tmp/mx_lean_{shard}")
        return 0


if __name__ == "__main__":
    sys.exit(main())
