#!/bin/sh
# Build the whole framework offline from files on disk: regenerate Gen/ from /repo, then build the
# Lean library (all proofs) and the two executables.
set -e
cd "$(dirname "$0")"
/venv/bin/python harness/gen_model.py >/dev/null
cd lean
lake build Switcher modeldriver specjudge
# every property module (the checks rebuild only what a changed Gen/ invalidates)
lake build $(ls Switcher/Props/C*.lean | sed 's#/#.#g; s#\.lean$##')
