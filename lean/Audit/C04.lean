import Switcher.Props.C04
#print axioms Props.C04.sign_spec
#print axioms Props.C04.sign_bytes
#print axioms Props.C04.sign_rejects
#print axioms Props.C04.sign_prefix
#print axioms Props.C04.sign_total
#print axioms Props.C04.spelling_lower
#print axioms Props.C04.hexVal_upper
