/-
Spec.Utf8 — UTF-8 (RFC 3629) encoding of Unicode scalar values and strict validity of byte strings
(no overlongs, no surrogates, ≤ U+10FFFF), as CPython's codec implements them.
-/
namespace Spec

def utf8EncodeChar (c : Char) : List Nat :=
  let n := c.toNat
  if n < 0x80 then [n]
  else if n < 0x800 then [0xC0 + n / 64, 0x80 + n % 64]
  else if n < 0x10000 then [0xE0 + n / 4096, 0x80 + n / 64 % 64, 0x80 + n % 64]
  else [0xF0 + n / 262144, 0x80 + n / 4096 % 64, 0x80 + n / 64 % 64, 0x80 + n % 64]

def utf8Encode (s : List Char) : List Nat := s.flatMap utf8EncodeChar

/-- decode strictly; `none` = `UnicodeDecodeError` -/
def utf8Decode : List Nat → Option (List Char)
  | [] => some []
  | b0 :: rest =>
    if b0 < 0x80 then (utf8Decode rest).map (Char.ofNat b0 :: ·)
    else if 0xC2 ≤ b0 ∧ b0 ≤ 0xDF then
      match rest with
      | b1 :: r => if 0x80 ≤ b1 ∧ b1 ≤ 0xBF then (utf8Decode r).map (Char.ofNat ((b0 - 0xC0) * 64 + (b1 - 0x80)) :: ·) else none
      | _ => none
    else if 0xE0 ≤ b0 ∧ b0 ≤ 0xEF then
      match rest with
      | b1 :: b2 :: r =>
        let lo := if b0 = 0xE0 then 0xA0 else 0x80
        let hi := if b0 = 0xED then 0x9F else 0xBF
        if lo ≤ b1 ∧ b1 ≤ hi ∧ 0x80 ≤ b2 ∧ b2 ≤ 0xBF then
          (utf8Decode r).map (Char.ofNat ((b0 - 0xE0) * 4096 + (b1 - 0x80) * 64 + (b2 - 0x80)) :: ·) else none
      | _ => none
    else if 0xF0 ≤ b0 ∧ b0 ≤ 0xF4 then
      match rest with
      | b1 :: b2 :: b3 :: r =>
        let lo := if b0 = 0xF0 then 0x90 else 0x80
        let hi := if b0 = 0xF4 then 0x8F else 0xBF
        if lo ≤ b1 ∧ b1 ≤ hi ∧ 0x80 ≤ b2 ∧ b2 ≤ 0xBF ∧ 0x80 ≤ b3 ∧ b3 ≤ 0xBF then
          (utf8Decode r).map (Char.ofNat ((b0 - 0xF0) * 262144 + (b1 - 0x80) * 4096 + (b2 - 0x80) * 64 + (b3 - 0x80)) :: ·)
        else none
      | _ => none
    else none

/-- `str.rstrip("\x00")` -/
def rstripNul (s : List Char) : List Char := (s.reverse.dropWhile (· == Char.ofNat 0)).reverse

end Spec
