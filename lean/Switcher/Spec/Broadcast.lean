/-
Spec.Broadcast — reference encoders of the status broadcasts of the three frame shapes
(type 1: 165 bytes; thermostat: 168 bytes; shutter: 159 bytes): the protocol's fields written at their
offsets into an arbitrary background, and the device a receiver must report for them.  Independent of the code.
-/
import Switcher.Spec.Replies
import Switcher.Spec.Utf8
namespace Spec

/-- a decoded device, all families in one record (unused fields keep their defaults) -/
structure Dev where
  cls : String
  dtype : String
  state : String
  id : List Char
  key : List Char
  ip : List Char
  mac : List Char
  name : List Char
  power : Nat := 0
  ampsTenths : Nat := 0
  remaining : List Char := []
  autoShutdown : List Char := []
  position : Nat := 0
  direction : String := ""
  mode : String := ""
  tempTenths : Nat := 0
  target : Nat := 0
  fan : String := ""
  swing : String := ""
  remote : List Char := []
deriving Repr, DecidableEq

/-- what every broadcast carries -/
structure Common where
  id : List Nat        -- 3 bytes
  key : Nat            -- 1 byte
  ip : List Nat        -- 4 bytes, as in dotted order
  mac : List Nat       -- 6 bytes
  name : List Char     -- 1..32 UTF-8 bytes, no NUL
deriving Repr, DecidableEq

def Common.wf (c : Common) : Prop :=
  c.id.length = 3 ∧ IsBytes c.id ∧ c.key < 256 ∧ c.ip.length = 4 ∧ IsBytes c.ip ∧ c.mac.length = 6 ∧ IsBytes c.mac ∧
  1 ≤ (utf8Encode c.name).length ∧ (utf8Encode c.name).length ≤ 32 ∧ ∀ ch ∈ c.name, ch ≠ Char.ofNat 0

def namePad (name : List Char) : List Nat := utf8Encode name ++ List.replicate (32 - (utf8Encode name).length) 0

def decText (n : Nat) : List Char :=
  let d (k : Nat) : Char := Char.ofNat (48 + k % 10)
  if n < 10 then [d n] else if n < 100 then [d (n / 10), d n] else [d (n / 100), d (n / 10), d n]

def ipText (ip : List Nat) : List Char :=
  match ip with
  | [a, b, c, d] => decText a ++ ['.'] ++ decText b ++ ['.'] ++ decText c ++ ['.'] ++ decText d
  | _ => []

def upperDigit (n : Nat) : Char := if n < 10 then Char.ofNat (48 + n) else Char.ofNat (55 + n)

def macTextOf (mac : List Nat) : List Char :=
  match mac.map (fun b => [upperDigit (b / 16 % 16), upperDigit (b % 16)]) with
  | [a, b, c, d, e, f] => a ++ [':'] ++ b ++ [':'] ++ c ++ [':'] ++ d ++ [':'] ++ e ++ [':'] ++ f
  | _ => []

/-- a type-1 device (water heater or power plug) -/
structure Type1 where
  c : Common
  typeName : String       -- DeviceType member
  code : List Nat         -- its two-byte model code
  heater : Bool           -- water heater (timed) or power plug
  on : Bool
  power : Nat
  remaining : Nat
  autoShutdown : Nat
deriving Repr, DecidableEq

def encodeType1 (bg : List Nat) (d : Type1) : List Nat :=
  [[0xfe, 0xf0], slice bg 2 18, d.c.id, slice bg 21 40, [d.c.key], slice bg 41 42, namePad d.c.name, d.code, d.c.ip, d.c.mac,
   slice bg 86 133, [if d.on then 1 else 0], slice bg 134 135, le16 d.power ++ slice bg 137 139, slice bg 139 147,
   le32 d.remaining, slice bg 151 155, le32 d.autoShutdown, bg.drop 159].flatten

/-- the device a receiver must report: OFF ⇒ power 0, current 0.0, remaining 00:00:00 -/
def expectType1 (d : Type1) : Dev :=
  { cls := if d.heater then "SwitcherWaterHeater" else "SwitcherPowerPlug", dtype := d.typeName,
    state := if d.on then "ON" else "OFF", id := hexlify d.c.id, key := hexlify [d.c.key], ip := ipText d.c.ip,
    mac := macTextOf d.c.mac, name := d.c.name,
    power := if d.on then d.power else 0, ampsTenths := if d.on then ampsTenths d.power else 0,
    remaining := if d.heater then (if d.on then isoTime d.remaining else cs!"00:00:00") else [],
    autoShutdown := if d.heater then isoTime d.autoShutdown else [] }

/-- a shutter -/
structure ShutterB where
  c : Common
  typeName : String
  code : List Nat
  position : Nat          -- 0..100
  direction : Nat         -- 0 stop, 1 up, 2 down
deriving Repr, DecidableEq

def encodeShutterB (bg : List Nat) (d : ShutterB) : List Nat :=
  [[0xfe, 0xf0], slice bg 2 18, d.c.id, slice bg 21 40, [d.c.key], slice bg 41 42, namePad d.c.name, d.code, slice bg 76 77, d.c.ip, d.c.mac,
   slice bg 87 135, [d.position], [0], directionBytes d.direction, bg.drop 139].flatten

def expectShutterB (d : ShutterB) : Dev :=
  { cls := "SwitcherShutter", dtype := d.typeName, state := "ON", id := hexlify d.c.id, key := hexlify [d.c.key], ip := ipText d.c.ip,
    mac := macTextOf d.c.mac, name := d.c.name, position := d.position, direction := directionName d.direction }

/-- a thermostat -/
structure ThermoB where
  c : Common
  typeName : String
  code : List Nat
  t : ThermoState         -- remote: exactly 8 ASCII bytes
deriving Repr, DecidableEq

def encodeThermoB (bg : List Nat) (d : ThermoB) : List Nat :=
  [[0xfe, 0xf0], slice bg 2 18, d.c.id, slice bg 21 40, [d.c.key], slice bg 41 42, namePad d.c.name, d.code, slice bg 76 77, d.c.ip, d.c.mac,
   slice bg 87 135, [d.t.tempTenths % 256], [d.t.tempTenths / 256 % 256], [if d.t.on then 1 else 0], [d.t.mode], [d.t.target],
   [d.t.fan * 16 + (if d.t.swing then 1 else 0)], slice bg 141 143, d.t.remote, bg.drop 151].flatten

def expectThermoB (d : ThermoB) : Dev :=
  { cls := "SwitcherThermostat", dtype := d.typeName, state := if d.t.on then "ON" else "OFF", id := hexlify d.c.id,
    key := hexlify [d.c.key], ip := ipText d.c.ip, mac := macTextOf d.c.mac, name := d.c.name,
    mode := modeName d.t.mode, tempTenths := d.t.tempTenths, target := d.t.target, fan := fanName d.t.fan,
    swing := if d.t.swing then "ON" else "OFF", remote := d.t.remote.map Char.ofNat }

/-- C06: the gate -/
def isBroadcast (m : List Nat) : Bool := (m.take 2 == [0xfe, 0xf0]) && (m.length == 165 || m.length == 168 || m.length == 159)

end Spec
