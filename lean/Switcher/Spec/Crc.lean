/-
Spec.Crc — CRC-16/CCITT as the protocol defines it: bit-serial, MSB first, polynomial
0x1021, 16-bit register.  No table; independent of CPython's `binascii.crc_hqx`.
-/
import Switcher.Spec.Hex
namespace Spec

def bitStep (r : Nat) : Nat :=
  if r / 0x8000 % 2 = 1 then ((r * 2) % 0x10000) ^^^ 0x1021 else (r * 2) % 0x10000

def byteStep (crc b : Nat) : Nat :=
  bitStep (bitStep (bitStep (bitStep (bitStep (bitStep (bitStep (bitStep (crc ^^^ (b * 256)))))))))

def crc16 (init : Nat) (bs : List Nat) : Nat := bs.foldl byteStep init

/-- the four signature bytes of the protocol for the byte string `bs` -/
def sigBytes (bs : List Nat) : List Nat :=
  let c := crc16 0x1021 bs
  le16 c ++ le16 (crc16 0x1021 (le16 c ++ List.replicate 32 0x30))

end Spec
