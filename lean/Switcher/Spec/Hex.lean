/-
Spec.Hex — reference semantics of the hexadecimal text codec (CPython `binascii.hexlify`
/ `binascii.unhexlify` on ASCII text).  Independent of the code under verification.
Bytes are `Nat` (< 256 where it matters), text is `List Char`.
-/
/- `cs!"abc"` is the character list `['a', 'b', 'c']`, expanded at elaboration time so that no
   `String` operation has to be evaluated by the kernel -/
open Lean in
macro:max "cs!" s:str : term => do
  let elems ← s.getString.toList.toArray.mapM fun c => `($(Syntax.mkCharLit c))
  `([$elems,*])

namespace Spec

/-- lower-case hex digit of `n < 16` -/
def hexDigit (n : Nat) : Char :=
  if n < 10 then Char.ofNat (48 + n) else Char.ofNat (87 + n)

/-- value of a hex digit, either case; `none` for anything else -/
def hexVal? (c : Char) : Option Nat :=
  if '0' ≤ c ∧ c ≤ '9' then some (c.toNat - 48)
  else if 'a' ≤ c ∧ c ≤ 'f' then some (c.toNat - 87)
  else if 'A' ≤ c ∧ c ≤ 'F' then some (c.toNat - 55)
  else none

def hexByte (b : Nat) : List Char := [hexDigit (b / 16 % 16), hexDigit (b % 16)]

/-- `binascii.hexlify(bytes).decode()` -/
def hexlify (bs : List Nat) : List Char := bs.flatMap hexByte

/-- `binascii.unhexlify(str)`: `none` = raises (odd length or a non-hex character) -/
def unhexlify : List Char → Option (List Nat)
  | [] => some []
  | [_] => none
  | a :: b :: rest =>
    match hexVal? a, hexVal? b, unhexlify rest with
    | some x, some y, some r => some ((x * 16 + y) :: r)
    | _, _, _ => none

def IsBytes (bs : List Nat) : Prop := ∀ b ∈ bs, b < 256

def isBytesB (bs : List Nat) : Bool := bs.all (· < 256)

/-- little-endian byte lists -/
def le16 (c : Nat) : List Nat := [c % 256, c / 256 % 256]
def le32 (c : Nat) : List Nat := [c % 256, c / 256 % 256, c / 65536 % 256, c / 16777216 % 256]
def be32 (c : Nat) : List Nat := [c / 16777216 % 256, c / 65536 % 256, c / 256 % 256, c % 256]

def ofLE : List Nat → Nat
  | [] => 0
  | b :: bs => b + 256 * ofLE bs

/-- parse a hex numeral like Python's `int(s, 16)` restricted to plain hex digits (no sign,
    no underscore, no prefix, non-empty) -/
def hexNat? (cs : List Char) : Option Nat :=
  if cs.isEmpty then none else
  cs.foldl (fun acc c => match acc, hexVal? c with
    | some a, some v => some (a * 16 + v)
    | _, _ => none) (some 0)

def slice (l : List α) (a b : Nat) : List α := (l.drop a).take (b - a)

end Spec
