/-
Spec.Faults — C09 as a predicate on what was observed of one operation.
-/
namespace Spec

/-- `outcome` is "ok" (a parsed response object was returned) or "raise <ExceptionClass>" -/
def c09ok (isStateQuery isType2 loginEmpty : Bool) (nframes : Nat) (outcome : String) : Bool :=
  (if isStateQuery then outcome == "ok" || outcome == "raise RuntimeError" else true) &&
  (if loginEmpty && (isStateQuery || isType2) then outcome == "raise RuntimeError" && nframes == 1 else true)

/-- a generic response reports success iff the reply was non-empty -/
def baseOk (replyEmpty reported : Bool) : Bool := reported == !replyEmpty

end Spec
