/-
Spec.Replies — reference encoders of the replies a device sends to state queries and logins:
a background of arbitrary bytes (whatever else the device puts in the reply, of whatever total
length it sends) with the protocol's fields written at their offsets.  Independent of the code.
-/
import Switcher.Spec.Hex
import Switcher.Spec.Amps
namespace Spec

/-- `HH:MM:SS` of a number of seconds below one day -/
def isoTime (s : Nat) : List Char :=
  let d (n : Nat) : List Char := [Char.ofNat (48 + n / 10 % 10), Char.ofNat (48 + n % 10)]
  d (s / 3600) ++ [':'] ++ d (s / 60 % 60) ++ [':'] ++ d (s % 60)

/-- what a type-1 device (plug / water heater) reports -/
structure State1 where
  on : Bool
  power : Nat          -- watts, < 65536
  timeLeft : Nat       -- seconds, < 86400
  timeOn : Nat
  autoShutdown : Nat
deriving Repr, DecidableEq

def State1.wf (d : State1) : Prop := d.power < 65536 ∧ d.timeLeft < 86400 ∧ d.timeOn < 86400 ∧ d.autoShutdown < 86400

/-- state byte 75, power LE16 at 77, time left / time on / auto shutdown LE32 at 89 / 93 / 97 -/
def encodeState1 (bg : List Nat) (d : State1) : List Nat :=
  [bg.take 75, [if d.on then 1 else 0], slice bg 76 77, le16 d.power ++ slice bg 79 81, slice bg 81 89,
   le32 d.timeLeft, le32 d.timeOn, le32 d.autoShutdown, bg.drop 101].flatten

/-- what a shutter reports -/
structure ShutterState where
  position : Nat       -- < 256
  direction : Nat      -- 0 stop, 1 up, 2 down
deriving Repr, DecidableEq

def directionBytes : Nat → List Nat
  | 1 => [1, 0]
  | 2 => [0, 1]
  | _ => [0, 0]

def directionName : Nat → String
  | 1 => "SHUTTER_UP"
  | 2 => "SHUTTER_DOWN"
  | _ => "SHUTTER_STOP"

/-- position byte 76, direction bytes 78-79 -/
def encodeShutter (bg : List Nat) (d : ShutterState) : List Nat :=
  [bg.take 76, [d.position], slice bg 77 78, directionBytes d.direction, bg.drop 80].flatten

/-- what a thermostat reports -/
structure ThermoState where
  on : Bool
  mode : Nat           -- 1..5
  fan : Nat            -- 0..3
  swing : Bool
  tempTenths : Nat     -- < 65536
  target : Nat         -- < 256
  remote : List Nat    -- 1..8 ASCII bytes (no NUL)
deriving Repr, DecidableEq

def modeName : Nat → String
  | 1 => "AUTO" | 2 => "DRY" | 3 => "FAN" | 4 => "COOL" | _ => "HEAT"

def fanName : Nat → String
  | 1 => "LOW" | 2 => "MEDIUM" | 3 => "HIGH" | _ => "AUTO"

/-- temperature LE16 at 76, state 78, mode 79, target 80, fan (high nibble) and swing (low nibble) 81,
    remote id at 84..91 NUL padded -/
def encodeThermo (bg : List Nat) (d : ThermoState) : List Nat :=
  [bg.take 76, [d.tempTenths % 256], [d.tempTenths / 256 % 256], [if d.on then 1 else 0], [d.mode], [d.target],
   [d.fan * 16 + (if d.swing then 1 else 0)], slice bg 82 84, d.remote ++ List.replicate (8 - d.remote.length) 0, bg.drop 92].flatten

/-- a login reply: the four session bytes at offset 8 -/
def encodeLogin (bg : List Nat) (sid : List Nat) : List Nat := [bg.take 8, sid, bg.drop 12].flatten

end Spec
