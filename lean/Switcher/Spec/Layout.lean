/-
Spec.Layout — reference layout of every request frame of the Switcher TCP protocol, written field
by field at nibble (hex character) level, and the reference encoders of the caller's arguments.
Independent of the code: nothing here mentions a template, a format string or a Python function.

A frame is   header | payload | 4 signature bytes.
  header  = fe f0 | LE16 total length | version (0232 type-1, 0305 type-2) | opcode | session id (4 B)
            | 12 fixed bytes | timestamp (LE32) | 10 zero bytes | f0 fe
  payload = device id (3 B) | 36 zero bytes | operation specific tail          (login / state: shorter)
-/
import Switcher.Spec.Crc
namespace Spec

inductive Role where
  | sid | ts | did | key
  | onoff | timer | autoOff | name | slot | sched
  | days | start | stop
  | pos | irLen | irCmd | bState | bMode | bTemp | bFan | bSwing
deriving DecidableEq, Repr

/-- nibble width of every fixed-width field (`irCmd` is the only variable one) -/
def Role.width : Role → Nat
  | .sid => 8 | .ts => 8 | .did => 6 | .key => 2
  | .onoff => 1 | .timer => 8 | .autoOff => 8 | .name => 64 | .slot => 1 | .sched => 22
  | .days => 2 | .start => 8 | .stop => 8
  | .pos => 2 | .irLen => 4 | .irCmd => 0 | .bState => 2 | .bMode => 2 | .bTemp => 2 | .bFan => 1 | .bSwing => 1

inductive Item where
  | lit (c : Char)
  | arg (r : Role)
deriving DecidableEq, Repr

abbrev Sym := List Item

def lits (s : List Char) : Sym := s.map .lit
def zeroBytes (n : Nat) : Sym := (List.replicate (2 * n) '0').map .lit
def fld (r : Role) : Sym := [.arg r]

def evalSym (env : Role → List Char) : Sym → List Char
  | [] => []
  | .lit c :: t => c :: evalSym env t
  | .arg r :: t => env r ++ evalSym env t

/-- the kinds of request frame -/
inductive Kind where
  | login1 | login2 | getState1 | control | setAutoOff | setName | getSchedules | deleteSchedule | createSchedule
  | stop | setPosition | getState2 | breezeCommand | breezeStatus
deriving DecidableEq, Repr

/-- common header: magic, length, version, opcode, session, 12 fixed bytes, timestamp, 10 zeros, f0fe -/
def header (len ver opc : List Char) (sess : Sym) (fixed12 : List Char) : Sym :=
  lits cs!"fef0" ++ lits len ++ lits ver ++ lits opc ++ sess ++ lits fixed12 ++ fld .ts ++ zeroBytes 10 ++ lits cs!"f0fe"

def t1 : List Char := cs!"340001000000000000000000"     -- 34 00 01 00 then 8 zero bytes   (type 1)
def t2 : List Char := cs!"390001000000000000000000"     -- 39 00 01 00 …                    (type 2 state query)
def tb : List Char := cs!"000001000000000000000000"     -- 00 00 01 00 …                    (breeze)

/-- reference layout per kind.  Frames whose length depends on the payload (and the two runner
    commands) carry `0000` in the length position here; their length is set by `withLength`. -/
def refSym : Kind → Sym
  | .login1 => header cs!"5200" cs!"0232" cs!"a100" (zeroBytes 4) t1 ++ fld .key ++ zeroBytes 36 ++ lits cs!"00"
  | .login2 => header cs!"3000" cs!"0305" cs!"a600" (zeroBytes 4) cs!"ff0301000000000000000000" ++ fld .did ++ lits cs!"00"
  | .getState1 => header cs!"3000" cs!"0232" cs!"0103" (fld .sid) t1 ++ fld .did ++ lits cs!"00"
  | .getState2 => header cs!"3000" cs!"0305" cs!"0103" (fld .sid) t2 ++ fld .did ++ lits cs!"00"
  | .control => header cs!"5d00" cs!"0232" cs!"0102" (fld .sid) t1 ++ fld .did ++ zeroBytes 36 ++
      lits cs!"00" ++ lits cs!"0106" ++ lits cs!"00" ++ lits cs!"0" ++ fld .onoff ++ lits cs!"00" ++ fld .timer
  | .setAutoOff => header cs!"5b00" cs!"0232" cs!"0102" (fld .sid) t1 ++ fld .did ++ zeroBytes 36 ++
      lits cs!"00" ++ lits cs!"0404" ++ lits cs!"00" ++ fld .autoOff
  | .setName => header cs!"7400" cs!"0232" cs!"0202" (fld .sid) t1 ++ fld .did ++ zeroBytes 36 ++ lits cs!"00" ++ fld .name
  | .getSchedules => header cs!"5700" cs!"0232" cs!"0102" (fld .sid) t1 ++ fld .did ++ zeroBytes 36 ++ lits cs!"00" ++ lits cs!"0600" ++ lits cs!"00"
  | .deleteSchedule => header cs!"5800" cs!"0232" cs!"0102" (fld .sid) t1 ++ fld .did ++ zeroBytes 36 ++
      lits cs!"00" ++ lits cs!"0801" ++ lits cs!"00" ++ lits cs!"0" ++ fld .slot
  | .createSchedule => header cs!"6300" cs!"0232" cs!"0102" (fld .sid) t1 ++ fld .did ++ zeroBytes 36 ++
      lits cs!"00" ++ lits cs!"030c" ++ lits cs!"00" ++ lits cs!"ff" ++ fld .sched
  | .stop => lits cs!"fef0" ++ lits cs!"0000" ++ lits cs!"0305" ++ lits cs!"0102" ++ fld .sid ++ lits cs!"232301" ++ zeroBytes 9 ++
      fld .ts ++ zeroBytes 10 ++ lits cs!"f0fe" ++ fld .did ++ zeroBytes 36 ++ lits cs!"3702" ++ lits cs!"0200" ++ lits cs!"0000"
  | .setPosition => lits cs!"fef0" ++ lits cs!"0000" ++ lits cs!"0305" ++ lits cs!"0102" ++ fld .sid ++ lits cs!"290401" ++ zeroBytes 9 ++
      fld .ts ++ zeroBytes 10 ++ lits cs!"f0fe" ++ fld .did ++ zeroBytes 36 ++ lits cs!"3701" ++ lits cs!"0100" ++ fld .pos
  | .breezeCommand => header cs!"0000" cs!"0305" cs!"0102" (fld .sid) tb ++ fld .did ++ zeroBytes 36 ++ lits cs!"3701" ++ fld .irLen ++ fld .irCmd
  | .breezeStatus => header cs!"0000" cs!"0305" cs!"010e" (fld .sid) tb ++ fld .did ++ zeroBytes 36 ++ lits cs!"3701" ++ lits cs!"0003" ++
      lits cs!"0b04" ++ lits cs!"00" ++ fld .bState ++ fld .bMode ++ fld .bTemp ++ fld .bFan ++ fld .bSwing

/-- the schedule record inside a create-schedule frame: 01 | day mask | 01 | start LE32 | end LE32 -/
def schedSym : Sym := lits cs!"01" ++ fld .days ++ lits cs!"01" ++ fld .start ++ fld .stop

/-- kinds whose total length is written by the sender after assembling the frame -/
def Kind.computedLength : Kind → Bool
  | .stop | .setPosition | .breezeCommand | .breezeStatus => true
  | _ => false

/-- set bytes 2-3 of an assembled (unsigned) frame text to the LE16 of its signed length -/
def withLength (body : List Char) : List Char :=
  cs!"fef0" ++ hexlify (le16 (body.length / 2 + 4)) ++ body.drop 8

/-- semantic operations: the caller's arguments, already in the protocol's units -/
inductive Op where
  | login1 | login2 | getState1 | getState2 | getSchedules | stop
  | control (on : Bool) (minutes : Nat)
  | setAutoOff (seconds : Nat)
  | setName (chars : Nat) (utf8 : List Nat)
  | deleteSchedule (slot : Nat)
  | createSchedule (mask startT stopT : Nat)
  | setPosition (pos : Nat)
  | breezeCommand (payload : List Nat)
  | breezeStatus (state mode temp fan swing : Nat)
deriving Repr

def Op.kind : Op → Kind
  | .login1 => .login1 | .login2 => .login2 | .getState1 => .getState1 | .getState2 => .getState2
  | .getSchedules => .getSchedules | .stop => .stop | .control .. => .control | .setAutoOff _ => .setAutoOff
  | .setName .. => .setName | .deleteSchedule _ => .deleteSchedule | .createSchedule .. => .createSchedule
  | .setPosition _ => .setPosition | .breezeCommand _ => .breezeCommand | .breezeStatus .. => .breezeStatus

/-- the accepted argument domain of each operation (C02) -/
def Op.accepted : Op → Bool
  | .control _ minutes => decide (60 * minutes < 4294967296)
  | .setAutoOff s => decide (3600 ≤ s ∧ s ≤ 86340 ∧ s % 60 = 0)
  | .setName chars utf8 => decide (2 ≤ chars ∧ utf8.length ≤ 32) && isBytesB utf8
  | .deleteSchedule slot => decide (slot < 16)
  | .createSchedule mask a b => decide (mask < 256 ∧ mask % 2 = 0 ∧ a < 4294967296 ∧ b < 4294967296)
  | .setPosition pos => decide (pos ≤ 100)
  | .breezeCommand p => decide (p.length < 65536 - 90) && isBytesB p
  | .breezeStatus st mode temp fan swing => decide (st < 2 ∧ mode < 256 ∧ temp < 256 ∧ fan < 16 ∧ swing < 16)
  | _ => true

def hexB (n : Nat) : List Char := hexByte n

/-- reference encoders of the arguments -/
def specEnv (op : Op) (sid ts did key : List Char) : Role → List Char
  | .sid => sid | .ts => ts | .did => did | .key => key
  | .onoff => match op with | .control on _ => [if on then '1' else '0'] | _ => []
  | .timer => match op with | .control _ m => hexlify (le32 (60 * m)) | _ => []
  | .autoOff => match op with | .setAutoOff s => hexlify (le32 s) | _ => []
  | .name => match op with | .setName _ u => hexlify (u ++ List.replicate (32 - u.length) 0) | _ => []
  | .slot => match op with | .deleteSchedule s => [hexDigit s] | _ => []
  | .sched => match op with
      | .createSchedule mask a b => cs!"01" ++ hexB mask ++ cs!"01" ++ hexlify (le32 a) ++ hexlify (le32 b)
      | _ => []
  | .days => match op with | .createSchedule mask _ _ => hexB mask | _ => []
  | .start => match op with | .createSchedule _ a _ => hexlify (le32 a) | _ => []
  | .stop => match op with | .createSchedule _ _ b => hexlify (le32 b) | _ => []
  | .pos => match op with | .setPosition p => hexB p | _ => []
  | .irLen => match op with | .breezeCommand p => hexlify (le16 p.length) | _ => []
  | .irCmd => match op with | .breezeCommand p => hexlify p | _ => []
  | .bState => match op with | .breezeStatus s _ _ _ _ => hexB s | _ => []
  | .bMode => match op with | .breezeStatus _ m _ _ _ => hexB m | _ => []
  | .bTemp => match op with | .breezeStatus _ _ t _ _ => hexB t | _ => []
  | .bFan => match op with | .breezeStatus _ _ _ f _ => [hexDigit f] | _ => []
  | .bSwing => match op with | .breezeStatus _ _ _ _ s => [hexDigit s] | _ => []

/-- the reference (unsigned) frame text of an operation -/
def refFrame (op : Op) (sid ts did key : List Char) : List Char :=
  let body := evalSym (specEnv op sid ts did key) (refSym op.kind)
  if op.kind.computedLength then withLength body else body

/-- … and the signed frame as bytes on the wire -/
def refWire (op : Op) (sid ts did key : List Char) : Option (List Nat) :=
  (unhexlify (refFrame op sid ts did key)).map (fun bs => bs ++ sigBytes bs)

def isHexText (cs : List Char) : Bool := cs.all (fun c => (hexVal? c).isSome)

/-- well-formedness stated on the signed frame *text* (what the theorems prove; `wfHex_bytes`
    transfers it to `wellFormedB` on the bytes) -/
def wfHex (s : List Char) : Prop :=
  88 ≤ s.length ∧ s.length % 2 = 0 ∧ isHexText s = true ∧
  s.take 4 = cs!"fef0" ∧ slice s 4 8 = hexlify (le16 (s.length / 2)) ∧ slice s 76 80 = cs!"f0fe" ∧
  ∃ bs, unhexlify (s.take (s.length - 8)) = some bs ∧ s.drop (s.length - 8) = hexlify (sigBytes bs)

end Spec
