/-
Spec.Devices — what the Switcher product line looks like, independent of the code:
two protocol generations with fixed ports, four device classes each bound to one category.
-/
namespace Spec

/-- protocol type ↦ (UDP broadcast port, TCP control port) -/
def portsOfProtocol : Nat → Option (Nat × Nat)
  | 1 => some (20002, 9957)
  | 2 => some (20003, 10000)
  | _ => none

/-- the category each device class stands for -/
def categoryOfClass : String → Option String
  | "SwitcherPowerPlug" => some "POWER_PLUG"
  | "SwitcherWaterHeater" => some "WATER_HEATER"
  | "SwitcherThermostat" => some "THERMOSTAT"
  | "SwitcherShutter" => some "SHUTTER"
  | _ => none

def isHex4 (s : String) : Bool := s.length == 4 && s.toList.all (fun c => c.isDigit || ('a' ≤ c && c ≤ 'f'))

end Spec
