/-
Spec.Amps — Python's `round(w / 220.0, 1)` computed exactly in natural-number arithmetic:
IEEE-754 double division (round to nearest even) followed by correctly rounded decimal rounding
(round-half-even on the exact binary value), for 0 ≤ w < 65536.  Result in tenths of an ampere.
-/
namespace Spec

/-- round-half-even of num/den (den > 0) -/
def rne (num den : Nat) : Nat :=
  let q := num / den
  let r := num % den
  if 2 * r < den then q else if 2 * r > den then q + 1 else if q % 2 = 0 then q else q + 1

/-- k such that 2^52 ≤ w·2^k/220 < 2^53 -/
def findK (w : Nat) : Nat := 116 - Nat.log2 (w * 2 ^ 64 / 220)

/-- the double nearest to w/220 as m / 2^k -/
def dbl220 (w : Nat) : Nat × Nat :=
  let k := findK w
  (rne (w * 2 ^ k) 220, k)

/-- `round(w/220.0, 1)` in tenths -/
def ampsTenths (w : Nat) : Nat :=
  if w = 0 then 0 else
  let (m, k) := dbl220 w
  rne (m * 10) (2 ^ k)

end Spec
