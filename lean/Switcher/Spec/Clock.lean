/-
Spec.Clock — wall-clock minutes of the day and their texts, independent of the code.
-/
namespace Spec

def digit (n : Nat) : Char := Char.ofNat (48 + n % 10)
def two (n : Nat) : List Char := [digit (n / 10), digit n]

/-- `HH:MM` of minute-of-day `m` -/
def hhmm (m : Nat) : List Char := two (m / 60) ++ [':'] ++ two (m % 60)

/-- `H:MM:SS` of a whole number of minutes below 24 h (hours unpadded) -/
def durationText (m : Nat) : List Char :=
  (if m / 60 < 10 then [digit (m / 60)] else two (m / 60)) ++ [':'] ++ two (m % 60) ++ ":00".toList

/-- C14: the duration of a schedule from minute `s` to minute `e` of the day -/
def duration (s e : Nat) : Nat := (e + 1440 - s) % 1440

end Spec
