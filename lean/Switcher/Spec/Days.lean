/-
Spec.Days — the schedule weekday mask of the protocol: Monday is bit 1 (0x02) … Sunday bit 7 (0x80);
bit 0 is never used.  Weekdays are 0 (Monday) … 6 (Sunday).
-/
namespace Spec

/-- the mask of a set of weekdays, as a function of membership only -/
def maskOf (S : List Nat) : Nat :=
  (if 0 ∈ S then 2 else 0) + (if 1 ∈ S then 4 else 0) + (if 2 ∈ S then 8 else 0) + (if 3 ∈ S then 16 else 0) +
  (if 4 ∈ S then 32 else 0) + (if 5 ∈ S then 64 else 0) + (if 6 ∈ S then 128 else 0)

/-- the weekdays selected by a mask, ascending -/
def daysOfMask (m : Nat) : List Nat := (List.range 7).filter (fun d => m / 2 ^ (d + 1) % 2 = 1)

/-- two lower-case hex digits of a byte -/
def hex2 (n : Nat) : List Char :=
  let d (k : Nat) : Char := if k < 10 then Char.ofNat (48 + k) else Char.ofNat (87 + k)
  [d (n / 16 % 16), d (n % 16)]

end Spec
