/-
Spec.Schedules — what a device lists in a get-schedules reply: a 45-byte header, whole 16-byte records,
four trailing bytes.  Record: slot id | enabled | day mask (0 = non recurring) | state | start LE32 | end LE32 | 4 bytes.
-/
import Switcher.Spec.Hex
import Switcher.Spec.Zone
import Switcher.Spec.Days
import Switcher.Spec.Clock
namespace Spec

structure Listed where
  id : Nat
  en : Nat
  mask : Nat
  st : Nat
  t1 : Nat
  t2 : Nat
  tail : List Nat
deriving Repr, DecidableEq

def Listed.wf (r : Listed) : Prop :=
  r.id < 256 ∧ r.en < 256 ∧ r.st < 256 ∧ (r.mask = 0 ∨ (r.mask % 2 = 0 ∧ 2 ≤ r.mask ∧ r.mask ≤ 254)) ∧
  r.t1 < 4294967296 ∧ r.t2 < 4294967296 ∧ r.tail.length = 4 ∧ IsBytes r.tail

def listedBytes (r : Listed) : List Nat := [r.id, r.en, r.mask, r.st] ++ le32 r.t1 ++ le32 r.t2 ++ r.tail

def schedReply (hdr : List Nat) (recs : List Listed) (trailer : List Nat) : List Nat :=
  hdr ++ recs.flatMap listedBytes ++ trailer

/-- minute of the day the zone shows at instant `t` -/
def minuteShown (z : Zone) (t : Nat) : Nat := minuteOf (wall z t)

end Spec
