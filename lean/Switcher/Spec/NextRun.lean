/-
Spec.NextRun — "the earliest upcoming run of a schedule", declaratively.  Weekdays are 0 (Monday) … 6.
-/
import Switcher.Spec.Days
import Switcher.Spec.Hex
namespace Spec

inductive RunDay where
  | today
  | tomorrow
  | next (d : Nat)
deriving DecidableEq, Repr

/-- days from the current weekday to the next occurrence on weekday `d`; `ahead` = today's start time is still ahead -/
def distTo (cur d : Nat) (ahead : Bool) : Nat :=
  let k := (d + 7 - cur) % 7
  if k = 0 ∧ !ahead then 7 else k

def runDayOf (cur d : Nat) (ahead : Bool) : RunDay :=
  match distTo cur d ahead with
  | 0 => .today
  | 1 => .tomorrow
  | _ => .next d

/-- `o` names the earliest future occurrence: some selected day attains the minimal distance and `o` is its name
    (today / tomorrow / that weekday, a full week ahead when only today is selected and its time has passed) -/
def IsEarliest (cur : Nat) (days : List Nat) (ahead : Bool) (o : RunDay) : Prop :=
  ∃ d ∈ days, (∀ e ∈ days, distTo cur d ahead ≤ distTo cur e ahead) ∧ o = runDayOf cur d ahead

instance : Decidable (IsEarliest c ds a o) := by unfold IsEarliest; infer_instance

def dayDisplay : Nat → String
  | 0 => "Monday" | 1 => "Tuesday" | 2 => "Wednesday" | 3 => "Thursday" | 4 => "Friday" | 5 => "Saturday" | _ => "Sunday"

/-- the display text -/
def renderRun (o : RunDay) (start : List Char) : List Char :=
  match o with
  | .today => cs!"Due today at " ++ start
  | .tomorrow => cs!"Due tomorrow at " ++ start
  | .next d => cs!"Due next " ++ (dayDisplay d).toList ++ cs!" at " ++ start

end Spec
