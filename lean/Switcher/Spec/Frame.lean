/-
Spec.Frame — what a well-formed frame on the wire is (property C01), as a decidable predicate.
-/
import Switcher.Spec.Crc
namespace Spec

/-- magic fe f0, LE16 total length at bytes 2-3, f0 fe at bytes 38-39, last four bytes are the
    signature of everything before them -/
def wellFormedB (f : List Nat) : Bool :=
  decide (40 ≤ f.length - 4) &&
  (f.take 2 == [0xfe, 0xf0]) &&
  (ofLE (slice f 2 4) == f.length) &&
  (slice f 38 40 == [0xf0, 0xfe]) &&
  (f.drop (f.length - 4) == sigBytes (f.take (f.length - 4))) &&
  isBytesB f

def WellFormedFrame (f : List Nat) : Prop := wellFormedB f = true

instance : Decidable (WellFormedFrame f) := by unfold WellFormedFrame; infer_instance

/-- C03: a command frame carries this session id (bytes 8-11), this timestamp (bytes 24-27) and this
    device id (bytes 40-42) -/
def carries (f sid ts did : List Nat) : Bool :=
  (slice f 8 12 == sid) && (slice f 24 28 == ts) && (slice f 40 43 == did) && sid.length == 4 && ts.length == 4 && did.length == 3

end Spec
