/-
Spec.IrSpec — which stored IR code a thermostat request must use (C15), written declaratively from the
property, independent of the code: candidate keys from most to least specific, temperature clamped
into the remote's range, plain "off" for non-toggle remotes, the toggle prefix only when a toggle remote
must change power state, and the wire payload of a command.
-/
import Switcher.Spec.Hex
import Switcher.Spec.Utf8
namespace Spec

structure IrEntry where
  key : List Char
  para : List Char
  hexCode : List Char
deriving Repr, DecidableEq

def modeCode : String → Option (List Char)
  | "AUTO" => some cs!"aa" | "DRY" => some cs!"ad" | "FAN" => some cs!"aw" | "COOL" => some cs!"ar" | "HEAT" => some cs!"ah"
  | _ => none

def modeOfCode (c : List Char) : Option String :=
  if c == cs!"aa" then some "AUTO" else if c == cs!"ad" then some "DRY" else if c == cs!"aw" then some "FAN"
  else if c == cs!"ar" then some "COOL" else if c == cs!"ah" then some "HEAT" else none

def fanCode : String → Option (List Char)
  | "AUTO" => some cs!"_f0" | "LOW" => some cs!"_f1" | "MEDIUM" => some cs!"_f2" | "HIGH" => some cs!"_f3"
  | _ => none

def usesTemperature (mode : String) : Bool := mode == "COOL" || mode == "HEAT"

def separateSwingIds : List String := ["ELEC7022", "ZM079055", "ZM079065", "ZM079049"]

def keyPresent (set : List IrEntry) (k : List Char) : Bool := set.any (·.key == k)

/-- the code stored under a key (a later entry with the same key replaces an earlier one) -/
def storedText (set : List IrEntry) (k : List Char) : Option (List Char) :=
  (set.reverse.find? (·.key == k)).map (fun e => e.para ++ ['|'] ++ e.hexCode)

def isDigitChar (c : Char) : Bool := '0' ≤ c && c ≤ '9'

/-- the temperature a key names: characters 2..3 when they are digits -/
def keyTemp (k : List Char) : Option Int :=
  let t := (k.drop 2).take 2
  if !t.isEmpty && t.all isDigitChar then some ((t.foldl (fun a c => a * 10 + (c.toNat - 48)) 0 : Nat) : Int) else none

/-- (min, max) of the temperatures present in the set (100, −100 when there is none) -/
def tempRange (set : List IrEntry) : Int × Int :=
  set.foldl (fun (r : Int × Int) e => match keyTemp e.key with
    | some t => (if t < r.1 then t else r.1, if t > r.2 then t else r.2)
    | none => r) (100, -100)

/-- the modes that have at least one key of their own, in order of first appearance -/
def supportedModes (set : List IrEntry) : List String :=
  set.foldl (fun acc e => match modeOfCode (e.key.take 2) with
    | some m => if acc.contains m then acc else acc ++ [m]
    | none => acc) []

def clampT (range : Int × Int) (t : Int) : Int := if t > range.2 then range.2 else if t < range.1 then range.1 else t

def intText (n : Int) : List Char :=
  let digits (k : Nat) : List Char := (Nat.toDigits 10 k)
  if n < 0 then '-' :: digits n.natAbs else digits n.natAbs

/-- the key parts of a request, most specific form: [toggle prefix] mode [temperature] fan [swing] -/
def requestParts (toggle : Bool) (range : Int × Int) (state mode : String) (temp : Int) (fan : String) (swingOn : Bool)
    (previous : Option String) : Option (List (List Char)) := do
  let mc ← modeCode mode
  let fc ← fanCode fan
  let pre : List (List Char) := if toggle && (match previous with | some p => p != state | none => false) then [cs!"on_"] else []
  let t : List (List Char) := if usesTemperature mode then [intText (clampT range temp)] else []
  let sw : List (List Char) := if swingOn then [cs!"_d1"] else []
  pure (pre ++ [mc] ++ t ++ [fc] ++ sw)

/-- candidates from most to least specific: drop trailing parts one at a time, never below one part -/
def candidates : List (List Char) → List (List (List Char))
  | [] => []
  | [p] => [[p]]
  | p :: q :: rest => (p :: q :: rest) :: candidates (p :: q :: rest).dropLast
termination_by l => l.length
decreasing_by simp [List.length_dropLast]

/-- `k` is the best key: the most specific candidate (of at least two parts) that is stored; when none is, the bare first part -/
def IsBestKey (set : List IrEntry) (parts : List (List Char)) (k : List (List Char)) : Prop :=
  k ∈ candidates parts ∧
  (2 ≤ k.length → keyPresent set k.flatten = true) ∧
  (∀ c ∈ candidates parts, k.length < c.length → keyPresent set c.flatten = false) ∧
  (k.length = 1 ∨ 2 ≤ k.length)

/-- executable: the best key -/
def bestKey (set : List IrEntry) (parts : List (List Char)) : List (List Char) :=
  match (candidates parts).find? (fun c => decide (2 ≤ c.length) && keyPresent set c.flatten) with
  | some c => c
  | none => parts.take 1

inductive IrOutcome where
  | text (t : List Char)       -- the command carries this "Para|HexCode"
  | refused                     -- RuntimeError naming the supported modes
  | missing                     -- no stored code under the chosen key (KeyError)
deriving Repr, DecidableEq

/-- what `build_command` must produce -/
def specCommand (_remoteId : List Char) (onOffType : Int) (set : List IrEntry) (state mode : String) (temp : Int) (fan swing : String)
    (previous : Option String) : IrOutcome :=
  let toggle := onOffType == 1
  if !(supportedModes set).contains mode then .refused
  else
    let key : Option (List Char) :=
      if !toggle && state == "OFF" then some cs!"off"
      else (requestParts toggle (tempRange set) state mode temp fan (swing == "ON") previous).map (fun p => (bestKey set p).flatten)
    match key with
    | none => .missing
    | some k => match storedText set k with
      | some t => .text t
      | none => .missing

/-- the wire payload of a command text: four zero bytes, then the text; announced with its LE16 byte length -/
def commandPayload (text : List Char) : List Nat := [0, 0, 0, 0] ++ utf8Encode text

end Spec
