/-
Spec.Zone — a time zone as the host's tz database presents it over a window of time: the UTC offset in
force at the start and the transitions (UTC instant, new offset) inside the window.  Wall-clock
arithmetic and the calendar facts the schedule functions rely on.  Independent of the code.
-/
namespace Spec

structure Zone where
  base : Int
  trans : List (Int × Int)     -- (UTC instant, UTC offset from then on), ascending
deriving Repr, DecidableEq

/-- UTC offset in force at instant `t` -/
def offAt (z : Zone) (t : Int) : Int := z.trans.foldl (fun o p => if p.1 ≤ t then p.2 else o) z.base

/-- local wall-clock second (seconds since the epoch of the local calendar) shown at instant `t` -/
def wall (z : Zone) (t : Int) : Int := t + offAt z t

/-- the wall-clock second of `HH:MM` on today's local date -/
def targetWall (z : Zone) (now : Int) (h m : Int) : Int := wall z now / 86400 * 86400 + 3600 * h + 60 * m

/-- hour and minute shown by a wall-clock second -/
def hmOfWall (w : Int) : Int × Int := (w % 86400 / 3600, w % 3600 / 60)

/-- `t` is an instant at which the zone shows wall time `w` (what `mktime` must return when one exists) -/
def ShowsWall (z : Zone) (w t : Int) : Prop := wall z t = w

/-- the wall time exists today (it is not inside a spring-forward gap) -/
def ExistsWall (z : Zone) (w : Int) : Prop := ∃ t, wall z t = w

/-- weekday of a wall-clock second, Monday = 0 (1970-01-01 was a Thursday) -/
def weekdayOf (w : Int) : Nat := ((w / 86400 + 3) % 7).toNat

/-- minute of the day of a wall-clock second -/
def minuteOf (w : Int) : Nat := (w % 86400 / 60).toNat

/-- all offsets the zone uses in the window -/
def offsetsOf (z : Zone) : List Int := z.base :: z.trans.map (·.2)

/-- the instants (within the window) at which the zone shows wall time `w` -/
def instantsShowing (z : Zone) (w : Int) : List Int := ((offsetsOf z).map (w - ·)).filter (fun t => wall z t == w)

/-- C11 on one observation: HH:MM was encoded to instant `t` and decoded back to text `back` -/
def c11ok (z : Zone) (now h m t : Int) (back want : String) : Bool :=
  let w := targetWall z now h m
  let shows := instantsShowing z w
  if shows.isEmpty then true            -- the wall time does not exist today (gap): only "does not raise" is required
  else shows.contains t && back == want

end Spec
