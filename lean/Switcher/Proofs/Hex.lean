import Switcher.Spec.Hex
namespace Spec

theorem hexVal_hexDigit : ∀ n < 16, hexVal? (hexDigit n) = some n := by decide

theorem hexlify_append (a b : List Nat) : hexlify (a ++ b) = hexlify a ++ hexlify b := by
  simp [hexlify]

theorem hexlify_cons (a : Nat) (b : List Nat) : hexlify (a :: b) = hexByte a ++ hexlify b := by
  simp [hexlify]

theorem hexlify_length (bs : List Nat) : (hexlify bs).length = 2 * bs.length := by
  induction bs with
  | nil => rfl
  | cons b bs ih => simp [hexlify_cons, hexByte, ih]; omega

theorem unhexlify_hexlify (bs : List Nat) (h : IsBytes bs) :
    unhexlify (hexlify bs) = some bs := by
  induction bs with
  | nil => rfl
  | cons b bs ih =>
    have hb : b < 256 := h b (by simp)
    have ih' := ih (fun x hx => h x (by simp [hx]))
    simp only [hexlify, List.flatMap_cons, hexByte, List.cons_append, List.nil_append, unhexlify] at *
    have h1 : b / 16 % 16 < 16 := Nat.mod_lt _ (by decide)
    have h2 : b % 16 < 16 := Nat.mod_lt _ (by decide)
    rw [hexVal_hexDigit _ h1, hexVal_hexDigit _ h2, ih']
    simp only []
    congr 2
    omega

theorem hexVal_lt (c : Char) (v : Nat) (h : hexVal? c = some v) : v < 16 := by
  unfold hexVal? at h
  split at h
  · rename_i hc; injection h with h; subst h
    have : c.toNat ≤ 57 := hc.2; omega
  · split at h
    · rename_i hc; injection h with h; subst h
      have h1 : 97 ≤ c.toNat := hc.1
      have h2 : c.toNat ≤ 102 := hc.2; omega
    · split at h
      · rename_i hc; injection h with h; subst h
        have h1 : 65 ≤ c.toNat := hc.1
        have h2 : c.toNat ≤ 70 := hc.2; omega
      · cases h

/-- whatever `unhexlify` returns is a list of bytes -/
theorem unhexlify_isBytes : ∀ (s : List Char) (bs : List Nat), unhexlify s = some bs → IsBytes bs
  | [], bs, h => by simp [unhexlify] at h; subst h; intro b hb; cases hb
  | [_], _, h => by simp [unhexlify] at h
  | a :: b :: rest, bs, h => by
    simp only [unhexlify] at h
    cases ha : hexVal? a with
    | none => simp [ha] at h
    | some x =>
      cases hb : hexVal? b with
      | none => simp [ha, hb] at h
      | some y =>
        cases hr : unhexlify rest with
        | none => simp [ha, hb, hr] at h
        | some r =>
          simp [ha, hb, hr] at h
          subst h
          have hx := hexVal_lt _ _ ha
          have hy := hexVal_lt _ _ hb
          have ih := unhexlify_isBytes rest r hr
          intro c hc
          simp at hc
          rcases hc with hc | hc
          · subst hc; omega
          · exact ih c hc

/-- length: an accepted text has exactly two characters per byte -/
theorem unhexlify_length : ∀ (s : List Char) (bs : List Nat), unhexlify s = some bs → s.length = 2 * bs.length
  | [], bs, h => by simp [unhexlify] at h; subst h; rfl
  | [_], _, h => by simp [unhexlify] at h
  | a :: b :: rest, bs, h => by
    simp only [unhexlify] at h
    cases ha : hexVal? a with
    | none => simp [ha] at h
    | some x =>
      cases hb : hexVal? b with
      | none => simp [ha, hb] at h
      | some y =>
        cases hr : unhexlify rest with
        | none => simp [ha, hb, hr] at h
        | some r =>
          simp [ha, hb, hr] at h
          subst h
          have := unhexlify_length rest r hr
          simp [this]; omega

theorem unhexlify_append : ∀ (s t : List Char) (a b : List Nat), unhexlify s = some a → unhexlify t = some b →
    unhexlify (s ++ t) = some (a ++ b)
  | [], t, a, b, hs, ht => by simp [unhexlify] at hs; subst hs; simpa using ht
  | [_], _, _, _, hs, _ => by simp [unhexlify] at hs
  | c :: d :: rest, t, a, b, hs, ht => by
    simp only [unhexlify] at hs
    cases hc : hexVal? c with
    | none => simp [hc] at hs
    | some x =>
      cases hd : hexVal? d with
      | none => simp [hc, hd] at hs
      | some y =>
        cases hr : unhexlify rest with
        | none => simp [hc, hd, hr] at hs
        | some r =>
          simp [hc, hd, hr] at hs
          subst hs
          have := unhexlify_append rest t r b hr ht
          simp [unhexlify, hc, hd, this]

theorem isBytes_append {a b : List Nat} (ha : IsBytes a) (hb : IsBytes b) : IsBytes (a ++ b) := by
  intro x hx; simp at hx; rcases hx with h | h
  · exact ha x h
  · exact hb x h

theorem isBytes_le16 (c : Nat) : IsBytes (le16 c) := by
  intro b hb; simp [le16] at hb; rcases hb with h | h <;> omega

theorem isBytes_le32 (c : Nat) : IsBytes (le32 c) := by
  intro b hb; simp [le32] at hb; rcases hb with h | h | h | h <;> omega

theorem isBytes_replicate (n b : Nat) (h : b < 256) : IsBytes (List.replicate n b) := by
  intro x hx; simp at hx; omega

theorem isBytesB_iff (bs : List Nat) : isBytesB bs = true ↔ IsBytes bs := by
  simp [isBytesB, IsBytes]

end Spec
