/-
Proofs.Amps — for EVERY power value 0..65535 the reported current (tenths of an ampere, exact simulation of
Python's `round(w / 220.0, 1)`) is within 0.05 A of w / 220.
-/
import Switcher.Proofs.AmpsChunk0
import Switcher.Proofs.AmpsChunk1
import Switcher.Proofs.AmpsChunk2
import Switcher.Proofs.AmpsChunk3
import Switcher.Proofs.AmpsChunk4
import Switcher.Proofs.AmpsChunk5
import Switcher.Proofs.AmpsChunk6
import Switcher.Proofs.AmpsChunk7
import Switcher.Proofs.AmpsChunk8
import Switcher.Proofs.AmpsChunk9
import Switcher.Proofs.AmpsChunk10
import Switcher.Proofs.AmpsChunk11
import Switcher.Proofs.AmpsChunk12
import Switcher.Proofs.AmpsChunk13
import Switcher.Proofs.AmpsChunk14
import Switcher.Proofs.AmpsChunk15
namespace Spec

theorem amps_all (w : Nat) (h : w < 65536) : ampsOk w = true := by
  have : w < 4096 ∨ (4096 ≤ w ∧ w < 8192) ∨ (8192 ≤ w ∧ w < 12288) ∨ (12288 ≤ w ∧ w < 16384) ∨ (16384 ≤ w ∧ w < 20480) ∨
      (20480 ≤ w ∧ w < 24576) ∨ (24576 ≤ w ∧ w < 28672) ∨ (28672 ≤ w ∧ w < 32768) ∨ (32768 ≤ w ∧ w < 36864) ∨
      (36864 ≤ w ∧ w < 40960) ∨ (40960 ≤ w ∧ w < 45056) ∨ (45056 ≤ w ∧ w < 49152) ∨ (49152 ≤ w ∧ w < 53248) ∨
      (53248 ≤ w ∧ w < 57344) ∨ (57344 ≤ w ∧ w < 61440) ∨ (61440 ≤ w ∧ w < 65536) := by omega
  rcases this with h | h | h | h | h | h | h | h | h | h | h | h | h | h | h | h
  · exact ampsRange_sound 0 4096 ampsChunk0 w (by omega) (by omega)
  · exact ampsRange_sound 4096 4096 ampsChunk1 w (by omega) (by omega)
  · exact ampsRange_sound 8192 4096 ampsChunk2 w (by omega) (by omega)
  · exact ampsRange_sound 12288 4096 ampsChunk3 w (by omega) (by omega)
  · exact ampsRange_sound 16384 4096 ampsChunk4 w (by omega) (by omega)
  · exact ampsRange_sound 20480 4096 ampsChunk5 w (by omega) (by omega)
  · exact ampsRange_sound 24576 4096 ampsChunk6 w (by omega) (by omega)
  · exact ampsRange_sound 28672 4096 ampsChunk7 w (by omega) (by omega)
  · exact ampsRange_sound 32768 4096 ampsChunk8 w (by omega) (by omega)
  · exact ampsRange_sound 36864 4096 ampsChunk9 w (by omega) (by omega)
  · exact ampsRange_sound 40960 4096 ampsChunk10 w (by omega) (by omega)
  · exact ampsRange_sound 45056 4096 ampsChunk11 w (by omega) (by omega)
  · exact ampsRange_sound 49152 4096 ampsChunk12 w (by omega) (by omega)
  · exact ampsRange_sound 53248 4096 ampsChunk13 w (by omega) (by omega)
  · exact ampsRange_sound 57344 4096 ampsChunk14 w (by omega) (by omega)
  · exact ampsRange_sound 61440 4096 ampsChunk15 w (by omega) (by omega)

theorem amps_spec (w : Nat) (h : w < 65536) : 22 * ampsTenths w ≤ w + 11 ∧ w ≤ 22 * ampsTenths w + 11 := by
  have := amps_all w h
  simpa [ampsOk] using this

end Spec
