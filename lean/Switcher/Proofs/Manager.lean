/-
Proofs.Manager — lemmas about `Model.Manager` (the remote manager's load-and-cache machine).
-/
import Switcher.Model.Manager
namespace Proofs.Manager
open Model

/-- what `get` does on a miss, spelled out -/
theorem get_miss (w : MgrWorld) (i : Nat) (id : List Char) (m : Mgr) (hm : w.mgrs[i]? = some m) (hc : m.cached id = none) :
    (mgrStep w (.get i id)).2 = (match loadNow w m.path id with
      | .ok r => .remote w.nextObj r
      | .error e => .raised e) := by
  simp only [mgrStep, hm, hc]
  cases loadNow w m.path id <;> rfl

/-- … and on a hit: the cached object, and nothing changes -/
theorem get_hit (w : MgrWorld) (i : Nat) (id : List Char) (m : Mgr) (obj : Nat) (r : Remote)
    (hm : w.mgrs[i]? = some m) (hc : m.cached id = some (obj, r)) :
    mgrStep w (.get i id) = (w, .remote obj r) := by
  simp only [mgrStep, hm, hc]

/-- the cache entry of manager `i` for `id`, if any -/
def entry (w : MgrWorld) (i : Nat) (id : List Char) : Option (Nat × Remote) :=
  match w.mgrs[i]? with
  | some m => m.cached id
  | none => none

theorem cached_cons (m : Mgr) (id id' : List Char) (x : Nat × Remote) :
    ({ m with cache := (id', x) :: m.cache } : Mgr).cached id = if id' == id then some x else m.cached id := by
  simp only [Mgr.cached, List.find?_cons]
  by_cases h : (id' == id) = true
  · simp [h]
  · simp [h]

/-- once an entry exists it is never replaced or dropped, whatever happens -/
theorem entry_persists (w : MgrWorld) (a : MgrAct) (i : Nat) (id : List Char) (x : Nat × Remote)
    (h : entry w i id = some x) : entry (mgrStep w a).1 i id = some x := by
  cases a with
  | create p =>
    simp only [mgrStep, entry] at h ⊢
    cases hi : w.mgrs[i]? with
    | none => simp [hi] at h
    | some m =>
      have hlt : i < w.mgrs.length := by
        rcases List.getElem?_eq_some_iff.mp hi with ⟨hlt, _⟩; exact hlt
      rw [List.getElem?_append_left hlt, hi]
      simpa [hi] using h
  | write p db => simpa [mgrStep, entry] using h
  | remove p => simpa [mgrStep, entry] using h
  | get j id' =>
    simp only [mgrStep]
    cases hj : w.mgrs[j]? with
    | none => simpa using h
    | some mj =>
      simp only []
      cases hc : mj.cached id' with
      | some y => obtain ⟨o, r⟩ := y; simpa using h
      | none =>
        simp only []
        cases hl : loadNow w mj.path id' with
        | error e => simpa using h
        | ok r =>
          simp only [entry, setMgr] at h ⊢
          by_cases hij : j = i
          · subst hij
            have hlt : j < w.mgrs.length := by
              rcases List.getElem?_eq_some_iff.mp hj with ⟨hlt, _⟩; exact hlt
            rw [List.getElem?_set_self hlt]
            simp only [hj] at h
            simp only [cached_cons]
            by_cases hid : (id' == id) = true
            · have : id' = id := by simpa using hid
              subst this; rw [hc] at h; cases h
            · simp [hid, h]
          · rw [List.getElem?_set_ne hij]; exact h

theorem entry_persists_run (as : List MgrAct) (w : MgrWorld) (i : Nat) (id : List Char) (x : Nat × Remote)
    (h : entry w i id = some x) : entry (mgrRun w as).1 i id = some x := by
  induction as generalizing w with
  | nil => exact h
  | cons a as ih =>
    simp only [mgrRun]
    exact ih _ (entry_persists w a i id x h)

/-- a `get` that returns a remote leaves exactly that object in the cache -/
theorem get_leaves_entry (w : MgrWorld) (i : Nat) (id : List Char) (obj : Nat) (r : Remote)
    (h : (mgrStep w (.get i id)).2 = .remote obj r) : entry (mgrStep w (.get i id)).1 i id = some (obj, r) := by
  simp only [mgrStep] at h ⊢
  cases hi : w.mgrs[i]? with
  | none => simp [hi] at h
  | some m =>
    simp only [hi] at h ⊢
    cases hc : m.cached id with
    | some y =>
      obtain ⟨o, r'⟩ := y
      simp only [hc] at h ⊢
      cases h
      simp [entry, hi, hc]
    | none =>
      simp only [hc] at h ⊢
      cases hl : loadNow w m.path id with
      | error e => simp [hl] at h
      | ok r' =>
        simp only [hl] at h ⊢
        cases h
        have hlt : i < w.mgrs.length := by
          rcases List.getElem?_eq_some_iff.mp hi with ⟨hlt, _⟩; exact hlt
        simp [entry, setMgr, List.getElem?_set_self hlt, cached_cons]

/-- with an entry in place, `get` returns it -/
theorem get_of_entry (w : MgrWorld) (i : Nat) (id : List Char) (obj : Nat) (r : Remote)
    (h : entry w i id = some (obj, r)) : mgrStep w (.get i id) = (w, .remote obj r) := by
  simp only [entry] at h
  cases hi : w.mgrs[i]? with
  | none => simp [hi] at h
  | some m => simp only [hi] at h; exact get_hit w i id m obj r hi h

/-! ### every cached remote was built from a set that stood in the manager's own file -/

/-- every write that ever happened, plus what is cached, is consistent: each cached remote of a manager is `mkRemote` of a set
    that some version of the file at the manager's path held under that id; object serials are below `nextObj` -/
def Sound (hist : List (Nat × IrDb)) (w : MgrWorld) : Prop :=
  (∀ p db, w.file p = some db → (p, db) ∈ hist) ∧
  (∀ m ∈ w.mgrs, ∀ e ∈ m.cache, e.2.1 < w.nextObj ∧
      ∃ db ir, (m.path, db) ∈ hist ∧ db.get e.1 = some ir ∧ mkRemote ir = .ok e.2.2)

def histStep (hist : List (Nat × IrDb)) : MgrAct → List (Nat × IrDb)
  | .write p db => (p, db) :: hist
  | _ => hist

theorem file_write (w : MgrWorld) (p q : Nat) (db : IrDb) :
    ({ w with files := (p, db) :: w.files.filter (·.1 != p) } : MgrWorld).file q = if p == q then some db else w.file q := by
  simp only [MgrWorld.file, List.find?_cons]
  by_cases h : (p == q) = true
  · simp [h]
  · simp only [h, Bool.false_eq_true, if_false]
    congr 1
    have hpq : p ≠ q := by simpa using h
    induction w.files with
    | nil => rfl
    | cons f fs ih =>
      simp only [List.filter_cons, List.find?_cons]
      by_cases hf : (f.1 != p) = true
      · simp only [hf, if_true, List.find?_cons]; rw [ih]
      · have : f.1 = p := by simpa using hf
        have hfq : (f.1 == q) = false := by rw [this]; simpa using hpq
        simp only [hf, Bool.false_eq_true, if_false, hfq]; exact ih

theorem find_filter_sub (fs : List (Nat × IrDb)) (p q : Nat) (x : Nat × IrDb)
    (h : (fs.filter (·.1 != p)).find? (·.1 == q) = some x) : fs.find? (·.1 == q) = some x := by
  induction fs with
  | nil => simp at h
  | cons f fs ih =>
    have hxq : x.1 = q := by have := List.find?_some h; simpa using this
    have hxp : x.1 ≠ p := by
      have := List.mem_of_find?_eq_some h
      simpa using (List.mem_filter.mp this).2
    by_cases hf : f.1 = p
    · have hfq : f.1 ≠ q := by rw [hf, ← hxq]; exact fun e => hxp e.symm
      have h' : (fs.filter (·.1 != p)).find? (·.1 == q) = some x := by
        simpa [List.filter_cons, hf] using h
      simp only [List.find?_cons]
      have : (f.1 == q) = false := by simpa using hfq
      rw [this]; exact ih h'
    · have hfilt : (f :: fs).filter (·.1 != p) = f :: fs.filter (·.1 != p) := by
        simp [List.filter_cons, hf]
      rw [hfilt] at h
      simp only [List.find?_cons] at h ⊢
      by_cases hq : (f.1 == q) = true
      · simpa [hq] using h
      · simp only [hq] at h ⊢; exact ih h

theorem file_remove_sub (w : MgrWorld) (p q : Nat) (db : IrDb)
    (h : ({ w with files := w.files.filter (·.1 != p) } : MgrWorld).file q = some db) : w.file q = some db := by
  simp only [MgrWorld.file, Option.map_eq_some_iff] at h ⊢
  obtain ⟨x, hx, hdb⟩ := h
  exact ⟨x, find_filter_sub w.files p q x hx, hdb⟩

theorem sound_step (hist : List (Nat × IrDb)) (w : MgrWorld) (a : MgrAct) (h : Sound hist w) :
    Sound (histStep hist a) (mgrStep w a).1 := by
  obtain ⟨hf, hc⟩ := h
  cases a with
  | create p =>
    refine ⟨fun q db hq => hf q db (by simpa [mgrStep, MgrWorld.file] using hq), ?_⟩
    intro m hm e he
    simp only [mgrStep, List.mem_append, List.mem_singleton] at hm
    rcases hm with hm | rfl
    · exact hc m hm e he
    · cases he
  | write p db =>
    constructor
    · intro q db' hq
      simp only [mgrStep, file_write] at hq
      simp only [histStep]
      by_cases hpq : (p == q) = true
      · simp only [hpq, if_true] at hq; cases hq
        have : p = q := by simpa using hpq
        subst this; exact List.mem_cons_self
      · simp only [hpq, Bool.false_eq_true, if_false] at hq
        exact List.mem_cons_of_mem _ (hf q db' hq)
    · intro m hm e he
      obtain ⟨h1, db', ir, h2, h3, h4⟩ := hc m hm e he
      exact ⟨h1, db', ir, List.mem_cons_of_mem _ h2, h3, h4⟩
  | remove p =>
    refine ⟨fun q db hq => hf q db (file_remove_sub w p q db (by simpa [mgrStep] using hq)), ?_⟩
    intro m hm e he
    exact hc m hm e he
  | get i id =>
    simp only [mgrStep, histStep]
    cases hi : w.mgrs[i]? with
    | none => exact ⟨hf, hc⟩
    | some m =>
      simp only []
      cases hcach : m.cached id with
      | some y => exact ⟨hf, hc⟩
      | none =>
        simp only []
        cases hl : loadNow w m.path id with
        | error e => exact ⟨hf, hc⟩
        | ok r =>
          simp only []
          refine ⟨fun q db hq => hf q db (by simpa [MgrWorld.file] using hq), ?_⟩
          intro m' hm' e he
          simp only [setMgr] at hm'
          rcases List.mem_or_eq_of_mem_set hm' with hold | rfl
          · obtain ⟨h1, rest⟩ := hc m' hold e he
            exact ⟨Nat.lt_succ_of_lt h1, rest⟩
          · simp only [List.mem_cons] at he
            have hmem : m ∈ w.mgrs := List.mem_of_getElem? hi
            rcases he with rfl | he
            · refine ⟨Nat.lt_succ_self _, ?_⟩
              simp only [loadNow] at hl
              cases hfile : w.file m.path with
              | none => simp [hfile] at hl
              | some db =>
                simp only [hfile] at hl
                cases hg : db.get id with
                | none => simp [hg] at hl
                | some ir =>
                  simp only [hg] at hl
                  exact ⟨db, ir, hf _ _ hfile, hg, hl⟩
            · obtain ⟨h1, rest⟩ := hc m hmem e he
              exact ⟨Nat.lt_succ_of_lt h1, rest⟩

def histRun (hist : List (Nat × IrDb)) : List MgrAct → List (Nat × IrDb)
  | [] => hist
  | a :: as => histRun (histStep hist a) as

theorem sound_run (as : List MgrAct) (hist : List (Nat × IrDb)) (w : MgrWorld) (h : Sound hist w) :
    Sound (histRun hist as) (mgrRun w as).1 := by
  induction as generalizing hist w with
  | nil => exact h
  | cons a as ih => simp only [mgrRun, histRun]; exact ih _ _ (sound_step hist w a h)

theorem sound_init : Sound [] mgrInit := by
  constructor
  · intro p db h; simp [mgrInit, MgrWorld.file] at h
  · intro m hm; simp [mgrInit] at hm

end Proofs.Manager
