/-
Proofs.LifeC — the code-level bridge (`Model.LifeC`: dictionary, bind loop, `started_ports`, rollback) refines the abstract
life-cycle machine (`Model.Life`).
-/
import Switcher.Model.LifeC
namespace Proofs.LifeC
open Model

theorem lookup_filter_ne (l : List (Nat × Nat)) (p q : Nat) (h : p ≠ q) :
    (l.filter (fun x => x.1 != q)).lookup p = l.lookup p := by
  induction l with
  | nil => rfl
  | cons x xs ih =>
    obtain ⟨a, b⟩ := x
    by_cases hx : a = q
    · subst hx
      have h1 : ((a, b).1 != a) = false := by simp
      have h2 : (p == a) = false := by simp [h]
      simp only [List.filter_cons, h1, Bool.false_eq_true, if_false, List.lookup, h2]
      exact ih
    · have h1 : ((a, b).1 != q) = true := by simp [hx]
      simp only [List.filter_cons, h1, if_true, List.lookup]
      split
      · rfl
      · exact ih

/-- the code-level invariant: every open transport of the bridge is the dictionary's entry for its port, sits on a
    configured port nobody else holds, and has an id below the next fresh one -/
def CInv (c : BridgeC) : Prop :=
  ∀ t ∈ c.openT, t.1 < c.next ∧ c.table.lookup t.2 = some t.1 ∧ t.2 ∈ c.ports ∧ t.2 ∉ c.others

/-- in the middle of `start`: `c` is `c0` plus the transports bound so far (`rem`, still to be rolled back if a later bind fails) -/
def Pending (c0 c : BridgeC) (rem : List Nat) : Prop :=
  ∃ new : List (Nat × Nat), c.openT = c0.openT ++ new ∧ new.map (·.2) = rem ∧ (new.map (·.1)).Nodup ∧ rem.Nodup ∧
    (∀ t ∈ new, c0.next ≤ t.1 ∧ t.1 < c.next ∧ c.table.lookup t.2 = some t.1) ∧
    (∀ t ∈ c0.openT, t.1 < c0.next ∧ c.table.lookup t.2 = some t.1 ∧ t.2 ∉ rem) ∧
    c.others = c0.others ∧ c.ports = c0.ports ∧ c.running = c0.running ∧ c0.next ≤ c.next

theorem pending_refl (c : BridgeC) (h : CInv c) : Pending c c [] :=
  ⟨[], by simp, rfl, by simp, by simp, by simp, fun t ht => ⟨(h t ht).1, (h t ht).2.1, by simp⟩, rfl, rfl, rfl, Nat.le_refl _⟩

/-- one more successful bind -/
theorem pending_bind (c0 c : BridgeC) (rem : List Nat) (p : Nat) (h : Pending c0 c rem) (hf : c.free p = true) :
    Pending c0 (c.bind p) (rem ++ [p]) := by
  obtain ⟨new, ho, hm, hn, hr, hnew, hold, h1, h2, h3, h4⟩ := h
  simp only [BridgeC.free, BridgeC.openPorts, Bool.and_eq_true, Bool.not_eq_true', List.contains_eq_mem,
    decide_eq_false_iff_not] at hf
  have hp_open : p ∉ c.openT.map (·.2) := hf.2
  have hp_rem : p ∉ rem := by
    intro hx; apply hp_open; rw [ho, List.map_append, hm]; exact List.mem_append_right _ hx
  have hp_old : ∀ t ∈ c0.openT, t.2 ≠ p := by
    intro t ht e; apply hp_open; rw [ho, List.map_append]; exact List.mem_append_left _ (List.mem_map.mpr ⟨t, ht, e⟩)
  refine ⟨new ++ [(c.next, p)], ?_, ?_, ?_, ?_, ?_, ?_, h1, h2, h3, ?_⟩
  · simp [BridgeC.bind, ho]
  · simp [hm]
  · rw [List.map_append, List.nodup_append]
    refine ⟨hn, by simp, ?_⟩
    intro a ha b hb
    simp at hb; subst hb
    obtain ⟨t, ht, rfl⟩ := List.mem_map.mp ha
    have := (hnew t ht).2.1
    omega
  · rw [List.nodup_append]
    refine ⟨hr, by simp, ?_⟩
    intro a ha b hb
    simp at hb; subst hb
    intro e; subst e; exact hp_rem ha
  · intro t ht
    rw [List.mem_append] at ht
    rcases ht with ht | ht
    · have hq : t.2 ≠ p := by
        intro e; apply hp_rem; rw [← hm]; exact List.mem_map.mpr ⟨t, ht, e⟩
      refine ⟨(hnew t ht).1, by simp only [BridgeC.bind]; have := (hnew t ht).2.1; omega, ?_⟩
      simp only [BridgeC.bind, List.lookup]
      have : (t.2 == p) = false := by simp [hq]
      rw [this]
      rw [lookup_filter_ne _ _ _ hq]; exact (hnew t ht).2.2
    · simp at ht; subst ht
      refine ⟨h4, by simp [BridgeC.bind], ?_⟩
      simp [BridgeC.bind, List.lookup]
  · intro t ht
    have hq := hp_old t ht
    refine ⟨(hold t ht).1, ?_, ?_⟩
    · simp only [BridgeC.bind, List.lookup]
      have : (t.2 == p) = false := by simp [hq]
      rw [this, lookup_filter_ne _ _ _ hq]; exact (hold t ht).2.1
    · rw [List.mem_append]; rintro (hx | hx)
      · exact (hold t ht).2.2 hx
      · simp at hx; exact hq hx
  · simp only [BridgeC.bind]; omega

/-- THE ROLLBACK RESTORES: after the `except` clause has run over `started_ports`, exactly the transports that were open before
    this call are open, the dictionary still points at each of them, nothing else changed -/
theorem rollback_restores (c0 : BridgeC) : ∀ (rem : List Nat) (c : BridgeC), Pending c0 c rem →
    (c.rollback rem).openT = c0.openT ∧ (c.rollback rem).others = c0.others ∧ (c.rollback rem).ports = c0.ports ∧
    (c.rollback rem).running = c0.running ∧ c0.next ≤ (c.rollback rem).next ∧
    (∀ t ∈ c0.openT, (c.rollback rem).table.lookup t.2 = some t.1)
  | [], c, h => by
    obtain ⟨new, ho, hm, _, _, _, hold, h1, h2, h3, h4⟩ := h
    have : new = [] := by simpa using hm
    subst this
    simp only [BridgeC.rollback]
    exact ⟨by simpa using ho, h1, h2, h3, h4, fun t ht => (hold t ht).2.1⟩
  | q :: qs, c, h => by
    obtain ⟨new, ho, hm, hn, hr, hnew, hold, h1, h2, h3, h4⟩ := h
    cases new with
    | nil => simp at hm
    | cons t new' =>
      simp only [List.map_cons, List.cons.injEq] at hm
      obtain ⟨hq, hm'⟩ := hm
      have hlk : c.table.lookup q = some t.1 := by rw [← hq]; exact (hnew t (by simp)).2.2
      simp only [BridgeC.rollback, hlk]
      simp only [List.map_cons, List.nodup_cons] at hn
      simp only [List.nodup_cons] at hr
      apply rollback_restores c0 qs
      refine ⟨new', ?_, hm', hn.2, hr.2, ?_, ?_, h1, h2, h3, h4⟩
      · -- closing t.1 removes exactly t
        simp only [BridgeC.close, ho, List.filter_append, List.filter_cons]
        have hself : (t.1 != t.1) = false := by simp
        simp only [hself, Bool.false_eq_true, if_false]
        congr 1
        · apply List.filter_eq_self.mpr
          intro u hu
          have := (hold u hu).1
          have := (hnew t (by simp)).1
          simp; omega
        · apply List.filter_eq_self.mpr
          intro u hu
          have : u.1 ≠ t.1 := by
            intro e; exact hn.1 (List.mem_map.mpr ⟨u, hu, e⟩)
          simp [this]
      · intro u hu
        have hne : u.2 ≠ q := by
          intro e; apply hr.1; rw [← hm', ← e]; exact List.mem_map.mpr ⟨u, hu, rfl⟩
        refine ⟨(hnew u (by simp [hu])).1, (hnew u (by simp [hu])).2.1, ?_⟩
        simp only [BridgeC.close]
        rw [lookup_filter_ne _ _ _ hne]; exact (hnew u (by simp [hu])).2.2
      · intro u hu
        have hne : u.2 ≠ q := by
          intro e; exact (hold u hu).2.2 (by rw [e]; simp)
        refine ⟨(hold u hu).1, ?_, fun hx => (hold u hu).2.2 (by simp [hx])⟩
        simp only [BridgeC.close]
        rw [lookup_filter_ne _ _ _ hne]; exact (hold u hu).2.1

/-- freeness of a port after one more bind -/
theorem free_bind (c : BridgeC) (p q : Nat) : (c.bind p).free q = (c.free q && q != p) := by
  simp only [BridgeC.free, BridgeC.bind, BridgeC.openPorts, List.map_append, List.map_cons, List.map_nil]
  by_cases h : q = p
  · subst h; simp
  · have e : (q ∈ List.map (fun x => x.snd) c.openT ++ [p]) ↔ (q ∈ List.map (fun x => x.snd) c.openT) := by
      simp [List.mem_append, h]
    have hb : (q != p) = true := by simp [h]
    rw [hb, Bool.and_true]
    congr 2
    exact propext e |> fun x => by simp [x]

theorem all_free_bind (c : BridgeC) (p : Nat) (ps : List Nat) :
    ps.all (c.bind p).free = (ps.all c.free && decide (p ∉ ps)) := by
  induction ps with
  | nil => simp
  | cons q qs ihq =>
    simp only [List.all_cons, free_bind, ihq, List.mem_cons, not_or]
    by_cases hqp : q = p
    · subst hqp; simp
    · have hpq : ¬ p = q := fun e => hqp e.symm
      cases h1 : c.free q <;> cases h2 : qs.all c.free <;> by_cases hm : p ∈ qs <;> simp [hqp, hpq, hm]

/-- THE BIND LOOP, characterised: it succeeds exactly when every remaining port is free and they are pairwise distinct; then all
    of them are bound, in order; otherwise the error is raised and (by the rollback) the open transports are those of before
    the call -/
theorem startLoop_spec (c0 : BridgeC) : ∀ (ps : List Nat) (c : BridgeC) (started : List Nat), Pending c0 c started →
    (if ps.all c.free && decide ps.Nodup then
       (c.startLoop ps started).2 = .ok ∧ Pending c0 { (c.startLoop ps started).1 with running := c0.running } (started ++ ps) ∧
       (c.startLoop ps started).1.running = true
     else
       (c.startLoop ps started).2 = .raiseOSError ∧ (c.startLoop ps started).1.openT = c0.openT ∧
       (c.startLoop ps started).1.others = c0.others ∧ (c.startLoop ps started).1.ports = c0.ports ∧
       (c.startLoop ps started).1.running = c0.running ∧ c0.next ≤ (c.startLoop ps started).1.next ∧
       (∀ t ∈ c0.openT, (c.startLoop ps started).1.table.lookup t.2 = some t.1))
  | [], c, started, h => by
    simp only [List.all_nil, List.nodup_nil, decide_true, Bool.and_self, if_true, BridgeC.startLoop, List.append_nil,
      true_and, and_true]
    obtain ⟨new, ho, hm, hn, hr, hnew, hold, h1, h2, h3, h4⟩ := h
    exact ⟨new, ho, hm, hn, hr, hnew, hold, h1, h2, rfl, h4⟩
  | p :: ps, c, started, h => by
    by_cases hf : c.free p = true
    · have ih := startLoop_spec c0 ps (c.bind p) (started ++ [p]) (pending_bind c0 c started p h hf)
      simp only [BridgeC.startLoop, hf, if_true]
      have hcond : ((p :: ps).all c.free && decide (p :: ps).Nodup) = (ps.all (c.bind p).free && decide ps.Nodup) := by
        simp only [List.all_cons, hf, Bool.true_and, List.nodup_cons]
        rw [all_free_bind]
        by_cases hm : p ∈ ps <;> simp [hm, Bool.and_assoc]
      rw [hcond]
      simpa [List.append_assoc] using ih
    · have hf' : c.free p = false := by simpa using hf
      simp only [BridgeC.startLoop, hf', Bool.false_eq_true, if_false, List.all_cons, Bool.false_and]
      obtain ⟨r1, r2, r3, r4, r5, r6⟩ := rollback_restores c0 started c h
      refine ⟨?_, r1, r2, r3, r4, r5, r6⟩
      first | rfl | trivial

/-- `stop` closes every open transport the dictionary points at for a configured port; under the invariant that is all of them -/
theorem stopLoop_fields (ps : List Nat) : ∀ (c : BridgeC),
    (c.stopLoop ps).table = c.table ∧ (c.stopLoop ps).ports = c.ports ∧ (c.stopLoop ps).others = c.others ∧
    (c.stopLoop ps).next = c.next ∧ (c.stopLoop ps).running = false ∧
    (c.stopLoop ps).openT = c.openT.filter (fun t => !(ps.any (fun p => c.table.lookup p == some t.1))) := by
  induction ps with
  | nil =>
    intro c
    refine ⟨rfl, rfl, rfl, rfl, rfl, ?_⟩
    simp only [BridgeC.stopLoop, List.any_nil, Bool.not_false]
    exact (List.filter_eq_self.mpr (fun _ _ => rfl)).symm
  | cons p ps ih =>
    intro c
    simp only [BridgeC.stopLoop]
    cases hl : c.table.lookup p with
    | none =>
      simp only []
      obtain ⟨a, b, d, e, f, g⟩ := ih c
      refine ⟨a, b, d, e, f, ?_⟩
      rw [g]; simp [hl]
    | some tid =>
      simp only []
      obtain ⟨a, b, d, e, f, g⟩ := ih (c.close tid)
      refine ⟨a, b, d, e, f, ?_⟩
      rw [g]
      simp only [BridgeC.close, List.filter_filter, List.any_cons, hl]
      congr 1
      funext t
      by_cases ht : t.1 = tid
      · subst ht; simp
      · have : (some tid == some t.1) = false := by simp; exact fun e => ht e.symm
        simp [ht, this]

theorem stop_closes_all (c : BridgeC) (h : CInv c) : (c.stopLoop c.ports).openT = [] := by
  rw [(stopLoop_fields c.ports c).2.2.2.2.2]
  apply List.filter_eq_nil_iff.mpr
  intro t ht hx
  obtain ⟨_, hl, hp, _⟩ := h t ht
  simp only [Bool.not_eq_true', List.any_eq_false] at hx
  exact hx t.2 hp (by simp [hl])

/-- REFINEMENT.  One step of the code-level bridge is one step of the abstract machine: same observation, and the abstraction
    of the new state is the abstract machine's new state; the code-level invariant is kept. -/
theorem step_refines (c : BridgeC) (a : BridgeAct) (h : CInv c) (hsub : ∀ p ∈ c.openPorts, p ∈ c.ports) :
    (bridgeStepC c a).2 = (bridgeStep c.abs a).2 ∧ (bridgeStepC c a).1.abs = (bridgeStep c.abs a).1 ∧ CInv (bridgeStepC c a).1 := by
  cases a with
  | start =>
    have hs := startLoop_spec c c.ports c [] (pending_refl c h)
    have hfun : portFree c.abs = c.free := by
      funext p; simp [BridgeC.abs, BridgeC.free, portFree, BridgeC.openPorts]
    simp only [bridgeStepC, bridgeStep]
    rw [hfun]
    have hp : c.abs.ports = c.ports := rfl
    rw [hp]
    by_cases hc : (c.ports.all c.free && decide c.ports.Nodup) = true
    · rw [if_pos hc] at hs
      rw [if_pos hc]
      obtain ⟨ho, ⟨new, e1, e2, e3, e4, e5, e6, e7, e8, _, e10⟩, hr⟩ := hs
      simp only [List.nil_append] at e2
      have e1 : (c.startLoop c.ports []).1.openT = c.openT ++ new := e1
      have e5 : ∀ t ∈ new, c.next ≤ t.1 ∧ t.1 < (c.startLoop c.ports []).1.next ∧
          (c.startLoop c.ports []).1.table.lookup t.2 = some t.1 := e5
      have e6 : ∀ t ∈ c.openT, t.1 < c.next ∧ (c.startLoop c.ports []).1.table.lookup t.2 = some t.1 ∧ t.2 ∉ c.ports := e6
      have e7 : (c.startLoop c.ports []).1.others = c.others := e7
      have e8 : (c.startLoop c.ports []).1.ports = c.ports := e8
      have e10 : c.next ≤ (c.startLoop c.ports []).1.next := e10
      refine ⟨ho, ?_, ?_⟩
      · simp only [BridgeC.abs, BridgeC.openPorts] at *
        simp only [e1, List.map_append, e2, e7, e8, hr]
      · intro t ht
        rw [e1, List.mem_append] at ht
        rcases ht with ht | ht
        · have := h t ht
          have h6 := e6 t ht
          refine ⟨by omega, h6.2.1, by rw [e8]; exact this.2.2.1, by rw [e7]; exact this.2.2.2⟩
        · have h5 := e5 t ht
          have hmem : t.2 ∈ c.ports := by rw [← e2]; exact List.mem_map.mpr ⟨t, ht, rfl⟩
          have hfr : c.free t.2 = true := by
            simp only [Bool.and_eq_true, List.all_eq_true] at hc
            exact hc.1 t.2 hmem
          simp only [BridgeC.free, Bool.and_eq_true, Bool.not_eq_true', List.contains_eq_mem, decide_eq_false_iff_not] at hfr
          exact ⟨h5.2.1, h5.2.2, by rw [e8]; exact hmem, by rw [e7]; exact hfr.1⟩
    · rw [if_neg hc] at hs
      rw [if_neg hc]
      obtain ⟨ho, e1, e2, e3, e4, e5, e6⟩ := hs
      refine ⟨ho, ?_, ?_⟩
      · simp only [BridgeC.abs, BridgeC.openPorts, e1, e2, e3, e4]
      · intro t ht
        rw [e1] at ht
        have := h t ht
        exact ⟨by omega, e6 t ht, by rw [e3]; exact this.2.2.1, by rw [e2]; exact this.2.2.2⟩
  | stop =>
    obtain ⟨f1, f2, f3, f4, f5, _⟩ := stopLoop_fields c.ports c
    have hnil := stop_closes_all c h
    refine ⟨rfl, ?_, ?_⟩
    · simp only [bridgeStepC, bridgeStep, BridgeC.abs, BridgeC.openPorts, hnil, f2, f3, f5, List.map_nil]
      congr 1
      symm
      apply List.filter_eq_nil_iff.mpr
      intro p hp
      have := hsub p hp
      simp [this]
    · intro t ht
      simp only [bridgeStepC] at ht
      rw [hnil] at ht; cases ht
  | send p => exact ⟨rfl, rfl, h⟩
  | foreign => exact ⟨rfl, rfl, h⟩
  | occupy p =>
    have hfree : c.free p = portFree c.abs p := by simp [BridgeC.abs, BridgeC.free, portFree, BridgeC.openPorts]
    simp only [bridgeStepC, bridgeStep, ← hfree]
    by_cases hf : c.free p = true
    · simp only [hf, if_true]
      refine ⟨trivial, rfl, ?_⟩
      intro t ht
      have := h t ht
      refine ⟨this.1, this.2.1, this.2.2.1, ?_⟩
      simp only [List.mem_cons, not_or]
      refine ⟨?_, this.2.2.2⟩
      intro e
      simp only [BridgeC.free, BridgeC.openPorts, Bool.and_eq_true, Bool.not_eq_true', List.contains_eq_mem,
        decide_eq_false_iff_not] at hf
      exact hf.2 (List.mem_map.mpr ⟨t, ht, e⟩)
    · simp only [hf, Bool.false_eq_true, if_false]
      exact ⟨trivial, trivial, h⟩
  | release p =>
    refine ⟨rfl, rfl, ?_⟩
    intro t ht
    have := h t ht
    refine ⟨this.1, this.2.1, this.2.2.1, ?_⟩
    intro hm
    simp only [bridgeStepC, List.mem_filter] at hm
    exact this.2.2.2 hm.1

theorem cinv_ports (c : BridgeC) (h : CInv c) : ∀ p ∈ c.openPorts, p ∈ c.ports := by
  intro p hp
  obtain ⟨t, ht, rfl⟩ := List.mem_map.mp hp
  exact (h t ht).2.2.1

/-- REFINEMENT over whole histories: for every action sequence the code-level bridge makes exactly the observations of the
    abstract machine and ends in a state whose abstraction is the abstract machine's state -/
theorem run_refines : ∀ (as : List BridgeAct) (c : BridgeC), CInv c →
    (bridgeRunActsC c as).2 = (bridgeRunActs c.abs as).2 ∧ (bridgeRunActsC c as).1.abs = (bridgeRunActs c.abs as).1 ∧
    CInv (bridgeRunActsC c as).1
  | [], c, h => ⟨rfl, rfl, h⟩
  | a :: as, c, h => by
    obtain ⟨s1, s2, s3⟩ := step_refines c a h (cinv_ports c h)
    obtain ⟨r1, r2, r3⟩ := run_refines as (bridgeStepC c a).1 s3
    simp only [bridgeRunActsC, bridgeRunActs]
    rw [s2] at r1 r2
    exact ⟨by rw [s1, r1], r2, r3⟩

theorem cinv_init (ports : List Nat) : CInv (bridgeInitC ports) := by
  intro t ht; simp [bridgeInitC] at ht

theorem abs_init (ports : List Nat) : (bridgeInitC ports).abs = bridgeInit ports := rfl

end Proofs.LifeC
