import Switcher.Proofs.AmpsDefs
namespace Spec
theorem ampsChunk8 : ampsRange 32768 4096 = true := by decide +kernel
end Spec
