import Switcher.Proofs.AmpsDefs
namespace Spec
theorem ampsChunk11 : ampsRange 45056 4096 = true := by decide +kernel
end Spec
