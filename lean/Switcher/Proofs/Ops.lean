/-
Proofs.Ops — program-level lemmas: what `simpleOp` writes, the login frames, encoder laws.
-/
import Switcher.Proofs.Layout
namespace Model
open Spec Tmpl

/-- a well-formed client configuration: 3-byte device id and 1-byte login key, as hex text -/
def WFcfg (cfg : Cfg) : Prop :=
  cfg.deviceId.length = 6 ∧ isHexText cfg.deviceId = true ∧ cfg.deviceKey.length = 2 ∧ isHexText cfg.deviceKey = true

/-- the timestamp text of a clock reading -/
def tsOf (now : Nat) : List Char := hexlify (le32 now)

theorem timestampToHex_ok (now : Nat) (h : now < 4294967296) : timestampToHex now = .ok (tsOf now) := by
  unfold timestampToHex
  rw [packLE32_nat now h]; rfl

theorem tsOf_props (now : Nat) : (tsOf now).length = 8 ∧ isHexText (tsOf now) = true :=
  ⟨by simp [tsOf, hexlify_length, le32], isHexText_hexlify _⟩

theorem isHexText_slice (s : List Char) (a b : Nat) (h : isHexText s = true) : isHexText (slice s a b) = true := by
  simp only [isHexText, List.all_eq_true] at h ⊢
  intro c hc
  exact h c (List.mem_of_mem_drop (List.mem_of_mem_take hc))

theorem sessionId_props (raw : List Nat) (h : 12 ≤ raw.length) :
    (sessionId raw).length = 8 ∧ isHexText (sessionId raw) = true := by
  constructor
  · simp [sessionId, slice, hexlify_length]; omega
  · exact isHexText_slice _ _ _ (isHexText_hexlify _)

/-! ### what an operation of the common shape writes -/

theorem runProg_simpleOp_ok (cfg : Cfg) (now : Int) (method tmpl : String) (extra : Py Env) (finish : List Nat → Py Resp)
    (ts : List Char) (f1 f2 : List Nat) (raw r2 : List Nat) (rest : List (List Nat)) (ex : Env)
    (hts : timestampToHex now = .ok ts)
    (hlogin : loginFrame cfg ts (loginVariantText method) = .ok f1)
    (hguard : guardStops method raw = false)
    (hextra : extra = .ok ex)
    (hcmd : commandFrame method tmpl (baseEnv cfg ts raw ++ ex) = .ok f2) :
    runProg (simpleOp cfg now method tmpl extra finish) (raw :: r2 :: rest) = ([f1, f2], finish r2) := by
  simp [simpleOp, withLogin, hts, hlogin, runProg, hguard, hextra, hcmd]

/-- rejected arguments: the login frame is the only frame written and the encoder's exception escapes -/
theorem runProg_simpleOp_rejected (cfg : Cfg) (now : Int) (method tmpl : String) (extra : Py Env) (finish : List Nat → Py Resp)
    (ts : List Char) (f1 : List Nat) (raw : List Nat) (rest : List (List Nat)) (e : Exc)
    (hts : timestampToHex now = .ok ts)
    (hlogin : loginFrame cfg ts (loginVariantText method) = .ok f1)
    (hguard : guardStops method raw = false)
    (hextra : extra = .error e) :
    runProg (simpleOp cfg now method tmpl extra finish) (raw :: rest) = ([f1], .error e) := by
  simp [simpleOp, withLogin, hts, hlogin, runProg, hguard, hextra]

/-- an unsuccessful (empty) login reply stops a guarded operation after the login frame -/
theorem runProg_simpleOp_guarded (cfg : Cfg) (now : Int) (method tmpl : String) (extra : Py Env) (finish : List Nat → Py Resp)
    (ts : List Char) (f1 : List Nat) (raw : List Nat) (rest : List (List Nat))
    (hts : timestampToHex now = .ok ts)
    (hlogin : loginFrame cfg ts (loginVariantText method) = .ok f1)
    (hguard : guardStops method raw = true) :
    runProg (simpleOp cfg now method tmpl extra finish) (raw :: rest) = ([f1], .error .runtimeError) := by
  simp [simpleOp, withLogin, hts, hlogin, runProg, hguard]

/-! ### encoder laws (C02) -/

theorem minutesToHex_ok (m : Nat) (h : 60 * m < 4294967296) : minutesToHex m = .ok (hexlify (le32 (60 * m))) := by
  unfold minutesToHex
  have : ((m : Int) * 60) = ((60 * m : Nat) : Int) := by push_cast; omega
  rw [this, packLE32_nat _ h]; rfl

theorem minutesToHex_rejects (m : Nat) (h : ¬ 60 * m < 4294967296) : minutesToHex m = .error .structError := by
  unfold minutesToHex
  have : ((m : Int) * 60) = ((60 * m : Nat) : Int) := by push_cast; omega
  rw [this, packLE32_big _ h]; rfl

/-- the accepted range observed by the translator on the current source IS the protocol's 1 h .. 23 h 59 m (however the guard is spelt) -/
theorem inChain_td (x : Int) : inChain "timedelta_to_hexadecimal_seconds" x = decide (3599 < x ∧ x < 86341) := by
  have h : inChain "timedelta_to_hexadecimal_seconds" x = (decide (3600 ≤ x) && decide (x ≤ 86340)) := by
    simp [inChain, Gen.chainGuards, cmpOp]
  rw [h, Bool.eq_iff_iff]
  simp only [Bool.and_eq_true, decide_eq_true_eq]
  omega

/-- auto shutdown: whole minutes of the timedelta, accepted iff within 1 h .. 23 h 59 m -/
theorem timedeltaToHex_ok (micros : Nat) (h1 : 3600 ≤ 60 * (micros / 60000000)) (h2 : 60 * (micros / 60000000) ≤ 86340) :
    timedeltaToHex micros = .ok (hexlify (le32 (60 * (micros / 60000000)))) := by
  unfold timedeltaToHex
  have e : (60 : Int) * ((micros : Int) / 60000000) = ((60 * (micros / 60000000) : Nat) : Int) := by
    omega
  simp only [e, inChain_td]
  have : (3599 : Int) < ((60 * (micros / 60000000) : Nat) : Int) ∧ ((60 * (micros / 60000000) : Nat) : Int) < 86341 := by omega
  simp only [this, and_self, decide_true, if_true]
  rw [packLE32_nat _ (by omega)]; rfl

theorem timedeltaToHex_rejects (micros : Int) (h : 60 * (micros / 60000000) < 3600 ∨ 86340 < 60 * (micros / 60000000)) :
    timedeltaToHex micros = .error .valueError := by
  unfold timedeltaToHex
  simp only [inChain_td]
  have : ¬ ((3599 : Int) < 60 * (micros / 60000000) ∧ 60 * (micros / 60000000) < 86341) := by omega
  simp [this]

theorem replicate_zero_hex (n : Nat) : (List.replicate n ['0', '0']).flatten = hexlify (List.replicate n 0) := by
  induction n with
  | zero => rfl
  | succ n ih => simp [List.replicate_succ, hexlify_cons, ih, hexByte, hexDigit]

theorem nameToHex_ok (name : List Char) (h1 : 2 ≤ name.length) (h2 : (utf8Encode name).length ≤ 32) :
    nameToHex name = .ok (hexlify (utf8Encode name ++ List.replicate (32 - (utf8Encode name).length) 0)) := by
  unfold nameToHex
  have : 1 < name.length ∧ (utf8Encode name).length < 33 := by omega
  simp only [this, and_self, if_true, py_pure, replicate_zero_hex, hexlify_append]

theorem nameToHex_rejects (name : List Char) (h : name.length < 2 ∨ 32 < (utf8Encode name).length) :
    nameToHex name = .error .valueError := by
  unfold nameToHex
  have : ¬ (1 < name.length ∧ (utf8Encode name).length < 33) := by omega
  simp [this]

end Model

namespace Model
open Spec Tmpl

/-- `frame` is the signed reference frame of `op` -/
def IsRefWire (op : Op) (sid ts did key : List Char) (frame : List Nat) : Prop :=
  refWire op sid ts did key = some frame

theorem hf_of_exprs (method tmpl : String) (env : Env) (renv : Role → List Char) (f : String → Arg) (es : List String)
    (hcd : (callData method tmpl).map (·.2) = some es)
    (hall : ∀ e ∈ es, argOf env e = some (f e) ∧ ∀ r, roleOfExpr e = some r → Renders r (f e) (renv r)) :
    ∀ t es', callData method tmpl = some (t, es') → ∀ e ∈ es', argOf env e = some (f e) ∧
      ∀ r, roleOfExpr e = some r → Renders r (f e) (renv r) := by
  intro t es' hc
  rw [hc] at hcd
  have : es' = es := by simpa using hcd
  subst this
  exact hall

/-- the default way the model's argument values are read: the text the role environment assigns -/
def argS (renv : Role → List Char) (e : String) : Arg := .s (renv ((roleOfExpr e).getD .sid))

/-- both login frames are the reference login frames -/
theorem login_frame (cfg : Cfg) (now : Nat) (hcfg : WFcfg cfg) (variant : String) :
    ∃ f, loginFrame cfg (tsOf now) variant = .ok f ∧
      IsRefWire (if isType2Login variant then .login2 else .login1) [] (tsOf now) cfg.deviceId cfg.deviceKey f := by
  obtain ⟨hd1, hd2, hk1, hk2⟩ := hcfg
  obtain ⟨ht1, ht2⟩ := tsOf_props now
  by_cases hv : isType2Login variant = true
  · let renv := specEnv .login2 [] (tsOf now) cfg.deviceId cfg.deviceKey
    have hroles : rolesOf (refSym .login2) = [.ts, .did] := by decide
    obtain ⟨bs, hb, _, hw⟩ := commandFrame_fixed "_login" "LOGIN2_PACKET_TYPE2"
      [("timestamp", .s (tsOf now)), ("self._device_id", .s cfg.deviceId), ("self._device_key", .s cfg.deviceKey)]
      renv (argS renv) (refSym .login2) 44
      (by decide +kernel)
      (hf_of_exprs _ _ _ _ _ ["timestamp", "self._device_id"] (by decide +kernel)
        (by simp [argOf, roleOfExpr, Renders, renv, specEnv, argS]))
      (by decide +kernel) (by decide +kernel)
      (by rw [hroles]; simp [renv, specEnv, ht2, hd2])
      (by
        have := agrees_length (evalSym_agrees renv Role.width (refSym .login2)
          (by rw [hroles]; simp [renv, specEnv, ht1, hd1, Role.width]))
        rw [this]; decide +kernel)
    refine ⟨bs ++ sigBytes bs, ?_, ?_⟩
    · simpa [loginFrame, hv, commandFrame, routesThroughSetLength, wiringRow, Gen.wiring] using hw
    · simp [IsRefWire, refWire, refFrame, hv, Op.kind, Kind.computedLength, renv, hb] at hb ⊢
  · let renv := specEnv .login1 [] (tsOf now) cfg.deviceId cfg.deviceKey
    have hroles : rolesOf (refSym .login1) = [.ts, .key] := by decide
    obtain ⟨bs, hb, _, hw⟩ := commandFrame_fixed "_login" "LOGIN_PACKET_TYPE1"
      [("timestamp", .s (tsOf now)), ("self._device_id", .s cfg.deviceId), ("self._device_key", .s cfg.deviceKey)]
      renv (argS renv) (refSym .login1) 78
      (by decide +kernel)
      (hf_of_exprs _ _ _ _ _ ["timestamp", "self._device_key"] (by decide +kernel)
        (by simp [argOf, roleOfExpr, Renders, renv, specEnv, argS]))
      (by decide +kernel) (by decide +kernel)
      (by rw [hroles]; simp [renv, specEnv, ht2, hk2])
      (by
        have := agrees_length (evalSym_agrees renv Role.width (refSym .login1)
          (by rw [hroles]; simp [renv, specEnv, ht1, hk1, Role.width]))
        rw [this]; decide +kernel)
    refine ⟨bs ++ sigBytes bs, ?_, ?_⟩
    · simpa [loginFrame, hv, commandFrame, routesThroughSetLength, wiringRow, Gen.wiring] using hw
    · simp [IsRefWire, refWire, refFrame, hv, Op.kind, Kind.computedLength, renv, hb] at hb ⊢

end Model

namespace Model
open Spec Tmpl

/-- The common engine of C02: an operation of the common shape on a fixed-length layout writes the
    reference login frame and the reference command frame of `op`, for every session id, clock
    reading and configuration.  All per-operation hypotheses are either decided on the generated
    data or are the encoder laws of that operation. -/
theorem simple_fixed (cfg : Cfg) (now : Nat) (raw r2 : List Nat) (rest : List (List Nat))
    (method tmpl : String) (op : Op) (N : Nat) (extra : Py Env) (ex : Env) (finish : List Nat → Py Resp) (es : List String)
    (hcfg : WFcfg cfg) (hnow : now < 4294967296)
    (hguard : guardStops method raw = false)
    (hextra : extra = .ok ex)
    (hsym : symOfCall method tmpl = some (refSym op.kind))
    (hroute : routesThroughSetLength method = false) (hkind : op.kind.computedLength = false)
    (hcd : (callData method tmpl).map (·.2) = some es)
    (hall : ∀ e ∈ es, argOf (baseEnv cfg (tsOf now) raw ++ ex) e =
        some (argS (specEnv op (sessionId raw) (tsOf now) cfg.deviceId cfg.deviceKey) e) ∧ roleOfExpr e ≠ some .bTemp)
    (hlits : litsHex (refSym op.kind) = true)
    (hroles : ∀ r ∈ rolesOf (refSym op.kind),
        isHexText (specEnv op (sessionId raw) (tsOf now) cfg.deviceId cfg.deviceKey r) = true ∧
        (specEnv op (sessionId raw) (tsOf now) cfg.deviceId cfg.deviceKey r).length = r.width)
    (hlen : (skelOf Role.width (refSym op.kind)).length = 2 * N) :
    ∃ f1 f2, runProg (simpleOp cfg now method tmpl extra finish) (raw :: r2 :: rest) = ([f1, f2], finish r2) ∧
      IsRefWire (if isType2Login (loginVariantText method) then .login2 else .login1) [] (tsOf now) cfg.deviceId cfg.deviceKey f1 ∧
      IsRefWire op (sessionId raw) (tsOf now) cfg.deviceId cfg.deviceKey f2 := by
  obtain ⟨f1, hl1, hl2⟩ := login_frame cfg now hcfg (loginVariantText method)
  let renv := specEnv op (sessionId raw) (tsOf now) cfg.deviceId cfg.deviceKey
  obtain ⟨bs, hb, _, hw⟩ := commandFrame_fixed method tmpl (baseEnv cfg (tsOf now) raw ++ ex) renv (argS renv) (refSym op.kind) N
    hsym
    (hf_of_exprs _ _ _ _ _ es hcd (by
      intro e he
      refine ⟨(hall e he).1, ?_⟩
      intro r hr
      left
      refine ⟨?_, ?_⟩
      · intro h; subst h; exact (hall e he).2 hr
      · simp [argS, hr]))
    hroute hlits (fun r hr => (hroles r hr).1)
    (by
      have := agrees_length (evalSym_agrees renv Role.width (refSym op.kind) (fun r hr => (hroles r hr).2))
      rw [this, hlen])
  refine ⟨f1, bs ++ sigBytes bs, ?_, hl2, ?_⟩
  · exact runProg_simpleOp_ok cfg now method tmpl extra finish (tsOf now) f1 _ raw r2 rest ex
      (timestampToHex_ok now hnow) hl1 hguard hextra hw
  · simp [IsRefWire, refWire, refFrame, hkind, renv, hb] at hb ⊢

end Model

namespace Model
theorem guardStops_none (method : String) (raw : List Nat) (h : guardStyle method = "none") : guardStops method raw = false := by
  simp [guardStops, h]

theorem guardStops_nonempty (method : String) (raw : List Nat) (h : raw ≠ []) : guardStops method raw = false := by
  cases raw with
  | nil => exact absurd rfl h
  | cons a t => simp [guardStops, successful]

theorem guardStops_empty (method : String) (h : guardStyle method = "raise-if-not-successful" ∨ guardStyle method = "only-if-successful") :
    guardStops method [] = true := by
  rcases h with h | h <;> simp [guardStops, h, successful]
end Model

namespace Model
open Spec Tmpl

/-- the computed-length variant of `simple_fixed` (packets routed through `set_message_length`) -/
theorem simple_computed (cfg : Cfg) (now : Nat) (raw r2 : List Nat) (rest : List (List Nat))
    (method tmpl : String) (op : Op) (N : Nat) (extra : Py Env) (ex : Env) (finish : List Nat → Py Resp) (es : List String)
    (sym : Sym) (c1 c2 : List Char)
    (hcfg : WFcfg cfg) (hnow : now < 4294967296)
    (hguard : guardStops method raw = false)
    (hextra : extra = .ok ex)
    (hsym : symOfCall method tmpl = some sym)
    (h1 : litChars (sym.take 8) = some c1) (h2 : litChars ((refSym op.kind).take 8) = some c2)
    (hl1 : 8 ≤ sym.length) (hl2 : 8 ≤ (refSym op.kind).length) (hd : sym.drop 8 = (refSym op.kind).drop 8)
    (hroute : routesThroughSetLength method = true) (hkind : op.kind.computedLength = true)
    (hcd : (callData method tmpl).map (·.2) = some es)
    (hall : ∀ e ∈ es, argOf (baseEnv cfg (tsOf now) raw ++ ex) e =
        some (argS (specEnv op (sessionId raw) (tsOf now) cfg.deviceId cfg.deviceKey) e) ∧ roleOfExpr e ≠ some .bTemp)
    (hlits : litsHex sym = true)
    (hroles : ∀ r ∈ rolesOf sym,
        isHexText (specEnv op (sessionId raw) (tsOf now) cfg.deviceId cfg.deviceKey r) = true ∧
        (specEnv op (sessionId raw) (tsOf now) cfg.deviceId cfg.deviceKey r).length = r.width)
    (hlen : (skelOf Role.width sym).length = 2 * N) (hsmall : N + 4 < 65536) :
    ∃ f1 f2, runProg (simpleOp cfg now method tmpl extra finish) (raw :: r2 :: rest) = ([f1, f2], finish r2) ∧
      IsRefWire (if isType2Login (loginVariantText method) then .login2 else .login1) [] (tsOf now) cfg.deviceId cfg.deviceKey f1 ∧
      IsRefWire op (sessionId raw) (tsOf now) cfg.deviceId cfg.deviceKey f2 := by
  obtain ⟨f1, hl1', hl2'⟩ := login_frame cfg now hcfg (loginVariantText method)
  let renv := specEnv op (sessionId raw) (tsOf now) cfg.deviceId cfg.deviceKey
  obtain ⟨bs, hb, _, hw⟩ := commandFrame_computed method tmpl (baseEnv cfg (tsOf now) raw ++ ex) renv (argS renv)
    sym (refSym op.kind) c1 c2 N hsym
    (hf_of_exprs _ _ _ _ _ es hcd (by
      intro e he
      refine ⟨(hall e he).1, ?_⟩
      intro r hr
      left
      refine ⟨?_, ?_⟩
      · intro h; subst h; exact (hall e he).2 hr
      · simp [argS, hr]))
    hroute h1 h2 hl1 hl2 hd hlits (fun r hr => (hroles r hr).1)
    (by
      have := agrees_length (evalSym_agrees renv Role.width sym (fun r hr => (hroles r hr).2))
      rw [this, hlen]) hsmall
  refine ⟨f1, bs ++ sigBytes bs, ?_, hl2', ?_⟩
  · exact runProg_simpleOp_ok cfg now method tmpl extra finish (tsOf now) f1 _ raw r2 rest ex
      (timestampToHex_ok now hnow) hl1' hguard hextra hw
  · simp [IsRefWire, refWire, refFrame, hkind, renv, hb] at hb ⊢

end Model

namespace Model
open Spec Tmpl

/-- everything `simple_computed` needs to know about the generated layout, as one decidable check -/
def computedOk (o : Option Sym) (ref : Sym) (N : Nat) : Bool :=
  match o with
  | some sym => (litChars (sym.take 8)).isSome && (litChars (ref.take 8)).isSome && decide (8 ≤ sym.length) &&
      decide (8 ≤ ref.length) && (sym.drop 8 == ref.drop 8) && litsHex sym && ((skelOf Role.width sym).length == 2 * N) &&
      (rolesOf sym == rolesOf ref)
  | none => false

theorem simple_computed' (cfg : Cfg) (now : Nat) (raw r2 : List Nat) (rest : List (List Nat))
    (method tmpl : String) (op : Op) (N : Nat) (extra : Py Env) (ex : Env) (finish : List Nat → Py Resp) (es : List String)
    (hcfg : WFcfg cfg) (hnow : now < 4294967296)
    (hguard : guardStops method raw = false)
    (hextra : extra = .ok ex)
    (hok : computedOk (symOfCall method tmpl) (refSym op.kind) N = true)
    (hroute : routesThroughSetLength method = true) (hkind : op.kind.computedLength = true)
    (hcd : (callData method tmpl).map (·.2) = some es)
    (hall : ∀ e ∈ es, argOf (baseEnv cfg (tsOf now) raw ++ ex) e =
        some (argS (specEnv op (sessionId raw) (tsOf now) cfg.deviceId cfg.deviceKey) e) ∧ roleOfExpr e ≠ some .bTemp)
    (hroles : ∀ r ∈ rolesOf (refSym op.kind),
        isHexText (specEnv op (sessionId raw) (tsOf now) cfg.deviceId cfg.deviceKey r) = true ∧
        (specEnv op (sessionId raw) (tsOf now) cfg.deviceId cfg.deviceKey r).length = r.width)
    (hsmall : N + 4 < 65536) :
    ∃ f1 f2, runProg (simpleOp cfg now method tmpl extra finish) (raw :: r2 :: rest) = ([f1, f2], finish r2) ∧
      IsRefWire (if isType2Login (loginVariantText method) then .login2 else .login1) [] (tsOf now) cfg.deviceId cfg.deviceKey f1 ∧
      IsRefWire op (sessionId raw) (tsOf now) cfg.deviceId cfg.deviceKey f2 := by
  cases hsym : symOfCall method tmpl with
  | none => simp [computedOk, hsym] at hok
  | some sym =>
    simp only [computedOk, hsym, Bool.and_eq_true, decide_eq_true_eq, beq_iff_eq] at hok
    obtain ⟨⟨⟨⟨⟨⟨⟨h1, h2⟩, hl1⟩, hl2⟩, hd⟩, hlits⟩, hlen⟩, hro⟩ := hok
    obtain ⟨c1, hc1⟩ := Option.isSome_iff_exists.mp h1
    obtain ⟨c2, hc2⟩ := Option.isSome_iff_exists.mp h2
    exact simple_computed cfg now raw r2 rest method tmpl op N extra ex finish es sym c1 c2 hcfg hnow hguard hextra hsym
      hc1 hc2 hl1 hl2 hd hroute hkind hcd hall hlits (by rw [hro]; exact hroles) hlen hsmall

end Model
