/-
Proofs.WF — every reference frame is well formed (C01 at the level of the Spec layouts).
-/
import Switcher.Proofs.Layout
import Switcher.Proofs.Decode
import Switcher.Spec.Frame
namespace Spec
open Model

theorem unhex_fef0 : unhexlify cs!"fef0" = some [0xfe, 0xf0] := by decide
theorem unhex_f0fe : unhexlify cs!"f0fe" = some [0xf0, 0xfe] := by decide

/-- from facts about the unsigned frame text to well-formedness of the signed bytes -/
theorem wf_of_text (p : List Char) (bs : List Nat) (hb : unhexlify p = some bs)
    (h0 : slice p 0 4 = cs!"fef0") (h4 : slice p 4 8 = hexlify (le16 (bs.length + 4))) (h76 : slice p 76 80 = cs!"f0fe")
    (hlen : 40 ≤ bs.length) (hsmall : bs.length + 4 < 65536) : wellFormedB (bs ++ sigBytes bs) = true := by
  have hbytes : IsBytes bs := unhexlify_isBytes p bs hb
  have hsig : (sigBytes bs).length = 4 := by simp [sigBytes, le16]
  have b0 : slice bs 0 2 = [0xfe, 0xf0] :=
    slice_bytes_of_hex p bs _ 0 2 hb (by simpa [hexlify, hexByte, hexDigit] using h0) (by intro b hb; simp at hb; rcases hb with h | h <;> omega)
  have b4 : slice bs 2 4 = le16 (bs.length + 4) := slice_bytes_of_hex p bs _ 2 4 hb h4 (isBytes_le16 _)
  have b76 : slice bs 38 40 = [0xf0, 0xfe] :=
    slice_bytes_of_hex p bs _ 38 40 hb (by simpa [hexlify, hexByte, hexDigit] using h76) (by intro b hb; simp at hb; rcases hb with h | h <;> omega)
  unfold wellFormedB
  simp only [Bool.and_eq_true, decide_eq_true_eq, beq_iff_eq, isBytesB_iff]
  have hl : (bs ++ sigBytes bs).length = bs.length + 4 := by simp [hsig]
  refine ⟨⟨⟨⟨⟨?_, ?_⟩, ?_⟩, ?_⟩, ?_⟩, ?_⟩
  · rw [hl]; omega
  · have : (bs ++ sigBytes bs).take 2 = bs.take 2 := by rw [List.take_append_of_le_length (by omega)]
    rw [this]; simpa [slice] using b0
  · have : slice (bs ++ sigBytes bs) 2 4 = slice bs 2 4 := by
      simp only [slice]; rw [List.drop_append_of_le_length (by omega), List.take_append_of_le_length (by simp; omega)]
    rw [this, b4, hl, ofLE_le16 _ hsmall]
  · have : slice (bs ++ sigBytes bs) 38 40 = slice bs 38 40 := by
      simp only [slice]; rw [List.drop_append_of_le_length (by omega), List.take_append_of_le_length (by simp; omega)]
    rw [this, b76]
  · rw [hl]; simp
  · exact isBytes_append hbytes (isBytes_append (isBytes_le16 _) (isBytes_le16 _))

/-- the skeleton facts that make a fixed-length layout well formed, as one decidable check -/
def fixedWfOk (s : Sym) : Bool :=
  let k := skelOf Role.width s
  (window k 0 4 == some cs!"fef0") && (window k 76 80 == some cs!"f0fe") &&
  (window k 4 8 == some (hexlify (le16 (k.length / 2 + 4)))) && decide (80 ≤ k.length) && decide (k.length % 2 = 0) &&
  decide (k.length / 2 + 4 < 65536) && litsHex s

theorem fixed_wellFormed (env : Role → List Char) (s : Sym) (hok : fixedWfOk s = true)
    (hw : ∀ r ∈ rolesOf s, (env r).length = r.width) (hh : ∀ r ∈ rolesOf s, isHexText (env r) = true) :
    ∃ bs, unhexlify (evalSym env s) = some bs ∧ wellFormedB (bs ++ sigBytes bs) = true := by
  simp only [fixedWfOk, Bool.and_eq_true, beq_iff_eq, decide_eq_true_eq] at hok
  obtain ⟨⟨⟨⟨⟨⟨h0, h76⟩, h4⟩, h80⟩, hev⟩, hsm⟩, hlit⟩ := hok
  have hag := evalSym_agrees env Role.width s hw
  have hlen := agrees_length hag
  obtain ⟨bs, hb, hn⟩ := unhexlify_of_hex ((skelOf Role.width s).length / 2) (evalSym env s) (by rw [hlen]; omega)
    (evalSym_hex env s hlit hh)
  refine ⟨bs, hb, wf_of_text _ bs hb ?_ ?_ ?_ (by omega) (by omega)⟩
  · exact window_sound 0 4 _ hag h0 (by decide)
  · rw [hn]; exact window_sound 4 8 _ hag h4 (by simp [hexlify_length, le16])
  · exact window_sound 76 80 _ hag h76 (by decide)

/-- computed-length layouts: magic and terminator are literal, the length is written by `withLength` -/
def computedWfOk (s : Sym) : Bool :=
  let k := skelOf Role.width s
  (window k 0 4 == some cs!"fef0") && (window k 76 80 == some cs!"f0fe") && decide (80 ≤ k.length) &&
  decide (k.length % 2 = 0) && litsHex s

theorem withLength_wellFormed (p : List Char) (hhex : isHexText p = true) (hlen : 80 ≤ p.length) (hev : p.length % 2 = 0)
    (h76 : slice p 76 80 = cs!"f0fe") (hsm : p.length / 2 + 4 < 65536) :
    ∃ bs, unhexlify (withLength p) = some bs ∧ wellFormedB (bs ++ sigBytes bs) = true := by
  have hl := withLength_length p (by omega)
  obtain ⟨bs, hb, hn⟩ := unhexlify_of_hex (p.length / 2) (withLength p) (by rw [hl]; omega) (withLength_hex p hhex)
  refine ⟨bs, hb, wf_of_text _ bs hb ?_ ?_ ?_ (by omega) (by omega)⟩
  · simp [withLength, slice]
  · rw [hn]; simp [withLength, slice, hexlify_length, le16]
  · have : slice (withLength p) 76 80 = slice p 76 80 := by
      unfold withLength slice
      have e : (cs!"fef0" ++ hexlify (le16 (p.length / 2 + 4))).length = 8 := by simp [hexlify_length, le16]
      rw [List.drop_append, e]
      have : List.drop 76 (cs!"fef0" ++ hexlify (le16 (p.length / 2 + 4))) = [] := List.drop_of_length_le (by omega)
      rw [this, List.nil_append, List.drop_drop]
    rw [this, h76]

end Spec
