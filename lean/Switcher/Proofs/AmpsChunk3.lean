import Switcher.Proofs.AmpsDefs
namespace Spec
theorem ampsChunk3 : ampsRange 12288 4096 = true := by decide +kernel
end Spec
