/-
Proofs.Broadcast — helper lemmas for C05/C06: text forms of addresses, names, and field windows.
-/
import Switcher.Model.Bridge
import Switcher.Proofs.Replies
import Switcher.Proofs.Utf8
namespace Spec
open Model

theorem slice_seg_idx : ∀ (k : Nat) (segs : List (List α)) (f : List α), segs[k]? = some f → ∀ (a b : Nat),
    ((segs.take k).flatten).length = a → b = a + f.length → slice segs.flatten a b = f
  | _, [], _, h, _, _, _, _ => by simp at h
  | 0, s :: rest, f, h, a, b, ha, hb => by
    simp at h ha; subst h; subst ha; subst hb
    simp [slice]
  | k + 1, s :: rest, f, h, a, b, ha, hb => by
    simp only [List.getElem?_cons_succ] at h
    simp only [List.take_succ_cons, List.flatten_cons, List.length_append] at ha
    have ih := slice_seg_idx k rest f h (a - s.length) (b - s.length) (by omega) (by omega)
    simp only [List.flatten_cons, slice] at ih ⊢
    have e1 : a = s.length + (a - s.length) := by omega
    rw [e1, List.drop_append]
    have e2 : List.drop (s.length + (a - s.length)) s = [] := List.drop_of_length_le (by omega)
    have e3 : s.length + (a - s.length) - s.length = a - s.length := by omega
    have e4 : b - (s.length + (a - s.length)) = b - s.length - (a - s.length) := by omega
    rw [e2, e3, e4, List.nil_append]; exact ih

theorem decDigits_byte : ∀ n < 256, decDigits n = decText n := by decide +kernel

theorem upper_hexByte : ∀ b < 256, (hexByte b).map upperHex = [upperDigit (b / 16 % 16), upperDigit (b % 16)] := by decide +kernel

theorem dottedQuad_ipText (ip : List Nat) (hl : ip.length = 4) (hb : IsBytes ip) : dottedQuad ip = ipText ip := by
  match ip, hl with
  | [a, b, c, d], _ =>
    simp only [dottedQuad, ipText]
    rw [decDigits_byte a (hb a (by simp)), decDigits_byte b (hb b (by simp)), decDigits_byte c (hb c (by simp)),
      decDigits_byte d (hb d (by simp))]

theorem macText_eq (mac : List Nat) (hl : mac.length = 6) (hb : IsBytes mac) : macText mac = macTextOf mac := by
  match mac, hl with
  | [a, b, c, d, e, f], _ =>
    have ha := upper_hexByte a (hb a (by simp))
    have hb' := upper_hexByte b (hb b (by simp))
    have hc := upper_hexByte c (hb c (by simp))
    have hd := upper_hexByte d (hb d (by simp))
    have he := upper_hexByte e (hb e (by simp))
    have hf := upper_hexByte f (hb f (by simp))
    simp only [hexByte, List.map_cons, List.map_nil] at ha hb' hc hd he hf
    simp only [macText, macTextOf, hexlify, List.flatMap_cons, List.flatMap_nil, hexByte, List.map_cons, List.map_nil,
      List.cons_append, List.nil_append, List.append_nil, slice, List.drop, List.take]
    injection ha with ha1 ha2; injection ha2 with ha2 _
    injection hb' with hb1 hb2; injection hb2 with hb2 _
    injection hc with hc1 hc2; injection hc2 with hc2 _
    injection hd with hd1 hd2; injection hd2 with hd2 _
    injection he with he1 he2; injection he2 with he2 _
    injection hf with hf1 hf2; injection hf2 with hf2 _
    simp [ha1, ha2, hb1, hb2, hc1, hc2, hd1, hd2, he1, he2, hf1, hf2]

/-- the name field reads back the name -/
theorem name_roundtrip (name : List Char) (hl : (utf8Encode name).length ≤ 32) (hn : ∀ ch ∈ name, ch ≠ Char.ofNat 0) :
    (match utf8Decode (namePad name) with
     | some cs => (pure (rstripNul cs) : Py (List Char))
     | none => throw Exc.valueError) = .ok name := by
  unfold namePad
  rw [utf8Decode_encode name _ _ (utf8Decode_zeros _)]
  simp only [py_pure]
  congr 1
  -- rstripNul (name ++ NULs) = name
  unfold rstripNul
  rw [List.reverse_append, List.reverse_replicate]
  have h1 : ∀ (k : Nat) (l : List Char), (List.replicate k (Char.ofNat 0) ++ l).dropWhile (· == Char.ofNat 0) = l.dropWhile (· == Char.ofNat 0) := by
    intro k l
    induction k with
    | zero => rfl
    | succ k ih => simp [List.replicate_succ, ih]
  rw [h1]
  cases hr : name.reverse with
  | nil => simp [List.reverse_eq_nil_iff.mp hr]
  | cons c t =>
    have hc : c ≠ Char.ofNat 0 := hn c (by have : c ∈ name.reverse := by rw [hr]; simp
                                           simpa using this)
    have : (c == Char.ofNat 0) = false := by simpa using hc
    simp only [List.dropWhile, this]
    rw [← hr, List.reverse_reverse]

end Spec
