import Switcher.Proofs.AmpsDefs
namespace Spec
theorem ampsChunk13 : ampsRange 53248 4096 = true := by decide +kernel
end Spec
