/-
Proofs.AmpsDefs — the bound |22·t − w| ≤ 11 (t = round(w/220, 1) in tenths, i.e. within 0.05 A) as a
Boolean range check that the kernel evaluates in 16 chunks of 4096 power values (Proofs/AmpsChunk*.lean).
-/
import Switcher.Spec.Amps
namespace Spec

def ampsOk (w : Nat) : Bool := decide (22 * ampsTenths w ≤ w + 11 ∧ w ≤ 22 * ampsTenths w + 11)

def ampsRange : Nat → Nat → Bool
  | _, 0 => true
  | lo, n + 1 => ampsOk (lo + n) && ampsRange lo n

theorem ampsRange_sound (lo n : Nat) (h : ampsRange lo n = true) : ∀ w, lo ≤ w → w < lo + n → ampsOk w = true := by
  induction n with
  | zero => intro w h1 h2; omega
  | succ n ih =>
    simp only [ampsRange, Bool.and_eq_true] at h
    intro w h1 h2
    by_cases hw : w = lo + n
    · subst hw; exact h.1
    · exact ih h.2 w h1 (by omega)

end Spec
