/-
Proofs.SpecEnv — the reference encodings of accepted arguments have the protocol's field widths and
are hex text, for every operation.
-/
import Switcher.Proofs.WF
namespace Spec
open Model

structure IdsOk (sid ts did key : List Char) : Prop where
  sidL : sid.length = 8
  sidH : isHexText sid = true
  tsL : ts.length = 8
  tsH : isHexText ts = true
  didL : did.length = 6
  didH : isHexText did = true
  keyL : key.length = 2
  keyH : isHexText key = true

theorem isHexText_digit (n : Nat) (h : n < 16) : isHexText [hexDigit n] = true := by
  simp [isHexText, hexVal_hexDigit n h]

theorem specEnv_ok (op : Op) (sid ts did key : List Char) (ids : IdsOk sid ts did key) (hacc : op.accepted = true) :
    ∀ r ∈ rolesOf (refSym op.kind), isHexText (specEnv op sid ts did key r) = true ∧
      (r ≠ .irCmd → (specEnv op sid ts did key r).length = r.width) := by
  obtain ⟨h1, h2, h3, h4, h5, h6, h7, h8⟩ := ids
  have h01 : isHexText cs!"01" = true := by decide
  cases op with
  | login1 =>
    have : rolesOf (refSym Op.login1.kind) = [.ts, .key] := by decide
    rw [this]; simp [specEnv, Role.width, *]
  | login2 =>
    have : rolesOf (refSym Op.login2.kind) = [.ts, .did] := by decide
    rw [this]; simp [specEnv, Role.width, *]
  | getState1 =>
    have : rolesOf (refSym Op.getState1.kind) = [.sid, .ts, .did] := by decide
    rw [this]; simp [specEnv, Role.width, *]
  | getState2 =>
    have : rolesOf (refSym Op.getState2.kind) = [.sid, .ts, .did] := by decide
    rw [this]; simp [specEnv, Role.width, *]
  | getSchedules =>
    have : rolesOf (refSym Op.getSchedules.kind) = [.sid, .ts, .did] := by decide
    rw [this]; simp [specEnv, Role.width, *]
  | stop =>
    have : rolesOf (refSym Op.stop.kind) = [.sid, .ts, .did] := by decide
    rw [this]; simp [specEnv, Role.width, *]
  | control on m =>
    have : rolesOf (refSym (Op.control on m).kind) = [.sid, .ts, .did, .onoff, .timer] := by
      show rolesOf (refSym .control) = _; decide
    rw [this]
    simp [specEnv, Role.width, isHexText_hexlify, hexlify_length, le32, *]
    cases on <;> decide
  | setAutoOff s =>
    have : rolesOf (refSym (Op.setAutoOff s).kind) = [.sid, .ts, .did, .autoOff] := by
      show rolesOf (refSym .setAutoOff) = _; decide
    rw [this]; simp [specEnv, Role.width, isHexText_hexlify, hexlify_length, le32, *]
  | setName c u =>
    have : rolesOf (refSym (Op.setName c u).kind) = [.sid, .ts, .did, .name] := by
      show rolesOf (refSym .setName) = _; decide
    rw [this]
    simp only [Op.accepted, Bool.and_eq_true, decide_eq_true_eq] at hacc
    simp [specEnv, Role.width, isHexText_hexlify, hexlify_length, *]
  | deleteSchedule s =>
    have : rolesOf (refSym (Op.deleteSchedule s).kind) = [.sid, .ts, .did, .slot] := by
      show rolesOf (refSym .deleteSchedule) = _; decide
    rw [this]
    simp only [Op.accepted, decide_eq_true_eq] at hacc
    simp [specEnv, Role.width, isHexText_digit s hacc, *]
  | createSchedule mask a b =>
    have : rolesOf (refSym (Op.createSchedule mask a b).kind) = [.sid, .ts, .did, .sched] := by
      show rolesOf (refSym .createSchedule) = _; decide
    rw [this]
    have hb := isHexText_hexByte mask
    have hs : isHexText (specEnv (Op.createSchedule mask a b) sid ts did key .sched) = true ∧
        (specEnv (Op.createSchedule mask a b) sid ts did key .sched).length = 22 := by
      constructor
      · show isHexText (cs!"01" ++ hexB mask ++ cs!"01" ++ hexlify (le32 a) ++ hexlify (le32 b)) = true
        simp only [isHexText_append, isHexText_hexlify, hexB, hb, h01, Bool.and_self]
      · show (cs!"01" ++ hexB mask ++ cs!"01" ++ hexlify (le32 a) ++ hexlify (le32 b)).length = 22
        simp [hexlify_length, le32, hexB, hexByte]
    simp only [List.forall_mem_cons, List.not_mem_nil, false_imp_iff, implies_true, and_true]
    refine ⟨⟨h2, fun _ => h1⟩, ⟨h4, fun _ => h3⟩, ⟨h6, fun _ => h5⟩, ⟨hs.1, fun _ => hs.2⟩⟩
  | setPosition p =>
    have : rolesOf (refSym (Op.setPosition p).kind) = [.sid, .ts, .did, .pos] := by
      show rolesOf (refSym .setPosition) = _; decide
    rw [this]
    have hb := isHexText_hexByte p
    simp [specEnv, Role.width, hexB, hb, *]
    simp [hexByte]
  | breezeCommand p =>
    have : rolesOf (refSym (Op.breezeCommand p).kind) = [.sid, .ts, .did, .irLen, .irCmd] := by
      show rolesOf (refSym .breezeCommand) = _; decide
    rw [this]; simp [specEnv, Role.width, isHexText_hexlify, hexlify_length, le16, *]
  | breezeStatus s m t f w =>
    have : rolesOf (refSym (Op.breezeStatus s m t f w).kind) = [.sid, .ts, .did, .bState, .bMode, .bTemp, .bFan, .bSwing] := by
      show rolesOf (refSym .breezeStatus) = _; decide
    rw [this]
    simp only [Op.accepted, decide_eq_true_eq] at hacc
    simp [specEnv, Role.width, hexB, isHexText_hexByte, isHexText_digit f (by omega), isHexText_digit w (by omega), *]
    simp [hexByte]

end Spec
