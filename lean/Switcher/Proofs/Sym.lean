/-
Proofs.Sym — generic lemmas that turn facts about *concrete generated data* (templates, wiring,
reference layouts) decided by kernel evaluation into statements about every argument value.
-/
import Switcher.Spec.Layout
import Switcher.Model.Tmpl
import Switcher.Proofs.Hex
import Switcher.Proofs.Py
namespace Spec
open Tmpl Model

/-! ### evalSym algebra -/

theorem evalSym_append (env : Role → List Char) (a b : Sym) :
    evalSym env (a ++ b) = evalSym env a ++ evalSym env b := by
  induction a with
  | nil => rfl
  | cons it a ih => cases it <;> simp [evalSym, ih]

theorem evalSym_lits (env : Role → List Char) (cs : List Char) : evalSym env (cs.map .lit) = cs := by
  induction cs with
  | nil => rfl
  | cons c cs ih => simp [evalSym, ih]

/-- two environments that agree on the roles occurring in a layout give the same text -/
def rolesOf : Sym → List Role
  | [] => []
  | .lit _ :: t => rolesOf t
  | .arg r :: t => r :: rolesOf t

theorem evalSym_congr (e1 e2 : Role → List Char) (s : Sym) (h : ∀ r ∈ rolesOf s, e1 r = e2 r) :
    evalSym e1 s = evalSym e2 s := by
  induction s with
  | nil => rfl
  | cons it s ih =>
    cases it with
    | lit c => simp only [evalSym]; rw [ih (fun r hr => h r (by simpa [rolesOf] using hr))]
    | arg r =>
      simp only [evalSym]
      rw [h r (by simp [rolesOf]), ih (fun r' hr => h r' (by simp [rolesOf, hr]))]

/-! ### templates as symbolic layouts -/

/-- the layout a template denotes when its fields are fed, in order, with the given roles -/
def symOf : Template → List Role → Option Sym
  | [], _ => some []
  | .lit s :: t, rs => (symOf t rs).map (s.map Item.lit ++ ·)
  | .field _ :: _, [] => none
  | .field _ :: t, r :: rs => (symOf t rs).map (Item.arg r :: ·)

/-- every field, formatted with its own spec, renders to the text the environment assigns to its role -/
def FieldsOk (env : Role → List Char) : Template → List Arg → List Role → Prop
  | [], _, _ => True
  | .lit _ :: t, as, rs => FieldsOk env t as rs
  | .field spec :: t, a :: as, r :: rs => fmtField spec a = .ok (env r) ∧ FieldsOk env t as rs
  | .field _ :: _, _, _ => False

theorem fill_eq_evalSym (env : Role → List Char) :
    ∀ (t : Template) (as : List Arg) (rs : List Role) (sym : Sym), symOf t rs = some sym → FieldsOk env t as rs →
      fill t as = .ok (evalSym env sym)
  | [], _, _, sym, h, _ => by simp [symOf] at h; subst h; rfl
  | .lit s :: t, as, rs, sym, h, hf => by
    simp only [symOf, Option.map_eq_some_iff] at h
    obtain ⟨sym', h', rfl⟩ := h
    have := fill_eq_evalSym env t as rs sym' h' hf
    simp [fill, this, evalSym_append, evalSym_lits]
  | .field _ :: _, [], _, _, _, hf => by simp [FieldsOk] at hf
  | .field _ :: _, _ :: _, [], _, h, _ => by simp [symOf] at h
  | .field spec :: t, a :: as, r :: rs, sym, h, hf => by
    simp only [symOf, Option.map_eq_some_iff] at h
    obtain ⟨sym', h', rfl⟩ := h
    have := fill_eq_evalSym env t as rs sym' h' hf.2
    simp [fill, hf.1, this, evalSym]

/-! ### skeletons: literal windows of a layout, for every argument value -/

/-- nibble skeleton of a layout given the width of each role: `some c` literal, `none` argument -/
def skelOf (w : Role → Nat) : Sym → List (Option Char)
  | [] => []
  | .lit c :: t => some c :: skelOf w t
  | .arg r :: t => List.replicate (w r) none ++ skelOf w t

/-- `s` agrees with skeleton `k`: same length and equal wherever `k` is literal -/
def Agrees : List Char → List (Option Char) → Prop
  | [], [] => True
  | c :: s, o :: k => (o = none ∨ o = some c) ∧ Agrees s k
  | _, _ => False

theorem agrees_append {s₁ s₂ k₁ k₂} (h₁ : Agrees s₁ k₁) (h₂ : Agrees s₂ k₂) : Agrees (s₁ ++ s₂) (k₁ ++ k₂) := by
  induction s₁ generalizing k₁ with
  | nil => cases k₁ with
    | nil => simpa using h₂
    | cons _ _ => simp [Agrees] at h₁
  | cons c s ih => cases k₁ with
    | nil => simp [Agrees] at h₁
    | cons o k => exact ⟨h₁.1, ih h₁.2⟩

theorem agrees_hole (a : List Char) : Agrees a (List.replicate a.length none) := by
  induction a with
  | nil => trivial
  | cons c cs ih => exact ⟨Or.inl rfl, ih⟩

theorem agrees_length : ∀ {s k}, Agrees s k → s.length = k.length
  | [], [], _ => rfl
  | _ :: _, _ :: _, h => by simp [agrees_length h.2]
  | [], _ :: _, h => by simp [Agrees] at h
  | _ :: _, [], h => by simp [Agrees] at h

theorem evalSym_agrees (env : Role → List Char) (w : Role → Nat) :
    ∀ (s : Sym), (∀ r ∈ rolesOf s, (env r).length = w r) → Agrees (evalSym env s) (skelOf w s)
  | [], _ => trivial
  | .lit c :: t, h => ⟨Or.inr rfl, evalSym_agrees env w t (fun r hr => h r (by simpa [rolesOf] using hr))⟩
  | .arg r :: t, h => by
    have h1 := h r (by simp [rolesOf])
    have := agrees_append (agrees_hole (env r)) (evalSym_agrees env w t (fun r' hr => h r' (by simp [rolesOf, hr])))
    rw [h1] at this
    exact this

theorem agrees_drop : ∀ {s k} (i : Nat), Agrees s k → Agrees (s.drop i) (k.drop i)
  | _, _, 0, h => by simpa using h
  | [], [], _+1, _ => by simp [Agrees]
  | _ :: _, _ :: _, i+1, h => by simpa using agrees_drop i h.2
  | [], _ :: _, _, h => by simp [Agrees] at h
  | _ :: _, [], _, h => by simp [Agrees] at h

theorem agrees_take_known : ∀ {s k} (n : Nat) (w : List Char), Agrees s k →
    (k.take n).mapM id = some w → w.length = n → s.take n = w
  | _, _, 0, w, _, _, hl => by cases w <;> simp_all
  | [], [], n+1, w, _, hw, hl => by simp at hw; subst hw; simp at hl
  | c :: s, o :: k, n+1, w, h, hw, hl => by
    simp only [List.take_succ_cons, List.mapM_cons, id] at hw
    cases o with
    | none => simp at hw
    | some c' =>
      have hc : c' = c := by rcases h.1 with h1 | h1 <;> simp_all
      subst hc
      cases hk : (k.take n).mapM id with
      | none => simp [hk] at hw
      | some w' =>
        simp [hk] at hw
        subst hw
        simp at hl
        simp [agrees_take_known n w' h.2 hk hl]
  | [], _ :: _, _, _, h, _, _ => by simp [Agrees] at h
  | _ :: _, [], _, _, h, _, _ => by simp [Agrees] at h

/-- the literal window `[a, b)` of a skeleton, if it is entirely literal -/
def window (k : List (Option Char)) (a b : Nat) : Option (List Char) := ((k.drop a).take (b - a)).mapM id

theorem window_sound {s k} (a b : Nat) (w : List Char) (h : Agrees s k)
    (hw : window k a b = some w) (hl : w.length = b - a) : slice s a b = w :=
  agrees_take_known (b - a) w (agrees_drop a h) hw hl

/-- all literal characters of a layout are hex digits -/
def litsHex : Sym → Bool
  | [] => true
  | .lit c :: t => (hexVal? c).isSome && litsHex t
  | .arg _ :: t => litsHex t

theorem isHexText_append (a b : List Char) : isHexText (a ++ b) = (isHexText a && isHexText b) := by
  simp [isHexText]

theorem evalSym_hex (env : Role → List Char) : ∀ (s : Sym), litsHex s = true → (∀ r ∈ rolesOf s, isHexText (env r) = true) →
    isHexText (evalSym env s) = true
  | [], _, _ => rfl
  | .lit c :: t, h, he => by
    simp only [litsHex, Bool.and_eq_true] at h
    have := evalSym_hex env t h.2 (fun r hr => he r (by simpa [rolesOf] using hr))
    simp only [evalSym, isHexText, List.all_cons, Bool.and_eq_true] at *
    exact ⟨h.1, this⟩
  | .arg r :: t, h, he => by
    simp only [litsHex] at h
    have := evalSym_hex env t h (fun r' hr => he r' (by simp [rolesOf, hr]))
    simp only [evalSym, isHexText_append, Bool.and_eq_true]
    exact ⟨he r (by simp [rolesOf]), this⟩

/-- hex text of even length always decodes -/
theorem unhexlify_of_hex : ∀ (n : Nat) (s : List Char), s.length = 2 * n → isHexText s = true → ∃ bs, unhexlify s = some bs ∧ bs.length = n
  | 0, s, hl, _ => by
    have : s = [] := List.eq_nil_of_length_eq_zero (by omega)
    subst this; exact ⟨[], rfl, rfl⟩
  | n + 1, s, hl, hh => by
    match s, hl with
    | a :: b :: rest, hl =>
      simp only [isHexText, List.all_cons, Bool.and_eq_true] at hh
      obtain ⟨ha, hb, hr⟩ := hh
      obtain ⟨r, hr', hlen⟩ := unhexlify_of_hex n rest (by simp at hl; omega) (by simpa [isHexText] using hr)
      cases hxa : hexVal? a with
      | none => simp [hxa] at ha
      | some x =>
        cases hxb : hexVal? b with
        | none => simp [hxb] at hb
        | some y => exact ⟨(x * 16 + y) :: r, by simp [unhexlify, hxa, hxb, hr'], by simp [hlen]⟩

theorem isHexText_hexlify (bs : List Nat) : isHexText (hexlify bs) = true := by
  induction bs with
  | nil => rfl
  | cons b bs ih =>
    rw [hexlify_cons, isHexText_append, ih]
    have h1 : b / 16 % 16 < 16 := Nat.mod_lt _ (by decide)
    have h2 : b % 16 < 16 := Nat.mod_lt _ (by decide)
    simp [isHexText, hexByte, hexVal_hexDigit _ h1, hexVal_hexDigit _ h2]

theorem isHexText_hexByte (b : Nat) : isHexText (hexByte b) = true := by
  have := isHexText_hexlify [b]
  simpa [hexlify] using this

end Spec
