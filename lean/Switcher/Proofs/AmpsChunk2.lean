import Switcher.Proofs.AmpsDefs
namespace Spec
theorem ampsChunk2 : ampsRange 8192 4096 = true := by decide +kernel
end Spec
