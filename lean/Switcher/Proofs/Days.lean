import Switcher.Model.Sched
import Switcher.Spec.Days
import Switcher.Proofs.Py
namespace Model
open Spec

theorem dayBitRep_eq : ∀ d < 7, dayBitRep d = 2 ^ (d + 1) := by decide
theorem dayHexRep_eq : ∀ d < 7, dayHexRep d = 2 ^ (d + 1) := by decide
theorem dayWeekday_eq : ∀ d < 7, dayWeekday d = d := by decide
theorem days_length : Gen.days.length = 7 := by decide

/-- the sum of the bit values of any list of weekdays, by multiplicity -/
theorem sum_bits_count (l : List Nat) (h : ∀ d ∈ l, d < 7) :
    (l.map dayBitRep).sum = 2 * l.count 0 + 4 * l.count 1 + 8 * l.count 2 + 16 * l.count 3 +
      32 * l.count 4 + 64 * l.count 5 + 128 * l.count 6 := by
  induction l with
  | nil => simp
  | cons d l ih =>
    have hd : d < 7 := h d (by simp)
    have ih' := ih (fun x hx => h x (by simp [hx]))
    simp only [List.map_cons, List.sum_cons, ih', List.count_cons]
    have : d = 0 ∨ d = 1 ∨ d = 2 ∨ d = 3 ∨ d = 4 ∨ d = 5 ∨ d = 6 := by omega
    rcases this with rfl | rfl | rfl | rfl | rfl | rfl | rfl <;> simp [dayBitRep_eq] <;> omega

theorem count_of_nodup (l : List Nat) (hn : l.Nodup) (d : Nat) : l.count d = if d ∈ l then 1 else 0 := by
  induction l with
  | nil => simp
  | cons a l ih =>
    rw [List.nodup_cons] at hn
    have ih' := ih hn.2
    simp only [List.count_cons, ih', List.mem_cons]
    by_cases h1 : a = d
    · subst h1; simp [hn.1]
    · have h2 : ¬ d = a := fun e => h1 e.symm
      simp [h1, h2]

/-- for a duplicate-free list the sum of bit values is the mask of the set -/
theorem sum_bits_mask (l : List Nat) (h : ∀ d ∈ l, d < 7) (hn : l.Nodup) :
    (l.map dayBitRep).sum = maskOf l := by
  rw [sum_bits_count l h]
  simp only [count_of_nodup l hn, maskOf]
  repeat' split <;> try omega

theorem maskOf_bit (S : List Nat) : ∀ d < 7, (maskOf S / 2 ^ (d + 1) % 2 = 1 ↔ d ∈ S) := by
  intro d hd
  have : d = 0 ∨ d = 1 ∨ d = 2 ∨ d = 3 ∨ d = 4 ∨ d = 5 ∨ d = 6 := by omega
  unfold maskOf
  rcases this with rfl | rfl | rfl | rfl | rfl | rfl | rfl <;>
    (repeat' split) <;> simp_all <;> omega

theorem maskOf_range (S : List Nat) : maskOf S % 2 = 0 ∧ maskOf S ≤ 254 := by
  unfold maskOf
  repeat' split <;> try omega

theorem maskOf_pos (S : List Nat) (d : Nat) (hd : d < 7) (hm : d ∈ S) : 2 ≤ maskOf S := by
  have : d = 0 ∨ d = 1 ∨ d = 2 ∨ d = 3 ∨ d = 4 ∨ d = 5 ∨ d = 6 := by omega
  unfold maskOf
  rcases this with rfl | rfl | rfl | rfl | rfl | rfl | rfl <;> simp [hm] <;> omega

theorem inChain_bs2d (n : Int) : inChain "bit_summary_to_days" n = decide (1 < n ∧ n < 255) := by
  have h : inChain "bit_summary_to_days" n = (decide (2 ≤ n) && decide (n ≤ 254)) := by
    simp [inChain, Gen.chainGuards, cmpOp, List.find?]
  rw [h, Bool.eq_iff_iff]
  simp only [Bool.and_eq_true, decide_eq_true_eq]
  omega

theorem fmt02x_hex2 : ∀ n < 256, fmt02x n = hex2 n := by decide +kernel

end Model
