import Switcher.Proofs.AmpsDefs
namespace Spec
theorem ampsChunk7 : ampsRange 28672 4096 = true := by decide +kernel
end Spec
