/-
Proofs.Decode — the reference frames decode, field by field at the protocol's fixed offsets, to the
caller's arguments (the "decodes under the protocol layout" half of C02).
-/
import Switcher.Proofs.Sym
namespace Spec

/-- nibble offsets `[a, b)` of the argument fields of every fixed-layout request kind (the protocol's layout
    table, written independently of `refSym`; `fieldAt_sound` checks the two against each other) -/
def fieldAt : Kind → Role → Option (Nat × Nat)
  | .login1, .ts => some (48, 56) | .login1, .key => some (80, 82)
  | .login2, .ts => some (48, 56) | .login2, .did => some (80, 86)
  | .getState1, .sid => some (16, 24) | .getState1, .ts => some (48, 56) | .getState1, .did => some (80, 86)
  | .getState2, .sid => some (16, 24) | .getState2, .ts => some (48, 56) | .getState2, .did => some (80, 86)
  | .control, .sid => some (16, 24) | .control, .ts => some (48, 56) | .control, .did => some (80, 86)
  | .control, .onoff => some (167, 168) | .control, .timer => some (170, 178)
  | .setAutoOff, .sid => some (16, 24) | .setAutoOff, .ts => some (48, 56) | .setAutoOff, .did => some (80, 86)
  | .setAutoOff, .autoOff => some (166, 174)
  | .setName, .sid => some (16, 24) | .setName, .ts => some (48, 56) | .setName, .did => some (80, 86)
  | .setName, .name => some (160, 224)
  | .getSchedules, .sid => some (16, 24) | .getSchedules, .ts => some (48, 56) | .getSchedules, .did => some (80, 86)
  | .deleteSchedule, .sid => some (16, 24) | .deleteSchedule, .ts => some (48, 56) | .deleteSchedule, .did => some (80, 86)
  | .deleteSchedule, .slot => some (167, 168)
  | .createSchedule, .sid => some (16, 24) | .createSchedule, .ts => some (48, 56) | .createSchedule, .did => some (80, 86)
  | .createSchedule, .sched => some (168, 190)
  | .stop, .sid => some (16, 24) | .stop, .ts => some (48, 56) | .stop, .did => some (80, 86)
  | .setPosition, .sid => some (16, 24) | .setPosition, .ts => some (48, 56) | .setPosition, .did => some (80, 86)
  | .setPosition, .pos => some (166, 168)
  | .breezeStatus, .sid => some (16, 24) | .breezeStatus, .ts => some (48, 56) | .breezeStatus, .did => some (80, 86)
  | .breezeStatus, .bState => some (172, 174) | .breezeStatus, .bMode => some (174, 176) | .breezeStatus, .bTemp => some (176, 178)
  | .breezeStatus, .bFan => some (178, 179) | .breezeStatus, .bSwing => some (179, 180)
  | .breezeCommand, .sid => some (16, 24) | .breezeCommand, .ts => some (48, 56) | .breezeCommand, .did => some (80, 86)
  | .breezeCommand, .irLen => some (162, 166)
  | _, _ => none

/-- nibble offset of the first occurrence of role `r` in a layout -/
def offsetOf (w : Role → Nat) : Sym → Role → Option Nat
  | [], _ => none
  | .lit _ :: t, r => (offsetOf w t r).map (· + 1)
  | .arg r' :: t, r => if r' = r then some 0 else (offsetOf w t r).map (· + w r')

theorem slice_at_offset (env : Role → List Char) (w : Role → Nat) :
    ∀ (s : Sym) (r : Role) (a : Nat), offsetOf w s r = some a → (∀ r' ∈ rolesOf s, (env r').length = w r') →
      slice (evalSym env s) a (a + w r) = env r
  | [], _, _, h, _ => by simp [offsetOf] at h
  | .lit c :: t, r, a, h, hw => by
    simp only [offsetOf, Option.map_eq_some_iff] at h
    obtain ⟨a', h', rfl⟩ := h
    have ih := slice_at_offset env w t r a' h' (fun r' hr => hw r' (by simpa [rolesOf] using hr))
    simp only [slice, evalSym, List.drop_succ_cons] at ih ⊢
    have : a' + 1 + w r - (a' + 1) = a' + w r - a' := by omega
    rw [this]; exact ih
  | .arg r' :: t, r, a, h, hw => by
    simp only [offsetOf] at h
    by_cases hr : r' = r
    · subst hr
      simp at h; subst h
      have hl := hw r' (by simp [rolesOf])
      simp [slice, evalSym, ← hl]
    · simp only [hr, if_false, Option.map_eq_some_iff] at h
      obtain ⟨a', h', rfl⟩ := h
      have ih := slice_at_offset env w t r a' h' (fun r'' hr'' => hw r'' (by simp [rolesOf, hr'']))
      have hl := hw r' (by simp [rolesOf])
      simp only [slice, evalSym] at ih ⊢
      have e1 : a' + w r' = (env r').length + a' := by omega
      rw [e1, List.drop_append]
      have e2 : (env r').length + a' + w r - ((env r').length + a') = a' + w r - a' := by omega
      rw [e2]
      have e3 : (env r').length + a' - (env r').length = a' := by omega
      have e4 : List.drop ((env r').length + a') (env r') = [] := List.drop_of_length_le (by omega)
      rw [e3, e4, List.nil_append]; exact ih

/-- the protocol's offset table agrees with the reference layouts, for every kind and role -/
theorem fieldAt_sound : ∀ (k : Kind) (r : Role) (a b : Nat), fieldAt k r = some (a, b) →
    offsetOf Role.width (refSym k) r = some a ∧ b = a + r.width := by
  intro k r a b h
  cases k <;> cases r <;> simp [fieldAt] at h <;> (obtain ⟨rfl, rfl⟩ := h; exact ⟨by decide +kernel, by decide⟩)

/-- every argument field of a reference frame sits at the protocol's offset and holds the reference
    encoding of the caller's argument -/
theorem field_of_refFrame (k : Kind) (env : Role → List Char) (r : Role) (a b : Nat)
    (hf : fieldAt k r = some (a, b)) (hw : ∀ r' ∈ rolesOf (refSym k), (env r').length = r'.width) :
    slice (evalSym env (refSym k)) a b = env r := by
  obtain ⟨ho, hb⟩ := fieldAt_sound k r a b hf
  rw [hb]
  exact slice_at_offset env Role.width (refSym k) r a ho hw

/-- numeric decoders: little-endian fields read back the number that was encoded -/
theorem ofLE_le32 (n : Nat) (h : n < 4294967296) : ofLE (le32 n) = n := by simp [ofLE, le32]; omega
theorem ofLE_le16 (n : Nat) (h : n < 65536) : ofLE (le16 n) = n := by simp [ofLE, le16]; omega

theorem decode_le32 (n : Nat) (h : n < 4294967296) : (unhexlify (hexlify (le32 n))).map ofLE = some n := by
  rw [unhexlify_hexlify _ (isBytes_le32 n)]; simp [ofLE_le32 n h]

end Spec
