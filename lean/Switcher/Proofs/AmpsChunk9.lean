import Switcher.Proofs.AmpsDefs
namespace Spec
theorem ampsChunk9 : ampsRange 36864 4096 = true := by decide +kernel
end Spec
