import Switcher.Proofs.AmpsDefs
namespace Spec
theorem ampsChunk4 : ampsRange 16384 4096 = true := by decide +kernel
end Spec
