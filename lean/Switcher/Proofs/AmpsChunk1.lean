import Switcher.Proofs.AmpsDefs
namespace Spec
theorem ampsChunk1 : ampsRange 4096 4096 = true := by decide +kernel
end Spec
