/-
Proofs.Remotes — the remote built from an IR set has exactly the capabilities and the stored codes of
the set (invariants of the capability fold), and the key look-up is the Spec's best key.
-/
import Switcher.Model.Remotes
import Switcher.Spec.IrSpec
import Switcher.Proofs.Py
namespace Model
open Spec

/-- the IR set as the Spec sees it -/
def specSet (ir : IrSet) : List IrEntry := ir.waves.map (fun w => { key := w.key, para := w.para, hexCode := w.hexCode })

/-! ### what one loop iteration does to each component -/

theorem capStep_fields (sep : Bool) (s s' : CapState) (w : Wave) (h : capStep sep s w = .ok s') :
    s'.waveMap = dictSet s.waveMap w.key (w.para, w.hexCode) ∧ s'.minTemp = newMin s.minTemp w.key ∧
    s'.maxTemp = newMax s.maxTemp w.key ∧
    ∃ f2, stepFan (stepMode sep s w.key).1 (stepMode sep s w.key).2 w.key = .ok f2 ∧
      s'.features = stepFlags (stepMode sep s w.key).1 f2 w.key := by
  unfold capStep at h
  simp only [] at h
  cases hf : stepFan (stepMode sep s w.key).1 (stepMode sep s w.key).2 w.key with
  | error e => rw [hf] at h; cases h
  | ok f2 =>
    rw [hf] at h
    cases h
    exact ⟨rfl, rfl, rfl, f2, rfl, rfl⟩

theorem featSet_names (fs : List (String × Features)) (m : String) (f : Features) :
    (featSet fs m f).map (·.1) = if fs.any (·.1 == m) then fs.map (·.1) else fs.map (·.1) ++ [m] := by
  unfold featSet
  split
  · rw [List.map_map]
    apply List.map_congr_left
    intro p _
    simp only [Function.comp]
    split
    · rename_i hp; rw [beq_iff_eq] at hp; exact hp.symm
    · rfl
  · simp

theorem featGet_some_any (fs : List (String × Features)) (m : String) (f : Features) (h : featGet fs m = some f) :
    fs.any (·.1 == m) = true := by
  unfold featGet at h
  cases hf : fs.find? (·.1 == m) with
  | none => rw [hf] at h; cases h
  | some p =>
    have := List.find?_some hf
    have hm := List.mem_of_find?_eq_some hf
    rw [List.any_eq_true]
    exact ⟨p, hm, this⟩

theorem featGet_none_any (fs : List (String × Features)) (m : String) (h : (featGet fs m).isNone = true) :
    fs.any (·.1 == m) = false := by
  unfold featGet at h
  cases hf : fs.find? (·.1 == m) with
  | some p => rw [hf] at h; cases h
  | none =>
    rw [List.find?_eq_none] at hf
    rw [Bool.eq_false_iff]
    intro ha
    rw [List.any_eq_true] at ha
    obtain ⟨p, hp, hpe⟩ := ha
    exact hf p hp hpe

theorem featSet_existing_names (fs : List (String × Features)) (m : String) (f g : Features) (h : featGet fs m = some g) :
    (featSet fs m f).map (·.1) = fs.map (·.1) := by
  rw [featSet_names, featGet_some_any fs m g h]; rfl

/-- the supported-mode names after `stepMode` -/
def namesStep (names : List String) (key : List Char) : List String :=
  match lookupC Gen.commandToMode (slice key 0 2) with
  | some m => if names.contains m then names else names ++ [m]
  | none => names

theorem any_eq_contains (fs : List (String × Features)) (m : String) : fs.any (·.1 == m) = (fs.map (·.1)).contains m := by
  induction fs with
  | nil => rfl
  | cons p fs ih =>
    simp only [List.any_cons, List.map_cons, List.contains_cons, ih]
    congr 1
    exact Bool.eq_iff_iff.mpr ⟨fun h => by rw [beq_iff_eq] at h ⊢; exact h.symm, fun h => by rw [beq_iff_eq] at h ⊢; exact h.symm⟩

theorem stepMode_names (sep : Bool) (s : CapState) (key : List Char) :
    (stepMode sep s key).2.map (·.1) = namesStep (s.features.map (·.1)) key := by
  unfold stepMode namesStep
  cases lookupC Gen.commandToMode (slice key 0 2) with
  | none => rfl
  | some m =>
    simp only []
    by_cases hn : (featGet s.features m).isNone = true
    · have ha := featGet_none_any s.features m hn
      simp only [hn, if_true, featSet_names, ha, Bool.false_eq_true, if_false]
      rw [← any_eq_contains, ha]; rfl
    · have : ∃ g, featGet s.features m = some g := by
        cases hg : featGet s.features m with
        | none => rw [hg] at hn; exact absurd rfl hn
        | some g => exact ⟨g, rfl⟩
      obtain ⟨g, hg⟩ := this
      have ha := featGet_some_any s.features m g hg
      simp only [hn, Bool.false_eq_true, if_false]
      rw [← any_eq_contains, ha]; rfl

theorem stepFan_names (mode : Option String) (fs f2 : List (String × Features)) (key : List Char)
    (h : stepFan mode fs key = .ok f2) : f2.map (·.1) = fs.map (·.1) := by
  unfold stepFan at h
  cases hl : lastFanToken key with
  | none => rw [hl] at h; cases h; rfl
  | some tok =>
    cases mode with
    | none => rw [hl] at h; cases h; rfl
    | some m =>
      rw [hl] at h
      simp only [] at h
      cases hlv : lookupC Gen.commandToFanLevel tok with
      | none => rw [hlv] at h; cases h
      | some lvl =>
        rw [hlv] at h
        simp only [] at h
        cases hg : featGet fs m with
        | none => rw [hg] at h; cases h
        | some g =>
          rw [hg] at h
          cases h
          exact featSet_existing_names fs m _ g hg

theorem swingFlag_names (mode : Option String) (fs' : List (String × Features)) (key : List Char) :
    List.map (fun x : String × Features => x.1) (match mode with
      | some m => match featGet fs' m with
        | some f => featSet fs' m { f with swing := f.swing || containsSub key cs!"d1" }
        | none => fs'
      | none => fs') = fs'.map (fun x => x.1) := by
  cases mode with
  | none => rfl
  | some m =>
    simp only []
    cases hg : featGet fs' m with
    | none => rfl
    | some g => simp only []; exact featSet_existing_names fs' m _ g hg

theorem tempFlag_names (mode : Option String) (fs : List (String × Features)) (key : List Char) :
    List.map (fun x : String × Features => x.1) (if keyHasTemp key = true then
      match mode with
      | some m => match featGet fs m with
        | some f => featSet fs m { f with tempControl := true }
        | none => fs
      | none => fs
    else fs) = fs.map (fun x => x.1) := by
  split
  · cases mode with
    | none => rfl
    | some m =>
      simp only []
      cases hg : featGet fs m with
      | none => rfl
      | some g => simp only []; exact featSet_existing_names fs m _ g hg
  · rfl

theorem stepFlags_names (mode : Option String) (fs : List (String × Features)) (key : List Char) :
    (stepFlags mode fs key).map (·.1) = fs.map (·.1) := by
  unfold stepFlags
  exact (swingFlag_names mode _ key).trans (tempFlag_names mode fs key)

theorem capStep_names (sep : Bool) (s s' : CapState) (w : Wave) (h : capStep sep s w = .ok s') :
    s'.features.map (·.1) = namesStep (s.features.map (·.1)) w.key := by
  obtain ⟨_, _, _, f2, hf, hfe⟩ := capStep_fields sep s s' w h
  rw [hfe, stepFlags_names, stepFan_names _ _ _ _ hf, stepMode_names]

/-! ### the fold -/

theorem fold_inv (sep : Bool) : ∀ (ws : List Wave) (s fin : CapState), ws.foldlM (capStep sep) s = .ok fin →
    fin.waveMap = ws.foldl (fun m w => dictSet m w.key (w.para, w.hexCode)) s.waveMap ∧
    fin.minTemp = ws.foldl (fun m w => newMin m w.key) s.minTemp ∧
    fin.maxTemp = ws.foldl (fun m w => newMax m w.key) s.maxTemp ∧
    fin.features.map (·.1) = ws.foldl (fun n w => namesStep n w.key) (s.features.map (·.1))
  | [], s, fin, h => by simp at h; cases h; exact ⟨rfl, rfl, rfl, rfl⟩
  | w :: ws, s, fin, h => by
    simp only [List.foldlM_cons] at h
    cases hs : capStep sep s w with
    | error e => rw [hs] at h; simp at h
    | ok s' =>
      rw [hs] at h
      simp only [py_bind_ok] at h
      obtain ⟨a, b, c, d⟩ := fold_inv sep ws s' fin h
      obtain ⟨f1, f2, f3, _⟩ := capStep_fields sep s s' w hs
      have f4 := capStep_names sep s s' w hs
      simp only [List.foldl_cons]
      rw [← f1, ← f2, ← f3, ← f4]
      exact ⟨a, b, c, d⟩

/-! ### stored codes -/

theorem dictGet_filter_ne (d : List (List Char × α)) (k k' : List Char) (h : (k == k') = false) :
    dictGet (d.filter (·.1 != k)) k' = dictGet d k' := by
  unfold dictGet
  congr 1
  induction d with
  | nil => rfl
  | cons x d ih =>
    simp only [List.filter_cons, List.find?_cons]
    by_cases hx : x.1 == k'
    · have hne : (x.1 != k) = true := by
        rw [bne_iff_ne]; intro e
        rw [beq_iff_eq] at hx
        rw [e] at hx
        rw [hx] at h; simp at h
      simp [hx, hne]
    · by_cases hxk : (x.1 != k) = true
      · simp [hx, hxk, ih]
      · simp [hx, hxk, ih]

theorem dictGet_dictSet (d : List (List Char × α)) (k k' : List Char) (v : α) :
    dictGet (dictSet d k v) k' = if k == k' then some v else dictGet d k' := by
  by_cases h : (k == k') = true
  · simp [dictGet, dictSet, h]
  · have h' : (k == k') = false := by simpa using h
    rw [if_neg h]
    have : dictGet (dictSet d k v) k' = dictGet (d.filter (·.1 != k)) k' := by
      simp [dictGet, dictSet, h']
    rw [this, dictGet_filter_ne d k k' h']

theorem waveMap_lookup : ∀ (ws : List Wave) (m0 : List (List Char × (List Char × List Char))) (k : List Char),
    dictGet (ws.foldl (fun m w => dictSet m w.key (w.para, w.hexCode)) m0) k =
      match ws.reverse.find? (·.key == k) with
      | some w => some (w.para, w.hexCode)
      | none => dictGet m0 k
  | [], m0, k => rfl
  | w :: ws, m0, k => by
    simp only [List.foldl_cons, List.reverse_cons, List.find?_append]
    rw [waveMap_lookup ws _ k]
    cases hf : ws.reverse.find? (·.key == k) with
    | some w' => simp
    | none =>
      simp only [Option.none_or, List.find?_cons, List.find?_nil]
      rw [dictGet_dictSet]
      by_cases hk : w.key == k <;> simp [hk]

/-- the text the remote sends for a key is the Spec's stored text -/
theorem cmdText_stored (ir : IrSet) (fin : CapState) (k : List Char)
    (hm : fin.waveMap = ir.waves.foldl (fun m w => dictSet m w.key (w.para, w.hexCode)) []) :
    cmdText fin.waveMap k = match storedText (specSet ir) k with
      | some t => .ok t
      | none => .error .keyError := by
  unfold cmdText storedText specSet
  rw [hm, waveMap_lookup]
  rw [← List.map_reverse, List.find?_map]
  cases hf : ir.waves.reverse.find? (·.key == k) with
  | none =>
    have : List.find? ((fun x : IrEntry => x.key == k) ∘ fun w : Wave => { key := w.key, para := w.para, hexCode := w.hexCode }) ir.waves.reverse = none := by
      rw [List.find?_eq_none] at hf ⊢
      intro x hx; exact hf x hx
    simp [this, dictGet]
  | some w =>
    have : List.find? ((fun x : IrEntry => x.key == k) ∘ fun w : Wave => { key := w.key, para := w.para, hexCode := w.hexCode }) ir.waves.reverse = some w := by
      have e : ((fun x : IrEntry => x.key == k) ∘ fun w : Wave => ({ key := w.key, para := w.para, hexCode := w.hexCode } : IrEntry)) = (fun w : Wave => w.key == k) := rfl
      rw [e]; exact hf
    simp [this]

theorem present_iff (ir : IrSet) (fin : CapState) (k : List Char)
    (hm : fin.waveMap = ir.waves.foldl (fun m w => dictSet m w.key (w.para, w.hexCode)) []) :
    (dictGet fin.waveMap k).isSome = keyPresent (specSet ir) k := by
  rw [hm, waveMap_lookup]
  unfold keyPresent specSet
  rw [List.any_map]
  cases hf : ir.waves.reverse.find? (·.key == k) with
  | some w =>
    have hw := List.mem_of_find?_eq_some hf
    have hk := List.find?_some hf
    simp only [Option.isSome_some]
    symm
    rw [List.any_eq_true]
    exact ⟨w, by simpa using hw, hk⟩
  | none =>
    simp only [dictGet, List.find?_nil, Option.map_none, Option.isSome_none]
    symm
    rw [Bool.eq_false_iff]
    intro ha
    rw [List.any_eq_true] at ha
    obtain ⟨w, hw, hk⟩ := ha
    rw [List.find?_eq_none] at hf
    exact hf w (by simpa using hw) hk

/-! ### the key look-up is the Spec's best key -/

theorem lookupKey_bestKey (map : List (List Char × (List Char × List Char))) (set : List IrEntry)
    (hp : ∀ k, (dictGet map k).isSome = keyPresent set k) :
    ∀ (parts : List (List Char)), parts ≠ [] → lookupKey map parts = bestKey set parts
  | [], h => absurd rfl h
  | [p], _ => by
    unfold lookupKey bestKey
    simp [candidates]
  | p :: q :: rest, _ => by
    have hne : (p :: q :: rest).dropLast ≠ [] := by simp [List.dropLast]
    have ih := lookupKey_bestKey map set hp (p :: q :: rest).dropLast hne
    have hl : lookupKey map (p :: q :: rest) =
        if (dictGet map (p :: q :: rest).flatten).isSome then (p :: q :: rest) else lookupKey map (p :: q :: rest).dropLast := by
      rw [lookupKey]
    have hb : bestKey set (p :: q :: rest) =
        if keyPresent set (p :: q :: rest).flatten then (p :: q :: rest) else bestKey set (p :: q :: rest).dropLast := by
      unfold bestKey
      rw [candidates]
      simp only [List.find?_cons, List.length_cons]
      have hdec : decide (2 ≤ rest.length + 1 + 1) = true := by simp
      rw [hdec, Bool.true_and]
      by_cases hk : keyPresent set (p :: q :: rest).flatten = true
      · rw [hk]; simp
      · have hk' : keyPresent set (p :: q :: rest).flatten = false := by simpa using hk
        rw [hk']
        simp only [Bool.false_eq_true, if_false]
        have htake : ((p :: q :: rest).dropLast).take 1 = (p :: q :: rest).take 1 := by
          cases rest <;> simp [List.dropLast]
        rw [htake]
    rw [hl, hb, hp, ih]
termination_by parts => parts.length
decreasing_by simp [List.length_dropLast]

end Model
