import Switcher.Proofs.AmpsDefs
namespace Spec
theorem ampsChunk14 : ampsRange 57344 4096 = true := by decide +kernel
end Spec
