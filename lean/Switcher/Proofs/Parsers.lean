/-
Proofs.Parsers — the reply parsers can only fail with KeyError or ValueError (which the API layer
turns into RuntimeError), for every byte string.
-/
import Switcher.Model.Messages
import Switcher.Model.Api
import Switcher.Proofs.Py
namespace Model
open Spec

/-- the computation can only fail with KeyError or ValueError -/
def IsKV (p : Py α) : Prop := ∀ e, p = .error e → e = .keyError ∨ e = .valueError

theorem isKV_pure (a : α) : IsKV (pure a : Py α) := by intro e h; cases h
theorem isKV_ok (a : α) : IsKV (.ok a : Py α) := by intro e h; cases h
theorem isKV_key : IsKV (.error .keyError : Py α) := by intro e h; cases h; exact Or.inl rfl
theorem isKV_value : IsKV (.error .valueError : Py α) := by intro e h; cases h; exact Or.inr rfl

theorem isKV_bind {p : Py α} {f : α → Py β} (hp : IsKV p) (hf : ∀ a, IsKV (f a)) : IsKV (p >>= f) := by
  intro e h
  cases p with
  | error e' =>
    have : e' = e := by simpa using h
    subst this
    exact hp e' rfl
  | ok a => exact hf a e (by simpa using h)

theorem isKV_enumByValue (t : List (String × String × String)) (v : List Char) : IsKV (enumByValue t v) := by
  unfold enumByValue; split
  · exact isKV_pure _
  · exact isKV_key

theorem isKV_pyIntHex (cs : List Char) : IsKV (pyIntHex cs) := by
  unfold pyIntHex; split
  · exact isKV_pure _
  · exact isKV_value

theorem isKV_secondsToIso (n : Nat) : IsKV (secondsToIso n) := by
  unfold secondsToIso; simp only []; split
  · exact isKV_pure _
  · exact isKV_value

theorem isKV_parseState (raw : List Nat) : IsKV (parseState raw) := by
  unfold parseState
  simp only []
  refine isKV_bind (isKV_enumByValue _ _) fun _ => ?_
  refine isKV_bind (isKV_pyIntHex _) fun _ => ?_
  refine isKV_bind (isKV_secondsToIso _) fun _ => ?_
  refine isKV_bind (isKV_pyIntHex _) fun _ => ?_
  refine isKV_bind (isKV_secondsToIso _) fun _ => ?_
  refine isKV_bind (isKV_pyIntHex _) fun _ => ?_
  refine isKV_bind (isKV_secondsToIso _) fun _ => ?_
  refine isKV_bind (isKV_pyIntHex _) fun _ => ?_
  exact isKV_pure _

theorem isKV_parseShutter (raw : List Nat) : IsKV (parseShutter raw) := by
  unfold parseShutter
  simp only []
  refine isKV_bind (isKV_enumByValue _ _) fun _ => ?_
  refine isKV_bind (isKV_pyIntHex _) fun _ => ?_
  exact isKV_pure _

theorem isKV_parseThermo (raw : List Nat) : IsKV (parseThermo raw) := by
  unfold parseThermo
  simp only []
  refine isKV_bind (isKV_pyIntHex _) fun _ => ?_
  refine isKV_bind (isKV_pyIntHex _) fun _ => ?_
  split
  · exact isKV_bind (isKV_pure _) fun _ => isKV_pure _
  · exact isKV_value

/-- after `except (KeyError, ValueError): raise RuntimeError` only RuntimeError is left -/
theorem catchKV_total {p : Py α} (h : IsKV p) : (∃ a, catchKV p = .ok a) ∨ catchKV p = .error .runtimeError := by
  cases p with
  | ok a => exact Or.inl ⟨a, rfl⟩
  | error e =>
    rcases h e rfl with rfl | rfl <;> exact Or.inr rfl

/-- an empty reply never parses as a type-1 state or a shutter state -/
theorem parseState_empty : parseState [] = .error .keyError := by decide +kernel
theorem parseShutter_empty : parseShutter [] = .error .keyError := by decide +kernel
theorem parseThermo_empty : parseThermo [] = .error .valueError := by decide +kernel

end Model
