import Switcher.Model.Tools
import Switcher.Proofs.Hex
import Switcher.Proofs.Py
namespace Model
open Spec

theorem sliced_is_le16 (x : Nat) :
    slice (hexlify (packBE32 x)) 6 8 ++ slice (hexlify (packBE32 x)) 4 6 = hexlify (le16 x) := by
  simp [hexlify, packBE32, be32, hexByte, slice, le16]

theorem thirty_hex : (List.replicate 32 ['3', '0']).flatten = hexlify (List.replicate 32 0x30) := by
  decide

theorem pyUnhexlify_hexlify (bs : List Nat) (h : IsBytes bs) : pyUnhexlify (hexlify bs) = .ok bs := by
  simp [pyUnhexlify, unhexlify_hexlify bs h]

theorem sign_ok (p : List Char) (bs : List Nat) (h : unhexlify p = some bs) :
    sign p = .ok (p ++ hexlify (sigBytes bs)) := by
  have hb : IsBytes (le16 (crc16 0x1021 bs) ++ List.replicate 32 0x30) :=
    isBytes_append (isBytes_le16 _) (isBytes_replicate _ _ (by decide))
  have hk : pyUnhexlify (hexlify (le16 (crc16 0x1021 bs)) ++ (List.replicate 32 ['3', '0']).flatten)
      = .ok (le16 (crc16 0x1021 bs) ++ List.replicate 32 0x30) := by
    rw [thirty_hex, ← hexlify_append, pyUnhexlify_hexlify _ hb]
  unfold sign
  rw [show pyUnhexlify p = .ok bs by simp [pyUnhexlify, h]]
  simp only [py_bind_ok, sliced_is_le16]
  rw [hk]
  simp only [py_bind_ok, py_pure, sigBytes, hexlify_append, List.append_assoc]

theorem sign_raises (p : List Char) (h : unhexlify p = none) : sign p = .error .valueError := by
  simp [sign, pyUnhexlify, h]

end Model
