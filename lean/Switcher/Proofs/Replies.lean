/-
Proofs.Replies — list algebra for fields at fixed offsets, and numeric text round trips.
-/
import Switcher.Spec.Replies
import Switcher.Proofs.Hex
import Switcher.Model.Messages
import Switcher.Proofs.Py
namespace Spec
open Model

/-- the field that follows a prefix of known length -/
theorem slice_mid (p f s : List α) (a b : Nat) (ha : p.length = a) (hb : b = a + f.length) :
    slice (p ++ f ++ s) a b = f := by
  subst ha hb
  simp [slice]

/-- the k-th segment of a concatenation of segments -/
theorem slice_segment (pre : List (List α)) (f : List α) (post : List (List α)) (a b : Nat)
    (ha : (pre.flatten).length = a) (hb : b = a + f.length) : slice ((pre ++ f :: post).flatten) a b = f := by
  have : (pre ++ f :: post).flatten = pre.flatten ++ f ++ post.flatten := by simp
  rw [this]
  exact slice_mid _ _ _ a b ha hb

theorem hexlify_take (bs : List Nat) (a : Nat) : (hexlify bs).take (2 * a) = hexlify (bs.take a) := by
  induction bs generalizing a with
  | nil => simp [hexlify]
  | cons b bs ih =>
    cases a with
    | zero => simp [hexlify]
    | succ a =>
      have e : 2 * (a + 1) = 2 * a + 1 + 1 := by omega
      rw [hexlify_cons, e]
      simp [hexByte, ih a, hexlify_cons]

theorem hexlify_drop (bs : List Nat) (a : Nat) : (hexlify bs).drop (2 * a) = hexlify (bs.drop a) := by
  induction bs generalizing a with
  | nil => simp [hexlify]
  | cons b bs ih =>
    cases a with
    | zero => simp
    | succ a =>
      have e : 2 * (a + 1) = 2 * a + 1 + 1 := by omega
      rw [hexlify_cons, e]
      simp [hexByte, ih a]

/-- a hex window on byte boundaries is the hex of the byte window -/
theorem slice_hexlify (bs : List Nat) (a b : Nat) : slice (hexlify bs) (2 * a) (2 * b) = hexlify (slice bs a b) := by
  unfold slice
  rw [hexlify_drop]
  have : 2 * b - 2 * a = 2 * (b - a) := by omega
  rw [this, hexlify_take]

/-- reading hex digits most significant first -/
def hexFold (acc : Nat) (cs : List Char) : Option Nat :=
  cs.foldl (fun a c => match a, hexVal? c with
    | some a, some v => some (a * 16 + v)
    | _, _ => none) (some acc)

def ofBE (acc : Nat) : List Nat → Nat
  | [] => acc
  | b :: bs => ofBE (acc * 256 + b) bs

theorem hexFold_hexlify (bs : List Nat) (h : IsBytes bs) (acc : Nat) : hexFold acc (hexlify bs) = some (ofBE acc bs) := by
  induction bs generalizing acc with
  | nil => rfl
  | cons b bs ih =>
    have hb : b < 256 := h b (by simp)
    have h1 : b / 16 % 16 < 16 := Nat.mod_lt _ (by decide)
    have h2 : b % 16 < 16 := Nat.mod_lt _ (by decide)
    have := ih (fun x hx => h x (by simp [hx])) ((acc * 16 + b / 16 % 16) * 16 + b % 16)
    simp only [hexFold, hexlify_cons, hexByte, List.cons_append, List.nil_append, List.foldl_cons,
      hexVal_hexDigit _ h1, hexVal_hexDigit _ h2] at this ⊢
    rw [this]
    have e : (acc * 16 + b / 16 % 16) * 16 + b % 16 = acc * 256 + b := by omega
    rw [e]; rfl

theorem hexNat_hexlify (bs : List Nat) (h : IsBytes bs) (hne : bs ≠ []) : hexNat? (hexlify bs) = some (ofBE 0 bs) := by
  unfold hexNat?
  have : (hexlify bs).isEmpty = false := by
    cases bs with
    | nil => exact absurd rfl hne
    | cons b bs => simp [hexlify_cons, hexByte]
  rw [this]
  exact hexFold_hexlify bs h 0

theorem pyIntHex_hexlify (bs : List Nat) (h : IsBytes bs) (hne : bs ≠ []) : pyIntHex (hexlify bs) = .ok (ofBE 0 bs) := by
  unfold pyIntHex; rw [hexNat_hexlify bs h hne]; rfl

/-- the byte-swapping idiom on the hex of an LE32 field reads the number back -/
theorem swap32_le32 (n : Nat) (h : n < 4294967296) : pyIntHex (swap32 (hexlify (le32 n))) = .ok n := by
  have e : swap32 (hexlify (le32 n)) = hexlify (be32 n) := by
    simp [swap32, slice, hexlify, le32, be32, hexByte]
  rw [e, pyIntHex_hexlify _ (by intro b hb; simp [be32] at hb; rcases hb with h | h | h | h <;> omega) (by simp [be32])]
  simp [ofBE, be32]; omega

theorem swap16_le16 (n : Nat) (h : n < 65536) (tail : List Char) :
    pyIntHex (swap16 (hexlify (le16 n) ++ tail)) = .ok n := by
  have e : swap16 (hexlify (le16 n) ++ tail) = hexlify [n / 256 % 256, n % 256] := by
    simp [swap16, slice, hexlify, le16, hexByte]
  rw [e, pyIntHex_hexlify _ (by intro b hb; simp at hb; rcases hb with h | h <;> omega) (by simp)]
  simp [ofBE]; omega

theorem secondsToIso_ok (s : Nat) (h : s < 86400) : secondsToIso s = .ok (isoTime s) := by
  unfold secondsToIso
  have hh : s / 60 / 60 < 24 := by omega
  simp only [hh, if_true, py_pure]
  have d2 : ∀ n < 100, dec2 n = [Char.ofNat (48 + n / 10 % 10), Char.ofNat (48 + n % 10)] := by decide +kernel
  have e1 : s / 60 / 60 = s / 3600 := by omega
  rw [d2 _ (by omega), d2 (s / 60 % 60) (by omega), d2 (s % 60) (by omega), e1]
  simp [isoTime]

end Spec
