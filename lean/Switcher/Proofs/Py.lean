import Switcher.Model.Py
namespace Model

@[simp] theorem py_pure (a : α) : (pure a : Py α) = .ok a := rfl
@[simp] theorem py_throw (e : Exc) : (throw e : Py α) = .error e := rfl
@[simp] theorem py_bind_ok (a : α) (f : α → Py β) : (Except.ok a : Py α) >>= f = f a := rfl
@[simp] theorem py_bind_error (e : Exc) (f : α → Py β) : (Except.error e : Py α) >>= f = .error e := rfl

end Model
