import Switcher.Model.Py
namespace Model

@[simp] theorem py_pure (a : α) : (pure a : Py α) = .ok a := rfl
@[simp] theorem py_throw (e : Exc) : (throw e : Py α) = .error e := rfl
@[simp] theorem py_bind_ok (a : α) (f : α → Py β) : (Except.ok a : Py α) >>= f = f a := rfl
@[simp] theorem py_bind_error (e : Exc) (f : α → Py β) : (Except.error e : Py α) >>= f = .error e := rfl

theorem packLE16_nat (k : Nat) (h : k < 65536) : packLE16 (k : Int) = .ok (Spec.le16 k) := by
  show (if k < 65536 then pure (Spec.le16 k) else throw .structError : Py (List Nat)) = _
  rw [if_pos h]; rfl

theorem packLE32_nat (k : Nat) (h : k < 4294967296) : packLE32 (k : Int) = .ok (Spec.le32 k) := by
  show (if k < 4294967296 then pure (Spec.le32 k) else throw .structError : Py (List Nat)) = _
  rw [if_pos h]; rfl

theorem packLE32_big (k : Nat) (h : ¬ k < 4294967296) : packLE32 (k : Int) = .error .structError := by
  show (if k < 4294967296 then pure (Spec.le32 k) else throw .structError : Py (List Nat)) = _
  rw [if_neg h]; rfl

theorem packLE32_neg (n : Int) (h : n < 0) : packLE32 n = .error .structError := by
  cases n with
  | ofNat k => exact absurd h (by simp [Int.ofNat_eq_natCast])
  | negSucc k => rfl

end Model
