import Switcher.Proofs.AmpsDefs
namespace Spec
theorem ampsChunk10 : ampsRange 40960 4096 = true := by decide +kernel
end Spec
