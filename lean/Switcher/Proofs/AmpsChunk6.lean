import Switcher.Proofs.AmpsDefs
namespace Spec
theorem ampsChunk6 : ampsRange 24576 4096 = true := by decide +kernel
end Spec
