/-
Proofs.Utf8 — strict UTF-8 decoding inverts encoding for every Unicode scalar value.
-/
import Switcher.Spec.Utf8
namespace Spec

theorem char_valid (c : Char) : c.toNat < 0xD800 ∨ (0xDFFF < c.toNat ∧ c.toNat < 0x110000) := by
  have := c.valid
  simp only [UInt32.isValidChar, Nat.isValidChar] at this
  exact this

theorem utf8Decode_encodeChar (c : Char) (rest : List Nat) :
    utf8Decode (utf8EncodeChar c ++ rest) = (utf8Decode rest).map (c :: ·) := by
  have hv := char_valid c
  have hc : Char.ofNat c.toNat = c := Char.ofNat_toNat c
  unfold utf8EncodeChar
  simp only []
  by_cases h1 : c.toNat < 0x80
  · simp only [h1, if_true, List.cons_append, List.nil_append]
    rw [utf8Decode.eq_def]
    simp only [h1, if_true, hc]
  · by_cases h2 : c.toNat < 0x800
    · simp only [h1, h2, if_true, if_false, List.cons_append, List.nil_append]
      rw [utf8Decode.eq_def]
      have a1 : ¬ (0xC0 + c.toNat / 64 < 0x80) := by omega
      have a2 : 0xC2 ≤ 0xC0 + c.toNat / 64 ∧ 0xC0 + c.toNat / 64 ≤ 0xDF := by omega
      have a3 : 0x80 ≤ 0x80 + c.toNat % 64 ∧ 0x80 + c.toNat % 64 ≤ 0xBF := by omega
      have e : (0xC0 + c.toNat / 64 - 0xC0) * 64 + (0x80 + c.toNat % 64 - 0x80) = c.toNat := by omega
      simp only [a1, a2, a3, if_true, if_false, and_self, e, hc]
    · by_cases h3 : c.toNat < 0x10000
      · simp only [h1, h2, h3, if_true, if_false, List.cons_append, List.nil_append]
        rw [utf8Decode.eq_def]
        have a1 : ¬ (0xE0 + c.toNat / 4096 < 0x80) := by omega
        have a2 : ¬ (0xC2 ≤ 0xE0 + c.toNat / 4096 ∧ 0xE0 + c.toNat / 4096 ≤ 0xDF) := by omega
        have a3 : 0xE0 ≤ 0xE0 + c.toNat / 4096 ∧ 0xE0 + c.toNat / 4096 ≤ 0xEF := by omega
        have e : (0xE0 + c.toNat / 4096 - 0xE0) * 4096 + (0x80 + c.toNat / 64 % 64 - 0x80) * 64 + (0x80 + c.toNat % 64 - 0x80) = c.toNat := by omega
        have a4 : (if 0xE0 + c.toNat / 4096 = 0xE0 then 0xA0 else 0x80) ≤ 0x80 + c.toNat / 64 % 64 ∧
            0x80 + c.toNat / 64 % 64 ≤ (if 0xE0 + c.toNat / 4096 = 0xED then 0x9F else 0xBF) ∧
            0x80 ≤ 0x80 + c.toNat % 64 ∧ 0x80 + c.toNat % 64 ≤ 0xBF := by
          split <;> split <;> omega
        simp only [a1, a2, a3, a4, if_true, if_false, and_self, e, hc]
      · simp only [h1, h2, h3, if_false, List.cons_append, List.nil_append]
        rw [utf8Decode.eq_def]
        have a1 : ¬ (0xF0 + c.toNat / 262144 < 0x80) := by omega
        have a2 : ¬ (0xC2 ≤ 0xF0 + c.toNat / 262144 ∧ 0xF0 + c.toNat / 262144 ≤ 0xDF) := by omega
        have a3 : ¬ (0xE0 ≤ 0xF0 + c.toNat / 262144 ∧ 0xF0 + c.toNat / 262144 ≤ 0xEF) := by omega
        have a5 : 0xF0 ≤ 0xF0 + c.toNat / 262144 ∧ 0xF0 + c.toNat / 262144 ≤ 0xF4 := by omega
        have e : (0xF0 + c.toNat / 262144 - 0xF0) * 262144 + (0x80 + c.toNat / 4096 % 64 - 0x80) * 4096 +
            (0x80 + c.toNat / 64 % 64 - 0x80) * 64 + (0x80 + c.toNat % 64 - 0x80) = c.toNat := by omega
        have a4 : (if 0xF0 + c.toNat / 262144 = 0xF0 then 0x90 else 0x80) ≤ 0x80 + c.toNat / 4096 % 64 ∧
            0x80 + c.toNat / 4096 % 64 ≤ (if 0xF0 + c.toNat / 262144 = 0xF4 then 0x8F else 0xBF) ∧
            0x80 ≤ 0x80 + c.toNat / 64 % 64 ∧ 0x80 + c.toNat / 64 % 64 ≤ 0xBF ∧
            0x80 ≤ 0x80 + c.toNat % 64 ∧ 0x80 + c.toNat % 64 ≤ 0xBF := by
          split <;> split <;> omega
        simp only [a1, a2, a3, a4, a5, if_true, if_false, and_self, e, hc]

/-- decoding inverts encoding, with anything decodable after it -/
theorem utf8Decode_encode (cs : List Char) (rest : List Nat) (tail : List Char) (h : utf8Decode rest = some tail) :
    utf8Decode (utf8Encode cs ++ rest) = some (cs ++ tail) := by
  induction cs with
  | nil => simpa [utf8Encode] using h
  | cons c cs ih =>
    have : utf8Encode (c :: cs) ++ rest = utf8EncodeChar c ++ (utf8Encode cs ++ rest) := by simp [utf8Encode]
    rw [this, utf8Decode_encodeChar, ih]; rfl

theorem utf8Decode_zeros (k : Nat) : utf8Decode (List.replicate k 0) = some (List.replicate k (Char.ofNat 0)) := by
  induction k with
  | zero => rfl
  | succ k ih => rw [List.replicate_succ, utf8Decode.eq_def]; simp [ih, List.replicate_succ]

/-- every encoded byte is a byte -/
theorem utf8Encode_isBytes (cs : List Char) : ∀ b ∈ utf8Encode cs, b < 256 := by
  induction cs with
  | nil => intro b hb; cases hb
  | cons c cs ih =>
    intro b hb
    simp only [utf8Encode, List.flatMap_cons, List.mem_append] at hb
    rcases hb with hb | hb
    · have hv := char_valid c
      unfold utf8EncodeChar at hb
      simp only [] at hb
      split at hb
      · simp at hb; omega
      · split at hb
        · simp at hb; rcases hb with h | h <;> omega
        · split at hb
          · simp at hb; rcases hb with h | h | h <;> omega
          · simp at hb; rcases hb with h | h | h | h <;> omega
    · exact ih b (by simpa [utf8Encode] using hb)

end Spec
