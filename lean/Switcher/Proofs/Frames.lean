/-
Proofs.Frames — from the generated templates/wiring to the reference layout: the link used by
C01, C02 and C03.  The per-call facts are `decide`d on the generated data; the lemmas here lift
them to every argument value.
-/
import Switcher.Model.Api
import Switcher.Proofs.Sym
import Switcher.Proofs.Sign
namespace Model
open Spec Tmpl

/-- the role a format-argument expression of the code plays in the protocol -/
def roleOfExpr : String → Option Role
  | "login_resp.session_id" => some .sid
  | "session_id" => some .sid
  | "timestamp" => some .ts
  | "self._device_id" => some .did
  | "self._device_key" => some .key
  | "command.value" => some .onoff
  | "timer" => some .timer
  | "auto_shutdown" => some .autoOff
  | "device_name" => some .name
  | "schedule_id" => some .slot
  | "new_schedule" => some .sched
  | "weekdays" => some .days
  | "start_time_hex" => some .start
  | "end_time_hex" => some .stop
  | "hex_pos" => some .pos
  | "command.length" => some .irLen
  | "command.command" => some .irCmd
  | "state.value" => some .bState
  | "mode.value" => some .bMode
  | "target_temp" => some .bTemp
  | "fan_level.value" => some .bFan
  | "set_swing.value" => some .bSwing
  | _ => none

/-- layout of a template whose fields are fed with the given argument expressions -/
def symOfE : Template → List String → Option Sym
  | [], _ => some []
  | .lit s :: t, es => (symOfE t es).map (s.map Item.lit ++ ·)
  | .field _ :: _, [] => none
  | .field spec :: t, e :: es =>
    match roleOfExpr e with
    | some r =>
      -- the only formatted (non-`{}`) field of the protocol is the target temperature `{:02x}`
      if (spec == "02x") == (r == .bTemp) && (spec == "" || spec == "02x") then (symOfE t es).map (Item.arg r :: ·) else none
    | none => none

/-- layout of the call `packets.<tmpl>.format(…)` in `method`, read off the generated data -/
def symOfCall (method tmpl : String) : Option Sym :=
  match callData method tmpl with
  | some (t, es) => symOfE t es
  | none => none

/-- how an argument value renders into the text of its role -/
def Renders (r : Role) (a : Arg) (txt : List Char) : Prop :=
  (r ≠ .bTemp ∧ a = .s txt) ∨ (r = .bTemp ∧ ∃ n, a = .i n ∧ fmtField "02x" (.i n) = .ok txt)

theorem fill_symOfE (renv : Role → List Char) (f : String → Arg) :
    ∀ (t : Template) (es : List String) (sym : Sym), symOfE t es = some sym →
      (∀ e ∈ es, ∀ r, roleOfExpr e = some r → Renders r (f e) (renv r)) →
      fill t (es.map f) = .ok (evalSym renv sym)
  | [], _, sym, h, _ => by simp [symOfE] at h; subst h; rfl
  | .lit s :: t, es, sym, h, hr => by
    simp only [symOfE, Option.map_eq_some_iff] at h
    obtain ⟨sym', h', rfl⟩ := h
    have := fill_symOfE renv f t es sym' h' hr
    simp [fill, this, evalSym_append, evalSym_lits]
  | .field _ :: _, [], _, h, _ => by simp [symOfE] at h
  | .field spec :: t, e :: es, sym, h, hr => by
    simp only [symOfE] at h
    cases hro : roleOfExpr e with
    | none => simp [hro] at h
    | some r =>
      simp only [hro] at h
      split at h
      · rename_i hc
        simp only [Option.map_eq_some_iff] at h
        obtain ⟨sym', h', rfl⟩ := h
        have ih := fill_symOfE renv f t es sym' h' (fun e' he' => hr e' (by simp [he']))
        have hren := hr e (by simp) r hro
        simp only [Bool.and_eq_true, Bool.or_eq_true, beq_iff_eq] at hc
        have hfield : fmtField spec (f e) = .ok (renv r) := by
          rcases hren with ⟨hne, ha⟩ | ⟨heq, n, ha, hfmt⟩
          · have : (r == Role.bTemp) = false := by simpa using hne
            rw [this] at hc
            have hs : spec = "" := by
              rcases hc.2 with h1 | h1
              · exact h1
              · exfalso; have := hc.1; simp [h1] at this
            rw [ha, hs]; rfl
          · have : (r == Role.bTemp) = true := by simpa using heq
            rw [this] at hc
            have hs : spec = "02x" := by simpa using hc.1
            rw [ha, hs]; exact hfmt
        simp [fill, hfield, ih, evalSym]
      · simp at h

theorem envArgs_map (env : Env) (f : String → Arg) :
    ∀ (es : List String), (∀ e ∈ es, argOf env e = some (f e)) → envArgs env es = .ok (es.map f)
  | [], _ => rfl
  | e :: es, h => by
    have h1 := h e (by simp)
    have ih := envArgs_map env f es (fun e' he' => h e' (by simp [he']))
    simp [envArgs, h1, ih]

/-- the master lemma: a `format` call of the code produces the text of its layout under any role
    environment that the code's argument values render to -/
theorem formatCall_sym (method tmpl : String) (env : Env) (renv : Role → List Char) (sym : Sym) (f : String → Arg)
    (hs : symOfCall method tmpl = some sym)
    (hf : ∀ t es, callData method tmpl = some (t, es) → ∀ e ∈ es, argOf env e = some (f e) ∧
          ∀ r, roleOfExpr e = some r → Renders r (f e) (renv r)) :
    formatCall method tmpl env = .ok (evalSym renv sym) := by
  unfold symOfCall at hs
  unfold formatCall
  cases hc : callData method tmpl with
  | none => simp [hc] at hs
  | some p =>
    obtain ⟨t, es⟩ := p
    simp only [hc] at hs
    have h := hf t es hc
    show (do let args ← envArgs env es; fill t args) = _
    rw [envArgs_map env f es (fun e he => (h e he).1)]
    simp only [py_bind_ok]
    exact fill_symOfE renv f t es sym hs (fun e he => (h e he).2)

/-- signing and converting a well-formed hex packet gives the bytes followed by the signature -/
theorem wireOf_ok (p : List Char) (bs : List Nat) (h : unhexlify p = some bs) :
    wireOf p = .ok (bs ++ sigBytes bs) := by
  unfold wireOf
  rw [sign_ok p bs h]
  simp only [py_bind_ok, pyUnhexlify]
  have : unhexlify (p ++ hexlify (sigBytes bs)) = some (bs ++ sigBytes bs) :=
    unhexlify_append _ _ _ _ h (unhexlify_hexlify _ (isBytes_append (isBytes_le16 _) (isBytes_le16 _)))
  simp [this]

theorem wireOf_raises (p : List Char) (h : unhexlify p = none) : wireOf p = .error .valueError := by
  unfold wireOf; rw [sign_raises p h]; rfl

/-- `set_message_length` is the Spec's `withLength` on every valid hex packet of fewer than 65532 bytes -/
theorem unhex_zeros4 : unhexlify cs!"00000000" = some [0, 0, 0, 0] := by
  simp [unhexlify, hexVal?]

theorem setMessageLength_ok (p : List Char) (bs : List Nat) (h : unhexlify p = some bs) (hl : bs.length + 4 < 65536) :
    setMessageLength p = .ok (withLength p) := by
  unfold setMessageLength
  have hlen := unhexlify_length p bs h
  have h1 : pyUnhexlify (p ++ cs!"00000000") = .ok (bs ++ [0,0,0,0]) := by
    have := unhexlify_append _ _ _ _ h unhex_zeros4
    unfold pyUnhexlify
    rw [this]; rfl
  rw [h1]
  simp only [py_bind_ok]
  rw [packLE16_nat _ (by simp; omega)]
  simp only [py_bind_ok, py_pure, withLength]
  have : (bs ++ [0, 0, 0, 0]).length = p.length / 2 + 4 := by simp; omega
  rw [this]

/-! ### from a layout to the bytes on the wire -/

theorem unhexlify_drop2 : ∀ (a : Nat) (s : List Char) (bs : List Nat), unhexlify s = some bs →
    unhexlify (s.drop (2 * a)) = some (bs.drop a)
  | 0, s, bs, h => by simpa using h
  | a + 1, [], bs, h => by simp [unhexlify] at h; subst h; simp [unhexlify]
  | a + 1, [_], _, h => by simp [unhexlify] at h
  | a + 1, c :: d :: rest, bs, h => by
    simp only [unhexlify] at h
    cases hc : hexVal? c with
    | none => simp [hc] at h
    | some x =>
      cases hd : hexVal? d with
      | none => simp [hc, hd] at h
      | some y =>
        cases hr : unhexlify rest with
        | none => simp [hc, hd, hr] at h
        | some r =>
          simp [hc, hd, hr] at h
          subst h
          have := unhexlify_drop2 a rest r hr
          have e : 2 * (a + 1) = 2 * a + 1 + 1 := by omega
          rw [e]
          simpa using this

theorem unhexlify_take2 : ∀ (a : Nat) (s : List Char) (bs : List Nat), unhexlify s = some bs →
    unhexlify (s.take (2 * a)) = some (bs.take a)
  | 0, s, bs, _ => by simp [unhexlify]
  | a + 1, [], bs, h => by simp [unhexlify] at h; subst h; simp [unhexlify]
  | a + 1, [_], _, h => by simp [unhexlify] at h
  | a + 1, c :: d :: rest, bs, h => by
    simp only [unhexlify] at h
    cases hc : hexVal? c with
    | none => simp [hc] at h
    | some x =>
      cases hd : hexVal? d with
      | none => simp [hc, hd] at h
      | some y =>
        cases hr : unhexlify rest with
        | none => simp [hc, hd, hr] at h
        | some r =>
          simp [hc, hd, hr] at h
          subst h
          have := unhexlify_take2 a rest r hr
          have e : 2 * (a + 1) = 2 * a + 1 + 1 := by omega
          rw [e]
          simp [unhexlify, hc, hd, this]

/-- a byte window of the decoded frame is what its hex window spells -/
theorem slice_bytes_of_hex (s : List Char) (bs x : List Nat) (a b : Nat) (h : unhexlify s = some bs)
    (hw : slice s (2 * a) (2 * b) = hexlify x) (hx : IsBytes x) : slice bs a b = x := by
  have h1 := unhexlify_drop2 a s bs h
  have h2 := unhexlify_take2 (b - a) _ _ h1
  have e : 2 * (b - a) = 2 * b - 2 * a := by omega
  rw [e] at h2
  unfold slice at hw ⊢
  rw [hw, unhexlify_hexlify x hx] at h2
  exact (Option.some.inj h2).symm

end Model

