import Switcher.Proofs.AmpsDefs
namespace Spec
theorem ampsChunk5 : ampsRange 20480 4096 = true := by decide +kernel
end Spec
