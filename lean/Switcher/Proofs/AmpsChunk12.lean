import Switcher.Proofs.AmpsDefs
namespace Spec
theorem ampsChunk12 : ampsRange 49152 4096 = true := by decide +kernel
end Spec
