import Switcher.Proofs.AmpsDefs
namespace Spec
theorem ampsChunk0 : ampsRange 0 4096 = true := by decide +kernel
end Spec
