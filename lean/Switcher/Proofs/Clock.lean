/-
Proofs.Clock — the text language of `time_to_hexadecimal_timestamp`: `split(":")` against `strptime("%H:%M")`.
-/
import Switcher.Model.Sched
namespace Proofs
open Model Spec

theorem splitColon_nocolon (l : List Char) (h : ∀ c ∈ l, c ≠ ':') : splitColon l = [l] := by
  induction l with
  | nil => rfl
  | cons c cs ih =>
    have hc : c ≠ ':' := h c (by simp)
    have := ih (fun d hd => h d (by simp [hd]))
    simp [splitColon, this, hc]

theorem span_loop {α} (p : α → Bool) (l acc : List α) :
    List.span.loop p l acc = (acc.reverse ++ l.takeWhile p, l.dropWhile p) := by
  induction l generalizing acc with
  | nil => simp [List.span.loop]
  | cons a as ih =>
    unfold List.span.loop
    by_cases h : p a = true
    · simp [h, ih]
    · simp [h]

theorem span_eq {α} (p : α → Bool) (l : List α) : l.span p = (l.takeWhile p, l.dropWhile p) := by
  unfold List.span; rw [span_loop]; simp

theorem splitColon_ne_nil (l : List Char) : splitColon l ≠ [] := by
  cases l with
  | nil => simp [splitColon]
  | cons c cs =>
    unfold splitColon
    split
    · simp
    · split <;> simp

theorem span_colon (s hs ms : List Char) (h : s.span (· != ':') = (hs, ':' :: ms)) :
    s = hs ++ ':' :: ms ∧ splitColon s = hs :: splitColon ms := by
  rw [span_eq] at h
  induction s generalizing hs with
  | nil => simp at h
  | cons c cs ih =>
    by_cases hc : c = ':'
    · subst hc
      simp at h
      obtain ⟨rfl, rfl⟩ := h
      refine ⟨rfl, ?_⟩
      cases hsp : splitColon cs with
      | nil => exact absurd hsp (splitColon_ne_nil cs)
      | cons p ps => simp [splitColon, hsp]
    · have hne : (c != ':') = true := by simp [hc]
      rw [List.takeWhile_cons_of_pos (p := fun x => x != ':') hne, List.dropWhile_cons_of_pos (p := fun x => x != ':') hne] at h
      cases hs with
      | nil => simp at h
      | cons x xs =>
        simp only [Prod.mk.injEq, List.cons.injEq] at h
        obtain ⟨⟨rfl, hx⟩, hd⟩ := h
        have ⟨e1, e2⟩ := ih xs (by rw [hx, hd])
        refine ⟨by rw [e1]; rfl, ?_⟩
        simp [splitColon, e2, hc]

theorem dropWhile_space_digits (hs : List Char) (hd : hs.all isAsciiDigit = true) : hs.dropWhile isPySpace = hs := by
  cases hs with
  | nil => rfl
  | cons c cs =>
    have hcd : isAsciiDigit c = true := by simp at hd; exact hd.1
    have : isPySpace c = false := by
      unfold isAsciiDigit at hcd
      unfold isPySpace
      simp only [Bool.and_eq_true, decide_eq_true_eq] at hcd
      have h1 : 48 ≤ c.toNat := by
        have := hcd.1; exact this
      simp only [Bool.or_eq_false_iff, Bool.and_eq_false_iff, decide_eq_false_iff_not]
      omega
    simp [List.dropWhile, this]

end Proofs
