import Switcher.Proofs.AmpsDefs
namespace Spec
theorem ampsChunk15 : ampsRange 61440 4096 = true := by decide +kernel
end Spec
