/-
Proofs.Breeze — the two kinds of thermostat-control frame are the Spec's reference frames:
the status-update frame carries exactly the five settings, the IR frame exactly the command payload.
-/
import Switcher.Proofs.Ops
import Switcher.Proofs.SpecEnv
import Switcher.Props.C09
namespace Model
open Spec Tmpl

theorem hex02 : ∀ p < 256, fmtField "02x" (.i (p : Nat)) = .ok (hexB p) := by decide +kernel

/-- numeric wire values of the enum members -/
def stateNum : String → Nat | "ON" => 1 | _ => 0
def modeNum : String → Nat | "AUTO" => 1 | "DRY" => 2 | "FAN" => 3 | "COOL" => 4 | _ => 5
def fanNum : String → Nat | "LOW" => 1 | "MEDIUM" => 2 | "HIGH" => 3 | _ => 0
def swingNum : String → Nat | "ON" => 1 | _ => 0

theorem enum_state : ∀ s ∈ ["ON", "OFF"], enumValue Gen.deviceStates s = hexB (stateNum s) := by decide +kernel
theorem enum_mode : ∀ s ∈ ["AUTO", "DRY", "FAN", "COOL", "HEAT"], enumValue Gen.thermostatModes s = hexB (modeNum s) := by decide +kernel
theorem enum_fan : ∀ s ∈ ["LOW", "MEDIUM", "HIGH", "AUTO"], enumValue Gen.thermostatFanLevels s = [hexDigit (fanNum s)] := by decide +kernel
theorem enum_swing : ∀ s ∈ ["ON", "OFF"], enumValue Gen.thermostatSwings s = [hexDigit (swingNum s)] := by decide +kernel

/-- THE STATUS-UPDATE FRAME carries exactly the five settings -/
theorem status_frame (cfg : Cfg) (now : Nat) (raw : List Nat) (remote : Remote) (cur : ThermoResp) (v : BreezeSettings)
    (hcfg : WFcfg cfg) (hraw : 12 ≤ raw.length)
    (hst : v.state ∈ ["ON", "OFF"]) (hmd : v.mode ∈ ["AUTO", "DRY", "FAN", "COOL", "HEAT"])
    (hfan : v.fan ∈ ["LOW", "MEDIUM", "HIGH", "AUTO"]) (hsw : v.swing ∈ ["ON", "OFF"]) (tt : Nat) (htt : v.temp = tt) (ht : tt < 256) :
    ∃ f, breezeMainFrame cfg (tsOf now) raw remote cur v true = .ok f ∧
      IsRefWire (.breezeStatus (stateNum v.state) (modeNum v.mode) tt (fanNum v.fan) (swingNum v.swing))
        (sessionId raw) (tsOf now) cfg.deviceId cfg.deviceKey f := by
  obtain ⟨hd1, hd2, hk1, hk2⟩ := hcfg
  obtain ⟨ht1, ht2⟩ := tsOf_props now
  obtain ⟨hs1, hs2⟩ := sessionId_props raw hraw
  let op := Op.breezeStatus (stateNum v.state) (modeNum v.mode) tt (fanNum v.fan) (swingNum v.swing)
  let renv := specEnv op (sessionId raw) (tsOf now) cfg.deviceId cfg.deviceKey
  have hacc : op.accepted = true := by
    have h1 : stateNum v.state < 2 := by
      simp only [List.mem_cons, List.mem_nil_iff, or_false] at hst; rcases hst with h | h <;> rw [h] <;> decide
    have h2 : modeNum v.mode < 256 := by
      simp only [List.mem_cons, List.mem_nil_iff, or_false] at hmd; rcases hmd with h | h | h | h | h <;> rw [h] <;> decide
    have h3 : fanNum v.fan < 16 := by
      simp only [List.mem_cons, List.mem_nil_iff, or_false] at hfan; rcases hfan with h | h | h | h <;> rw [h] <;> decide
    have h4 : swingNum v.swing < 16 := by
      simp only [List.mem_cons, List.mem_nil_iff, or_false] at hsw; rcases hsw with h | h <;> rw [h] <;> decide
    simp [op, Op.accepted, h1, h2, h3, h4, ht]
  have ids : IdsOk (sessionId raw) (tsOf now) cfg.deviceId cfg.deviceKey := ⟨hs1, hs2, ht1, ht2, hd1, hd2, hk1, hk2⟩
  have hro := specEnv_ok op _ _ _ _ ids hacc
  have hroles : rolesOf (refSym op.kind) = [.sid, .ts, .did, .bState, .bMode, .bTemp, .bFan, .bSwing] := by
    show rolesOf (refSym .breezeStatus) = _; decide
  let env : Env := baseEnv cfg (tsOf now) raw ++
      [("state.value", .s (enumValue Gen.deviceStates v.state)), ("mode.value", .s (enumValue Gen.thermostatModes v.mode)),
       ("target_temp", .i v.temp), ("fan_level.value", .s (enumValue Gen.thermostatFanLevels v.fan)),
       ("set_swing.value", .s (enumValue Gen.thermostatSwings v.swing))]
  let f : String → Arg := fun e => if e == "target_temp" then .i v.temp else argS renv e
  have hc1 : litChars ((refSym Kind.breezeStatus).take 8) = some cs!"fef00000" := by decide +kernel
  obtain ⟨bs, hb, _, hw⟩ := commandFrame_computed "control_breeze_device" "BREEZE_UPDATE_STATUS_PACKET" env renv f
    (refSym .breezeStatus) (refSym .breezeStatus) cs!"fef00000" cs!"fef00000" 90
    (by decide +kernel)
    (hf_of_exprs _ _ _ _ _ ["login_resp.session_id", "timestamp", "self._device_id", "state.value", "mode.value", "target_temp",
        "fan_level.value", "set_swing.value"] (by decide +kernel) (by
      intro e he
      simp only [List.mem_cons, List.mem_nil_iff, or_false] at he
      rcases he with rfl | rfl | rfl | rfl | rfl | rfl | rfl | rfl
      · exact ⟨by simp [argOf, env, baseEnv, f, argS, roleOfExpr, renv, specEnv, op], by
          intro r hr; simp [roleOfExpr] at hr; subst hr; left; exact ⟨by decide, by simp [f, argS, roleOfExpr]⟩⟩
      · exact ⟨by simp [argOf, env, baseEnv, f, argS, roleOfExpr, renv, specEnv, op], by
          intro r hr; simp [roleOfExpr] at hr; subst hr; left; exact ⟨by decide, by simp [f, argS, roleOfExpr]⟩⟩
      · exact ⟨by simp [argOf, env, baseEnv, f, argS, roleOfExpr, renv, specEnv, op], by
          intro r hr; simp [roleOfExpr] at hr; subst hr; left; exact ⟨by decide, by simp [f, argS, roleOfExpr]⟩⟩
      · exact ⟨by simp [argOf, env, baseEnv, f, argS, roleOfExpr, renv, specEnv, op, enum_state v.state hst], by
          intro r hr; simp [roleOfExpr] at hr; subst hr; left; exact ⟨by decide, by simp [f, argS, roleOfExpr]⟩⟩
      · exact ⟨by simp [argOf, env, baseEnv, f, argS, roleOfExpr, renv, specEnv, op, enum_mode v.mode hmd], by
          intro r hr; simp [roleOfExpr] at hr; subst hr; left; exact ⟨by decide, by simp [f, argS, roleOfExpr]⟩⟩
      · exact ⟨by simp [argOf, env, baseEnv, f], by
          intro r hr; simp [roleOfExpr] at hr; subst hr; right
          exact ⟨rfl, v.temp, by simp [f], by rw [htt]; simpa [renv, specEnv, op] using hex02 tt ht⟩⟩
      · exact ⟨by simp [argOf, env, baseEnv, f, argS, roleOfExpr, renv, specEnv, op, enum_fan v.fan hfan], by
          intro r hr; simp [roleOfExpr] at hr; subst hr; left; exact ⟨by decide, by simp [f, argS, roleOfExpr]⟩⟩
      · exact ⟨by simp [argOf, env, baseEnv, f, argS, roleOfExpr, renv, specEnv, op, enum_swing v.swing hsw], by
          intro r hr; simp [roleOfExpr] at hr; subst hr; left; exact ⟨by decide, by simp [f, argS, roleOfExpr]⟩⟩))
    (by decide +kernel) hc1 hc1 (by decide +kernel) (by decide +kernel) rfl (by decide +kernel)
    (fun r hr => (hro r hr).1)
    (by
      have := agrees_length (evalSym_agrees renv Role.width (refSym .breezeStatus) (fun r hr =>
        (hro r hr).2 (by
          have hr' : r ∈ [Role.sid, .ts, .did, .bState, .bMode, .bTemp, .bFan, .bSwing] := by rw [← hroles]; exact hr
          simp at hr'; rcases hr' with h | h | h | h | h | h | h | h <;> rw [h] <;> decide)))
      rw [this]; decide +kernel)
    (by decide)
  refine ⟨bs ++ sigBytes bs, ?_, ?_⟩
  · simp only [breezeMainFrame, if_true]; exact hw
  · simp [IsRefWire, refWire, refFrame, op, Op.kind, Kind.computedLength, renv, hb] at hb ⊢

/-- THE IR FRAME carries exactly the payload of the command that was built -/
theorem ir_frame (cfg : Cfg) (now : Nat) (raw : List Nat) (method : String) (payload : List Nat)
    (hcfg : WFcfg cfg) (hraw : 12 ≤ raw.length) (hp : IsBytes payload) (hl : payload.length < 65536 - 90)
    (hm : method = "control_breeze_device" ∨ method = "_control_breeze_swing_device") :
    ∃ f, commandFrame method "BREEZE_COMMAND_PACKET" (baseEnv cfg (tsOf now) raw ++
        [("command.length", .s (hexlify (le16 payload.length))), ("command.command", .s (hexlify payload))]) = .ok f ∧
      IsRefWire (.breezeCommand payload) (sessionId raw) (tsOf now) cfg.deviceId cfg.deviceKey f := by
  obtain ⟨hd1, hd2, hk1, hk2⟩ := hcfg
  obtain ⟨ht1, ht2⟩ := tsOf_props now
  obtain ⟨hs1, hs2⟩ := sessionId_props raw hraw
  let op := Op.breezeCommand payload
  let renv := specEnv op (sessionId raw) (tsOf now) cfg.deviceId cfg.deviceKey
  have hroles : rolesOf (refSym .breezeCommand) = [.sid, .ts, .did, .irLen, .irCmd] := by decide +kernel
  have hlit : Props.C09.litCount (refSym .breezeCommand) = 140 := by decide +kernel
  have hlen : (evalSym renv (refSym .breezeCommand)).length = 2 * (83 + payload.length) := by
    rw [Props.C09.evalSym_length, hroles, hlit]
    simp [renv, specEnv, op, hs1, ht1, hd1, hexlify_length, le16]; omega
  have hc1 : litChars ((refSym Kind.breezeCommand).take 8) = some cs!"fef00000" := by decide +kernel
  let env : Env := baseEnv cfg (tsOf now) raw ++
    [("command.length", .s (hexlify (le16 payload.length))), ("command.command", .s (hexlify payload))]
  obtain ⟨bs, hb, _, hw⟩ := commandFrame_computed method "BREEZE_COMMAND_PACKET" env renv (argS renv)
    (refSym .breezeCommand) (refSym .breezeCommand) cs!"fef00000" cs!"fef00000" (83 + payload.length)
    (by rcases hm with rfl | rfl <;> decide +kernel)
    (hf_of_exprs _ _ _ _ _ (if method = "control_breeze_device" then
        ["login_resp.session_id", "timestamp", "self._device_id", "command.length", "command.command"]
        else ["session_id", "timestamp", "self._device_id", "command.length", "command.command"])
      (by rcases hm with rfl | rfl <;> decide +kernel)
      (by
        intro e he
        rcases hm with rfl | rfl
        · simp only [if_true, List.mem_cons, List.mem_nil_iff, or_false] at he
          rcases he with rfl | rfl | rfl | rfl | rfl <;>
            exact ⟨by simp [argOf, env, baseEnv, argS, roleOfExpr, renv, specEnv, op], by
              intro r hr; simp [roleOfExpr] at hr; subst hr; left; exact ⟨by decide, by simp [argS, roleOfExpr]⟩⟩
        · simp only [show ("_control_breeze_swing_device" = "control_breeze_device") = False from by decide, if_false,
            List.mem_cons, List.mem_nil_iff, or_false] at he
          rcases he with rfl | rfl | rfl | rfl | rfl <;>
            exact ⟨by simp [argOf, env, baseEnv, argS, roleOfExpr, renv, specEnv, op], by
              intro r hr; simp [roleOfExpr] at hr; subst hr; left; exact ⟨by decide, by simp [argS, roleOfExpr]⟩⟩))
    (by rcases hm with rfl | rfl <;> decide +kernel) hc1 hc1 (by decide +kernel) (by decide +kernel) rfl (by decide +kernel)
    (by rw [hroles]; simp [renv, specEnv, op, hs2, ht2, hd2, isHexText_hexlify])
    hlen (by omega)
  exact ⟨bs ++ sigBytes bs, hw, by simp [IsRefWire, refWire, refFrame, op, Op.kind, Kind.computedLength, renv, hb] at hb ⊢⟩

end Model
