/-
Proofs.Layout — the reference frames of Spec.Layout are well formed (C01 at the Spec level) and the
model's command frames are the reference frames (the engine behind C02).
-/
import Switcher.Proofs.Frames
namespace Model
open Spec Tmpl

/-! ### splitting off the first eight (literal) nibbles -/

def litChars : Sym → Option (List Char)
  | [] => some []
  | .lit c :: t => (litChars t).map (c :: ·)
  | .arg _ :: _ => none

theorem evalSym_litChars (env : Role → List Char) : ∀ (s : Sym) (cs : List Char), litChars s = some cs → evalSym env s = cs
  | [], cs, h => by simp [litChars] at h; subst h; rfl
  | .lit c :: t, cs, h => by
    simp only [litChars, Option.map_eq_some_iff] at h
    obtain ⟨cs', h', rfl⟩ := h
    simp [evalSym, evalSym_litChars env t cs' h']
  | .arg _ :: _, _, h => by simp [litChars] at h

theorem litChars_length : ∀ (s : Sym) (cs : List Char), litChars s = some cs → cs.length = s.length
  | [], cs, h => by simp [litChars] at h; subst h; rfl
  | .lit c :: t, cs, h => by
    simp only [litChars, Option.map_eq_some_iff] at h
    obtain ⟨cs', h', rfl⟩ := h
    simp [litChars_length t cs' h']
  | .arg _ :: _, _, h => by simp [litChars] at h

theorem evalSym_split8 (env : Role → List Char) (s : Sym) (c8 : List Char) (h : litChars (s.take 8) = some c8)
    (hl : 8 ≤ s.length) : evalSym env s = c8 ++ evalSym env (s.drop 8) ∧ c8.length = 8 := by
  have h1 := evalSym_litChars env _ _ h
  have h2 := litChars_length _ _ h
  constructor
  · conv => lhs; rw [← List.take_append_drop 8 s]
    rw [evalSym_append, h1]
  · rw [h2]; simp; omega

/-- two layouts that differ only in their first eight literal nibbles give the same frame once
    the length is written into it -/
theorem withLength_congr (env : Role → List Char) (s1 s2 : Sym) (c1 c2 : List Char)
    (h1 : litChars (s1.take 8) = some c1) (h2 : litChars (s2.take 8) = some c2)
    (hl1 : 8 ≤ s1.length) (hl2 : 8 ≤ s2.length) (hd : s1.drop 8 = s2.drop 8) :
    withLength (evalSym env s1) = withLength (evalSym env s2) := by
  obtain ⟨e1, l1⟩ := evalSym_split8 env s1 c1 h1 hl1
  obtain ⟨e2, l2⟩ := evalSym_split8 env s2 c2 h2 hl2
  unfold withLength
  rw [e1, e2, hd]
  simp [l1, l2]

theorem withLength_length (p : List Char) (h : 8 ≤ p.length) : (withLength p).length = p.length := by
  simp [withLength, hexlify_length, le16]; omega

theorem withLength_hex (p : List Char) (h : isHexText p = true) : isHexText (withLength p) = true := by
  unfold withLength
  rw [isHexText_append, isHexText_append, isHexText_hexlify]
  have : isHexText (p.drop 8) = true := by
    simp only [isHexText, List.all_eq_true] at h ⊢
    intro c hc; exact h c (List.mem_of_mem_drop hc)
  rw [this]
  decide

/-! ### the two shapes of command frame -/

/-- fixed-length kinds: the packet is the layout text itself -/
theorem commandFrame_fixed (method tmpl : String) (env : Env) (renv : Role → List Char) (f : String → Arg) (sym : Sym) (n : Nat)
    (hs : symOfCall method tmpl = some sym)
    (hf : ∀ t es, callData method tmpl = some (t, es) → ∀ e ∈ es, argOf env e = some (f e) ∧
          ∀ r, roleOfExpr e = some r → Renders r (f e) (renv r))
    (hr : routesThroughSetLength method = false)
    (hhex : litsHex sym = true) (hroles : ∀ r ∈ rolesOf sym, isHexText (renv r) = true)
    (hlen : (evalSym renv sym).length = 2 * n) :
    ∃ bs, unhexlify (evalSym renv sym) = some bs ∧ bs.length = n ∧ commandFrame method tmpl env = .ok (bs ++ sigBytes bs) := by
  obtain ⟨bs, hb, hn⟩ := unhexlify_of_hex n _ hlen (evalSym_hex renv sym hhex hroles)
  refine ⟨bs, hb, hn, ?_⟩
  unfold commandFrame
  rw [formatCall_sym method tmpl env renv sym f hs hf, hr]
  simp only [py_bind_ok, Bool.false_eq_true, if_false, py_pure]
  exact wireOf_ok _ _ hb

/-- computed-length kinds: the packet goes through `set_message_length`; the result is the Spec's
    `withLength` of the reference layout -/
theorem commandFrame_computed (method tmpl : String) (env : Env) (renv : Role → List Char) (f : String → Arg)
    (sym ref : Sym) (c1 c2 : List Char) (n : Nat)
    (hs : symOfCall method tmpl = some sym)
    (hf : ∀ t es, callData method tmpl = some (t, es) → ∀ e ∈ es, argOf env e = some (f e) ∧
          ∀ r, roleOfExpr e = some r → Renders r (f e) (renv r))
    (hr : routesThroughSetLength method = true)
    (h1 : litChars (sym.take 8) = some c1) (h2 : litChars (ref.take 8) = some c2)
    (hl1 : 8 ≤ sym.length) (hl2 : 8 ≤ ref.length) (hd : sym.drop 8 = ref.drop 8)
    (hhex : litsHex sym = true) (hroles : ∀ r ∈ rolesOf sym, isHexText (renv r) = true)
    (hlen : (evalSym renv sym).length = 2 * n) (hsmall : n + 4 < 65536) :
    ∃ bs, unhexlify (withLength (evalSym renv ref)) = some bs ∧ bs.length = n ∧
      commandFrame method tmpl env = .ok (bs ++ sigBytes bs) := by
  obtain ⟨bs0, hb0, hn0⟩ := unhexlify_of_hex n _ hlen (evalSym_hex renv sym hhex hroles)
  have h8 : 8 ≤ (evalSym renv sym).length := by
    have := (evalSym_split8 renv sym c1 h1 hl1)
    rw [this.1]; simp [this.2]
  have hwl : (withLength (evalSym renv sym)).length = 2 * n := by rw [withLength_length _ h8, hlen]
  obtain ⟨bs, hb, hn⟩ := unhexlify_of_hex n _ hwl (withLength_hex _ (evalSym_hex renv sym hhex hroles))
  have hcongr := withLength_congr renv sym ref c1 c2 h1 h2 hl1 hl2 hd
  refine ⟨bs, by rw [← hcongr]; exact hb, hn, ?_⟩
  unfold commandFrame
  rw [formatCall_sym method tmpl env renv sym f hs hf, hr]
  simp only [py_bind_ok, if_true]
  rw [setMessageLength_ok _ bs0 hb0 (by omega)]
  simp only [py_bind_ok]
  exact wireOf_ok _ _ hb

end Model
