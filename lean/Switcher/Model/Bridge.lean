/-
Model.Bridge — src/aioswitcher/bridge.py: `DatagramParser` getters and `_parse_device_from_datagram`
(what one received datagram leads to), and the delivery loop of a running bridge.
-/
import Switcher.Model.Messages
import Switcher.Model.Device
import Switcher.Spec.Broadcast
namespace Model
open Spec

inductive Handled where
  | ignored                 -- not a Switcher broadcast: nothing happens
  | warnUnknown             -- `warn("discovered an unknown switcher device")`, no device
  | raised (e : Exc)        -- an exception escapes into the event loop
  | device (d : Dev)        -- the callback is invoked with this device
deriving Repr, DecidableEq

/-- `is_switcher_originator` -/
def isSwitcherOriginator (m : List Nat) : Bool :=
  slice (hexlify m) 0 4 == cs!"fef0" && (m.length == 165 || m.length == 168 || m.length == 159)

/-- `get_device_type`: `devices.get(hex_model)` -/
def deviceTypeOf (m : List Nat) : Option (String × String × String × Nat × String) :=
  Gen.deviceTypes.find? (fun t => t.2.2.1.toList == hexlify (slice m 74 76))

def dottedQuad (bs : List Nat) : List Char :=
  match bs with
  | [a, b, c, d] => decDigits a ++ ['.'] ++ decDigits b ++ ['.'] ++ decDigits c ++ ['.'] ++ decDigits d
  | _ => []

/-- `get_ip_type1`: the four bytes at 76..79 (byte-swapped into an integer and packed little-endian again: in order) -/
def ipType1 (m : List Nat) : List Char := dottedQuad (slice m 76 80)
/-- `get_ip_type2`: the four bytes at 77..80 in order -/
def ipType2 (m : List Nat) : List Char := dottedQuad (slice m 77 81)

def upperHex (c : Char) : Char := if 'a' ≤ c ∧ c ≤ 'f' then Char.ofNat (c.toNat - 32) else c

def macText (bs : List Nat) : List Char :=
  let h := (hexlify bs).map upperHex
  slice h 0 2 ++ [':'] ++ slice h 2 4 ++ [':'] ++ slice h 4 6 ++ [':'] ++ slice h 6 8 ++ [':'] ++ slice h 8 10 ++ [':'] ++ slice h 10 12

/-- `get_mac` (type 1): bytes 80..85;  `get_mac_type2`: bytes 81..86 -/
def macType1 (m : List Nat) : List Char := macText (slice m 80 86)
def macType2 (m : List Nat) : List Char := macText (slice m 81 87)

/-- `get_name`: `message[42:74].decode().rstrip("\x00")` -/
def nameOf (m : List Nat) : Py (List Char) :=
  match utf8Decode (slice m 42 74) with
  | some cs => pure (rstripNul cs)
  | none => throw .valueError

def deviceIdOf (m : List Nat) : List Char := slice (hexlify m) 36 42
def deviceKeyOf (m : List Nat) : List Char := slice (hexlify m) 80 82

def onValue : List Char := (((Gen.deviceStates.find? (·.1 == "ON")).map (·.2.1)).getD "").toList

/-- `get_device_state` -/
def deviceStateOf (m : List Nat) : String := if slice (hexlify m) 266 268 == onValue then "ON" else "OFF"
/-- `get_thermostat_state` -/
def thermostatStateOf (m : List Nat) : String := if hexlify (slice m 137 138) == onValue then "ON" else "OFF"

def le32Iso (m : List Nat) (a : Nat) : Py (List Char) := do
  let n ← pyIntHex (swap32 (slice (hexlify m) a (a + 8)))
  secondsToIso n

/-- `get_shutter_position`: `int(hex_pos[2:4]) + int(hex_pos[0:2], 16)` — the second byte is read as DECIMAL text -/
def shutterPositionOf (m : List Nat) : Py Nat :=
  let h := hexlify (slice m 135 137)
  let lo := slice h 2 4
  if !lo.isEmpty && lo.all isAsciiDigit then do
    let hi ← pyIntHex (slice h 0 2)
    pure (decVal lo + hi)
  else throw .valueError

/-- `_parse_device_from_datagram` -/
def parseDatagram (m : List Nat) : Handled :=
  if !isSwitcherOriginator m then .ignored else
  let ty := deviceTypeOf m
  let tyName := (ty.map (·.1)).getD ""
  let cat := (ty.map (·.2.2.2.2)).getD ""
  let state := if tyName == "BREEZE" then thermostatStateOf m else deviceStateOf m
  -- power is read (and may raise) before the family is looked at
  let power : Py Nat := if state == "ON" then pyIntHex (swap16 (slice (hexlify m) 270 278)) else pure 0
  match power with
  | .error e => .raised e
  | .ok pw =>
    let amps := if state == "ON" then wattsToAmpsTenths pw else 0
    let base (cls : String) (st : String) (ip mac : List Char) (name : List Char) : Dev :=
      { cls, dtype := tyName, state := st, id := deviceIdOf m, key := deviceKeyOf m, ip, mac, name }
    let res : Py Handled :=
      if ty.isSome && cat == "WATER_HEATER" then do
        let name ← nameOf m
        let remaining ← if state == "ON" then le32Iso m 294 else pure cs!"00:00:00"
        let auto ← le32Iso m 310
        pure (.device { base "SwitcherWaterHeater" state (ipType1 m) (macType1 m) name with
          power := pw, ampsTenths := amps, remaining, autoShutdown := auto })
      else if ty.isSome && cat == "POWER_PLUG" then do
        let name ← nameOf m
        pure (.device { base "SwitcherPowerPlug" state (ipType1 m) (macType1 m) name with power := pw, ampsTenths := amps })
      else if ty.isSome && cat == "SHUTTER" then do
        let name ← nameOf m
        let pos ← shutterPositionOf m
        let dir ← enumByValue Gen.shutterDirections (hexlify (slice m 137 139))
        pure (.device { base "SwitcherShutter" "ON" (ipType2 m) (macType2 m) name with position := pos, direction := dir })
      else if ty.isSome && cat == "THERMOSTAT" then do
        let name ← nameOf m
        let mode := match enumByValue Gen.thermostatModes (hexlify (slice m 138 139)) with
          | .ok x => x
          | .error _ => "COOL"
        let t ← pyIntHex (swap16 (hexlify (slice m 135 137)))
        let target ← pyIntHex (hexlify (slice m 139 140))
        let fs := hexlify (slice m 140 141)
        let fan ← enumByValue Gen.thermostatFanLevels (slice fs 0 1)
        let swOff := (((Gen.thermostatSwings.find? (·.1 == "OFF")).map (·.2.1)).getD "").toList
        let swing := if slice fs 1 2 == swOff then "OFF" else "ON"
        let remote ← match utf8Decode (slice m 143 151) with
          | some cs => pure cs
          | none => throw .valueError
        pure (.device { base "SwitcherThermostat" state (ipType2 m) (macType2 m) name with
          mode, tempTenths := t, target, fan, swing, remote })
      else pure .warnUnknown
    match res with
    | .ok h => h
    | .error e => .raised e

/-- the device delivered for a datagram, if any -/
def deviceOf : Handled → Option Dev
  | .device d => some d
  | _ => none

/-- A running bridge: datagrams arrive on ports, each is handled on its own; a datagram whose handling
    raises, or whose callback raises, is absorbed by the event loop (assumption `loopIsolates`, see DESIGN §5)
    and does not affect any other.  Result: the callback invocations in order. -/
def bridgeRun (arrivals : List (Nat × List Nat)) : List (Nat × Dev) :=
  arrivals.filterMap (fun (p, m) => (deviceOf (parseDatagram m)).map (fun d => (p, d)))

end Model
