/-
Model.Py — the few CPython behaviours the model of aioswitcher relies on, as small executable
definitions.  Each is validated against the interpreter by the correspondence streams
(trusted base: "modelled, not verified").
-/
import Switcher.Spec.Hex
namespace Model
open Spec

/-- Python exception classes that matter to the properties -/
inductive Exc where
  | valueError      -- ValueError and subclasses (binascii.Error, UnicodeDecodeError, struct.error is NOT one)
  | keyError
  | indexError
  | runtimeError
  | structError     -- struct.error
  | typeError
  | attributeError
  | other
deriving DecidableEq, Repr, Inhabited

def Exc.name : Exc → String
  | .valueError => "ValueError" | .keyError => "KeyError" | .indexError => "IndexError"
  | .runtimeError => "RuntimeError" | .structError => "StructError" | .typeError => "TypeError"
  | .attributeError => "AttributeError" | .other => "Other"

abbrev Py := Except Exc

deriving instance DecidableEq for Except

/-- `binascii.unhexlify` raising `binascii.Error` (a ValueError) -/
def pyUnhexlify (s : List Char) : Py (List Nat) :=
  match unhexlify s with
  | some bs => pure bs
  | none => throw .valueError

/-- minimal lower-case hex numeral: `"{:x}".format(n)` -/
def toHexDigits : Nat → List Char
  | n => if _h : n < 16 then [hexDigit n] else toHexDigits (n / 16) ++ [hexDigit (n % 16)]
decreasing_by omega

/-- `str.ljust(w, c)` -/
def ljust (s : List Char) (w : Nat) (c : Char) : List Char := s ++ List.replicate (w - s.length) c

/-- `str.rjust(w, c)` / zero padded `"{:0wx}"` -/
def rjust (s : List Char) (w : Nat) (c : Char) : List Char := List.replicate (w - s.length) c ++ s

/-- `struct.pack("<I", n)` -/
def packLE32 : Int → Py (List Nat)
  | .ofNat k => if k < 4294967296 then pure (le32 k) else throw .structError
  | .negSucc _ => throw .structError

/-- `struct.pack("<H", n)` -/
def packLE16 : Int → Py (List Nat)
  | .ofNat k => if k < 65536 then pure (le16 k) else throw .structError
  | .negSucc _ => throw .structError

/-- `struct.pack(">I", n)` -/
def packBE32 (n : Nat) : List Nat := be32 n

def decDigit (n : Nat) : Char := Char.ofNat (48 + n % 10)

/-- decimal numeral of `n` (`str(n)`), structural on a fuel argument so that the kernel evaluates it -/
def decDigitsFuel : Nat → Nat → List Char
  | 0, n => [decDigit n]
  | f + 1, n => if n < 10 then [decDigit n] else decDigitsFuel f (n / 10) ++ [decDigit n]

def decDigits (n : Nat) : List Char := decDigitsFuel 40 n

/-- two-digit zero padded decimal `"%02d"` -/
def dec2 (n : Nat) : List Char := rjust (decDigits n) 2 '0'

def isAsciiDigit (c : Char) : Bool := '0' ≤ c && c ≤ '9'

/-- value of an ASCII decimal numeral -/
def decVal (cs : List Char) : Nat := cs.foldl (fun a c => a * 10 + (c.toNat - 48)) 0

/-- `time.strptime(s, "%H:%M")` / `datetime.strptime(s, "%H:%M")` on ASCII text: exactly `D{1,2}:D{1,2}`
    with hour ≤ 23 and minute ≤ 59 (the regex `(2[0-3]|[0-1]\d|\d):([0-5]\d|\d)`, full match) -/
def parseHM (s : List Char) : Option (Nat × Nat) :=
  match s.span (· != ':') with
  | (hs, ':' :: ms) =>
    if hs.all isAsciiDigit && ms.all isAsciiDigit && 1 ≤ hs.length && hs.length ≤ 2 && 1 ≤ ms.length && ms.length ≤ 2
        && decVal hs ≤ 23 && decVal ms ≤ 59 then some (decVal hs, decVal ms) else none
  | _ => none

/-- `str(datetime.timedelta(seconds=s))` for 0 ≤ s < 86400: `H:MM:SS` -/
def strTimedelta (s : Nat) : List Char := decDigits (s / 3600) ++ [':'] ++ dec2 (s / 60 % 60) ++ [':'] ++ dec2 (s % 60)

/-- a Python comparison operator by its source text -/
def cmpOp : String → Int → Int → Bool
  | "<", a, b => decide (a < b)
  | "<=", a, b => decide (a ≤ b)
  | ">", a, b => decide (a > b)
  | ">=", a, b => decide (a ≥ b)
  | _, _, _ => false

end Model
