/-
Model.Py — the few CPython behaviours the model of aioswitcher relies on, as small executable
definitions.  Each is validated against the interpreter by the correspondence streams
(trusted base: "modelled, not verified").
-/
import Switcher.Spec.Hex
namespace Model
open Spec

/-- Python exception classes that matter to the properties -/
inductive Exc where
  | valueError      -- ValueError and subclasses (binascii.Error, UnicodeDecodeError, struct.error is NOT one)
  | keyError
  | indexError
  | runtimeError
  | structError     -- struct.error
  | typeError
  | attributeError
  | other
deriving DecidableEq, Repr, Inhabited

def Exc.name : Exc → String
  | .valueError => "ValueError" | .keyError => "KeyError" | .indexError => "IndexError"
  | .runtimeError => "RuntimeError" | .structError => "StructError" | .typeError => "TypeError"
  | .attributeError => "AttributeError" | .other => "Other"

abbrev Py := Except Exc

deriving instance DecidableEq for Except

/-- `binascii.unhexlify` raising `binascii.Error` (a ValueError) -/
def pyUnhexlify (s : List Char) : Py (List Nat) :=
  match unhexlify s with
  | some bs => pure bs
  | none => throw .valueError

/-- minimal lower-case hex numeral: `"{:x}".format(n)` -/
def toHexDigits : Nat → List Char
  | n => if _h : n < 16 then [hexDigit n] else toHexDigits (n / 16) ++ [hexDigit (n % 16)]
decreasing_by omega

/-- `str.ljust(w, c)` -/
def ljust (s : List Char) (w : Nat) (c : Char) : List Char := s ++ List.replicate (w - s.length) c

/-- `str.rjust(w, c)` / zero padded `"{:0wx}"` -/
def rjust (s : List Char) (w : Nat) (c : Char) : List Char := List.replicate (w - s.length) c ++ s

/-- `struct.pack("<I", n)` -/
def packLE32 (n : Int) : Py (List Nat) :=
  if 0 ≤ n ∧ n < 4294967296 then pure (le32 n.toNat) else throw .structError

/-- `struct.pack("<H", n)` -/
def packLE16 (n : Int) : Py (List Nat) :=
  if 0 ≤ n ∧ n < 65536 then pure (le16 n.toNat) else throw .structError

/-- `struct.pack(">I", n)` -/
def packBE32 (n : Nat) : List Nat := be32 n

def decDigits (n : Nat) : List Char := (toString n).toList

/-- two-digit zero padded decimal `"%02d"` -/
def dec2 (n : Nat) : List Char := rjust (decDigits n) 2 '0'

end Model
