/-
Model.LifeC — `SwitcherBridge.start/stop` at the granularity of the code (bridge.py): the `_transports` dictionary, the loop that
binds the configured ports one by one, the `started_ports` list and the rollback in the `except` clause, `stop`'s
`transport and not transport.is_closing()` test.  `Proofs.LifeC` shows that this refines the abstract machine of `Model.Life`.
-/
import Switcher.Model.Life
namespace Model

structure BridgeC where
  ports : List Nat
  table : List (Nat × Nat)      -- `self._transports`: port ↦ transport id (a dictionary: at most one entry per port)
  openT : List (Nat × Nat)      -- this bridge's transports that are open: (id, port), in creation order
  next : Nat                    -- fresh transport ids
  running : Bool                -- `self._is_running`
  others : List Nat             -- ports held by other sockets
deriving Repr, DecidableEq

def BridgeC.openPorts (c : BridgeC) : List Nat := c.openT.map (·.2)

/-- `create_datagram_endpoint(local_addr=("0.0.0.0", p))` succeeds iff nobody holds the port (no SO_REUSEPORT) -/
def BridgeC.free (c : BridgeC) (p : Nat) : Bool := !c.others.contains p && !c.openPorts.contains p

/-- `self._transports[p] = transport` for a newly created transport -/
def BridgeC.bind (c : BridgeC) (p : Nat) : BridgeC :=
  { c with table := (p, c.next) :: c.table.filter (·.1 != p), openT := c.openT ++ [(c.next, p)], next := c.next + 1 }

/-- `transport.close()` -/
def BridgeC.close (c : BridgeC) (tid : Nat) : BridgeC := { c with openT := c.openT.filter (·.1 != tid) }

/-- the `except BaseException:` clause: `for started_port in started_ports: self._transports.pop(started_port).close()` -/
def BridgeC.rollback (c : BridgeC) : List Nat → BridgeC
  | [] => c
  | q :: qs =>
    match c.table.lookup q with
    | some tid => BridgeC.rollback ({ c with table := c.table.filter (·.1 != q) }.close tid) qs
    | none => BridgeC.rollback c qs          -- `pop` would raise KeyError; unreachable (the port was just stored)

/-- the `for broadcast_port in self._broadcast_ports:` loop with its `started_ports` -/
def BridgeC.startLoop (c : BridgeC) : List Nat → List Nat → BridgeC × Out
  | [], _ => ({ c with running := true }, .ok)
  | p :: ps, started =>
    if c.free p then BridgeC.startLoop (c.bind p) ps (started ++ [p])
    else (c.rollback started, .raiseOSError)

/-- `stop`: `for p in ports: t = self._transports.get(p); if t and not t.is_closing(): t.close()`, then `_is_running = False` -/
def BridgeC.stopLoop (c : BridgeC) : List Nat → BridgeC
  | [] => { c with running := false }
  | p :: ps =>
    match c.table.lookup p with
    | some tid => BridgeC.stopLoop (c.close tid) ps       -- closing a transport that is already closed changes nothing
    | none => BridgeC.stopLoop c ps

def bridgeStepC (c : BridgeC) : BridgeAct → BridgeC × Out
  | .start => c.startLoop c.ports []
  | .stop => (c.stopLoop c.ports, .ok)
  | .send p => (c, if c.openPorts.contains p then .delivered else .dropped)
  | .occupy p => if c.free p then ({ c with others := p :: c.others }, .ok) else (c, .busy)
  | .release p => ({ c with others := c.others.filter (· != p) }, .ok)
  | .foreign => (c, .ok)

/-- `start()` in which the bind of port `p` fails although nobody is seen holding it — the task is cancelled while it is suspended
    in that `create_datagram_endpoint`, or the bind raises an error of any class: control leaves the loop through the same
    `except BaseException` clause as for an occupied port.  Expressed with what the machine already has: somebody holds `p` for
    the duration of this call only.  (If `p` is not free anyway, it is a plain start.) -/
def startFailingAt (c : BridgeC) (p : Nat) : BridgeC × Out :=
  if c.free p then
    let r := bridgeStepC (bridgeStepC c (.occupy p)).1 .start
    ((bridgeStepC r.1 (.release p)).1, r.2)
  else bridgeStepC c .start

def bridgeInitC (ports : List Nat) : BridgeC := { ports, table := [], openT := [], next := 0, running := false, others := [] }

/-- what the abstract machine sees of the concrete state -/
def BridgeC.abs (c : BridgeC) : BridgeState :=
  { ports := c.ports, listening := c.openPorts, running := c.running, others := c.others }

def bridgeRunActsC (c : BridgeC) : List BridgeAct → BridgeC × List Out
  | [] => (c, [])
  | a :: as =>
    let (c', o) := bridgeStepC c a
    let (c'', os) := bridgeRunActsC c' as
    (c'', o :: os)

end Model
