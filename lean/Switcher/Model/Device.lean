/-
Model.Device — device/__init__.py: the class guards (`__post_init__`) over the generated tables.
-/
import Switcher.Gen.Tables
import Switcher.Gen.Guards
namespace Model

def typeRow (ty : String) : Option (String × String × String × Nat × String) :=
  Gen.deviceTypes.find? (·.1 == ty)

def categoryOfType (ty : String) : Option String := (typeRow ty).map (·.2.2.2.2)
def protocolOfType (ty : String) : Option Nat := (typeRow ty).map (·.2.2.2.1)
def codeOfType (ty : String) : Option String := (typeRow ty).map (·.2.2.1)

/-- does constructing class `cls` with a device of type `ty` succeed (no ValueError)? -/
def accepts (cls ty : String) : Option Bool :=
  match Gen.classGuards.find? (·.1 == cls), categoryOfType ty with
  | some (_, "!=", cat), some c => some (c == cat)     -- raises when category != cat
  | some (_, "==", cat), some c => some (c != cat)
  | some (_, "is not", cat), some c => some (c == cat)
  | some (_, "is", cat), some c => some (c != cat)
  | _, _ => none

def tcpPort (cat : String) : Option Nat := (Gen.tcpPortOfCategory.find? (·.1 == cat)).map (·.2)
def udpPort (cat : String) : Option Nat := (Gen.udpPortOfCategory.find? (·.1 == cat)).map (·.2)

end Model
