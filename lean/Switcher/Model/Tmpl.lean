/-
Model.Tmpl — `str.format` on the packet templates: literal text and `{}` / `{:02x}` fields.
-/
import Switcher.Model.Py
namespace Tmpl
open Model Spec

inductive Seg where
  | lit (s : List Char)
  | field (spec : String)
deriving Repr, DecidableEq

abbrev Template := List Seg

/-- a value handed to `format`: a `str` or an `int` -/
inductive Arg where
  | s (cs : List Char)
  | i (n : Int)
deriving Repr, DecidableEq

def intText (n : Int) : List Char := if n < 0 then '-' :: decDigits n.natAbs else decDigits n.natAbs

/-- one replacement field -/
def fmtField : String → Arg → Py (List Char)
  | "", .s cs => pure cs
  | "", .i n => pure (intText n)
  | "02x", .i n => pure (if n < 0 then '-' :: toHexDigits n.natAbs else rjust (toHexDigits n.natAbs) 2 '0')
  | "02x", .s _ => throw .valueError
  | _, _ => throw .other

/-- `template.format(*args)`: too few arguments is an IndexError, surplus arguments are ignored -/
def fill : Template → List Arg → Py (List Char)
  | [], _ => pure []
  | .lit s :: t, args => do let r ← fill t args; pure (s ++ r)
  | .field _ :: _, [] => throw .indexError
  | .field spec :: t, a :: args => do
    let x ← fmtField spec a
    let r ← fill t args
    pure (x ++ r)

end Tmpl
