/-
Model.ClientC — `SwitcherApi.connect / disconnect / __aenter__ / __aexit__` at the granularity of the code (api/__init__.py):
the attributes `_reader`, `_writer` (absent until the first successful connect: `hasattr(self, "_writer")`), `_connected`, and the
statements in their order.  `Props.C18.client_code_refines` shows that this refines the abstract machine of `Model.Life`.

    async def connect(self):
        self._reader, self._writer = await open_connection(host=…, port=…, family=AF_INET)     # may raise: nothing assigned
        self._connected = True
    async def disconnect(self):
        if hasattr(self, "_writer") and self._writer:
            self._writer.close(); await self._writer.wait_closed()
        else: (log)
        self._connected = False
    async def __aenter__(self): await self.connect(); return self
    async def __aexit__(self, exc_type, exc_value, traceback): await self.disconnect()          # whatever the exception, if any
-/
import Switcher.Model.Life
namespace Model

structure ClientC where
  writer : Option Nat        -- `_writer`: `none` = the attribute does not exist yet; `some k` = a StreamWriter on socket k (truthy)
  reader : Option Nat        -- `_reader`
  flag : Bool                -- `_connected`
  openS : List Nat           -- sockets this client opened whose transport is not closed
  next : Nat                 -- fresh socket ids
deriving Repr, DecidableEq

/-- the class of what the body of `async with` raised, as `__aexit__` receives it (`exc_type`) -/
inductive BodyExit where
  | normal | exception | connectionError | cancelled | keyboardInterrupt
deriving Repr, DecidableEq

/-- `connect()` with a device that accepts (`open_connection` returns a fresh reader/writer pair).  `reclaim` as in `Model.Life`:
    whether the runtime closes the transport of a StreamWriter that has just lost its last reference. -/
def ClientC.connectOk (reclaim : Bool) (c : ClientC) : ClientC :=
  let openS := if reclaim then c.openS.filter (fun k => some k != c.writer) else c.openS
  { writer := some c.next, reader := some c.next, flag := true, openS := c.next :: openS, next := c.next + 1 }

/-- `disconnect()`: closing a transport that is already closed changes nothing -/
def ClientC.disconnect (c : ClientC) : ClientC :=
  match c.writer with
  | some k => { c with openS := c.openS.filter (· != k), flag := false }
  | none => { c with flag := false }

/-- `async with api: <body>` — `__aenter__`, the body, `__aexit__(exc_type, …)`; the exit does not look at its arguments -/
def ClientC.withBody (reclaim : Bool) (c : ClientC) (_e : BodyExit) : ClientC := (c.connectOk reclaim).disconnect

def clientStepC (reclaim : Bool) (c : ClientC) : ClientAct → ClientC × Out
  | .connectOk => (c.connectOk reclaim, .ok)
  | .connectRefused => (c, .raiseOSError)              -- `open_connection` raised: neither assignment was reached
  | .opOk => (c, .ok)
  | .opRaises => (c, .raiseRuntimeError)
  | .disconnect => (c.disconnect, .ok)
  | .withBody raises => (c.withBody reclaim (if raises then .exception else .normal), if raises then .raiseBodyError else .ok)
  | .foreign => (c, .ok)

def clientInitC : ClientC := { writer := none, reader := none, flag := false, openS := [], next := 0 }

def ClientC.abs (c : ClientC) : ClientState :=
  { connected := c.flag, current := c.writer, openSocks := c.openS, next := c.next }

def clientRunActsC (reclaim : Bool) (c : ClientC) : List ClientAct → ClientC × List Out
  | [] => (c, [])
  | a :: as =>
    let (c', o) := clientStepC reclaim c a
    let (c'', os) := clientRunActsC reclaim c' as
    (c'', o :: os)

end Model
