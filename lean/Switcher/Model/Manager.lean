/-
Model.Manager — `SwitcherBreezeRemoteManager` (src/aioswitcher/api/remotes.py) as a state machine against a file system
whose database files may be written, replaced and removed between calls, and with any number of manager objects.

    def get_remote(self, remote_id):
        if remote_id not in self._remotes_db:
            with open(self._remotes_db_fpath) as remotes_fd:
                self._remotes_db[remote_id] = SwitcherBreezeRemote(load(remotes_fd)[remote_id])
        return self._remotes_db[remote_id]

A database is a JSON object, remote id ↦ IR set (`json.load`: the LAST of two equal keys is the live one).
Remote objects are identified by a serial number given at construction, so "the very same object" is observable.
-/
import Switcher.Model.Remotes
namespace Model

abbrev IrDb := List (List Char × IrSet)

/-- `load(fd)[remote_id]` -/
def IrDb.get (db : IrDb) (id : List Char) : Option IrSet := (db.reverse.find? (·.1 == id)).map (·.2)

structure Mgr where
  path : Nat                                  -- `_remotes_db_fpath`
  cache : List (List Char × (Nat × Remote))    -- `_remotes_db`: id ↦ (object serial, remote); first entry for an id is the live one

structure MgrWorld where
  files : List (Nat × IrDb)      -- the file system now: path ↦ content (first entry for a path is the live one); absent = no such file
  mgrs : List Mgr                -- manager objects, by number of creation
  nextObj : Nat                  -- serial number of the next `SwitcherBreezeRemote` object

inductive MgrAct where
  | create (path : Nat)                    -- `SwitcherBreezeRemoteManager(path)`
  | write (path : Nat) (db : IrDb)         -- the file at `path` is written / replaced
  | remove (path : Nat)
  | get (m : Nat) (id : List Char)         -- `managers[m].get_remote(id)`

inductive MgrOut where
  | done
  | remote (obj : Nat) (r : Remote)        -- the object returned
  | raised (e : Exc)                       -- `.other`: FileNotFoundError; `.keyError`: id not in the file, or from the constructor
  | noSuchManager

def MgrWorld.file (w : MgrWorld) (p : Nat) : Option IrDb := (w.files.find? (·.1 == p)).map (·.2)

def Mgr.cached (m : Mgr) (id : List Char) : Option (Nat × Remote) := (m.cache.find? (·.1 == id)).map (·.2)

/-- what a cache miss does: open the file as it is NOW, pick the set, construct the remote -/
def loadNow (w : MgrWorld) (path : Nat) (id : List Char) : Py Remote :=
  match w.file path with
  | none => throw .other
  | some db =>
    match db.get id with
    | none => throw .keyError
    | some ir => mkRemote ir

def setMgr (ms : List Mgr) (i : Nat) (m : Mgr) : List Mgr := ms.set i m

def mgrStep (w : MgrWorld) : MgrAct → MgrWorld × MgrOut
  | .create p => ({ w with mgrs := w.mgrs ++ [{ path := p, cache := [] }] }, .done)
  | .write p db => ({ w with files := (p, db) :: w.files.filter (·.1 != p) }, .done)
  | .remove p => ({ w with files := w.files.filter (·.1 != p) }, .done)
  | .get i id =>
    match w.mgrs[i]? with
    | none => (w, .noSuchManager)
    | some m =>
      match m.cached id with
      | some (obj, r) => (w, .remote obj r)
      | none =>
        match loadNow w m.path id with
        | .error e => (w, .raised e)
        | .ok r =>
          ({ w with mgrs := setMgr w.mgrs i { m with cache := (id, (w.nextObj, r)) :: m.cache }, nextObj := w.nextObj + 1 },
           .remote w.nextObj r)

def mgrRun (w : MgrWorld) : List MgrAct → MgrWorld × List MgrOut
  | [] => (w, [])
  | a :: as =>
    let (w', o) := mgrStep w a
    let (w'', os) := mgrRun w' as
    (w'', o :: os)

def mgrInit : MgrWorld := { files := [], mgrs := [], nextObj := 0 }

end Model
