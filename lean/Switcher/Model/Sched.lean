/-
Model.Sched — src/aioswitcher/schedule/tools.py, function by function.  Weekdays are indices into
the generated `Gen.days` table (definition order = iteration order of the `Days` enum).
-/
import Switcher.Model.Py
import Switcher.Gen.Tables
namespace Model
open Spec

/-- `Days[i].bit_rep` -/
def dayBitRep (i : Nat) : Nat := (Gen.days[i]?.map (·.2.2.2.1)).getD 0
/-- `Days[i].hex_rep` -/
def dayHexRep (i : Nat) : Nat := (Gen.days[i]?.map (·.2.2.1)).getD 0
/-- `Days[i].weekday` -/
def dayWeekday (i : Nat) : Nat := (Gen.days[i]?.map (·.2.2.2.2)).getD 0
/-- `Days[i].value` (display name) -/
def dayName (i : Nat) : String := (Gen.days[i]?.map (·.2.1)).getD ""

/-- `"{:02x}".format(n)` for n ≥ 0 -/
def fmt02x (n : Nat) : List Char := rjust (toHexDigits n) 2 '0'

/-- the argument forms `weekdays_to_hexadecimal` accepts -/
inductive DaysArg where
  | single (d : Nat)                       -- one `Days` member
  | coll (isSet : Bool) (l : List Nat)     -- a `set` (isSet, hence duplicate-free) or any other sized iterable
deriving Repr

/-- `weekdays_to_hexadecimal` -/
def weekdaysToHex : DaysArg → Py (List Char)
  | .single d => pure (fmt02x (dayBitRep d))
  | .coll isSet l =>
    if l.isEmpty then throw .valueError                       -- `if days:` false
    else if isSet || decide l.Nodup then                     -- `type(days) is set or len(days) == len(set(days))`
      pure (fmt02x ((l.map dayBitRep).sum))
    else throw .valueError

/-- `bit_summary_to_days`: the day indices in iteration order of `Days` -/
def bitSummaryToDays (n : Int) : Py (List Nat) :=
  if 1 < n ∧ n < 255 then
    pure ((List.range Gen.days.length).filter (fun i => dayHexRep i &&& n.toNat != 0))
  else throw .valueError

/-- `calc_duration` -/
def calcDuration (startTime endTime : List Char) : Py (List Char) :=
  match parseHM startTime, parseHM endTime with
  | some (h1, m1), some (h2, m2) =>
    let a := 60 * h1 + m1
    let b := 60 * h2 + m2
    let b' := if b < a then b + 1440 else b          -- `end_datetime += timedelta(days=1)`
    pure (strTimedelta ((b' - a) * 60))
  | _, _ => throw .valueError

end Model
