/-
Model.Sched — src/aioswitcher/schedule/tools.py, function by function.  Weekdays are indices into
the generated `Gen.days` table (definition order = iteration order of the `Days` enum).
-/
import Switcher.Model.Py
import Switcher.Model.Tools
import Switcher.Model.Messages
import Switcher.Spec.Zone
import Switcher.Gen.Tables
import Switcher.Gen.Guards
namespace Model
open Spec

/-- `Days[i].bit_rep` -/
def dayBitRep (i : Nat) : Nat := (Gen.days[i]?.map (·.2.2.2.1)).getD 0
/-- `Days[i].hex_rep` -/
def dayHexRep (i : Nat) : Nat := (Gen.days[i]?.map (·.2.2.1)).getD 0
/-- `Days[i].weekday` -/
def dayWeekday (i : Nat) : Nat := (Gen.days[i]?.map (·.2.2.2.2)).getD 0
/-- `Days[i].value` (display name) -/
def dayName (i : Nat) : String := (Gen.days[i]?.map (·.2.1)).getD ""

/-- `"{:02x}".format(n)` for n ≥ 0 -/
def fmt02x (n : Nat) : List Char := rjust (toHexDigits n) 2 '0'

/-- the argument forms `weekdays_to_hexadecimal` accepts -/
inductive DaysArg where
  | single (d : Nat)                       -- one `Days` member
  | coll (isSet : Bool) (l : List Nat)     -- a `set` (isSet, hence duplicate-free) or any other sized iterable
deriving Repr

/-- `weekdays_to_hexadecimal` -/
def weekdaysToHex : DaysArg → Py (List Char)
  | .single d => pure (fmt02x (dayBitRep d))
  | .coll isSet l =>
    if l.isEmpty then throw .valueError                       -- `if days:` false
    else if isSet || decide l.Nodup then                     -- `type(days) is set or len(days) == len(set(days))`
      pure (fmt02x ((l.map dayBitRep).sum))
    else throw .valueError

/-- `bit_summary_to_days`: the day indices in iteration order of `Days` -/
def bitSummaryToDays (n : Int) : Py (List Nat) :=
  if inChain "bit_summary_to_days" n then            -- `1 < sum_weekdays_bit < 255` (bounds regenerated from the source)
    pure ((List.range Gen.days.length).filter (fun i => dayHexRep i &&& n.toNat != 0))
  else throw .valueError

/-- `calc_duration` -/
def calcDuration (startTime endTime : List Char) : Py (List Char) :=
  match parseHM startTime, parseHM endTime with
  | some (h1, m1), some (h2, m2) =>
    let a := 60 * h1 + m1
    let b := 60 * h2 + m2
    let b' := if b < a then b + 1440 else b          -- `end_datetime += timedelta(days=1)`
    pure (strTimedelta ((b' - a) * 60))
  | _, _ => throw .valueError

/-- `str.split(":")` -/
def splitColon : List Char → List (List Char)
  | [] => [[]]
  | c :: cs =>
    match splitColon cs with
    | [] => [[c]]                      -- unreachable
    | p :: ps => if c == ':' then [] :: p :: ps else (c :: p) :: ps

/-- ASCII characters matched by `\s` in a `str` pattern -/
def isPySpace (c : Char) : Bool := (9 ≤ c.toNat && c.toNat ≤ 13) || (28 ≤ c.toNat && c.toNat ≤ 32)

/-- the clock text `time_to_hexadecimal_timestamp` accepts: `split(":")` must give at least two parts
    (else IndexError); then `strptime(time_value, "%H:%M")` must match the WHOLE text, and
    `strptime(date + " " + p0 + ":" + p1, "%d/%m/%Y %H:%M")` (the blank of the format would absorb leading white space of
    p0, parts after the second would be ignored) gives the hour and minute -/
def parseClock (s : List Char) : Py (Nat × Nat) :=
  match splitColon s with
  | p0 :: p1 :: _ =>
    match parseHM s with
    | none => throw .valueError
    | some _ =>
      match parseHM (p0.dropWhile isPySpace ++ [':'] ++ p1) with
      | some hm => pure hm
      | none => throw .valueError
  | _ => throw .indexError

/-- `time_to_hexadecimal_timestamp` on a host whose zone is a fixed UTC offset of `off` seconds -/
def timeToHexFixed (off now : Int) (s : List Char) : Py (List Char) := do
  let (h, m) ← parseClock s
  let day := (now + off) / 86400
  let t := day * 86400 + 3600 * h + 60 * m - off
  let b ← packLE32 t
  pure (hexlify b)

/-- `hexadecimale_timestamp_to_localtime` on a host whose zone is a fixed UTC offset: `%H:%M` of the local time -/
def hexToLocalFixed (off : Int) (hexTs : List Char) : Py (List Char) := do
  let n ← pyIntHex (swap32 hexTs)
  let w : Int := (n : Int) + off
  pure (dec2 ((w % 86400) / 3600).toNat ++ [':'] ++ dec2 ((w % 3600) / 60).toNat)

/-- weekday (Monday = 0) of the local date of wall-clock second `w` -/
def weekdayOfWall (w : Int) : Nat := ((w / 86400 + 3) % 7).toNat

/-- minute of the day of wall-clock second `w` -/
def minuteOfWall (w : Int) : Nat := ((w % 86400) / 60).toNat

def insertSorted (x : Nat) : List Nat → List Nat
  | [] => [x]
  | y :: ys => if x ≤ y then x :: y :: ys else y :: insertSorted x ys

def sortNats (l : List Nat) : List Nat := l.foldr insertSorted []

/-- which day `pretty_next_run` announces: 0 = today, 1 = tomorrow, 2 + d = "next <weekday d>" -/
def nextRunCode (cur : Nat) (days : List Nat) (ahead : Bool) : Nat :=
  if days.isEmpty then 0
  else if days.contains cur && ahead then 0
  else
    let ds := sortNats days
    let last := ds.getLast?.getD 0
    let nxt := if cur ≥ last then ds.headD 0 else ((ds.filter (fun d => d > cur)).headD 0)
    if nxt = cur + 1 ∨ (nxt = dayWeekday 0 ∧ cur = dayWeekday 6) then 1 else 2 + nxt

/-- `pretty_next_run(start_time, days)` at local wall-clock second `nowWall`; `days` are indices into `Days` -/
def prettyNextRun (nowWall : Int) (start : List Char) (days : List Nat) : Py (List Char) :=
  if days.isEmpty then pure (cs!"Due today at " ++ start)
  else
    match parseHM start with
    | none => throw .valueError
    | some (h, m) =>
      let cur := weekdayOfWall nowWall
      let ahead := decide (minuteOfWall nowWall < 60 * h + m)
      let code := nextRunCode cur (days.map dayWeekday) ahead
      if code = 0 then pure (cs!"Due today at " ++ start)
      else if code = 1 then pure (cs!"Due tomorrow at " ++ start)
      else
        -- weekdays = dict(map(lambda d: (d.weekday, d), Days)); weekdays[next].value
        let nm := ((List.range Gen.days.length).find? (fun i => dayWeekday i == code - 2)).map dayName
        match nm with
        | some n => pure (cs!"Due next " ++ n.toList ++ cs!" at " ++ start)
        | none => throw .keyError

/-- a `SwitcherSchedule` -/
structure SchedRec where
  id : Nat
  recurring : Bool
  days : List Nat
  start : List Char
  stop : List Char
  duration : List Char
  display : List Char
deriving Repr, DecidableEq

/-- `textwrap.wrap(s, 32)` on text without white space: consecutive chunks of 32 characters -/
def wrap32 : (fuel : Nat) → List Char → List (List Char)
  | 0, _ => []
  | _, [] => []
  | f + 1, s => s.take 32 :: wrap32 f (s.drop 32)

/-- `ScheduleParser` getters + `SwitcherSchedule.__post_init__` on one 32-nibble record -/
def parseRecord (off nowWall : Int) (s : List Char) : Py SchedRec := do
  let id ← pyIntHex (slice s 0 2)
  let recurring := slice s 4 6 != cs!"00"
  let days ← if recurring then do
      let n ← pyIntHex (slice s 4 6)
      bitSummaryToDays n
    else pure []
  let start ← hexToLocalFixed off (slice s 8 16)
  let stop ← hexToLocalFixed off (slice s 16 24)
  let duration ← calcDuration start stop
  let display ← prettyNextRun nowWall start days
  pure { id, recurring, days, start, stop, duration, display }

/-- `get_schedules(message)`: records keyed by id, the first record with an id wins -/
def getSchedules (off nowWall : Int) (message : List Nat) : Py (List SchedRec) := do
  let h := hexlify message
  let data := (h.drop 90).take (h.length - 90 - 8)          -- `[90:-8]`
  let recs ← (wrap32 (data.length + 1) data).mapM (parseRecord off nowWall)
  pure (recs.foldl (fun acc r => if acc.any (·.id == r.id) then acc else acc ++ [r]) [])

/-! ### general zones -/

/-- the instants `time.mktime` may return for local wall-clock second `w`: every instant that shows `w`;
    if there is none (`w` falls in a gap) glibc normalises with one of the zone's offsets -/
def mktimeCands (z : Zone) (w : Int) : List Int :=
  let all := (offsetsOf z).map (w - ·)
  let good := all.filter (fun t => wall z t == w)
  (if good.isEmpty then all else good).eraseDups

/-- `hexlify(pack("<I", int(timestamp)))` -/
def encInstant (t : Int) : Py (List Char) :=
  match packLE32 t with
  | .ok b => .ok (hexlify b)
  | .error e => .error e

def encAll : List Int → Py (List (List Char))
  | [] => .ok []
  | t :: ts =>
    match encInstant t, encAll ts with
    | .ok c, .ok cs => .ok (c :: cs)
    | .error e, _ => .error e
    | _, .error e => .error e

/-- `time_to_hexadecimal_timestamp`: every result the host's `mktime` may lead to -/
def timeToHexCands (z : Zone) (now : Int) (s : List Char) : Py (List (List Char)) :=
  match parseClock s with
  | .error e => .error e
  | .ok (h, m) => encAll (mktimeCands z (targetWall z now h m))

/-- `hexadecimale_timestamp_to_localtime` -/
def hexToLocal (z : Zone) (hexTs : List Char) : Py (List Char) := do
  let n ← pyIntHex (swap32 hexTs)
  let w := wall z n
  pure (dec2 ((w % 86400) / 3600).toNat ++ [':'] ++ dec2 ((w % 3600) / 60).toNat)

/-- `ScheduleParser` + `SwitcherSchedule.__post_init__` in a general zone at instant `now` -/
def parseRecordZ (z : Zone) (now : Int) (s : List Char) : Py SchedRec := do
  let id ← pyIntHex (slice s 0 2)
  let recurring := slice s 4 6 != cs!"00"
  let days ← if recurring then do
      let n ← pyIntHex (slice s 4 6)
      bitSummaryToDays n
    else pure []
  let start ← hexToLocal z (slice s 8 16)
  let stop ← hexToLocal z (slice s 16 24)
  let duration ← calcDuration start stop
  let display ← prettyNextRun (wall z now) start days
  pure { id, recurring, days, start, stop, duration, display }

def getSchedulesZ (z : Zone) (now : Int) (message : List Nat) : Py (List SchedRec) := do
  let h := hexlify message
  let data := (h.drop 90).take (h.length - 90 - 8)
  let recs ← (wrap32 (data.length + 1) data).mapM (parseRecordZ z now)
  pure (recs.foldl (fun acc r => if acc.any (·.id == r.id) then acc else acc ++ [r]) [])

end Model
