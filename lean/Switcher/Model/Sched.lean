/-
Model.Sched — src/aioswitcher/schedule/tools.py, function by function.  Weekdays are indices into
the generated `Gen.days` table (definition order = iteration order of the `Days` enum).
-/
import Switcher.Model.Py
import Switcher.Model.Tools
import Switcher.Gen.Tables
import Switcher.Gen.Guards
namespace Model
open Spec

/-- `Days[i].bit_rep` -/
def dayBitRep (i : Nat) : Nat := (Gen.days[i]?.map (·.2.2.2.1)).getD 0
/-- `Days[i].hex_rep` -/
def dayHexRep (i : Nat) : Nat := (Gen.days[i]?.map (·.2.2.1)).getD 0
/-- `Days[i].weekday` -/
def dayWeekday (i : Nat) : Nat := (Gen.days[i]?.map (·.2.2.2.2)).getD 0
/-- `Days[i].value` (display name) -/
def dayName (i : Nat) : String := (Gen.days[i]?.map (·.2.1)).getD ""

/-- `"{:02x}".format(n)` for n ≥ 0 -/
def fmt02x (n : Nat) : List Char := rjust (toHexDigits n) 2 '0'

/-- the argument forms `weekdays_to_hexadecimal` accepts -/
inductive DaysArg where
  | single (d : Nat)                       -- one `Days` member
  | coll (isSet : Bool) (l : List Nat)     -- a `set` (isSet, hence duplicate-free) or any other sized iterable
deriving Repr

/-- `weekdays_to_hexadecimal` -/
def weekdaysToHex : DaysArg → Py (List Char)
  | .single d => pure (fmt02x (dayBitRep d))
  | .coll isSet l =>
    if l.isEmpty then throw .valueError                       -- `if days:` false
    else if isSet || decide l.Nodup then                     -- `type(days) is set or len(days) == len(set(days))`
      pure (fmt02x ((l.map dayBitRep).sum))
    else throw .valueError

/-- `bit_summary_to_days`: the day indices in iteration order of `Days` -/
def bitSummaryToDays (n : Int) : Py (List Nat) :=
  if inChain "bit_summary_to_days" n then            -- `1 < sum_weekdays_bit < 255` (bounds regenerated from the source)
    pure ((List.range Gen.days.length).filter (fun i => dayHexRep i &&& n.toNat != 0))
  else throw .valueError

/-- `calc_duration` -/
def calcDuration (startTime endTime : List Char) : Py (List Char) :=
  match parseHM startTime, parseHM endTime with
  | some (h1, m1), some (h2, m2) =>
    let a := 60 * h1 + m1
    let b := 60 * h2 + m2
    let b' := if b < a then b + 1440 else b          -- `end_datetime += timedelta(days=1)`
    pure (strTimedelta ((b' - a) * 60))
  | _, _ => throw .valueError

/-- `str.split(":")` -/
def splitColon : List Char → List (List Char)
  | [] => [[]]
  | c :: cs =>
    match splitColon cs with
    | [] => [[c]]                      -- unreachable
    | p :: ps => if c == ':' then [] :: p :: ps else (c :: p) :: ps

/-- ASCII characters matched by `\s` in a `str` pattern -/
def isPySpace (c : Char) : Bool := (9 ≤ c.toNat && c.toNat ≤ 13) || (28 ≤ c.toNat && c.toNat ≤ 32)

/-- the clock text `time_to_hexadecimal_timestamp` accepts: `split(":")` must give at least two parts
    (else IndexError); then `strptime(date + " " + p0 + ":" + p1, "%d/%m/%Y %H:%M")` must match: the blank of the
    format absorbs leading white space of p0, parts after the second are ignored -/
def parseClock (s : List Char) : Py (Nat × Nat) :=
  match splitColon s with
  | p0 :: p1 :: _ =>
    match parseHM (p0.dropWhile isPySpace ++ [':'] ++ p1) with
    | some hm => pure hm
    | none => throw .valueError
  | _ => throw .indexError

/-- `time_to_hexadecimal_timestamp` on a host whose zone is a fixed UTC offset of `off` seconds -/
def timeToHexFixed (off now : Int) (s : List Char) : Py (List Char) := do
  let (h, m) ← parseClock s
  let day := (now + off) / 86400
  let t := day * 86400 + 3600 * h + 60 * m - off
  let b ← packLE32 t
  pure (hexlify b)

end Model
