/-
Model.Life — the two small life cycles: `SwitcherBridge.start/stop/__aenter__/__aexit__` (bridge.py) against a
world in which other sockets may hold ports, and `SwitcherApi.connect/disconnect/__aenter__/__aexit__`
(api/__init__.py) against a device that may refuse connections.
-/
namespace Model

/-- what the caller (or the sender / the other socket) observes of one action -/
inductive Out where
  | ok | raiseOSError | delivered | dropped | busy | raiseRuntimeError | raiseBodyError
deriving Repr, DecidableEq

def Out.text : Out → String
  | .ok => "ok" | .raiseOSError => "raise OSError" | .delivered => "delivered" | .dropped => "dropped" | .busy => "busy"
  | .raiseRuntimeError => "raise RuntimeError" | .raiseBodyError => "raise BodyError"

/-! ### the UDP bridge -/

structure BridgeState where
  ports : List Nat          -- configured broadcast ports
  listening : List Nat      -- ports on which this bridge currently has an open transport
  running : Bool
  others : List Nat         -- ports held by other sockets
deriving Repr, DecidableEq

inductive BridgeAct where
  | start | stop
  | send (port : Nat)       -- a valid broadcast arrives on `port`
  | occupy (port : Nat)     -- another socket binds `port`
  | release (port : Nat)
  | foreign                 -- something that is none of this bridge's business happens (another bridge OBJECT with the same ports
                            -- is stopped, or tries in vain to start): nothing changes for this one
deriving Repr, DecidableEq

def portFree (s : BridgeState) (p : Nat) : Bool := !s.others.contains p && !s.listening.contains p

/-- one action; the output is what the caller / the sender / the other socket observes -/
def bridgeStep (s : BridgeState) : BridgeAct → BridgeState × Out
  | .start =>
    -- ports are bound one by one; on the first failure everything this call opened is closed again and the error is raised
    if s.ports.all (portFree s) && s.ports.Nodup then ({ s with listening := s.listening ++ s.ports, running := true }, .ok)
    else (s, .raiseOSError)
  | .stop => ({ s with listening := s.listening.filter (fun p => !s.ports.contains p), running := false }, .ok)
  | .send p => (s, if s.listening.contains p then .delivered else .dropped)
  | .occupy p => if portFree s p then ({ s with others := p :: s.others }, .ok) else (s, .busy)
  | .release p => ({ s with others := s.others.filter (· != p) }, .ok)
  | .foreign => (s, .ok)

def bridgeRunActs (s : BridgeState) : List BridgeAct → BridgeState × List Out
  | [] => (s, [])
  | a :: as =>
    let (s', o) := bridgeStep s a
    let (s'', os) := bridgeRunActs s' as
    (s'', o :: os)

def bridgeInit (ports : List Nat) : BridgeState := { ports, listening := [], running := false, others := [] }

/-! ### the TCP client -/

structure ClientState where
  connected : Bool
  current : Option Nat       -- the socket `_writer` refers to (it stays referenced after being closed)
  openSocks : List Nat       -- sockets opened by this client and not yet closed
  next : Nat                 -- fresh socket ids
deriving Repr, DecidableEq

inductive ClientAct where
  | connectOk | connectRefused
  | opOk | opRaises
  | disconnect
  | withBody (raises : Bool)      -- `async with api:` body that returns / raises
  | foreign                       -- anything ANOTHER client object does (connect, operate, disconnect — to the same device or not)
deriving Repr, DecidableEq

/-- `connect()`.  `reclaim`: what the runtime does with the socket of an earlier connection that the client connects over
    without disconnecting — the client just overwrites its reader/writer; on CPython ≥ 3.11.5 the unreferenced
    `StreamWriter` closes its transport when it is collected (`reclaim = true`, what the harness observes here), on older
    runtimes it stays open until the process ends (`reclaim = false`). -/
def clientConnect (reclaim : Bool) (s : ClientState) : ClientState :=
  { connected := true, current := some s.next, next := s.next + 1,
    openSocks := s.next :: (if reclaim then s.openSocks.filter (fun k => some k != s.current) else s.openSocks) }

def clientDisconnect (s : ClientState) : ClientState :=
  match s.current with
  | some k => { s with connected := false, openSocks := s.openSocks.filter (· != k) }
  | none => { s with connected := false }

/-- output: what the caller sees ("ok" / "raise …") -/
def clientStep (reclaim : Bool) (s : ClientState) : ClientAct → ClientState × Out
  | .connectOk => (clientConnect reclaim s, .ok)
  | .connectRefused => (s, .raiseOSError)
  | .opOk => (s, .ok)
  | .opRaises => (s, .raiseRuntimeError)
  | .disconnect => (clientDisconnect s, .ok)
  | .withBody raises => (clientDisconnect (clientConnect reclaim s), if raises then .raiseBodyError else .ok)
  | .foreign => (s, .ok)

def clientRunActs (reclaim : Bool) (s : ClientState) : List ClientAct → ClientState × List Out
  | [] => (s, [])
  | a :: as =>
    let (s', o) := clientStep reclaim s a
    let (s'', os) := clientRunActs reclaim s' as
    (s'', o :: os)

def clientInit : ClientState := { connected := false, current := none, openSocks := [], next := 0 }

end Model
