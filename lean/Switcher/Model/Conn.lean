/-
Model.Conn — operations in sequence on one connection, and several API instances whose exchanges
are interleaved by the event loop.  An instance owns its configuration, its queue of operations
(each with the clock reading taken when it starts) and nothing else: that is the share-nothing
structure C03 is about, and what the correspondence stream checks the Python objects against.
-/
import Switcher.Model.Api
namespace Model

inductive Ev where
  | sent (frame : List Nat)
  | got (reply : List Nat)
  | fin (outcome : Py Resp)

structure Inst where
  cur : Option Prog
  queue : List Prog
  trace : List Ev

/-- one scheduling step of an instance: the reply it was waiting for arrives (or, when it is between
    operations, the next operation starts and the delivered value is ignored) -/
def stepInst (s : Inst) (reply : List Nat) : Inst :=
  match s.cur with
  | some (.send f k) => { s with cur := some (k reply), trace := s.trace ++ [.sent f, .got reply] }
  | some (.done r) =>
    match s.queue with
    | [] => { s with cur := none, trace := s.trace ++ [.fin r] }
    | p :: q => { cur := some p, queue := q, trace := s.trace ++ [.fin r] }
  | none =>
    match s.queue with
    | [] => s
    | p :: q => { s with cur := some p, queue := q }

/-- a system: instance number ↦ instance state -/
abbrev Sys := Nat → Inst

def stepSys (sys : Sys) (x : Nat × List Nat) : Sys :=
  fun j => if j = x.1 then stepInst (sys j) x.2 else sys j

/-- a schedule: which instance moves next, and with which reply -/
def run (sys : Sys) (sched : List (Nat × List Nat)) : Sys := sched.foldl stepSys sys

def runInst (s : Inst) (replies : List (List Nat)) : Inst := replies.foldl stepInst s

/-- the replies a schedule delivers to instance `i`, in order -/
def proj (i : Nat) (sched : List (Nat × List Nat)) : List (List Nat) :=
  (sched.filter (fun x => x.1 = i)).map (·.2)

/-- the programs of an instance: every operation with its own clock reading, one configuration -/
def mkInst (cfg : Cfg) (off : Int) (ops : List (Int × Req)) : Inst :=
  { cur := none, queue := ops.map (fun o => prog cfg o.1 off o.2), trace := [] }

/-- number of frames an operation can write at most -/
def Prog.maxSends : Prog → (bound : Nat) → Prop
  | .done _, _ => True
  | .send _ _, 0 => False
  | .send _ k, n + 1 => ∀ r, Prog.maxSends (k r) n

end Model
