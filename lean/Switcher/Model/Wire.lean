/-
Model.Wire — the line protocol shared by `modeldriver` and `specjudge`: tokens are separated by
one blank; arbitrary text travels as the hex of its UTF-8 bytes prefixed with `u:`; byte strings as
plain hex (`-` for the empty string).
-/
import Switcher.Spec.Hex
namespace Wire
open Spec

def hexOfBytes (bs : List Nat) : String := if bs.isEmpty then "-" else String.ofList (hexlify bs)

def bytesOfHex? (s : String) : Option (List Nat) := if s == "-" then some [] else unhexlify s.toList

/-- decode a `u:<hex>` token to text -/
def text? (tok : String) : Option (List Char) :=
  if tok.startsWith "u:" then
    match bytesOfHex? ((tok.drop 2).toString) with
    | some bs =>
      match String.fromUTF8? (ByteArray.mk (bs.map (·.toUInt8)).toArray) with
      | some s => some s.toList
      | none => none
    | none => none
  else some tok.toList

def encText (cs : List Char) : String :=
  "u:" ++ hexOfBytes ((String.ofList cs).toUTF8.toList.map (·.toNat))

def nat? (s : String) : Option Nat := s.toNat?
def int? (s : String) : Option Int := s.toInt?

partial def loop (h : IO.FS.Stream) (out : IO.FS.Stream) (f : List String → String) : IO Unit := do
  let line ← h.getLine
  if line.isEmpty then return ()
  let toks := (line.trimAscii.toString.splitOn " ").filter (· ≠ "")
  out.putStrLn (f toks)
  loop h out f

end Wire
