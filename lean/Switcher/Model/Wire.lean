/-
Model.Wire — the line protocol shared by `modeldriver` and `specjudge`: tokens are separated by
one blank; arbitrary text travels as the hex of its UTF-8 bytes prefixed with `u:`; byte strings as
plain hex (`-` for the empty string).
-/
import Switcher.Spec.Hex
import Switcher.Spec.Broadcast
namespace Wire
open Spec

def hexOfBytes (bs : List Nat) : String := if bs.isEmpty then "-" else String.ofList (hexlify bs)

def bytesOfHex? (s : String) : Option (List Nat) := if s == "-" then some [] else unhexlify s.toList

/-- decode a `u:<hex>` token to text -/
def text? (tok : String) : Option (List Char) :=
  if tok.startsWith "u:" then
    match bytesOfHex? ((tok.drop 2).toString) with
    | some bs =>
      match String.fromUTF8? (ByteArray.mk (bs.map (·.toUInt8)).toArray) with
      | some s => some s.toList
      | none => none
    | none => none
  else some tok.toList

def encText (cs : List Char) : String :=
  "u:" ++ hexOfBytes ((String.ofList cs).toUTF8.toList.map (·.toNat))

def nat? (s : String) : Option Nat := s.toNat?
def int? (s : String) : Option Int := s.toInt?

def tenths (n : Nat) : String := s!"{n / 10}.{n % 10}"

def showDev (d : Dev) : String :=
  let base := s!"{d.cls} {d.dtype} {d.state} {String.ofList d.id} {String.ofList d.key} {String.ofList d.ip} {String.ofList d.mac} {encText d.name}"
  if d.cls == "SwitcherWaterHeater" then s!"{base} {d.power} {tenths d.ampsTenths} {String.ofList d.remaining} {String.ofList d.autoShutdown}"
  else if d.cls == "SwitcherPowerPlug" then s!"{base} {d.power} {tenths d.ampsTenths}"
  else if d.cls == "SwitcherShutter" then s!"{base} {d.position} {d.direction}"
  else s!"{base} {d.mode} {tenths d.tempTenths} {d.target} {d.fan} {d.swing} {encText d.remote}"

partial def loop (h : IO.FS.Stream) (out : IO.FS.Stream) (f : List String → String) : IO Unit := do
  let line ← h.getLine
  if line.isEmpty then return ()
  let toks := (line.trimAscii.toString.splitOn " ").filter (· ≠ "")
  out.putStrLn (f toks)
  loop h out f

end Wire
