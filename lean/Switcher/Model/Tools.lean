/-
Model.Tools — src/aioswitcher/device/tools.py, function by function.
-/
import Switcher.Spec.Crc
import Switcher.Model.Py
import Switcher.Spec.Utf8
import Switcher.Spec.Amps
import Switcher.Gen.Guards
namespace Model
open Spec

/-- `sign_packet_with_crc_key`, line by line (`crc_hqx` is `Spec.crc16`; the equality of the two
    is what the C04 correspondence stream validates) -/
def sign (hexPacket : List Char) : Py (List Char) := do
  let binaryPacket ← pyUnhexlify hexPacket
  let hexPacketCrc := hexlify (packBE32 (crc16 0x1021 binaryPacket))
  let hexPacketCrcSliced := slice hexPacketCrc 6 8 ++ slice hexPacketCrc 4 6
  let binaryKey ← pyUnhexlify (hexPacketCrcSliced ++ (List.replicate 32 ['3', '0']).flatten)
  let hexKeyCrc := hexlify (packBE32 (crc16 0x1021 binaryKey))
  let hexKeyCrcSliced := slice hexKeyCrc 6 8 ++ slice hexKeyCrc 4 6
  pure (hexPacket ++ hexPacketCrcSliced ++ hexKeyCrcSliced)

/-- the generated range guard `lo op1 x op2 hi` of a function -/
def inChain (fname : String) (x : Int) : Bool :=
  match Gen.chainGuards.find? (·.1 == fname) with
  | some (_, lo, op1, op2, hi) => cmpOp op1 lo x && cmpOp op2 x hi
  | none => false

/-- `minutes_to_hexadecimal_seconds` -/
def minutesToHex (minutes : Int) : Py (List Char) := do
  let b ← packLE32 (minutes * 60)
  pure (hexlify b)

/-- `timedelta_to_hexadecimal_seconds`; the argument is the timedelta in microseconds.
    `total_seconds()/60`, `divmod(·, 60)` and the two `int()` amount to whole minutes × 60. -/
def timedeltaToHex (micros : Int) : Py (List Char) :=
  let seconds := 60 * (micros / 60000000)
  if inChain "timedelta_to_hexadecimal_seconds" seconds then do
    let b ← packLE32 seconds
    pure (hexlify b)
  else throw .valueError

/-- `string_to_hexadecimale_device_name` -/
def nameToHex (name : List Char) : Py (List Char) :=
  let encoded := utf8Encode name
  if 1 < name.length ∧ encoded.length < 33 then
    pure (hexlify encoded ++ (List.replicate (32 - encoded.length) ['0', '0']).flatten)
  else throw .valueError

/-- `current_timestamp_to_hexadecimal` given the rounded clock reading -/
def timestampToHex (now : Int) : Py (List Char) := do
  let b ← packLE32 now
  pure (hexlify b)

/-- `set_message_length` -/
def setMessageLength (message : List Char) : Py (List Char) := do
  let bs ← pyUnhexlify (message ++ cs!"00000000")
  let l ← packLE16 bs.length
  pure (cs!"fef0" ++ hexlify l ++ message.drop 8)

/-- `seconds_to_iso_time`: `datetime.time(hour, minute, second).isoformat()`; hour ≥ 24 raises ValueError -/
def secondsToIso (allSeconds : Nat) : Py (List Char) :=
  let minutes := allSeconds / 60
  let seconds := allSeconds % 60
  let hours := minutes / 60
  let minutes := minutes % 60
  if hours < 24 then pure (dec2 hours ++ [':'] ++ dec2 minutes ++ [':'] ++ dec2 seconds) else throw .valueError

/-- `watts_to_amps` in tenths of an ampere -/
def wattsToAmpsTenths (w : Nat) : Nat := ampsTenths w

end Model
