/-
Model.Tools — src/aioswitcher/device/tools.py, function by function.
-/
import Switcher.Spec.Crc
import Switcher.Model.Py
namespace Model
open Spec

/-- `sign_packet_with_crc_key`, line by line (`crc_hqx` is `Spec.crc16`; the equality of the two
    is what the C04 correspondence stream validates) -/
def sign (hexPacket : List Char) : Py (List Char) := do
  let binaryPacket ← pyUnhexlify hexPacket
  let hexPacketCrc := hexlify (packBE32 (crc16 0x1021 binaryPacket))
  let hexPacketCrcSliced := slice hexPacketCrc 6 8 ++ slice hexPacketCrc 4 6
  let binaryKey ← pyUnhexlify (hexPacketCrcSliced ++ (List.replicate 32 ['3', '0']).flatten)
  let hexKeyCrc := hexlify (packBE32 (crc16 0x1021 binaryKey))
  let hexKeyCrcSliced := slice hexKeyCrc 6 8 ++ slice hexKeyCrc 4 6
  pure (hexPacket ++ hexPacketCrcSliced ++ hexKeyCrcSliced)

end Model
