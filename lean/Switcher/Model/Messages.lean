/-
Model.Messages — src/aioswitcher/api/messages.py: `StateMessageParser` getters and the response
dataclasses' `__post_init__`, in the order the code evaluates them (the first failing getter
decides which exception escapes).  Enum members are their names from the generated tables.
-/
import Switcher.Model.Tools
import Switcher.Gen.Tables
namespace Model
open Spec

/-- `dict(map(lambda s: (s.value, s), Enum))[key]` -/
def enumByValue (table : List (String × String × String)) (v : List Char) : Py String :=
  match table.find? (fun r => r.2.1.toList == v) with
  | some r => pure r.1
  | none => throw .keyError

/-- `int(hex, 16)` on ASCII hex text taken from `hexlify` output -/
def pyIntHex (cs : List Char) : Py Nat :=
  match hexNat? cs with
  | some n => pure n
  | none => throw .valueError

/-- the recurring idiom `x[6:8] + x[4:6] + x[2:4] + x[0:2]` -/
def swap32 (x : List Char) : List Char := slice x 6 8 ++ slice x 4 6 ++ slice x 2 4 ++ slice x 0 2

def swap16 (x : List Char) : List Char := slice x 2 4 ++ slice x 0 2

structure StateResp where
  state : String
  timeLeft : List Char
  timeOn : List Char
  autoShutdown : List Char
  power : Nat
  ampsTenths : Nat
deriving Repr, DecidableEq

structure ThermoResp where
  state : String
  mode : String
  fan : String
  tempTenths : Nat
  target : Nat
  swing : String
  remoteId : List Char
deriving Repr, DecidableEq

structure ShutterResp where
  position : Nat
  direction : String
deriving Repr, DecidableEq

/-- `SwitcherBaseResponse.successful` -/
def successful (raw : List Nat) : Bool := !raw.isEmpty

/-- `SwitcherLoginResponse.session_id` -/
def sessionId (raw : List Nat) : List Char := slice (hexlify raw) 16 24

/-- `SwitcherStateResponse.__post_init__` -/
def parseState (raw : List Nat) : Py StateResp := do
  let h := hexlify raw
  let state ← enumByValue Gen.deviceStates (slice h 150 152)
  let tl ← pyIntHex (swap32 (slice h 178 186))
  let timeLeft ← secondsToIso tl
  let to ← pyIntHex (swap32 (slice h 186 194))
  let timeOn ← secondsToIso to
  let ao ← pyIntHex (swap32 (slice h 194 202))
  let autoShutdown ← secondsToIso ao
  let power ← pyIntHex (swap16 (slice h 154 162))
  pure { state, timeLeft, timeOn, autoShutdown, power, ampsTenths := wattsToAmpsTenths power }

def memberOfValue (table : List (String × String × String)) (v : String) : String :=
  ((table.find? (·.2.1 == v)).map (·.1)).getD ""

/-- `SwitcherThermostatStateResponse.__post_init__` -/
def parseThermo (raw : List Nat) : Py ThermoResp := do
  let h := hexlify raw
  let offV := ((Gen.deviceStates.find? (·.1 == "OFF")).map (·.2.1)).getD ""
  let state := if slice h 156 158 == offV.toList then "OFF" else "ON"
  let mode := match enumByValue Gen.thermostatModes (slice h 158 160) with
    | .ok m => m
    | .error _ => "COOL"
  let fan := match enumByValue Gen.thermostatFanLevels (slice h 162 163) with
    | .ok m => m
    | .error _ => "LOW"
  let t ← pyIntHex (slice h 154 156 ++ slice h 152 154)
  let target ← pyIntHex (slice h 160 162)
  let swOff := ((Gen.thermostatSwings.find? (·.1 == "OFF")).map (·.2.1)).getD ""
  let swing := if slice h 163 164 == swOff.toList then "OFF" else "ON"
  let rid ← match utf8Decode (slice raw 84 92) with
    | some cs => pure (rstripNul cs)
    | none => throw .valueError
  pure { state, mode, fan, tempTenths := t, target, swing, remoteId := rid }

/-- `SwitcherShutterStateResponse.__post_init__` (direction first, then position) -/
def parseShutter (raw : List Nat) : Py ShutterResp := do
  let h := hexlify raw
  let direction ← enumByValue Gen.shutterDirections (slice h 156 160)
  let position ← pyIntHex (slice h 152 154)
  pure { position, direction }

end Model
