/-
Model.Api — src/aioswitcher/api/__init__.py: `_login` and every public operation of both API
classes as interaction programs.  Templates and the argument wiring of every `format` call are
taken from the generated `Gen.Packets` / `Gen.Wiring`; the control flow around them is modelled by
hand and validated by the correspondence streams (C01, C02, C03, C09, C16).
-/
import Switcher.Model.Tmpl
import Switcher.Model.Tools
import Switcher.Model.Messages
import Switcher.Model.Remotes
import Switcher.Model.Sched
import Switcher.Gen.Packets
import Switcher.Gen.Wiring
namespace Model
open Spec Tmpl

structure Cfg where
  deviceId : List Char
  deviceKey : List Char
deriving Repr

inductive Resp where
  | base (raw : List Nat)
  | state (raw : List Nat) (r : StateResp)
  | thermo (raw : List Nat) (r : ThermoResp)
  | shutter (raw : List Nat) (r : ShutterResp)
  | schedules (raw : List Nat) (recs : List SchedRec)
deriving Repr

/-- an operation on an open connection: write a frame and read the reply, finitely often, then finish -/
inductive Prog where
  | send (frame : List Nat) (k : List Nat → Prog)
  | done (r : Py Resp)

abbrev Env := List (String × Arg)

def wiringRow (method : String) : Option (String × String × String × String × Bool × List (String × List String)) :=
  Gen.wiring.find? (fun r => r.2.1 == method)

def templateNamed (name : String) : Option Template := (Gen.templates.find? (·.1 == name)).map (·.2)

/-- text of a constant template (no fields), e.g. NO_TIMER_REQUESTED -/
def constText (name : String) : Py (List Char) :=
  match templateNamed name with
  | some t => fill t []
  | none => throw .attributeError

def argOf (env : Env) (e : String) : Option Arg := (env.find? (·.1 == e)).map (·.2)

def envArgs (env : Env) : List String → Py (List Arg)
  | [] => pure []
  | e :: es => match argOf env e with
    | some a => do let r ← envArgs env es; pure (a :: r)
    | none => throw .other                       -- an argument expression the model does not know

/-- template and argument expressions of the call `packets.<tmpl>.format(…)` in `method`, from the generated data -/
def callData (method tmpl : String) : Option (Template × List String) :=
  match wiringRow method, templateNamed tmpl with
  | some row, some t => (row.2.2.2.2.2.find? (·.1 == tmpl)).map (fun c => (t, c.2))
  | _, _ => none

/-- `packets.<tmpl>.format(<wired args>)` as it occurs in `method` -/
def formatCall (method tmpl : String) (env : Env) : Py (List Char) :=
  match callData method tmpl with
  | some (t, argExprs) => do let args ← envArgs env argExprs; fill t args
  | none => throw .other

def routesThroughSetLength (method : String) : Bool := ((wiringRow method).map (·.2.2.2.2.1)).getD false
def guardStyle (method : String) : String := ((wiringRow method).map (·.2.2.2.1)).getD "none"
def loginVariantText (method : String) : String := ((wiringRow method).map (·.2.2.1)).getD "type1"

/-- sign and convert to the bytes handed to `writer.write` -/
def wireOf (packet : List Char) : Py (List Nat) := do
  let signed ← sign packet
  pyUnhexlify signed

/-- the command frame of `method` built from template `tmpl` -/
def commandFrame (method tmpl : String) (env : Env) : Py (List Nat) := do
  let packet ← formatCall method tmpl env
  let packet ← if routesThroughSetLength method then setMessageLength packet else pure packet
  wireOf packet

/-- `_login`'s choice: type 2 login iff the caller passed BREEZE, RUNNER or RUNNER_MINI -/
def isType2Login (variant : String) : Bool :=
  variant == "DeviceType.BREEZE" || variant == "DeviceType.RUNNER" || variant == "DeviceType.RUNNER_MINI"

def loginFrame (cfg : Cfg) (ts : List Char) (variant : String) : Py (List Nat) := do
  let env : Env := [("timestamp", .s ts), ("self._device_id", .s cfg.deviceId), ("self._device_key", .s cfg.deviceKey)]
  let packet ← formatCall "_login" (if isType2Login variant then "LOGIN2_PACKET_TYPE2" else "LOGIN_PACKET_TYPE1") env
  wireOf packet

def baseEnv (cfg : Cfg) (ts : List Char) (loginRaw : List Nat) : Env :=
  [("login_resp.session_id", .s (sessionId loginRaw)), ("session_id", .s (sessionId loginRaw)),
   ("timestamp", .s ts), ("self._device_id", .s cfg.deviceId), ("self._device_key", .s cfg.deviceKey)]

/-- `await self._login(...)` followed by the rest of the operation -/
def withLogin (cfg : Cfg) (now : Int) (method : String) (k : List Char → List Nat → Prog) : Prog :=
  match timestampToHex now with
  | .error e => .done (.error e)
  | .ok ts =>
    match loginFrame cfg ts (loginVariantText method) with
    | .error e => .done (.error e)
    | .ok f => .send f (fun raw => k ts raw)

/-- does the method's guard on the login reply stop the operation? -/
def guardStops (method : String) (loginRaw : List Nat) : Bool :=
  let g := guardStyle method
  (g == "raise-if-not-successful" || g == "only-if-successful") && !successful loginRaw

/-- the common shape: login, guard, encode the arguments, one command frame, wrap the reply -/
def simpleOp (cfg : Cfg) (now : Int) (method tmpl : String) (extra : Py Env) (finish : List Nat → Py Resp) : Prog :=
  withLogin cfg now method fun ts raw =>
    if guardStops method raw then .done (.error .runtimeError) else
    match extra with
    | .error e => .done (.error e)
    | .ok ex =>
      match commandFrame method tmpl (baseEnv cfg ts raw ++ ex) with
      | .error e => .done (.error e)
      | .ok f => .send f (fun r => .done (finish r))

def catchKV (p : Py α) : Py α :=
  match p with
  | .error .keyError => .error .runtimeError
  | .error .valueError => .error .runtimeError
  | x => x

def finishState (r : List Nat) : Py Resp :=
  match catchKV (parseState r) with
  | .ok s => if successful r then pure (.state r s) else throw .runtimeError
  | .error e => throw e

def finishThermo (r : List Nat) : Py Resp := (catchKV (parseThermo r)).map (.thermo r)
def finishShutter (r : List Nat) : Py Resp := (catchKV (parseShutter r)).map (.shutter r)

def commandValue (on : Bool) : List Char :=
  (((Gen.commands.find? (·.1 == (if on then "ON" else "OFF"))).map (·.2)).getD "").toList

/-- the public operations with their Python-level arguments -/
inductive Req where
  | getState
  | controlDevice (on : Bool) (minutes : Int)
  | setAutoShutdown (micros : Int)
  | setDeviceName (name : List Char)
  | getSchedules
  | deleteSchedule (id : List Char)
  | createSchedule (start stop : List Char) (isSet : Bool) (days : List Nat)
  | stop
  | setPosition (pos : Int)
  | getShutterState
  | getBreezeState
  | controlBreeze (remote : Remote) (state mode : Option String) (targetTemp : Int) (fan swing : Option String) (updateState : Bool)

def enumValue (table : List (String × String × String)) (member : String) : List Char :=
  (((table.find? (·.1 == member)).map (·.2.1)).getD "").toList

/-- the tail of `control_breeze_device`: the separate swing command for remotes that have one, then the result -/
def breezeSwingTail (cfg : Cfg) (ts : List Char) (raw : List Nat) (remote : Remote) (swing : Option String) (updateState : Bool)
    (cmdResp : Option (List Nat)) : Prog :=
  match swing with
  | some sw =>
    if remote.separatedSwing && !updateState then
      match buildSwingCommand remote sw with
      | .error e => .done (.error e)
      | .ok c =>
        match commandFrame "_control_breeze_swing_device" "BREEZE_COMMAND_PACKET"
            (baseEnv cfg ts raw ++ [("command.length", .s c.length), ("command.command", .s c.command)]) with
        | .error e => .done (.error e)
        | .ok f => .send f (fun r => .done (.ok (.base r)))
    else match cmdResp with
      | some r => .done (.ok (.base r))
      | none => .done (.error .runtimeError)
  | none => match cmdResp with
    | some r => .done (.ok (.base r))
    | none => .done (.error .runtimeError)

/-- the values `control_breeze_device` sends: requested if given, else what the device just reported;
    swing forced OFF for remotes with a separate swing command -/
structure BreezeSettings where
  state : String
  mode : String
  temp : Int
  fan : String
  swing : String
deriving Repr, DecidableEq

def mergeSettings (remote : Remote) (cur : ThermoResp) (state mode : Option String) (targetTemp : Int)
    (fan swing : Option String) : BreezeSettings :=
  { state := state.getD cur.state, mode := mode.getD cur.mode,
    temp := if targetTemp != 0 then targetTemp else cur.target,
    fan := fan.getD cur.fan,
    swing := if remote.separatedSwing then "OFF" else swing.getD cur.swing }

/-- the main frame of `control_breeze_device`: the status-update frame or the IR command frame -/
def breezeMainFrame (cfg : Cfg) (ts : List Char) (raw : List Nat) (remote : Remote) (cur : ThermoResp) (v : BreezeSettings)
    (updateState : Bool) : Py (List Nat) :=
  let method := "control_breeze_device"
  if updateState then
    commandFrame method "BREEZE_UPDATE_STATUS_PACKET" (baseEnv cfg ts raw ++
      [("state.value", .s (enumValue Gen.deviceStates v.state)), ("mode.value", .s (enumValue Gen.thermostatModes v.mode)),
       ("target_temp", .i v.temp), ("fan_level.value", .s (enumValue Gen.thermostatFanLevels v.fan)),
       ("set_swing.value", .s (enumValue Gen.thermostatSwings v.swing))])
  else do
    let c ← buildCommand remote v.state v.mode v.temp v.fan v.swing (some cur.state)
    commandFrame method "BREEZE_COMMAND_PACKET" (baseEnv cfg ts raw ++
      [("command.length", .s c.length), ("command.command", .s c.command)])

/-- `control_breeze_device` after a successful login, when something other than a separate swing was requested -/
def breezeWithState (cfg : Cfg) (ts : List Char) (raw : List Nat) (remote : Remote) (state mode : Option String) (targetTemp : Int)
    (fan swing : Option String) (updateState : Bool) : Prog :=
  match commandFrame "_get_breeze_state" "GET_STATE_PACKET2_TYPE2" (baseEnv cfg ts raw) with
  | .error e => .done (.error e)
  | .ok qf => .send qf fun sraw =>
    match catchKV (parseThermo sraw) with
    | .error e => .done (.error e)
    | .ok cur =>
      if !successful sraw then .done (.error .runtimeError) else
      match breezeMainFrame cfg ts raw remote cur (mergeSettings remote cur state mode targetTemp fan swing) updateState with
      | .error e => .done (.error e)
      | .ok f => .send f fun r =>
        if !successful r then .done (.error .runtimeError) else breezeSwingTail cfg ts raw remote swing updateState (some r)

/-- does the request ask for anything the main command carries? -/
def wantsMain (remote : Remote) (state mode : Option String) (targetTemp : Int) (fan swing : Option String) : Bool :=
  state.isSome || mode.isSome || targetTemp != 0 || fan.isSome || (swing.isSome && !remote.separatedSwing)

/-- `control_breeze_device` -/
def controlBreeze (cfg : Cfg) (now : Int) (remote : Remote) (state mode : Option String) (targetTemp : Int)
    (fan swing : Option String) (updateState : Bool) : Prog :=
  withLogin cfg now "control_breeze_device" fun ts raw =>
    if guardStops "control_breeze_device" raw then .done (.error .runtimeError)
    else if wantsMain remote state mode targetTemp fan swing then
      breezeWithState cfg ts raw remote state mode targetTemp fan swing updateState
    else breezeSwingTail cfg ts raw remote swing updateState none

/-- every public operation as a program; `zoneOff` is the host's (fixed) UTC offset used by `create_schedule` -/
def prog (cfg : Cfg) (now : Int) (zoneOff : Int) : Req → Prog
  | .getState => simpleOp cfg now "get_state" "GET_STATE_PACKET_TYPE1" (pure []) finishState
  | .controlDevice on minutes =>
    simpleOp cfg now "control_device" "SEND_CONTROL_PACKET"
      (do let timer ← if minutes > 0 then minutesToHex minutes else constText "NO_TIMER_REQUESTED"
          pure [("command.value", .s (commandValue on)), ("timer", .s timer)])
      (fun r => pure (.base r))
  | .setAutoShutdown micros =>
    simpleOp cfg now "set_auto_shutdown" "SET_AUTO_OFF_SET_PACKET"
      (do let a ← timedeltaToHex micros; pure [("auto_shutdown", .s a)]) (fun r => pure (.base r))
  | .setDeviceName name =>
    simpleOp cfg now "set_device_name" "UPDATE_DEVICE_NAME_PACKET"
      (do let n ← nameToHex name; pure [("device_name", .s n)]) (fun r => pure (.base r))
  | .getSchedules => simpleOp cfg now "get_schedules" "GET_SCHEDULES_PACKET" (pure [])
      (fun r => (getSchedules zoneOff (now + zoneOff) r).map (.schedules r))
  | .deleteSchedule id =>
    simpleOp cfg now "delete_schedule" "DELETE_SCHEDULE_PACKET" (pure [("schedule_id", .s id)]) (fun r => pure (.base r))
  | .createSchedule start stop isSet days =>
    simpleOp cfg now "create_schedule" "CREATE_SCHEDULE_PACKET"
      (do let s ← timeToHexFixed zoneOff now start
          let e ← timeToHexFixed zoneOff now stop
          let w ← if days.length > 0 then weekdaysToHex (.coll isSet days) else constText "NON_RECURRING_SCHEDULE"
          let rec_ ← formatCall "create_schedule" "SCHEDULE_CREATE_DATA_FORMAT"
            [("weekdays", .s w), ("start_time_hex", .s s), ("end_time_hex", .s e)]
          pure [("new_schedule", .s rec_)])
      (fun r => pure (.base r))
  | .stop => simpleOp cfg now "stop" "RUNNER_STOP_COMMAND" (pure []) (fun r => pure (.base r))
  | .setPosition pos =>
    simpleOp cfg now "set_position" "RUNNER_SET_POSITION"
      (do let h ← fmtField "02x" (.i pos); pure [("hex_pos", .s h)]) (fun r => pure (.base r))
  | .getShutterState => simpleOp cfg now "get_shutter_state" "GET_STATE_PACKET2_TYPE2" (pure []) finishShutter
  | .getBreezeState =>
    withLogin cfg now "get_breeze_state" fun ts raw =>
      if guardStops "get_breeze_state" raw then .done (.error .runtimeError) else
      match commandFrame "_get_breeze_state" "GET_STATE_PACKET2_TYPE2" (baseEnv cfg ts raw) with
      | .error e => .done (.error e)
      | .ok f => .send f (fun r => .done (finishThermo r))
  | .controlBreeze remote state mode tt fan swing upd => controlBreeze cfg now remote state mode tt fan swing upd

/-- run a program against the replies the device gives, in order; a missing reply is the empty read (EOF) -/
def runProg : Prog → List (List Nat) → List (List Nat) × Py Resp
  | .done r, _ => ([], r)
  | .send f k, [] => let (fs, r) := runProg (k []) []; (f :: fs, r)
  | .send f k, rep :: reps => let (fs, r) := runProg (k rep) reps; (f :: fs, r)

end Model
