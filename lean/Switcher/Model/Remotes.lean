/-
Model.Remotes — src/aioswitcher/api/remotes.py: `SwitcherBreezeCommand`, `SwitcherBreezeRemote`
(`_resolve_capabilities`, `_lookup_key_in_irset`, `build_command`, `build_swing_command`) and the
remote manager's cache.  Enum members are their names; dict tables come from `Gen.Remotes`.
-/
import Switcher.Model.Tools
import Switcher.Model.Tmpl
import Switcher.Gen.Remotes
import Switcher.Gen.Tables
namespace Model
open Spec

structure Wave where
  key : List Char
  para : List Char
  hexCode : List Char
deriving Repr, DecidableEq

structure IrSet where
  id : List Char
  onOffType : Int
  waves : List Wave
deriving Repr

structure Features where
  swing : Bool
  fans : List String          -- a set; kept duplicate-free in insertion order
  tempControl : Bool
deriving Repr, DecidableEq

structure Remote where
  minTemp : Int
  maxTemp : Int
  onOffType : Bool
  remoteId : List Char
  waveMap : List (List Char × (List Char × List Char))     -- dict: first entry for a key is the live one
  features : List (String × Features)                      -- insertion ordered dict
  separatedSwing : Bool
deriving Repr

/-- `SwitcherBreezeCommand`: `(command, length)` -/
structure BreezeCommand where
  command : List Char
  length : List Char
deriving Repr, DecidableEq

def mkBreezeCommand (command : List Char) : Py BreezeCommand := do
  let l ← packLE16 (command.length / 2)
  pure { command, length := hexlify l }

def dictGet (d : List (List Char × α)) (k : List Char) : Option α := (d.find? (·.1 == k)).map (·.2)

/-- `d[k] = v` on an association list standing for a dict (lookup only ever sees the live value) -/
def dictSet (d : List (List Char × α)) (k : List Char) (v : α) : List (List Char × α) :=
  (k, v) :: d.filter (·.1 != k)

def lookupS (t : List (String × List Char)) (k : String) : Option (List Char) := (t.find? (·.1 == k)).map (·.2)
def lookupC (t : List (List Char × String)) (k : List Char) : Option String := (t.find? (·.1 == k)).map (·.2)

/-- `re.match(r".+(f\d)", key)`: group 1 is the last `f`+digit that starts at index ≥ 1 -/
def lastFanToken (key : List Char) : Option (List Char) :=
  let idxs := (List.range key.length).filter (fun i =>
    1 ≤ i && key[i]? == some 'f' && (match key[i + 1]? with | some c => isAsciiDigit c | none => false))
  match idxs.getLast? with
  | some i => some (slice key i (i + 2))
  | none => none

def containsSub (hay needle : List Char) : Bool :=
  (List.range (hay.length + 1)).any (fun i => (hay.drop i).take needle.length == needle)

structure CapState where
  mode : Option String
  minTemp : Int
  maxTemp : Int
  features : List (String × Features)
  waveMap : List (List Char × (List Char × List Char))

def featGet (fs : List (String × Features)) (m : String) : Option Features := (fs.find? (·.1 == m)).map (·.2)
def featSet (fs : List (String × Features)) (m : String) (f : Features) : List (String × Features) :=
  if fs.any (·.1 == m) then fs.map (fun p => if p.1 == m then (m, f) else p) else fs ++ [(m, f)]

/-- the `try: mode = COMMAND_TO_MODE[key[0:2]] … except KeyError: pass` part of one loop iteration -/
def stepMode (separated : Bool) (s : CapState) (key : List Char) : Option String × List (String × Features) :=
  match lookupC Gen.commandToMode (slice key 0 2) with
  | some m =>
    if (featGet s.features m).isNone then
      (some m, featSet s.features m { swing := separated, fans := [], tempControl := false })
    else (some m, s.features)
  | none => (s.mode, s.features)

/-- the fan-level part: `COMMAND_TO_FAN_LEVEL[group(1)]` raises KeyError for a level the table does not know -/
def stepFan (mode : Option String) (features : List (String × Features)) (key : List Char) : Py (List (String × Features)) :=
  match lastFanToken key, mode with
  | some tok, some m =>
    match lookupC Gen.commandToFanLevel tok with
    | some lvl =>
      match featGet features m with
      | some f => pure (featSet features m { f with fans := if f.fans.contains lvl then f.fans else f.fans ++ [lvl] })
      | none => throw .keyError
    | none => throw .keyError
  | _, _ => pure features

def keyTempText (key : List Char) : List Char := slice key 2 4
def keyHasTemp (key : List Char) : Bool := !(keyTempText key).isEmpty && (keyTempText key).all isAsciiDigit
def keyTempVal (key : List Char) : Int := decVal (keyTempText key)

def newMax (cur : Int) (key : List Char) : Int := if keyHasTemp key && keyTempVal key > cur then keyTempVal key else cur
def newMin (cur : Int) (key : List Char) : Int := if keyHasTemp key && keyTempVal key < cur then keyTempVal key else cur

/-- temperature-control and swing flags of the current mode -/
def stepFlags (mode : Option String) (features : List (String × Features)) (key : List Char) : List (String × Features) :=
  let features := if keyHasTemp key then
      match mode with
      | some m => match featGet features m with
        | some f => featSet features m { f with tempControl := true }
        | none => features
      | none => features
    else features
  match mode with
  | some m => match featGet features m with
    | some f => featSet features m { f with swing := f.swing || containsSub key cs!"d1" }
    | none => features
  | none => features

/-- one iteration of the loop in `_resolve_capabilities` -/
def capStep (separated : Bool) (s : CapState) (w : Wave) : Py CapState :=
  let (mode, f1) := stepMode separated s w.key
  match stepFan mode f1 w.key with
  | .error e => .error e
  | .ok f2 =>
    .ok { mode, minTemp := newMin s.minTemp w.key, maxTemp := newMax s.maxTemp w.key,
          features := stepFlags mode f2 w.key, waveMap := dictSet s.waveMap w.key (w.para, w.hexCode) }

/-- `SwitcherBreezeRemote.__init__` -/
def mkRemote (ir : IrSet) : Py Remote := do
  let separated := Gen.specialSwingRemoteIds.contains (String.ofList ir.id)
  let init : CapState := { mode := none, minTemp := 100, maxTemp := -100, features := [], waveMap := [] }
  let fin ← ir.waves.foldlM (capStep separated) init
  pure { minTemp := fin.minTemp, maxTemp := fin.maxTemp, onOffType := ir.onOffType == 1, remoteId := ir.id,
         waveMap := fin.waveMap, features := fin.features, separatedSwing := separated }

def Remote.supportedModes (r : Remote) : List String := r.features.map (·.1)

/-- `_lookup_key_in_irset`: drop trailing parts until the joined key exists or one part is left -/
def lookupKey (waveMap : List (List Char × (List Char × List Char))) : List (List Char) → List (List Char)
  | [] => []
  | [p] => [p]
  | p :: q :: rest =>
    let key := p :: q :: rest
    if (dictGet waveMap key.flatten).isSome then key
    else lookupKey waveMap (key.dropLast)
termination_by k => k.length
decreasing_by simp [List.length_dropLast]

def cmdText (waveMap : List (List Char × (List Char × List Char))) (key : List Char) : Py (List Char) :=
  match dictGet waveMap key with
  | some (para, hex) => pure (para ++ ['|'] ++ hex)
  | none => throw .keyError

/-- `"00000000" + hexlify(str(command).encode()).decode()` -/
def payloadHex (text : List Char) : List Char := cs!"00000000" ++ hexlify (utf8Encode text)

/-- the temperature `build_command` uses after clamping into the remote's range -/
def clampTemp (r : Remote) (t : Int) : Int := if t > r.maxTemp then r.maxTemp else if t < r.minTemp then r.minTemp else t

/-- the list of key parts `build_command` assembles (toggle prefix, mode, [temperature], fan, [swing]) -/
def keyParts (r : Remote) (state mode : String) (targetTemp : Int) (fan swing : String) (current : Option String) :
    Py (List (List Char)) :=
  let pre : List (List Char) :=
    if r.onOffType && (match current with | some c => c != state | none => false) then [cs!"on_"] else []
  let sw : List (List Char) := if swing == "ON" then [cs!"_d1"] else []
  if mode == "AUTO" || mode == "DRY" || mode == "FAN" then
    match lookupS Gen.modeToCommand mode, lookupS Gen.fanLevelToCommand fan with
    | some mc, some fc => pure (pre ++ [mc, ('_' :: fc)] ++ sw)
    | _, _ => throw .keyError
  else if mode == "COOL" || mode == "HEAT" then
    match lookupS Gen.modeToCommand mode, lookupS Gen.fanLevelToCommand fan with
    | some mc, some fc => pure (pre ++ [mc, Tmpl.intText (clampTemp r targetTemp), ('_' :: fc)] ++ sw)
    | _, _ => throw .keyError
  else pure pre

/-- the key `build_command` finally looks up -/
def chosenKey (r : Remote) (state mode : String) (targetTemp : Int) (fan swing : String) (current : Option String) :
    Py (List Char) :=
  if !r.onOffType && state == "OFF" then pure cs!"off"
  else do
    let parts ← keyParts r state mode targetTemp fan swing current
    let parts := if mode == "AUTO" || mode == "DRY" || mode == "FAN" || mode == "COOL" || mode == "HEAT"
                 then lookupKey r.waveMap parts else parts
    pure parts.flatten

/-- `build_command` -/
def buildCommand (r : Remote) (state mode : String) (targetTemp : Int) (fan swing : String) (current : Option String) :
    Py BreezeCommand := do
  if !r.supportedModes.contains mode then throw .runtimeError
  let key ← chosenKey r state mode targetTemp fan swing current
  let text ← cmdText r.waveMap key
  mkBreezeCommand (payloadHex text)

/-- `build_swing_command` -/
def buildSwingCommand (r : Remote) (swing : String) : Py BreezeCommand :=
  let key := if swing == "OFF" then "FUN_d0" else "FUN_d1"
  match cmdText r.waveMap key.toList with
  | .ok text => mkBreezeCommand (payloadHex text)
  | .error _ => throw .runtimeError

end Model
