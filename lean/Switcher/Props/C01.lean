/-
C01 — Every frame written to a device is self-consistent and correctly signed.

`Spec.wellFormedB` (= `WellFormedFrame`): magic fe f0, LE16 total length in bytes 2-3, f0 fe at bytes
38-39, the last four bytes are the protocol signature of all preceding bytes, every element a byte.

Part 1 (`refWire_wellFormed`): every reference frame of every operation kind — for every accepted
argument value, every 4-byte session id, 3-byte device id, 1-byte key and 4-byte timestamp — is well formed.
Part 2: the frames the model of each API operation writes are reference frames (C02 and, for the
thermostat control frames, `Proofs.Breeze`), hence well formed; and when an argument encoder raises, no
command frame is written at all (C02 `*_rejected`), so nothing partial, odd-nibbled or unsigned is written.
-/
import Switcher.Proofs.SpecEnv
import Switcher.Props.C02
import Switcher.Proofs.Breeze
import Switcher.Proofs.Utf8
import Switcher.Spec.IrSpec
namespace Props.C01
open Spec Model

def breezePre : Sym := (refSym .breezeCommand).dropLast

theorem breeze_split : refSym .breezeCommand = breezePre ++ [.arg .irCmd] := by decide +kernel

theorem slice_append_left (x y : List Char) (a b : Nat) (h : b ≤ x.length) : slice (x ++ y) a b = slice x a b := by
  unfold slice
  by_cases hab : a ≤ b
  · rw [List.drop_append_of_le_length (by omega), List.take_append_of_le_length (by simp; omega)]
  · have : b - a = 0 := by omega
    simp [this]

/-- PART 1.  Every reference frame is well formed. -/
theorem refWire_wellFormed (op : Op) (sid ts did key : List Char) (ids : IdsOk sid ts did key) (hacc : op.accepted = true) :
    ∃ f, refWire op sid ts did key = some f ∧ WellFormedFrame f := by
  have hro := specEnv_ok op sid ts did key ids hacc
  unfold refWire refFrame WellFormedFrame
  by_cases hirc : op.kind = .breezeCommand
  · -- the IR command frame: fixed prefix, then a payload of any length
    obtain ⟨p, rfl⟩ : ∃ p, op = .breezeCommand p := by
      cases op <;> simp [Op.kind] at hirc; exact ⟨_, rfl⟩
    simp only [Op.kind, Kind.computedLength, if_true]
    let env := specEnv (.breezeCommand p) sid ts did key
    have hacc' : p.length < 65536 - 90 ∧ isBytesB p = true := by simpa [Op.accepted] using hacc
    have hpre : ∀ r ∈ rolesOf breezePre, (env r).length = r.width ∧ isHexText (env r) = true := by
      intro r hr
      have hmem : r ∈ rolesOf (refSym (Op.breezeCommand p).kind) := by
        show r ∈ rolesOf (refSym .breezeCommand)
        have : rolesOf breezePre = [.sid, .ts, .did, .irLen] := by decide +kernel
        rw [this] at hr
        have : rolesOf (refSym .breezeCommand) = [.sid, .ts, .did, .irLen, .irCmd] := by decide +kernel
        rw [this]; simp at hr ⊢; rcases hr with h | h | h | h <;> simp [h]
      have hne : r ≠ .irCmd := by
        have : rolesOf breezePre = [.sid, .ts, .did, .irLen] := by decide +kernel
        rw [this] at hr; simp at hr; rcases hr with h | h | h | h <;> simp [h]
      exact ⟨(hro r hmem).2 hne, (hro r hmem).1⟩
    have hag := evalSym_agrees env Role.width breezePre (fun r hr => (hpre r hr).1)
    have hlenpre : (evalSym env breezePre).length = 166 := by rw [agrees_length hag]; decide +kernel
    have hbody : evalSym env (refSym .breezeCommand) = evalSym env breezePre ++ hexlify p := by
      rw [breeze_split, evalSym_append]; simp [evalSym, env, specEnv]
    have hhex : isHexText (evalSym env (refSym .breezeCommand)) = true := by
      rw [hbody, isHexText_append, isHexText_hexlify]
      simp [evalSym_hex env breezePre (by decide +kernel) (fun r hr => (hpre r hr).2)]
    obtain ⟨bs, hb, hwf⟩ := withLength_wellFormed (evalSym env (refSym .breezeCommand)) hhex
      (by rw [hbody]; simp [hlenpre]; omega) (by rw [hbody]; simp [hlenpre, hexlify_length])
      (by rw [hbody, slice_append_left _ _ _ _ (by omega)]
          exact window_sound 76 80 _ hag (by decide +kernel) (by decide))
      (by rw [hbody]; simp [hlenpre, hexlify_length]; omega)
    exact ⟨bs ++ sigBytes bs, by simp [env] at hb; simp [hb], hwf⟩
  · have hw : ∀ r ∈ rolesOf (refSym op.kind), (specEnv op sid ts did key r).length = r.width := by
      intro r hr
      refine (hro r hr).2 ?_
      rintro rfl
      revert hr; cases op <;> simp [Op.kind] at hirc ⊢ <;> decide +kernel
    have hh : ∀ r ∈ rolesOf (refSym op.kind), isHexText (specEnv op sid ts did key r) = true := fun r hr => (hro r hr).1
    by_cases hc : op.kind.computedLength = true
    · simp only [hc, if_true]
      have hok : computedWfOk (refSym op.kind) = true := by
        cases op <;> simp [Op.kind, Kind.computedLength] at hc hirc ⊢ <;> decide +kernel
      simp only [computedWfOk, Bool.and_eq_true, beq_iff_eq, decide_eq_true_eq] at hok
      obtain ⟨⟨⟨⟨h0, h76⟩, h80⟩, hev⟩, hlit⟩ := hok
      have hag := evalSym_agrees (specEnv op sid ts did key) Role.width (refSym op.kind) hw
      have hlen := agrees_length hag
      have hsm : (skelOf Role.width (refSym op.kind)).length / 2 + 4 < 65536 := by
        cases op <;> simp [Op.kind, Kind.computedLength] at hc hirc ⊢ <;> decide +kernel
      obtain ⟨bs, hb, hwf⟩ := withLength_wellFormed (evalSym (specEnv op sid ts did key) (refSym op.kind))
        (evalSym_hex _ _ hlit hh) (by omega) (by omega) (window_sound 76 80 _ hag h76 (by decide)) (by omega)
      exact ⟨bs ++ sigBytes bs, by simp [hb], hwf⟩
    · simp only [hc, if_false]
      have hok : fixedWfOk (refSym op.kind) = true := by
        cases op <;> simp [Op.kind, Kind.computedLength] at hc ⊢ <;> decide +kernel
      obtain ⟨bs, hb, hwf⟩ := fixed_wellFormed (specEnv op sid ts did key) (refSym op.kind) hok hw hh
      exact ⟨bs ++ sigBytes bs, by simp [hb], hwf⟩

/-- a frame that is the reference frame of an accepted operation is well formed -/
theorem wf_of_isRefWire (op : Op) (sid ts did key : List Char) (f : List Nat) (ids : IdsOk sid ts did key)
    (hacc : op.accepted = true) (h : IsRefWire op sid ts did key f) : WellFormedFrame f := by
  obtain ⟨f', h1, h2⟩ := refWire_wellFormed op sid ts did key ids hacc
  unfold IsRefWire at h
  rw [h] at h1
  cases h1; exact h2

theorem idsOk (cfg : Cfg) (now : Nat) (raw : List Nat) (hcfg : WFcfg cfg) (hraw : 12 ≤ raw.length) :
    IdsOk (sessionId raw) (tsOf now) cfg.deviceId cfg.deviceKey :=
  ⟨(sessionId_props raw hraw).1, (sessionId_props raw hraw).2, (tsOf_props now).1, (tsOf_props now).2,
   hcfg.1, hcfg.2.1, hcfg.2.2.1, hcfg.2.2.2⟩

theorem idsOk_login (cfg : Cfg) (now : Nat) (hcfg : WFcfg cfg) : IdsOk cs!"00000000" (tsOf now) cfg.deviceId cfg.deviceKey :=
  ⟨rfl, by decide, (tsOf_props now).1, (tsOf_props now).2, hcfg.1, hcfg.2.1, hcfg.2.2.1, hcfg.2.2.2⟩

theorem login_sid_irrelevant (lop : Op) (h : lop = .login1 ∨ lop = .login2) (sid sid' ts did key : List Char) :
    refWire lop sid ts did key = refWire lop sid' ts did key := by
  rcases h with rfl | rfl <;>
  · unfold refWire refFrame
    simp only [Op.kind, Kind.computedLength, Bool.false_eq_true, if_false]
    rw [evalSym_congr (specEnv _ sid ts did key) (specEnv _ sid' ts did key) _ (by
      intro r hr
      have : r = .ts ∨ r = .key ∨ r = .did := by
        revert hr; cases r <;> decide +kernel
      rcases this with rfl | rfl | rfl <;> rfl)]

/-- the login frame and the command frame of an exchange are both well formed -/
theorem both_wf (cfg : Cfg) (now : Nat) (raw : List Nat) (hcfg : WFcfg cfg) (hraw : 12 ≤ raw.length)
    (lop op : Op) (hl : lop = .login1 ∨ lop = .login2) (hacc : op.accepted = true) (f1 f2 : List Nat)
    (h1 : IsRefWire lop [] (tsOf now) cfg.deviceId cfg.deviceKey f1)
    (h2 : IsRefWire op (sessionId raw) (tsOf now) cfg.deviceId cfg.deviceKey f2) :
    WellFormedFrame f1 ∧ WellFormedFrame f2 := by
  refine ⟨?_, wf_of_isRefWire op _ _ _ _ f2 (idsOk cfg now raw hcfg hraw) hacc h2⟩
  unfold IsRefWire at h1
  rw [login_sid_irrelevant lop hl [] cs!"00000000"] at h1
  exact wf_of_isRefWire lop _ _ _ _ f1 (idsOk_login cfg now hcfg) (by rcases hl with rfl | rfl <;> rfl) h1

/-! PART 2.  The frames each operation writes are well formed (any id, key, session id, clock reading
    and accepted argument). -/

theorem control_wellformed (cfg : Cfg) (now : Nat) (off : Int) (raw r2 : List Nat) (rest : List (List Nat)) (on : Bool) (minutes : Nat)
    (hcfg : WFcfg cfg) (hnow : now < 4294967296) (hraw : 12 ≤ raw.length) (hacc : 60 * minutes < 4294967296) :
    ∃ f1 f2, (runProg (prog cfg now off (.controlDevice on minutes)) (raw :: r2 :: rest)).1 = [f1, f2] ∧
      WellFormedFrame f1 ∧ WellFormedFrame f2 := by
  obtain ⟨f1, f2, hr, h1, h2⟩ := C02.control_frames cfg now off raw r2 rest on minutes hcfg hnow hraw hacc
  exact ⟨f1, f2, by rw [hr], both_wf cfg now raw hcfg hraw _ _ (Or.inl rfl) (by simp [Op.accepted, hacc]) f1 f2 h1 h2⟩

theorem get_state_wellformed (cfg : Cfg) (now : Nat) (off : Int) (raw r2 : List Nat) (rest : List (List Nat))
    (hcfg : WFcfg cfg) (hnow : now < 4294967296) (hraw : 12 ≤ raw.length) :
    ∃ f1 f2, (runProg (prog cfg now off .getState) (raw :: r2 :: rest)).1 = [f1, f2] ∧ WellFormedFrame f1 ∧ WellFormedFrame f2 := by
  obtain ⟨f1, f2, hr, h1, h2⟩ := C02.get_state_frames cfg now off raw r2 rest hcfg hnow hraw
  exact ⟨f1, f2, by rw [hr], both_wf cfg now raw hcfg hraw _ _ (Or.inl rfl) rfl f1 f2 h1 h2⟩

theorem auto_shutdown_wellformed (cfg : Cfg) (now : Nat) (off : Int) (raw r2 : List Nat) (rest : List (List Nat)) (micros : Nat)
    (hcfg : WFcfg cfg) (hnow : now < 4294967296) (hraw : 12 ≤ raw.length)
    (h1 : 3600 ≤ 60 * (micros / 60000000)) (h2 : 60 * (micros / 60000000) ≤ 86340) :
    ∃ f1 f2, (runProg (prog cfg now off (.setAutoShutdown micros)) (raw :: r2 :: rest)).1 = [f1, f2] ∧
      WellFormedFrame f1 ∧ WellFormedFrame f2 := by
  obtain ⟨f1, f2, hr, g1, g2⟩ := C02.auto_shutdown_frames cfg now off raw r2 rest micros hcfg hnow hraw h1 h2
  exact ⟨f1, f2, by rw [hr], both_wf cfg now raw hcfg hraw _ _ (Or.inl rfl) (by simp [Op.accepted]; omega) f1 f2 g1 g2⟩

theorem set_name_wellformed (cfg : Cfg) (now : Nat) (off : Int) (raw r2 : List Nat) (rest : List (List Nat)) (name : List Char)
    (hcfg : WFcfg cfg) (hnow : now < 4294967296) (hraw : 12 ≤ raw.length)
    (h1 : 2 ≤ name.length) (h2 : (utf8Encode name).length ≤ 32) (hb : IsBytes (utf8Encode name)) :
    ∃ f1 f2, (runProg (prog cfg now off (.setDeviceName name)) (raw :: r2 :: rest)).1 = [f1, f2] ∧
      WellFormedFrame f1 ∧ WellFormedFrame f2 := by
  obtain ⟨f1, f2, hr, g1, g2⟩ := C02.set_name_frames cfg now off raw r2 rest name hcfg hnow hraw h1 h2
  exact ⟨f1, f2, by rw [hr], both_wf cfg now raw hcfg hraw _ _ (Or.inl rfl)
    (by simp [Op.accepted, h1, h2, (isBytesB_iff _).mpr hb]) f1 f2 g1 g2⟩

theorem get_schedules_wellformed (cfg : Cfg) (now : Nat) (off : Int) (raw r2 : List Nat) (rest : List (List Nat))
    (hcfg : WFcfg cfg) (hnow : now < 4294967296) (hraw : 12 ≤ raw.length) :
    ∃ f1 f2, (runProg (prog cfg now off .getSchedules) (raw :: r2 :: rest)).1 = [f1, f2] ∧ WellFormedFrame f1 ∧ WellFormedFrame f2 := by
  obtain ⟨f1, f2, hr, h1, h2⟩ := C02.get_schedules_frames cfg now off raw r2 rest hcfg hnow hraw
  exact ⟨f1, f2, by rw [hr], both_wf cfg now raw hcfg hraw _ _ (Or.inl rfl) rfl f1 f2 h1 h2⟩

theorem delete_schedule_wellformed (cfg : Cfg) (now : Nat) (off : Int) (raw r2 : List Nat) (rest : List (List Nat)) (slot : Nat)
    (hcfg : WFcfg cfg) (hnow : now < 4294967296) (hraw : 12 ≤ raw.length) (hslot : slot < 16) :
    ∃ f1 f2, (runProg (prog cfg now off (.deleteSchedule [hexDigit slot])) (raw :: r2 :: rest)).1 = [f1, f2] ∧
      WellFormedFrame f1 ∧ WellFormedFrame f2 := by
  obtain ⟨f1, f2, hr, h1, h2⟩ := C02.delete_schedule_frames cfg now off raw r2 rest slot hcfg hnow hraw hslot
  exact ⟨f1, f2, by rw [hr], both_wf cfg now raw hcfg hraw _ _ (Or.inl rfl) (by simp [Op.accepted, hslot]) f1 f2 h1 h2⟩

theorem create_schedule_wellformed (cfg : Cfg) (now : Nat) (off : Int) (raw r2 : List Nat) (rest : List (List Nat))
    (s e tS tE : Nat) (isSet : Bool) (days : List Nat)
    (hcfg : WFcfg cfg) (hnow : now < 4294967296) (hraw : 12 ≤ raw.length)
    (hs : s < 1440) (he : e < 1440) (hd : ∀ d ∈ days, d < 7) (hn : days.Nodup)
    (htS : tS < 4294967296) (htE : tE < 4294967296)
    (heS : (tS : Int) = ((now : Int) + off) / 86400 * 86400 + 60 * s - off)
    (heE : (tE : Int) = ((now : Int) + off) / 86400 * 86400 + 60 * e - off) :
    ∃ f1 f2, (runProg (prog cfg now off (.createSchedule (hhmm s) (hhmm e) isSet days)) (raw :: r2 :: rest)).1 = [f1, f2] ∧
      WellFormedFrame f1 ∧ WellFormedFrame f2 := by
  obtain ⟨f1, f2, hr, h1, h2⟩ := C02.create_schedule_frames cfg now off raw r2 rest s e tS tE isSet days hcfg hnow hraw hs he hd hn htS htE heS heE
  have hm := maskOf_range days
  exact ⟨f1, f2, by rw [hr], both_wf cfg now raw hcfg hraw _ _ (Or.inl rfl)
    (by simp [Op.accepted, htS, htE, hm.1]; omega) f1 f2 h1 h2⟩

theorem stop_wellformed (cfg : Cfg) (now : Nat) (off : Int) (raw r2 : List Nat) (rest : List (List Nat))
    (hcfg : WFcfg cfg) (hnow : now < 4294967296) (hraw : 12 ≤ raw.length) :
    ∃ f1 f2, (runProg (prog cfg now off .stop) (raw :: r2 :: rest)).1 = [f1, f2] ∧ WellFormedFrame f1 ∧ WellFormedFrame f2 := by
  obtain ⟨f1, f2, hr, h1, h2⟩ := C02.stop_frames cfg now off raw r2 rest hcfg hnow hraw
  exact ⟨f1, f2, by rw [hr], both_wf cfg now raw hcfg hraw _ _ (Or.inr rfl) rfl f1 f2 h1 h2⟩

theorem set_position_wellformed (cfg : Cfg) (now : Nat) (off : Int) (raw r2 : List Nat) (rest : List (List Nat)) (pos : Nat)
    (hcfg : WFcfg cfg) (hnow : now < 4294967296) (hraw : 12 ≤ raw.length) (hpos : pos ≤ 100) :
    ∃ f1 f2, (runProg (prog cfg now off (.setPosition pos)) (raw :: r2 :: rest)).1 = [f1, f2] ∧ WellFormedFrame f1 ∧ WellFormedFrame f2 := by
  obtain ⟨f1, f2, hr, h1, h2⟩ := C02.set_position_frames cfg now off raw r2 rest pos hcfg hnow hraw hpos
  exact ⟨f1, f2, by rw [hr], both_wf cfg now raw hcfg hraw _ _ (Or.inr rfl) (by simp [Op.accepted, hpos]) f1 f2 h1 h2⟩

theorem get_shutter_state_wellformed (cfg : Cfg) (now : Nat) (off : Int) (raw r2 : List Nat) (rest : List (List Nat))
    (hcfg : WFcfg cfg) (hnow : now < 4294967296) (hraw : 12 ≤ raw.length) :
    ∃ f1 f2, (runProg (prog cfg now off .getShutterState) (raw :: r2 :: rest)).1 = [f1, f2] ∧ WellFormedFrame f1 ∧ WellFormedFrame f2 := by
  obtain ⟨f1, f2, hr, h1, h2⟩ := C02.get_shutter_state_frames cfg now off raw r2 rest hcfg hnow hraw
  exact ⟨f1, f2, by rw [hr], both_wf cfg now raw hcfg hraw _ _ (Or.inr rfl) rfl f1 f2 h1 h2⟩

/-- thermostat control, IR command frame (main command or separate swing command): for EVERY command text
    (IR code of any byte length below 65442) the frame is well formed -/
theorem breeze_command_wellformed (cfg : Cfg) (now : Nat) (raw : List Nat) (method : String) (text : List Char)
    (hcfg : WFcfg cfg) (hraw : 12 ≤ raw.length) (hl : (utf8Encode text).length + 4 < 65536 - 90)
    (hm : method = "control_breeze_device" ∨ method = "_control_breeze_swing_device") :
    ∃ f, commandFrame method "BREEZE_COMMAND_PACKET" (baseEnv cfg (tsOf now) raw ++
        [("command.length", .s (hexlify (le16 (commandPayload text).length))), ("command.command", .s (hexlify (commandPayload text)))]) = .ok f ∧
      WellFormedFrame f := by
  have hbytes : IsBytes (commandPayload text) := by
    intro b hb
    simp only [commandPayload, List.mem_append, List.mem_cons, List.mem_nil_iff, or_false] at hb
    rcases hb with (h | h | h | h) | h
    · omega
    · omega
    · omega
    · omega
    · exact utf8Encode_isBytes text b h
  have hlen : (commandPayload text).length < 65536 - 90 := by simp [commandPayload]; omega
  obtain ⟨f, hf, hw⟩ := ir_frame cfg now raw method (commandPayload text) hcfg hraw hbytes hlen hm
  exact ⟨f, hf, wf_of_isRefWire _ _ _ _ _ f (idsOk cfg now raw hcfg hraw)
    (by simp [Op.accepted, hlen, (isBytesB_iff _).mpr hbytes]) hw⟩

/-- thermostat control, status-update frame -/
theorem breeze_status_wellformed (cfg : Cfg) (now : Nat) (raw : List Nat) (remote : Remote) (cur : ThermoResp) (v : BreezeSettings)
    (hcfg : WFcfg cfg) (hraw : 12 ≤ raw.length)
    (hst : v.state ∈ ["ON", "OFF"]) (hmd : v.mode ∈ ["AUTO", "DRY", "FAN", "COOL", "HEAT"])
    (hfan : v.fan ∈ ["LOW", "MEDIUM", "HIGH", "AUTO"]) (hsw : v.swing ∈ ["ON", "OFF"]) (tt : Nat) (htt : v.temp = tt) (ht : tt < 256) :
    ∃ f, breezeMainFrame cfg (tsOf now) raw remote cur v true = .ok f ∧ WellFormedFrame f := by
  obtain ⟨f, hf, hw⟩ := status_frame cfg now raw remote cur v hcfg hraw hst hmd hfan hsw tt htt ht
  refine ⟨f, hf, wf_of_isRefWire _ _ _ _ _ f (idsOk cfg now raw hcfg hraw) ?_ hw⟩
  have h1 : stateNum v.state < 2 := by
    simp only [List.mem_cons, List.mem_nil_iff, or_false] at hst; rcases hst with h | h <;> rw [h] <;> decide
  have h2 : modeNum v.mode < 256 := by
    simp only [List.mem_cons, List.mem_nil_iff, or_false] at hmd; rcases hmd with h | h | h | h | h <;> rw [h] <;> decide
  have h3 : fanNum v.fan < 16 := by
    simp only [List.mem_cons, List.mem_nil_iff, or_false] at hfan; rcases hfan with h | h | h | h <;> rw [h] <;> decide
  have h4 : swingNum v.swing < 16 := by
    simp only [List.mem_cons, List.mem_nil_iff, or_false] at hsw; rcases hsw with h | h <;> rw [h] <;> decide
  simp [Op.accepted, h1, h2, h3, h4, ht]

/- non-vacuity: a concrete reference frame that is well formed by evaluation -/
example : (refWire (.control true 90) cs!"01000000" cs!"ef8db35c" cs!"a123bc" cs!"18").map wellFormedB = some true := by
  decide +kernel

end Props.C01
