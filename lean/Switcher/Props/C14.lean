/-
C14 — A schedule's duration is (end − start) modulo 24 hours, formatted H:MM:SS.
-/
import Switcher.Model.Sched
import Switcher.Spec.Clock
import Switcher.Proofs.Py
namespace Props.C14
open Spec Model

/-- `strptime` reads back every canonical HH:MM text -/
theorem parse_hhmm : ∀ m < 1440, parseHM (hhmm m) = some (m / 60, m % 60) := by decide +kernel

/-- the text of every duration below 24 h is `H:MM:00` -/
theorem str_minutes : ∀ m < 1440, strTimedelta (m * 60) = durationText m := by decide +kernel

/-- for ALL 1440 × 1440 pairs of start and end times the reported duration is (end − start) mod 24 h -/
theorem duration_mod_24h (s e : Nat) (hs : s < 1440) (he : e < 1440) :
    calcDuration (hhmm s) (hhmm e) = .ok (durationText (duration s e)) := by
  simp only [calcDuration, parse_hhmm s hs, parse_hhmm e he, py_pure]
  have h1 : 60 * (s / 60) + s % 60 = s := by omega
  have h2 : 60 * (e / 60) + e % 60 = e := by omega
  rw [h1, h2]
  unfold duration
  by_cases h : e < s
  · simp only [h, if_true]
    have : (e + 1440 - s) % 1440 = e + 1440 - s := by omega
    rw [this, str_minutes _ (by omega)]
  · simp only [h, if_false]
    have : (e + 1440 - s) % 1440 = e - s := by omega
    rw [this, str_minutes _ (by omega)]

/-- an end earlier than the start means the next day; equal times mean zero -/
theorem equal_is_zero (s : Nat) (hs : s < 1440) : calcDuration (hhmm s) (hhmm s) = .ok "0:00:00".toList := by
  rw [duration_mod_24h s s hs hs]
  have : duration s s = 0 := by unfold duration; omega
  rw [this]; rfl

theorem earlier_end_is_next_day (s e : Nat) (hs : s < 1440) (h : e < s) :
    calcDuration (hhmm s) (hhmm e) = .ok (durationText (1440 - (s - e))) := by
  rw [duration_mod_24h s e hs (by omega)]
  have : duration s e = 1440 - (s - e) := by unfold duration; omega
  rw [this]

/-- text that `strptime("%H:%M")` does not accept raises -/
theorem malformed_raises (a b : List Char) (h : parseHM a = none ∨ parseHM b = none) :
    calcDuration a b = .error .valueError := by
  unfold calcDuration
  rcases h with h | h
  · simp [h]
  · cases ha : parseHM a with
    | none => simp
    | some p => obtain ⟨x, y⟩ := p; simp [h]

example : calcDuration "13:00".toList "14:00".toList = .ok "1:00:00".toList := by decide +kernel
example : calcDuration "23:59".toList "00:00".toList = .ok "0:01:00".toList := by decide +kernel
example : calcDuration "00:00".toList "23:59".toList = .ok "23:59:00".toList := by decide +kernel
example : calcDuration "2400".toList "00:00".toList = .error .valueError := by decide +kernel

end Props.C14
