/-
C10 — Listed schedules decode exactly; a created schedule reads back unchanged.
-/
import Switcher.Spec.Schedules
import Switcher.Props.C11
import Switcher.Props.C13
import Switcher.Props.C14
import Switcher.Props.C12
import Switcher.Proofs.Days
namespace Props.C10
open Spec Model

/-- an empty reply (and any reply too short to hold a record) yields no schedules -/
theorem empty_reply (z : Zone) (now : Int) : getSchedulesZ z now [] = .ok [] := by
  simp [getSchedulesZ, hexlify, wrap32]

theorem short_reply (z : Zone) (now : Int) (m : List Nat) (h : m.length ≤ 49) : getSchedulesZ z now m = .ok [] := by
  unfold getSchedulesZ
  have hl : (hexlify m).length = 2 * m.length := hexlify_length m
  have : ((hexlify m).drop 90).take ((hexlify m).length - 90 - 8) = [] := by
    apply List.eq_nil_of_length_eq_zero
    simp; omega
  simp [this, wrap32]

theorem minute_lt (w : Int) : minuteOf w < 1440 := by unfold minuteOf; omega

theorem hm_of_minute (w : Int) : hmOfWall w = (((minuteOf w / 60 : Nat) : Int), ((minuteOf w % 60 : Nat) : Int)) := by
  unfold hmOfWall minuteOf
  ext <;> simp <;> omega

/-- decoding the LE32 of ANY instant gives the HH:MM the zone shows then -/
theorem decode_any (z : Zone) (t : Nat) (ht : t < 4294967296) : hexToLocal z (hexlify (le32 t)) = .ok (hhmm (minuteShown z t)) :=
  C11.decode_instant z t _ ht (minute_lt _) (hm_of_minute _)

/-- ONE LISTED RECORD parses to exactly its id, recurrence flag, day set, local start and end, their duration, and a
    display text that is the next-run text of C13 -/
theorem record_decodes (z : Zone) (now : Int) (r : Listed) (hr : r.wf) :
    ∃ disp, parseRecordZ z now (hexlify (listedBytes r)) = .ok
        { id := r.id, recurring := decide (r.mask ≠ 0), days := if r.mask = 0 then [] else daysOfMask r.mask,
          start := hhmm (minuteShown z r.t1), stop := hhmm (minuteShown z r.t2),
          duration := durationText (duration (minuteShown z r.t1) (minuteShown z r.t2)), display := disp } ∧
      prettyNextRun (wall z now) (hhmm (minuteShown z r.t1)) (if r.mask = 0 then [] else daysOfMask r.mask) = .ok disp := by
  obtain ⟨hid, hen, hst, hmask, h1, h2, htl, htb⟩ := hr
  have hm1 := minute_lt (wall z r.t1)
  have hm2 := minute_lt (wall z r.t2)
  -- the next-run text exists
  have hdisp : ∃ disp, prettyNextRun (wall z now) (hhmm (minuteShown z r.t1)) (if r.mask = 0 then [] else daysOfMask r.mask) = .ok disp := by
    rcases hmask with h0 | ⟨he, hlo, hhi⟩
    · simp [h0, C13.no_days_today]
    · have hne : r.mask ≠ 0 := by omega
      simp only [hne, if_false]
      obtain ⟨o, _, ho⟩ := C13.next_run_earliest (wall z now) (minuteShown z r.t1) hm1 (r.mask / 2) (by omega) (by omega)
      have e : 2 * (r.mask / 2) = r.mask := by omega
      rw [e] at ho
      exact ⟨_, ho⟩
  obtain ⟨disp, hd⟩ := hdisp
  refine ⟨disp, ?_, hd⟩
  -- windows of the 32-nibble record
  have hb : listedBytes r = [r.id, r.en, r.mask, r.st] ++ le32 r.t1 ++ le32 r.t2 ++ r.tail := rfl
  have w (a b : Nat) : slice (hexlify (listedBytes r)) (2 * a) (2 * b) = hexlify (slice (listedBytes r) a b) := slice_hexlify _ a b
  have s_id : slice (listedBytes r) 0 1 = [r.id] := by simp [hb, slice, le32]
  have s_mask : slice (listedBytes r) 2 3 = [r.mask] := by simp [hb, slice, le32]
  have s_t1 : slice (listedBytes r) 4 8 = le32 r.t1 := by simp [hb, slice, le32]
  have s_t2 : slice (listedBytes r) 8 12 = le32 r.t2 := by simp [hb, slice, le32]
  unfold parseRecordZ
  rw [show (2 : Nat) = 2 * 1 from rfl, show (0 : Nat) = 2 * 0 from rfl, w 0 1, s_id,
    show (4 : Nat) = 2 * 2 from rfl, show (6 : Nat) = 2 * 3 from rfl, w 2 3, s_mask,
    show (8 : Nat) = 2 * 4 from rfl, show (16 : Nat) = 2 * 8 from rfl, w 4 8, s_t1,
    show (24 : Nat) = 2 * 12 from rfl, w 8 12, s_t2]
  have pid : pyIntHex (hexlify [r.id]) = .ok r.id := by
    rw [pyIntHex_hexlify _ (by intro b hb; simp at hb; omega) (by simp)]; simp [ofBE]
  have pmask : pyIntHex (hexlify [r.mask]) = .ok r.mask := by
    rw [pyIntHex_hexlify _ (by intro b hb; simp at hb; rcases hmask with h | h <;> omega) (by simp)]; simp [ofBE]
  have hrec : (hexlify [r.mask] != cs!"00") = decide (r.mask ≠ 0) := by
    have : ∀ n < 256, (hexlify [n] != cs!"00") = decide (n ≠ 0) := by decide +kernel
    exact this r.mask (by rcases hmask with h | h <;> omega)
  have hdur := C14.duration_mod_24h (minuteShown z r.t1) (minuteShown z r.t2) hm1 hm2
  simp only [pid, py_bind_ok, hrec, decode_any z r.t1 h1, decode_any z r.t2 h2, hdur]
  rcases hmask with h0 | ⟨he, hlo, hhi⟩
  · simp only [h0, ne_eq, not_true_eq_false, decide_false, Bool.false_eq_true, if_false, py_pure, py_bind_ok, if_true] at hd ⊢
    rw [hd]; rfl
  · have hne : r.mask ≠ 0 := by omega
    have hdays := C12.decode_bits r.mask hlo hhi
    simp only [hne, ne_eq, not_false_eq_true, decide_true, if_true, pmask, py_bind_ok, hdays, if_false] at hd ⊢
    rw [hd]; rfl

/-- CREATE → LIST BACK: the record create_schedule emits for (start, end, days) carries the day mask of the set and,
    for each time, an instant showing it today; when a device lists it back (same mask, start and end in a listed
    record) it parses to the same start, end and days — in every zone table, at every instant, for every pair of
    minutes that exist today and every day set -/
theorem create_reads_back (z : Zone) (now : Int) (k1 k2 : Nat) (hk1 : k1 < 1440) (hk2 : k2 < 1440)
    (days : List Nat) (hd : ∀ d ∈ days, d < 7)
    (l1 l2 : List (List Char))
    (hex1 : ExistsWall z (targetWall z now (k1 / 60 : Nat) (k1 % 60 : Nat)))
    (hex2 : ExistsWall z (targetWall z now (k2 / 60 : Nat) (k2 % 60 : Nat)))
    (he1 : timeToHexCands z now (hhmm k1) = .ok l1) (he2 : timeToHexCands z now (hhmm k2) = .ok l2)
    (c1 c2 : List Char) (hc1 : c1 ∈ l1) (hc2 : c2 ∈ l2) (id en st : Nat) (tail : List Nat)
    (hid : id < 256) (hen : en < 256) (hst : st < 256) (htl : tail.length = 4) (htb : IsBytes tail) :
    ∃ t1 t2 : Nat, c1 = hexlify (le32 t1) ∧ c2 = hexlify (le32 t2) ∧
      ∃ rec, parseRecordZ z now (hexlify (listedBytes { id, en, mask := maskOf days, st, t1, t2, tail })) = .ok rec ∧
        rec.start = hhmm k1 ∧ rec.stop = hhmm k2 ∧ (∀ d, d ∈ rec.days ↔ d ∈ days) ∧ rec.id = id := by
  obtain ⟨t1, ht1, rfl, hs1⟩ := C11.encode_is_epoch z now k1 hk1 l1 hex1 he1 c1 hc1
  obtain ⟨t2, ht2, rfl, hs2⟩ := C11.encode_is_epoch z now k2 hk2 l2 hex2 he2 c2 hc2
  refine ⟨t1, t2, rfl, rfl, ?_⟩
  have hmr := maskOf_range days
  have hwf : ({ id, en, mask := maskOf days, st, t1, t2, tail } : Listed).wf := by
    refine ⟨hid, hen, hst, ?_, ht1, ht2, htl, htb⟩
    by_cases h0 : maskOf days = 0
    · left; exact h0
    · right
      refine ⟨hmr.1, ?_, hmr.2⟩
      show 2 ≤ maskOf days
      have := hmr.1; omega
  obtain ⟨disp, hp, _⟩ := record_decodes z now _ hwf
  refine ⟨_, hp, ?_, ?_, ?_, rfl⟩
  · -- start: the instant shows k1
    have := C11.roundtrip z now (k1 / 60 : Nat) (k1 % 60 : Nat) t1 (by omega) (by omega) (by omega) (by omega) hs1
    have e : minuteShown z t1 = k1 := by
      unfold minuteShown
      have h2 := hm_of_minute (wall z (t1 : Int))
      rw [this] at h2
      have ha := (Prod.mk.inj h2).1
      have hb := (Prod.mk.inj h2).2
      have := minute_lt (wall z (t1 : Int))
      omega
    simp [e]
  · have := C11.roundtrip z now (k2 / 60 : Nat) (k2 % 60 : Nat) t2 (by omega) (by omega) (by omega) (by omega) hs2
    have e : minuteShown z t2 = k2 := by
      unfold minuteShown
      have h2 := hm_of_minute (wall z (t2 : Int))
      rw [this] at h2
      have ha := (Prod.mk.inj h2).1
      have hb := (Prod.mk.inj h2).2
      have := minute_lt (wall z (t2 : Int))
      omega
    simp [e]
  · intro d
    by_cases h0 : maskOf days = 0
    · simp only [h0, if_true]
      constructor
      · intro h; cases h
      · intro hdm
        have := maskOf_pos days d (hd d hdm) hdm
        omega
    · simp only [h0, if_false, daysOfMask, List.mem_filter, List.mem_range, decide_eq_true_eq]
      constructor
      · rintro ⟨hlt, hbit⟩; exact (maskOf_bit days d hlt).mp hbit
      · intro hdm; exact ⟨hd d hdm, (maskOf_bit days d (hd d hdm)).mpr hdm⟩

theorem listedBytes_length (r : Listed) (h : r.wf) : (listedBytes r).length = 16 := by
  simp [listedBytes, le32, h.2.2.2.2.2.2.1]

theorem wrap32_succ (f : Nat) (s : List Char) (h : s ≠ []) : wrap32 (f + 1) s = s.take 32 :: wrap32 f (s.drop 32) := by
  cases s with
  | nil => exact absurd rfl h
  | cons c cs => rfl

theorem wrap32_records : ∀ (recs : List Listed) (fuel : Nat), (∀ r ∈ recs, r.wf) → recs.length < fuel →
    wrap32 fuel (hexlify (recs.flatMap listedBytes)) = recs.map (fun r => hexlify (listedBytes r))
  | [], fuel, _, hf => by
    cases fuel with
    | zero => omega
    | succ f => simp [hexlify, wrap32]
  | r :: rs, fuel, hw, hf => by
    cases fuel with
    | zero => simp at hf
    | succ f =>
      have hr := hw r (by simp)
      have hl : (hexlify (listedBytes r)).length = 32 := by rw [hexlify_length, listedBytes_length r hr]
      have ih := wrap32_records rs f (fun x hx => hw x (by simp [hx])) (by simp at hf; omega)
      have e : hexlify ((r :: rs).flatMap listedBytes) = hexlify (listedBytes r) ++ hexlify (rs.flatMap listedBytes) := by
        simp [hexlify_append]
      rw [e]
      have hne : hexlify (listedBytes r) ++ hexlify (rs.flatMap listedBytes) ≠ [] := by
        intro h; have := congrArg List.length h; simp [hl] at this
      have t1 : (hexlify (listedBytes r) ++ hexlify (rs.flatMap listedBytes)).take 32 = hexlify (listedBytes r) := by
        rw [List.take_append_of_le_length (by omega), List.take_of_length_le (by omega)]
      have t2 : (hexlify (listedBytes r) ++ hexlify (rs.flatMap listedBytes)).drop 32 = hexlify (rs.flatMap listedBytes) := by
        rw [List.drop_append_of_le_length (by omega), List.drop_of_length_le (by omega), List.nil_append]
      rw [wrap32_succ f _ hne, t1, t2, ih]; rfl

/-- the payload of a reply: everything between the 45-byte header and the 4 trailing bytes -/
theorem reply_payload (hdr trailer : List Nat) (recs : List Listed) (hh : hdr.length = 45) (ht : trailer.length = 4) :
    ((hexlify (schedReply hdr recs trailer)).drop 90).take ((hexlify (schedReply hdr recs trailer)).length - 90 - 8) =
      hexlify (recs.flatMap listedBytes) := by
  unfold schedReply
  rw [hexlify_append, hexlify_append]
  have h1 : (hexlify hdr).length = 90 := by rw [hexlify_length, hh]
  have h2 : (hexlify trailer).length = 8 := by rw [hexlify_length, ht]
  rw [List.append_assoc, List.drop_append_of_le_length (by omega), List.drop_of_length_le (by omega), List.nil_append]
  simp only [List.length_append, h1, h2]
  rw [List.take_append_of_le_length (by omega), List.take_of_length_le (by omega)]

def firstById (recs : List SchedRec) : List SchedRec :=
  recs.foldl (fun acc r => if acc.any (·.id == r.id) then acc else acc ++ [r]) []

/-- A WHOLE REPLY: for any number of whole records, the parsed set holds, for each distinct slot id, the first record
    with that id, each decoded as `record_decodes` says -/
theorem list_decodes (z : Zone) (now : Int) (hdr trailer : List Nat) (recs : List Listed)
    (hh : hdr.length = 45) (ht : trailer.length = 4) (hw : ∀ r ∈ recs, r.wf) :
    ∃ parsed : List SchedRec, getSchedulesZ z now (schedReply hdr recs trailer) = .ok (firstById parsed) ∧
      parsed.length = recs.length ∧
      ∀ i (hi : i < recs.length), ∃ p, parsed[i]? = some p ∧ parseRecordZ z now (hexlify (listedBytes recs[i])) = .ok p := by
  unfold getSchedulesZ
  simp only [reply_payload hdr trailer recs hh ht]
  have hfuel : recs.length < (hexlify (recs.flatMap listedBytes)).length + 1 := by
    rw [hexlify_length]
    have : ∀ (l : List Listed), (∀ r ∈ l, r.wf) → (l.flatMap listedBytes).length = 16 * l.length := by
      intro l hl
      induction l with
      | nil => rfl
      | cons a l ih =>
        simp only [List.flatMap_cons, List.length_append, List.length_cons]
        rw [listedBytes_length a (hl a (by simp)), ih (fun r hr => hl r (by simp [hr]))]; omega
    rw [this recs hw]; omega
  rw [wrap32_records recs _ hw hfuel]
  -- every record parses
  have hall : ∃ parsed : List SchedRec, (recs.map (fun r => hexlify (listedBytes r))).mapM (parseRecordZ z now) = .ok parsed ∧
      parsed.length = recs.length ∧
      ∀ i (hi : i < recs.length), ∃ p, parsed[i]? = some p ∧ parseRecordZ z now (hexlify (listedBytes recs[i])) = .ok p := by
    clear hfuel
    induction recs with
    | nil => exact ⟨[], rfl, rfl, fun i hi => absurd hi (by simp)⟩
    | cons r rs ih =>
      obtain ⟨parsed, hp, hlen, hidx⟩ := ih (fun x hx => hw x (by simp [hx]))
      obtain ⟨disp, hr', _⟩ := record_decodes z now r (hw r (by simp))
      obtain ⟨p0, hr⟩ : ∃ p0, parseRecordZ z now (hexlify (listedBytes r)) = .ok p0 := ⟨_, hr'⟩
      refine ⟨p0 :: parsed, ?_, by simp [hlen], ?_⟩
      · simp only [List.map_cons, List.mapM_cons, hr, hp, py_bind_ok, py_pure]
      · intro i hi
        cases i with
        | zero => exact ⟨p0, rfl, hr⟩
        | succ j =>
          obtain ⟨p, hp1, hp2⟩ := hidx j (by simpa using hi)
          exact ⟨p, by simpa using hp1, by simpa using hp2⟩
  obtain ⟨parsed, hp, hlen, hidx⟩ := hall
  exact ⟨parsed, by rw [hp]; rfl, hlen, hidx⟩

/-- the resulting set has one schedule per distinct slot id -/
theorem firstById_ids_distinct (recs : List SchedRec) : ((firstById recs).map (·.id)).Nodup := by
  unfold firstById
  suffices h : ∀ (l acc : List SchedRec), (acc.map (·.id)).Nodup →
      ((l.foldl (fun acc r => if acc.any (·.id == r.id) then acc else acc ++ [r]) acc).map (·.id)).Nodup from h recs [] (by simp)
  intro l
  induction l with
  | nil => intro acc h; exact h
  | cons r l ih =>
    intro acc h
    simp only [List.foldl_cons]
    apply ih
    split
    · exact h
    · rename_i hany
      simp only [List.map_append, List.map_cons, List.map_nil]
      rw [List.nodup_append]
      refine ⟨h, by simp, ?_⟩
      intro a ha b hb
      simp at hb; subst hb
      intro hab; subst hab
      apply hany
      simp only [List.any_eq_true, beq_iff_eq]
      simp only [List.mem_map] at ha
      obtain ⟨x, hx, hxe⟩ := ha
      exact ⟨x, hx, hxe⟩

/-! ### non-vacuity -/

/-- a zone with a spring-forward gap and an autumn overlap -/
def demoZone : Zone := { base := 7200, trans := [(1750000000 + 40000, 10800), (1750000000 + 900000, 7200)] }
def demoRec : Listed := { id := 3, en := 1, mask := 0x0a, st := 0, t1 := 1750003200, t2 := 1750010400, tail := [0xce, 0x0e, 0, 0] }
example : demoRec.wf := by unfold Listed.wf IsBytes; decide
/-- the hypotheses of `create_reads_back` are met by 10:00–10:30 on a day of that zone: both wall times exist, both encodings succeed -/
example : ExistsWall demoZone (targetWall demoZone 1750000000 ((600 / 60 : Nat) : Int) ((600 % 60 : Nat) : Int)) :=
  ⟨targetWall demoZone 1750000000 10 0 - 7200, by decide +kernel⟩
example : (match timeToHexCands demoZone 1750000000 (hhmm 600), timeToHexCands demoZone 1750000000 (hhmm 630) with
    | .ok l1, .ok l2 => l1.length == 1 && l2.length == 1 | _, _ => false) = true := by decide +kernel
/-- and a listed record decodes on it (kernel evaluation of the whole parser) -/
example : (match parseRecordZ demoZone 1750000000 (hexlify (listedBytes demoRec)) with
    | .ok r => r.id == 3 && r.days == [0, 2] && r.start == cs!"18:00" && r.stop == cs!"20:00" && r.duration == cs!"2:00:00"
    | .error _ => false) = true := by decide +kernel

end Props.C10
