/-
C04 — The signature is the protocol's double CRC-16 for every byte string.

`Model.sign` is the line-by-line model of `sign_packet_with_crc_key`; `Spec.crc16` is the
bit-serial CRC-16/CCITT (poly 0x1021), `Spec.sigBytes` the protocol's four signature bytes.
-/
import Switcher.Proofs.Sign
namespace Props.C04
open Spec Model

/-- For every hex text `p` of a byte string `bs`: the result is `p` followed by exactly the
    LE CRC of `bs` and the LE CRC of (those two bytes ++ 32 × 0x30), both with initial value
    0x1021. `p` is returned unaltered (a prefix of the result). -/
theorem sign_spec (p : List Char) (bs : List Nat) (h : unhexlify p = some bs) :
    sign p = .ok (p ++ hexlify
      (let c := crc16 0x1021 bs
       [c % 256, c / 256 % 256] ++
       (let k := crc16 0x1021 ([c % 256, c / 256 % 256] ++ List.replicate 32 0x30)
        [k % 256, k / 256 % 256]))) := by
  simpa [sigBytes, le16] using sign_ok p bs h

/-- in bytes: the signed packet decodes to the original bytes followed by four signature bytes -/
theorem sign_bytes (p : List Char) (bs : List Nat) (h : unhexlify p = some bs) :
    ∃ s, sign p = .ok s ∧ unhexlify s = some (bs ++ sigBytes bs) ∧ (sigBytes bs).length = 4 := by
  refine ⟨_, sign_ok p bs h, ?_, by simp [sigBytes, le16]⟩
  apply unhexlify_append _ _ _ _ h
  apply unhexlify_hexlify
  exact isBytes_append (isBytes_le16 _) (isBytes_le16 _)

/-- input that is not valid hex (odd length or a non-hex character anywhere) raises -/
theorem sign_rejects (p : List Char) (h : unhexlify p = none) : sign p = .error .valueError :=
  sign_raises p h

/-- the result never alters `p` and is exactly 8 characters longer -/
theorem sign_prefix (p s : List Char) (h : sign p = .ok s) : s.take p.length = p ∧ s.length = p.length + 8 := by
  cases hu : unhexlify p with
  | none => rw [sign_raises p hu] at h; cases h
  | some bs =>
    rw [sign_ok p bs hu] at h
    injection h with h; subst h
    simp [hexlify_length, sigBytes, le16]

/-- signing accepts exactly the valid hex texts -/
theorem sign_total (p : List Char) : (∃ s, sign p = .ok s) ↔ (∃ bs, unhexlify p = some bs) := by
  constructor
  · rintro ⟨s, hs⟩
    cases hu : unhexlify p with
    | none => rw [sign_raises p hu] at hs; cases hs
    | some bs => exact ⟨bs, rfl⟩
  · rintro ⟨bs, hb⟩; exact ⟨_, sign_ok p bs hb⟩

/-- every byte string has a hex spelling that is accepted (the hypothesis of `sign_spec` is
    satisfiable for all bytes): lower-case … -/
theorem spelling_lower (bs : List Nat) (h : IsBytes bs) : unhexlify (hexlify bs) = some bs :=
  unhexlify_hexlify bs h

/-- … and the hex value of a character does not depend on its case -/
theorem hexVal_upper : ∀ n < 16, hexVal? (hexDigit n).toUpper = some n := by decide

/-- … so the upper-case spelling of every byte string is accepted too, with the same bytes … -/
theorem spelling_upper (bs : List Nat) (h : IsBytes bs) : unhexlify ((hexlify bs).map Char.toUpper) = some bs := by
  induction bs with
  | nil => rfl
  | cons b bs ih =>
    have hb : b < 256 := h b (by simp)
    have hrest : IsBytes bs := fun x hx => h x (List.mem_cons_of_mem _ hx)
    have h1 := hexVal_upper (b / 16 % 16) (by omega)
    have h2 := hexVal_upper (b % 16) (by omega)
    simp only [hexlify, List.flatMap_cons, hexByte, List.map_cons, List.cons_append, List.nil_append]
    simp only [unhexlify, h1, h2]
    have := ih hrest
    simp only [hexlify] at this
    rw [this]
    have e : b / 16 % 16 * 16 + b % 16 = b := by omega
    simp [e]

/-- … and is signed with the very same four bytes (the result keeps the caller's spelling of `p`) -/
theorem sign_upper (bs : List Nat) (h : IsBytes bs) :
    sign ((hexlify bs).map Char.toUpper) = .ok ((hexlify bs).map Char.toUpper ++ hexlify (sigBytes bs)) ∧
    sign (hexlify bs) = .ok (hexlify bs ++ hexlify (sigBytes bs)) :=
  ⟨sign_ok _ bs (spelling_upper bs h), sign_ok _ bs (unhexlify_hexlify bs h)⟩


/- Non-vacuity and an independent oracle: literal signatures pinned by
   tests/test_api_packet_crc_signing.py (values nobody here computed). -/
def loginPacket : List Char :=
  ("fef052000232a10000000000" ++ "340001000000000000000000" ++ "ef8db35c" ++ "00000000000000000000f0fe" ++ "18"
    ++ String.ofList (List.replicate 72 '0') ++ "00").toList
example : sign loginPacket = .ok (loginPacket ++ "6ddd0cc0".toList) := by decide +kernel

def getStatePacket : List Char :=
  ("fef0300002320103" ++ "01000000" ++ "340001000000000000000000" ++ "ef8db35c" ++
    "00000000000000000000f0fe" ++ "a123bc" ++ "00").toList
example : sign getStatePacket = .ok (getStatePacket ++ "42a9a1b2".toList) := by decide +kernel

def controlOnPacket : List Char :=
  ("fef05d0002320102" ++ "01000000" ++ "340001000000000000000000" ++ "ef8db35c" ++
    "00000000000000000000f0fe" ++ "a123bc" ++ String.ofList (List.replicate 72 '0') ++ "000106000" ++ "1" ++ "00" ++ "00000000").toList
example : sign controlOnPacket = .ok (controlOnPacket ++ "cc06bb10".toList) := by decide +kernel

example : sign "just a regular string".toList = .error .valueError := by decide

end Props.C04
