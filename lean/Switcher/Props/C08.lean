/-
C08 — State replies are decoded into exactly what the device reported.

`Spec.encodeState1 / encodeShutter / encodeThermo / encodeLogin` write the protocol's fields into an
ARBITRARY background of bytes of ANY sufficient length; the theorems say that the model of the parsers
(`Model.parseState / parseShutter / parseThermo / sessionId`) returns exactly the encoded values, for
every field value in its domain and every background.
-/
import Switcher.Proofs.Replies
import Switcher.Proofs.Hex
import Switcher.Proofs.Amps
namespace Props.C08
open Spec Model

theorem enum_state_on : enumByValue Gen.deviceStates (hexlify [1]) = .ok "ON" := by decide +kernel
theorem enum_state_off : enumByValue Gen.deviceStates (hexlify [0]) = .ok "OFF" := by decide +kernel

theorem take_len (bg : List Nat) (n : Nat) (h : n ≤ bg.length) : (bg.take n).length = n := by simp; omega
theorem slice_len (bg : List Nat) (a b : Nat) (h : b ≤ bg.length) (hab : a ≤ b) : (slice bg a b).length = b - a := by
  simp [slice]; omega

/-- TYPE-1 STATE: state, time left, time on, auto shutdown (HH:MM:SS), watts and amps -/
theorem state1_decodes (bg : List Nat) (d : State1) (hbg : 101 ≤ bg.length) (hb : IsBytes bg) (hd : d.wf) :
    parseState (encodeState1 bg d) = .ok
      { state := if d.on then "ON" else "OFF", timeLeft := isoTime d.timeLeft, timeOn := isoTime d.timeOn,
        autoShutdown := isoTime d.autoShutdown, power := d.power, ampsTenths := ampsTenths d.power } := by
  obtain ⟨hp, hl, ho, ha⟩ := hd
  have l75 := take_len bg 75 (by omega)
  have s1 := slice_len bg 76 77 (by omega) (by omega)
  have s2 := slice_len bg 79 81 (by omega) (by omega)
  have s3 := slice_len bg 81 89 (by omega) (by omega)
  -- the byte windows of the reference reply
  have w_state : slice (encodeState1 bg d) 75 76 = [if d.on then 1 else 0] :=
    slice_segment [bg.take 75] _ _ 75 76 (by simp [l75]) (by simp)
  have w_power : slice (encodeState1 bg d) 77 81 = le16 d.power ++ slice bg 79 81 :=
    slice_segment [bg.take 75, [if d.on then 1 else 0], slice bg 76 77] _ _ 77 81 (by simp [l75, s1]) (by simp [le16, s2])
  have w_left : slice (encodeState1 bg d) 89 93 = le32 d.timeLeft :=
    slice_segment [bg.take 75, [if d.on then 1 else 0], slice bg 76 77, le16 d.power ++ slice bg 79 81, slice bg 81 89] _ _ 89 93
      (by simp [l75, s1, s2, s3, le16]) (by simp [le32])
  have w_on : slice (encodeState1 bg d) 93 97 = le32 d.timeOn :=
    slice_segment [bg.take 75, [if d.on then 1 else 0], slice bg 76 77, le16 d.power ++ slice bg 79 81, slice bg 81 89, le32 d.timeLeft] _ _ 93 97
      (by simp [l75, s1, s2, s3, le16, le32]) (by simp [le32])
  have w_auto : slice (encodeState1 bg d) 97 101 = le32 d.autoShutdown :=
    slice_segment [bg.take 75, [if d.on then 1 else 0], slice bg 76 77, le16 d.power ++ slice bg 79 81, slice bg 81 89, le32 d.timeLeft,
      le32 d.timeOn] _ _ 97 101 (by simp [l75, s1, s2, s3, le16, le32]) (by simp [le32])
  unfold parseState
  simp only []
  rw [show (150 : Nat) = 2 * 75 from rfl, show (152 : Nat) = 2 * 76 from rfl, slice_hexlify, w_state,
    show (178 : Nat) = 2 * 89 from rfl, show (186 : Nat) = 2 * 93 from rfl, slice_hexlify, w_left,
    show (194 : Nat) = 2 * 97 from rfl, slice_hexlify, w_on,
    show (202 : Nat) = 2 * 101 from rfl, slice_hexlify, w_auto,
    show (154 : Nat) = 2 * 77 from rfl, show (162 : Nat) = 2 * 81 from rfl, slice_hexlify, w_power, hexlify_append]
  have hst : enumByValue Gen.deviceStates (hexlify [if d.on then 1 else 0]) = .ok (if d.on then "ON" else "OFF") := by
    cases d.on
    · exact enum_state_off
    · exact enum_state_on
  rw [hst, swap32_le32 _ (by omega), swap32_le32 _ (by omega), swap32_le32 _ (by omega), swap16_le16 _ hp]
  simp only [py_bind_ok, secondsToIso_ok _ hl, secondsToIso_ok _ ho, secondsToIso_ok _ ha, py_pure, wattsToAmpsTenths]

/-- amps = watts / 220 to one decimal, for EVERY power value: within 0.05 A of the exact quotient -/
theorem amps_within_half_tenth (w : Nat) (h : w < 65536) : 22 * ampsTenths w ≤ w + 11 ∧ w ≤ 22 * ampsTenths w + 11 :=
  amps_spec w h

/-- SHUTTER: position and direction -/
theorem shutter_decodes (bg : List Nat) (d : ShutterState) (hbg : 80 ≤ bg.length) (hp : d.position < 256) (hdir : d.direction < 3) :
    parseShutter (encodeShutter bg d) = .ok { position := d.position, direction := directionName d.direction } := by
  have l76 := take_len bg 76 (by omega)
  have s1 := slice_len bg 77 78 (by omega) (by omega)
  have w_pos : slice (encodeShutter bg d) 76 77 = [d.position] :=
    slice_segment [bg.take 76] _ _ 76 77 (by simp [l76]) (by simp)
  have hdl : (directionBytes d.direction).length = 2 := by
    have : d.direction = 0 ∨ d.direction = 1 ∨ d.direction = 2 := by omega
    rcases this with h | h | h <;> simp [h, directionBytes]
  have w_dir : slice (encodeShutter bg d) 78 80 = directionBytes d.direction :=
    slice_segment [bg.take 76, [d.position], slice bg 77 78] _ _ 78 80 (by simp [l76, s1]) (by simp [hdl])
  unfold parseShutter
  simp only []
  rw [show (156 : Nat) = 2 * 78 from rfl, show (160 : Nat) = 2 * 80 from rfl, slice_hexlify, w_dir,
    show (152 : Nat) = 2 * 76 from rfl, show (154 : Nat) = 2 * 77 from rfl, slice_hexlify, w_pos]
  have hdn : enumByValue Gen.shutterDirections (hexlify (directionBytes d.direction)) = .ok (directionName d.direction) := by
    have : d.direction = 0 ∨ d.direction = 1 ∨ d.direction = 2 := by omega
    rcases this with h | h | h <;> rw [h] <;> decide +kernel
  rw [hdn, pyIntHex_hexlify [d.position] (by intro b hb; simp at hb; omega) (by simp)]
  simp [ofBE]

/-- LOGIN: the four session bytes at offset 8, as hex text -/
theorem login_session (bg sid : List Nat) (hbg : 12 ≤ bg.length) (hs : sid.length = 4) :
    sessionId (encodeLogin bg sid) = hexlify sid := by
  have l8 := take_len bg 8 (by omega)
  have w : slice (encodeLogin bg sid) 8 12 = sid := slice_segment [bg.take 8] _ _ 8 12 (by simp [l8]) (by simp [hs])
  unfold sessionId
  rw [show (16 : Nat) = 2 * 8 from rfl, show (24 : Nat) = 2 * 12 from rfl, slice_hexlify, w]

/-- any reply of at least 12 bytes yields the hex of its bytes 8..11 as session id -/
theorem login_sid_any (raw : List Nat) : sessionId raw = hexlify (slice raw 8 12) := by
  unfold sessionId
  rw [show (16 : Nat) = 2 * 8 from rfl, show (24 : Nat) = 2 * 12 from rfl, slice_hexlify]

theorem utf8Decode_ascii : ∀ (bs : List Nat), (∀ b ∈ bs, b < 128) → utf8Decode bs = some (bs.map Char.ofNat)
  | [], _ => rfl
  | b :: bs, h => by
    have hb : b < 128 := h b (by simp)
    have ih := utf8Decode_ascii bs (fun x hx => h x (by simp [hx]))
    rw [utf8Decode.eq_def]; simp [hb, ih]

theorem rstripNul_pad (cs : List Char) (k : Nat) (h : ∀ c ∈ cs, c ≠ Char.ofNat 0) :
    rstripNul (cs ++ List.replicate k (Char.ofNat 0)) = cs := by
  unfold rstripNul
  rw [List.reverse_append, List.reverse_replicate]
  have h1 : ∀ (k : Nat) (l : List Char), (List.replicate k (Char.ofNat 0) ++ l).dropWhile (· == Char.ofNat 0) = l.dropWhile (· == Char.ofNat 0) := by
    intro k l
    induction k with
    | zero => rfl
    | succ k ih => simp [List.replicate_succ, List.dropWhile, ih]
  rw [h1]
  cases hr : cs.reverse with
  | nil => simp [List.reverse_eq_nil_iff.mp hr]
  | cons c t =>
    have hc : c ≠ Char.ofNat 0 := h c (by have : c ∈ cs.reverse := by rw [hr]; simp
                                          simpa using this)
    have : (c == Char.ofNat 0) = false := by simpa using hc
    simp only [List.dropWhile, this]
    rw [← hr, List.reverse_reverse]

/-- THERMOSTAT: state, mode, fan level, swing, current temperature in tenths, target temperature, remote id -/
theorem thermo_decodes (bg : List Nat) (d : ThermoState) (hbg : 92 ≤ bg.length)
    (hm : 1 ≤ d.mode ∧ d.mode ≤ 5) (hf : d.fan < 4) (ht : d.tempTenths < 65536) (htg : d.target < 256)
    (hr1 : d.remote.length ≤ 8) (hr2 : ∀ b ∈ d.remote, 1 ≤ b ∧ b < 128) :
    parseThermo (encodeThermo bg d) = .ok
      { state := if d.on then "ON" else "OFF", mode := modeName d.mode, fan := fanName d.fan, tempTenths := d.tempTenths,
        target := d.target, swing := if d.swing then "ON" else "OFF", remoteId := d.remote.map Char.ofNat } := by
  have l76 := take_len bg 76 (by omega)
  have s1 := slice_len bg 82 84 (by omega) (by omega)
  let pre0 : List (List Nat) := [bg.take 76]
  have w_t0 : slice (encodeThermo bg d) 76 77 = [d.tempTenths % 256] := slice_segment [bg.take 76] _ _ 76 77 (by simp [l76]) (by simp)
  have w_t1 : slice (encodeThermo bg d) 77 78 = [d.tempTenths / 256 % 256] :=
    slice_segment [bg.take 76, [d.tempTenths % 256]] _ _ 77 78 (by simp [l76]) (by simp)
  have w_st : slice (encodeThermo bg d) 78 79 = [if d.on then 1 else 0] :=
    slice_segment [bg.take 76, [d.tempTenths % 256], [d.tempTenths / 256 % 256]] _ _ 78 79 (by simp [l76]) (by simp)
  have w_md : slice (encodeThermo bg d) 79 80 = [d.mode] :=
    slice_segment [bg.take 76, [d.tempTenths % 256], [d.tempTenths / 256 % 256], [if d.on then 1 else 0]] _ _ 79 80 (by simp [l76]) (by simp)
  have w_tg : slice (encodeThermo bg d) 80 81 = [d.target] :=
    slice_segment [bg.take 76, [d.tempTenths % 256], [d.tempTenths / 256 % 256], [if d.on then 1 else 0], [d.mode]] _ _ 80 81
      (by simp [l76]) (by simp)
  have w_fs : slice (encodeThermo bg d) 81 82 = [d.fan * 16 + (if d.swing then 1 else 0)] :=
    slice_segment [bg.take 76, [d.tempTenths % 256], [d.tempTenths / 256 % 256], [if d.on then 1 else 0], [d.mode], [d.target]] _ _ 81 82
      (by simp [l76]) (by simp)
  have w_rm : slice (encodeThermo bg d) 84 92 = d.remote ++ List.replicate (8 - d.remote.length) 0 :=
    slice_segment [bg.take 76, [d.tempTenths % 256], [d.tempTenths / 256 % 256], [if d.on then 1 else 0], [d.mode], [d.target],
      [d.fan * 16 + (if d.swing then 1 else 0)], slice bg 82 84] _ _ 84 92 (by simp [l76, s1]) (by simp; omega)
  have hx (a : Nat) : slice (hexlify (encodeThermo bg d)) (2 * a) (2 * a + 1) = (hexlify (slice (encodeThermo bg d) a (a + 1))).take 1 := by
    rw [← slice_hexlify]; simp [slice, List.take_take]; omega
  have hy (a : Nat) : slice (hexlify (encodeThermo bg d)) (2 * a + 1) (2 * a + 2) = (hexlify (slice (encodeThermo bg d) a (a + 1))).drop 1 := by
    rw [← slice_hexlify]
    simp only [slice, List.drop_take, List.drop_drop]
    congr 1 <;> omega
  unfold parseThermo
  simp only []
  rw [show (156 : Nat) = 2 * 78 from rfl, show (158 : Nat) = 2 * 79 from rfl, slice_hexlify, w_st,
    show (160 : Nat) = 2 * 80 from rfl, slice_hexlify, w_md,
    show (162 : Nat) = 2 * 81 from rfl, slice_hexlify, w_tg,
    show (163 : Nat) = 2 * 81 + 1 from rfl, hx 81, show (164 : Nat) = 2 * 81 + 2 from rfl, hy 81, w_fs,
    show (154 : Nat) = 2 * 77 from rfl, slice_hexlify, w_t1, show (152 : Nat) = 2 * 76 from rfl, slice_hexlify, w_t0, w_rm]
  have hmode : enumByValue Gen.thermostatModes (hexlify [d.mode]) = .ok (modeName d.mode) := by
    have : d.mode = 1 ∨ d.mode = 2 ∨ d.mode = 3 ∨ d.mode = 4 ∨ d.mode = 5 := by omega
    rcases this with h | h | h | h | h <;> rw [h] <;> decide +kernel
  have hfan : enumByValue Gen.thermostatFanLevels ((hexlify [d.fan * 16 + (if d.swing then 1 else 0)]).take 1) = .ok (fanName d.fan) := by
    have : d.fan = 0 ∨ d.fan = 1 ∨ d.fan = 2 ∨ d.fan = 3 := by omega
    rcases this with h | h | h | h <;> rw [h] <;> cases d.swing <;> decide +kernel
  have hsw : ((hexlify [d.fan * 16 + (if d.swing then 1 else 0)]).drop 1 ==
      ((Option.map (fun x => x.2.1) (List.find? (fun x => x.1 == "OFF") Gen.thermostatSwings)).getD "").toList) = !d.swing := by
    have : d.fan = 0 ∨ d.fan = 1 ∨ d.fan = 2 ∨ d.fan = 3 := by omega
    rcases this with h | h | h | h <;> rw [h] <;> cases d.swing <;> decide +kernel
  have hstate : (hexlify [if d.on then 1 else 0] ==
      ((Option.map (fun x => x.2.1) (List.find? (fun x => x.1 == "OFF") Gen.deviceStates)).getD "").toList) = !d.on := by
    cases d.on <;> decide +kernel
  have htemp : pyIntHex (hexlify [d.tempTenths / 256 % 256] ++ hexlify [d.tempTenths % 256]) = .ok d.tempTenths := by
    rw [← hexlify_append, pyIntHex_hexlify _ (by intro b hb; simp at hb; rcases hb with h | h <;> omega) (by simp)]
    simp [ofBE]; omega
  have htarget : pyIntHex (hexlify [d.target]) = .ok d.target := by
    rw [pyIntHex_hexlify _ (by intro b hb; simp at hb; omega) (by simp)]; simp [ofBE]
  have hrem : utf8Decode (d.remote ++ List.replicate (8 - d.remote.length) 0) =
      some (d.remote.map Char.ofNat ++ List.replicate (8 - d.remote.length) (Char.ofNat 0)) := by
    rw [utf8Decode_ascii _ (by intro b hb; simp at hb; rcases hb with h | h; exact (hr2 b h).2; omega)]
    simp
  simp only [hmode, hfan, hsw, hstate, htemp, htarget, hrem, py_bind_ok, py_pure]
  rw [rstripNul_pad _ _ (by
    intro c hc
    simp only [List.mem_map] at hc
    obtain ⟨b, hb, rfl⟩ := hc
    have hb' := hr2 b hb
    have key : ∀ b < 128, 1 ≤ b → Char.ofNat b ≠ Char.ofNat 0 := by decide
    exact key b hb'.2 hb'.1)]
  cases d.on <;> cases d.swing <;> rfl

/-! ### non-vacuity: concrete replies meet every hypothesis, and the conclusions compute -/

def demoState : State1 := { on := true, power := 2600, timeLeft := 3599, timeOn := 1, autoShutdown := 86399 }
def demoThermo : ThermoState := { on := false, mode := 5, fan := 0, swing := true, tempTenths := 65535, target := 30, remote := [68, 76, 75, 49] }
example : demoState.wf := by unfold State1.wf; decide
example : (1 ≤ demoThermo.mode ∧ demoThermo.mode ≤ 5) ∧ demoThermo.fan < 4 ∧ demoThermo.tempTenths < 65536 ∧ demoThermo.target < 256 ∧
    demoThermo.remote.length ≤ 8 ∧ ∀ b ∈ demoThermo.remote, 1 ≤ b ∧ b < 128 := by decide
example : parseState (encodeState1 (List.replicate 124 0xa5) demoState) = .ok
    { state := "ON", timeLeft := cs!"00:59:59", timeOn := cs!"00:00:01", autoShutdown := cs!"23:59:59", power := 2600, ampsTenths := 118 } := by
  decide +kernel
example : parseShutter (encodeShutter (List.replicate 95 0xa5) { position := 255, direction := 1 }) =
    .ok { position := 255, direction := "SHUTTER_UP" } := by decide +kernel
example : parseThermo (encodeThermo (List.replicate 100 0xa5) demoThermo) = .ok
    { state := "OFF", mode := "HEAT", fan := "AUTO", tempTenths := 65535, target := 30, swing := "ON", remoteId := cs!"DLK1" } := by
  decide +kernel

end Props.C08
