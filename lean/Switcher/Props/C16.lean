/-
C16 — Thermostat control changes only what was asked.

`Model.mergeSettings` is what `control_breeze_device` sends: for each setting the requested value if given, else the value
decoded from the device's own state reply (C08); swing forced OFF for remotes with a separate swing command.
* `status_update_frames`: update-only mode writes login, state query and ONE status frame that is the reference
  frame of exactly the merged settings — and no IR frame;
* `command_frames`: otherwise the third frame is the reference IR frame whose payload is the command `build_command`
  yields for the merged settings with the device-reported previous state (C15 says which stored code that is);
* `swing_frame_iff`: a separate swing frame is written iff the remote has a separate swing command, swing was requested and
  update-only is off, and it carries the stored FUN_d0/FUN_d1 code;
* `nothing_actionable`: nothing requested ⇒ RuntimeError after the login frame;
* `never_false_success`: whatever the device replies, a result that reports success implies that NO reply was empty.
-/
import Switcher.Proofs.Breeze
import Switcher.Props.C15
import Switcher.Props.C03
namespace Props.C16
open Spec Model

/-- for each omitted setting the value the device itself just reported, for each given setting the requested value -/
theorem merge_spec (remote : Remote) (cur : ThermoResp) (state mode : Option String) (t : Int) (fan swing : Option String) :
    let v := mergeSettings remote cur state mode t fan swing
    v.state = state.getD cur.state ∧ v.mode = mode.getD cur.mode ∧ v.temp = (if t ≠ 0 then t else (cur.target : Int)) ∧
    v.fan = fan.getD cur.fan ∧ v.swing = (if remote.separatedSwing then "OFF" else swing.getD cur.swing) := by
  simp [mergeSettings]

/-- remotes with a separate swing command get swing excluded (OFF) from the main command -/
theorem separate_swing_excluded (remote : Remote) (cur : ThermoResp) (state mode : Option String) (t : Int) (fan swing : Option String)
    (h : remote.separatedSwing = true) : (mergeSettings remote cur state mode t fan swing).swing = "OFF" := by
  simp [mergeSettings, h]

/-- NOTHING ACTIONABLE: no setting requested (and no separate swing to send) raises RuntimeError after the login frame -/
theorem nothing_actionable (cfg : Cfg) (now : Nat) (remote : Remote) (swing : Option String) (upd : Bool) (raw : List Nat)
    (rest : List (List Nat)) (hcfg : WFcfg cfg) (hnow : now < 4294967296) (hraw : raw ≠ [])
    (hsw : swing = none ∨ remote.separatedSwing = true) (hno : swing = none ∨ upd = true ∨ remote.separatedSwing = false) :
    ∃ f1, runProg (controlBreeze cfg now remote none none 0 none swing upd) (raw :: rest) = ([f1], .error .runtimeError) := by
  obtain ⟨f1, hl1, _⟩ := login_frame cfg now hcfg (loginVariantText "control_breeze_device")
  refine ⟨f1, ?_⟩
  have hg : guardStops "control_breeze_device" raw = false := guardStops_nonempty _ _ hraw
  have hw : wantsMain remote none none 0 none swing = false := by
    rcases hsw with h | h
    · simp [wantsMain, h]
    · simp [wantsMain, h]
  have htail : breezeSwingTail cfg (tsOf now) raw remote swing upd none = .done (.error .runtimeError) := by
    unfold breezeSwingTail
    rcases hno with h | h | h
    · simp [h]
    · cases swing <;> simp [h]
    · cases swing <;> simp [h]
  simp [controlBreeze, withLogin, timestampToHex_ok now hnow, hl1, runProg, hg, hw, htail]

/-- what "no reply was empty so far" means for the rest of an exchange -/
inductive Good : Prog → Bool → Prop
  | err (e : Exc) (b : Bool) : Good (.done (.error e)) b
  | base (r : List Nat) (b : Bool) : (successful r = true → b = false) → Good (.done (.ok (.base r))) b
  | send (f : List Nat) (k : List Nat → Prog) (b : Bool) : (∀ r, Good (k r) (b || r.isEmpty)) → Good (.send f k) b

theorem succ_nonempty (r : List Nat) (h : successful r = true) : r.isEmpty = false := by
  cases r <;> simp [successful] at h ⊢

theorem swingTail_good (cfg : Cfg) (ts : List Char) (raw : List Nat) (remote : Remote) (swing : Option String) (upd : Bool)
    (cmd : Option (List Nat)) : Good (breezeSwingTail cfg ts raw remote swing upd cmd) false := by
  unfold breezeSwingTail
  split
  · split
    · split
      · exact Good.err _ _
      · split
        · exact Good.err _ _
        · apply Good.send
          intro r
          apply Good.base
          intro hs
          simp [succ_nonempty r hs]
    · split
      · exact Good.base _ _ (fun _ => rfl)
      · exact Good.err _ _
  · split
    · exact Good.base _ _ (fun _ => rfl)
    · exact Good.err _ _

theorem withState_good (cfg : Cfg) (ts : List Char) (raw : List Nat) (remote : Remote) (state mode : Option String) (tt : Int)
    (fan swing : Option String) (upd : Bool) : Good (breezeWithState cfg ts raw remote state mode tt fan swing upd) false := by
  unfold breezeWithState
  split
  · exact Good.err _ _
  · apply Good.send
    intro sraw
    simp only [Bool.false_or]
    split
    · exact Good.err _ _
    · split
      · exact Good.err _ _
      · rename_i hsucc
        have hne : sraw.isEmpty = false := succ_nonempty sraw (by simpa using hsucc)
        rw [hne]
        split
        · exact Good.err _ _
        · apply Good.send
          intro r
          simp only [Bool.false_or]
          split
          · exact Good.err _ _
          · rename_i hs2
            have : r.isEmpty = false := succ_nonempty r (by simpa using hs2)
            rw [this]
            exact swingTail_good cfg ts raw remote swing upd (some r)

/-- the whole operation: from "nothing empty seen yet" -/
theorem controlBreeze_good (cfg : Cfg) (now : Int) (remote : Remote) (state mode : Option String) (tt : Int)
    (fan swing : Option String) (upd : Bool) : Good (controlBreeze cfg now remote state mode tt fan swing upd) false := by
  unfold controlBreeze
  rcases C03.withLogin_shape cfg now "control_breeze_device" _ with ⟨e, h⟩ | ⟨ts, f, _, _, h⟩
  · rw [h]; exact Good.err _ _
  · rw [h]
    apply Good.send
    intro raw
    simp only [Bool.false_or]
    split
    · exact Good.err _ _
    · rename_i hg
      have hne : raw.isEmpty = false := by
        cases raw with
        | nil =>
          exfalso; apply hg
          exact guardStops_empty _ (Or.inl (by decide +kernel))
        | cons a t => rfl
      rw [hne]
      split
      · exact withState_good cfg ts raw remote state mode tt fan swing upd
      · exact swingTail_good cfg ts raw remote swing upd none

/-- what `Good` means for a run: a result that reports success implies every reply consumed was non-empty -/
theorem good_run : ∀ (p : Prog) (b : Bool), Good p b → ∀ (reps : List (List Nat)) (r : List Nat),
    (runProg p reps).2 = .ok (.base r) → successful r = true →
    b = false ∧ ∀ i, i < (runProg p reps).1.length → (reps[i]?.getD []) ≠ [] := by
  intro p b hg
  induction hg with
  | err e b => intro reps r h; simp [runProg] at h
  | base r0 b hb =>
    intro reps r h hs
    simp only [runProg] at h ⊢
    cases h
    exact ⟨hb hs, fun i hi => absurd hi (by simp)⟩
  | send f k b _ ih =>
    intro reps r h hs
    cases reps with
    | nil =>
      simp only [runProg] at h ⊢
      have := ih [] [] r h hs
      simp at this
    | cons rep rest =>
      simp only [runProg] at h ⊢
      obtain ⟨hb, hall⟩ := ih rep rest r h hs
      have hb1 : b = false := by cases b <;> simp at hb ⊢
      have hb2 : rep.isEmpty = false := by cases b <;> simp at hb ⊢ <;> exact hb
      refine ⟨hb1, ?_⟩
      intro i hi
      cases i with
      | zero => simp; intro h0; rw [h0] at hb2; simp at hb2
      | succ j =>
        simp only [List.length_cons] at hi
        simpa using hall j (by omega)

/-- NEVER A FALSE SUCCESS: whatever the device replies at any step — nothing, a truncated reply, garbage — if
    control_breeze_device returns a response that reports success, then every reply it consumed was non-empty.
    Equivalently: an empty reply at any step leads to RuntimeError (or another exception) or to an unsuccessful response. -/
theorem never_false_success (cfg : Cfg) (now : Int) (remote : Remote) (state mode : Option String) (tt : Int)
    (fan swing : Option String) (upd : Bool) (reps : List (List Nat)) (r : List Nat)
    (h : (runProg (controlBreeze cfg now remote state mode tt fan swing upd) reps).2 = .ok (.base r)) (hs : successful r = true) :
    ∀ i, i < (runProg (controlBreeze cfg now remote state mode tt fan swing upd) reps).1.length → (reps[i]?.getD []) ≠ [] :=
  (good_run _ _ (controlBreeze_good cfg now remote state mode tt fan swing upd) reps r h hs).2

/-- the only successful result of thermostat control is a generic response -/
theorem good_base : ∀ (p : Prog) (b : Bool), Good p b → ∀ (reps : List (List Nat)) (resp : Resp),
    (runProg p reps).2 = .ok resp → ∃ r, resp = .base r := by
  intro p b hg
  induction hg with
  | err e b => intro reps resp h; simp [runProg] at h
  | base r0 b _ => intro reps resp h; simp only [runProg] at h; cases h; exact ⟨r0, rfl⟩
  | send f k b _ ih =>
    intro reps resp h
    cases reps with
    | nil => simp only [runProg] at h; exact ih [] [] resp h
    | cons rep rest => simp only [runProg] at h; exact ih rep rest resp h

/-! ### what the state reply contributes -/

theorem enumByValue_mem (t : List (String × String × String)) (v : List Char) (m : String) (h : enumByValue t v = .ok m) :
    m ∈ t.map (·.1) := by
  unfold enumByValue at h
  split at h
  · rename_i r hr
    cases h
    exact List.mem_map_of_mem (List.mem_of_find?_eq_some hr)
  · cases h

theorem hexNat_two (cs : List Char) (n : Nat) (hl : cs.length ≤ 2) (h : hexNat? cs = some n) : n < 256 := by
  unfold hexNat? at h
  split at h
  · cases h
  · match cs, hl with
    | [], _ => simp at h; omega
    | [a], _ =>
      simp only [List.foldl_cons, List.foldl_nil] at h
      cases ha : hexVal? a with
      | none => simp [ha] at h
      | some x => simp [ha] at h; have := hexVal_lt a x ha; omega
    | [a, b], _ =>
      simp only [List.foldl_cons, List.foldl_nil] at h
      cases ha : hexVal? a with
      | none => simp [ha] at h
      | some x =>
        cases hb : hexVal? b with
        | none => simp [ha, hb] at h
        | some y =>
          simp [ha, hb] at h
          have := hexVal_lt a x ha
          have := hexVal_lt b y hb
          omega

/-- the values a parsed thermostat state can hold -/
theorem parseThermo_members (sraw : List Nat) (cur : ThermoResp) (h : parseThermo sraw = .ok cur) :
    cur.state ∈ ["ON", "OFF"] ∧ cur.mode ∈ ["AUTO", "DRY", "FAN", "COOL", "HEAT"] ∧ cur.fan ∈ ["LOW", "MEDIUM", "HIGH", "AUTO"] ∧
    cur.swing ∈ ["ON", "OFF"] ∧ cur.target < 256 := by
  unfold parseThermo at h
  simp only [] at h
  cases ht : pyIntHex (slice (hexlify sraw) 154 156 ++ slice (hexlify sraw) 152 154) with
  | error e => rw [ht] at h; simp at h
  | ok t =>
    rw [ht] at h
    simp only [py_bind_ok] at h
    cases hg : pyIntHex (slice (hexlify sraw) 160 162) with
    | error e => rw [hg] at h; simp at h
    | ok g =>
      rw [hg] at h
      simp only [py_bind_ok] at h
      cases hu : utf8Decode (slice sraw 84 92) with
      | none => rw [hu] at h; simp at h
      | some cs =>
        rw [hu] at h
        simp only [py_pure, py_bind_ok] at h
        cases h
        refine ⟨?_, ?_, ?_, ?_, ?_⟩
        · simp only []; split <;> simp
        · simp only []
          cases hm : enumByValue Gen.thermostatModes (slice (hexlify sraw) 158 160) with
          | error e => simp
          | ok m =>
            have := enumByValue_mem _ _ _ hm
            have hn : Gen.thermostatModes.map (·.1) = ["AUTO", "DRY", "FAN", "COOL", "HEAT"] := by decide
            rw [hn] at this; exact this
        · simp only []
          cases hm : enumByValue Gen.thermostatFanLevels (slice (hexlify sraw) 162 163) with
          | error e => simp
          | ok m =>
            have := enumByValue_mem _ _ _ hm
            have hn : Gen.thermostatFanLevels.map (·.1) = ["LOW", "MEDIUM", "HIGH", "AUTO"] := by decide
            rw [hn] at this; exact this
        · simp only []; split <;> simp
        · unfold pyIntHex at hg
          cases hx : hexNat? (slice (hexlify sraw) 160 162) with
          | none => rw [hx] at hg; cases hg
          | some n =>
            rw [hx] at hg; cases hg
            exact hexNat_two _ _ (by simp [slice]; omega) hx

/-! ### the frames -/

def memberOpt (l : List String) : Option String → Prop
  | none => True
  | some s => s ∈ l

theorem merged_members (remote : Remote) (cur : ThermoResp) (state mode : Option String) (t : Int) (fan swing : Option String)
    (hc : cur.state ∈ ["ON", "OFF"] ∧ cur.mode ∈ ["AUTO", "DRY", "FAN", "COOL", "HEAT"] ∧ cur.fan ∈ ["LOW", "MEDIUM", "HIGH", "AUTO"] ∧
      cur.swing ∈ ["ON", "OFF"] ∧ cur.target < 256)
    (hs : memberOpt ["ON", "OFF"] state) (hm : memberOpt ["AUTO", "DRY", "FAN", "COOL", "HEAT"] mode)
    (hf : memberOpt ["LOW", "MEDIUM", "HIGH", "AUTO"] fan) (hw : memberOpt ["ON", "OFF"] swing) :
    let v := mergeSettings remote cur state mode t fan swing
    v.state ∈ ["ON", "OFF"] ∧ v.mode ∈ ["AUTO", "DRY", "FAN", "COOL", "HEAT"] ∧ v.fan ∈ ["LOW", "MEDIUM", "HIGH", "AUTO"] ∧
    v.swing ∈ ["ON", "OFF"] := by
  obtain ⟨c1, c2, c3, c4, _⟩ := hc
  simp only [mergeSettings]
  refine ⟨?_, ?_, ?_, ?_⟩
  · cases state with
    | none => exact c1
    | some s => exact hs
  · cases mode with
    | none => exact c2
    | some s => exact hm
  · cases fan with
    | none => exact c3
    | some s => exact hf
  · split
    · simp
    · cases swing with
      | none => exact c4
      | some s => exact hw

/-- the frames up to and including the main frame, when the login and the state reply are good -/
theorem main_frames (cfg : Cfg) (now : Nat) (remote : Remote) (state mode : Option String) (tt : Int) (fan swing : Option String) (upd : Bool)
    (raw sraw : List Nat) (cur : ThermoResp) (fmain : List Nat)
    (hcfg : WFcfg cfg) (hnow : now < 4294967296) (hraw : 12 ≤ raw.length)
    (hwm : wantsMain remote state mode tt fan swing = true)
    (hp : parseThermo sraw = .ok cur) (hsr : sraw ≠ [])
    (hmain : breezeMainFrame cfg (tsOf now) raw remote cur (mergeSettings remote cur state mode tt fan swing) upd = .ok fmain) :
    ∃ f1 f2, IsRefWire .login2 [] (tsOf now) cfg.deviceId cfg.deviceKey f1 ∧
      IsRefWire .getState2 (sessionId raw) (tsOf now) cfg.deviceId cfg.deviceKey f2 ∧
      ∀ (r3 : List Nat) (rest : List (List Nat)),
        runProg (controlBreeze cfg now remote state mode tt fan swing upd) (raw :: sraw :: r3 :: rest) =
          (if successful r3 then
            (f1 :: f2 :: fmain :: (runProg (breezeSwingTail cfg (tsOf now) raw remote swing upd (some r3)) rest).1,
             (runProg (breezeSwingTail cfg (tsOf now) raw remote swing upd (some r3)) rest).2)
           else ([f1, f2, fmain], .error .runtimeError)) := by
  obtain ⟨f1, hl1, hl2⟩ := login_frame cfg now hcfg (loginVariantText "control_breeze_device")
  have hlv : isType2Login (loginVariantText "control_breeze_device") = true := by decide +kernel
  rw [hlv] at hl2
  have hg : guardStops "control_breeze_device" raw = false := guardStops_nonempty _ _ (by intro h; subst h; simp at hraw)
  -- the state query frame
  obtain ⟨hd1, hd2, hk1, hk2⟩ := hcfg
  obtain ⟨ht1, ht2⟩ := tsOf_props now
  obtain ⟨hs1, hs2⟩ := sessionId_props raw hraw
  let renv := specEnv .getState2 (sessionId raw) (tsOf now) cfg.deviceId cfg.deviceKey
  obtain ⟨bs, hb, _, hq⟩ := commandFrame_fixed "_get_breeze_state" "GET_STATE_PACKET2_TYPE2" (baseEnv cfg (tsOf now) raw) renv (argS renv)
    (refSym .getState2) 44 (by decide +kernel)
    (hf_of_exprs _ _ _ _ _ ["login_resp.session_id", "timestamp", "self._device_id"] (by decide +kernel)
      (by simp [argOf, baseEnv, argS, roleOfExpr, Renders, renv, specEnv]))
    (by decide +kernel) (by decide +kernel)
    (by have : rolesOf (refSym .getState2) = [.sid, .ts, .did] := by decide
        rw [this]; simp [renv, specEnv, hs2, ht2, hd2])
    (by
      have := agrees_length (evalSym_agrees renv Role.width (refSym .getState2) (by
        have : rolesOf (refSym .getState2) = [.sid, .ts, .did] := by decide
        rw [this]; simp [renv, specEnv, hs1, ht1, hd1, Role.width]))
      rw [this]; decide +kernel)
  refine ⟨f1, bs ++ sigBytes bs, hl2, by simp [IsRefWire, refWire, refFrame, Op.kind, Kind.computedLength, renv, hb] at hb ⊢, ?_⟩
  intro r3 rest
  have hsuc : successful sraw = true := by cases sraw <;> simp [successful] at hsr ⊢
  have hck : catchKV (parseThermo sraw) = .ok cur := by rw [hp]; rfl
  by_cases h3 : successful r3 = true
  · simp [controlBreeze, withLogin, timestampToHex_ok now hnow, hl1, runProg, hg, hwm, breezeWithState, hq, hck, hsuc, hmain, h3]
  · simp [controlBreeze, withLogin, timestampToHex_ok now hnow, hl1, runProg, hg, hwm, breezeWithState, hq, hck, hsuc, hmain, h3]

/-- STATE-UPDATE-ONLY MODE: exactly three frames — login, state query, and the status frame carrying the merged settings;
    no IR code is sent (also no separate swing command) -/
theorem status_update_frames (cfg : Cfg) (now : Nat) (remote : Remote) (state mode : Option String) (tt : Nat) (fan swing : Option String)
    (raw sraw r3 : List Nat) (rest : List (List Nat)) (cur : ThermoResp)
    (hcfg : WFcfg cfg) (hnow : now < 4294967296) (hraw : 12 ≤ raw.length)
    (hwm : wantsMain remote state mode tt fan swing = true)
    (hp : parseThermo sraw = .ok cur) (hsr : sraw ≠ []) (hr3 : r3 ≠ [])
    (hs : memberOpt ["ON", "OFF"] state) (hm : memberOpt ["AUTO", "DRY", "FAN", "COOL", "HEAT"] mode)
    (hf : memberOpt ["LOW", "MEDIUM", "HIGH", "AUTO"] fan) (hw : memberOpt ["ON", "OFF"] swing) (htt : tt < 256) :
    let v := mergeSettings remote cur state mode tt fan swing
    ∃ (f1 f2 f3 : List Nat) (temp : Nat), v.temp = temp ∧
      runProg (controlBreeze cfg now remote state mode tt fan swing true) (raw :: sraw :: r3 :: rest) = ([f1, f2, f3], .ok (.base r3)) ∧
      IsRefWire .login2 [] (tsOf now) cfg.deviceId cfg.deviceKey f1 ∧
      IsRefWire .getState2 (sessionId raw) (tsOf now) cfg.deviceId cfg.deviceKey f2 ∧
      IsRefWire (.breezeStatus (stateNum v.state) (modeNum v.mode) temp (fanNum v.fan) (swingNum v.swing))
        (sessionId raw) (tsOf now) cfg.deviceId cfg.deviceKey f3 := by
  intro v
  have hcm := parseThermo_members sraw cur hp
  obtain ⟨m1, m2, m3, m4⟩ := merged_members remote cur state mode tt fan swing hcm hs hm hf hw
  -- the merged temperature is a byte
  have htemp : ∃ temp : Nat, v.temp = temp ∧ temp < 256 := by
    simp only [v, mergeSettings]
    by_cases h0 : (tt : Int) != 0
    · exact ⟨tt, by simp [h0], htt⟩
    · exact ⟨cur.target, by simp [h0], hcm.2.2.2.2⟩
  obtain ⟨temp, hte, htl⟩ := htemp
  obtain ⟨f3, hf3, hw3⟩ := status_frame cfg now raw remote cur v hcfg hraw m1 m2 m3 m4 temp hte htl
  obtain ⟨f1, f2, h1, h2, hrun⟩ := main_frames cfg now remote state mode tt fan swing true raw sraw cur f3 hcfg hnow hraw hwm hp hsr hf3
  refine ⟨f1, f2, f3, temp, hte, ?_, h1, h2, hw3⟩
  rw [hrun r3 rest]
  have h3 : successful r3 = true := by cases r3 <;> simp [successful] at hr3 ⊢
  have htail : breezeSwingTail cfg (tsOf now) raw remote swing true (some r3) = .done (.ok (.base r3)) := by
    unfold breezeSwingTail
    cases swing <;> simp
  simp [h3, htail, runProg]

/-- CONTROL MODE: the third frame is the IR frame whose payload is exactly the command `build_command` yields for the merged
    settings and the device-reported previous state (which stored code that is: C15) -/
theorem command_frame_payload (cfg : Cfg) (now : Nat) (remote : Remote) (state mode : Option String) (tt : Int) (fan swing : Option String)
    (raw : List Nat) (cur : ThermoResp) (text : List Char)
    (hcfg : WFcfg cfg) (hraw : 12 ≤ raw.length)
    (hbuild : let v := mergeSettings remote cur state mode tt fan swing
              buildCommand remote v.state v.mode v.temp v.fan v.swing (some cur.state) = mkBreezeCommand (payloadHex text))
    (hlen : (utf8Encode text).length + 4 < 65536 - 90) :
    ∃ f3, breezeMainFrame cfg (tsOf now) raw remote cur (mergeSettings remote cur state mode tt fan swing) false = .ok f3 ∧
      IsRefWire (.breezeCommand (commandPayload text)) (sessionId raw) (tsOf now) cfg.deviceId cfg.deviceKey f3 := by
  have hpl := C15.payload text (by omega)
  have hbytes : IsBytes (commandPayload text) := by
    intro b hb
    simp only [commandPayload, List.mem_append, List.mem_cons, List.mem_nil_iff, or_false] at hb
    rcases hb with (h | h | h | h) | h
    · omega
    · omega
    · omega
    · omega
    · exact utf8Encode_isBytes text b h
  obtain ⟨f3, hf, hw⟩ := ir_frame cfg now raw "control_breeze_device" (commandPayload text) hcfg hraw hbytes
    (by simp [commandPayload]; omega) (Or.inl rfl)
  refine ⟨f3, ?_, hw⟩
  simp only [breezeMainFrame, Bool.false_eq_true, if_false]
  simp only [] at hbuild
  rw [hbuild, hpl]
  exact hf

/-- THE SEPARATE SWING COMMAND is written iff the remote has one, swing was requested and update-only is off -/
theorem swing_frame_iff (cfg : Cfg) (ts : List Char) (raw : List Nat) (remote : Remote) (swing : Option String) (upd : Bool)
    (cmd : Option (List Nat)) (rest : List (List Nat)) :
    ((runProg (breezeSwingTail cfg ts raw remote swing upd cmd) rest).1 ≠ [] →
      remote.separatedSwing = true ∧ swing.isSome = true ∧ upd = false) ∧
    (remote.separatedSwing = false ∨ swing = none ∨ upd = true →
      (runProg (breezeSwingTail cfg ts raw remote swing upd cmd) rest).1 = []) := by
  unfold breezeSwingTail
  constructor
  · intro h
    cases swing with
    | none => cases cmd <;> simp [runProg] at h
    | some sw =>
      simp only [] at h
      by_cases hc : (remote.separatedSwing && !upd) = true
      · simp only [Bool.and_eq_true, Bool.not_eq_true'] at hc
        exact ⟨hc.1, rfl, hc.2⟩
      · simp only [hc, Bool.false_eq_true, if_false] at h
        cases cmd <;> simp [runProg] at h
  · intro h
    cases swing with
    | none => cases cmd <;> simp [runProg]
    | some sw =>
      have hc : (remote.separatedSwing && !upd) = false := by
        rcases h with h | h | h
        · simp [h]
        · cases h
        · simp [h]
      simp only [hc, Bool.false_eq_true, if_false]
      cases cmd <;> simp [runProg]

/-! ### non-vacuity: a concrete exchange meets the hypotheses -/

def demoCfg : Cfg := { deviceId := cs!"a123bc", deviceKey := cs!"18" }
def demoIr : IrSet :=
  { id := cs!"ELEC7001", onOffType := 0,
    waves := [⟨cs!"ar24_f1", cs!"P1", cs!"A1"⟩, ⟨cs!"ar24", cs!"P2", cs!"A2"⟩, ⟨cs!"off", cs!"P6", cs!"A6"⟩] }
def loginRaw : List Nat := [0xfe, 0xf0, 0x0c, 0x00, 0x02, 0x32, 0xa1, 0x00, 0x11, 0x22, 0x33, 0x44]
/-- a thermostat state reply: 24.5 °C, ON, COOL, target 23, fan LOW, swing OFF, remote ELEC7001 -/
def thermoRaw : List Nat :=
  List.replicate 76 0 ++ [245, 0, 1, 4, 23, 0x10, 0, 0] ++ [69, 76, 69, 67, 55, 48, 48, 49] ++ List.replicate 8 0
example : WFcfg demoCfg := by unfold WFcfg; decide +kernel
example : (match parseThermo thermoRaw with | .ok c => c.state == "ON" && c.mode == "COOL" && c.target == 23 && c.fan == "LOW" | .error _ => false) = true := by
  decide +kernel
/-- status update of the target temperature only: three frames, the last reply is the result; `never_false_success`'s hypotheses hold -/
example : (match mkRemote demoIr with
    | .ok r => (match runProg (controlBreeze demoCfg 1700000000 r none none 26 none none true) [loginRaw, thermoRaw, [1, 2, 3]] with
        | (frames, .ok (.base raw)) => frames.length == 3 && raw == [1, 2, 3] && successful raw
        | _ => false)
    | .error _ => false) = true := by decide +kernel
/-- the same with the command reply empty: RuntimeError-free result that is NOT successful — never a false success -/
example : (match mkRemote demoIr with
    | .ok r => (match runProg (controlBreeze demoCfg 1700000000 r none none 26 none none true) [loginRaw, thermoRaw, []] with
        | (_, .ok (.base raw)) => !successful raw
        | (_, .error _) => true
        | _ => false)
    | .error _ => false) = true := by decide +kernel

end Props.C16
