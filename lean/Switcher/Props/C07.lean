/-
C07 — The bridge delivers each valid broadcast once, in order, whatever else arrives.

`Model.bridgeRun` is the delivery function of a running bridge: every datagram is handled on its own
(`parseDatagram`); a datagram whose handling raises, or whose callback raises, is absorbed by the event
loop (assumption `loopIsolates`: asyncio reports an exception raised inside `datagram_received` to the
loop's exception handler and carries on — exercised by the correspondence harness on real loopback
sockets, not provable here).  PARTIAL: UDP delivery order/loss and asyncio's isolation are runtime facts.
-/
import Switcher.Model.Bridge
namespace Props.C07
open Spec Model

/-- the callback invocations, with a failure pattern: invocation number k raises iff `fails k` -/
def bridgeRunF (arrivals : List (Nat × List Nat)) (fails : Nat → Bool) : List (Nat × Dev × Bool) :=
  (bridgeRun arrivals).zipIdx.map (fun x => (x.1.1, x.1.2, fails x.2))

def isValid (m : List Nat) : Bool := (deviceOf (parseDatagram m)).isSome

/-- exactly once: one callback invocation per valid broadcast, none for anything else -/
theorem exactly_once (arrivals : List (Nat × List Nat)) :
    (bridgeRun arrivals).length = (arrivals.filter (fun a => isValid a.2)).length := by
  induction arrivals with
  | nil => rfl
  | cons a rest ih =>
    obtain ⟨p, m⟩ := a
    simp only [bridgeRun, List.filterMap_cons, List.filter_cons, isValid] at ih ⊢
    cases h : deviceOf (parseDatagram m) with
    | none => simpa [h] using ih
    | some d => simp [h]; simpa using ih

/-- a bad datagram (foreign, truncated, corrupted, unknown model, undecodable field) is transparent:
    it neither stops, duplicates nor reorders the deliveries before and after it, on any port -/
theorem bad_is_transparent (xs ys : List (Nat × List Nat)) (bad : Nat × List Nat) (h : isValid bad.2 = false) :
    bridgeRun (xs ++ [bad] ++ ys) = bridgeRun xs ++ bridgeRun ys := by
  obtain ⟨p, m⟩ := bad
  have : deviceOf (parseDatagram m) = none := by
    simp only [isValid] at h
    cases hd : deviceOf (parseDatagram m) with
    | none => rfl
    | some d => simp [hd] at h
  simp [bridgeRun, List.filterMap_append, this]

/-- deliveries are in arrival order: the deliveries of a concatenation are the concatenation of the deliveries -/
theorem in_order (xs ys : List (Nat × List Nat)) : bridgeRun (xs ++ ys) = bridgeRun xs ++ bridgeRun ys := by
  simp [bridgeRun, List.filterMap_append]

/-- per port: what is delivered for port `p` is exactly what the datagrams that arrived on `p` yield, in their order -/
theorem per_port_order (arrivals : List (Nat × List Nat)) (p : Nat) :
    (bridgeRun arrivals).filter (fun x => x.1 == p) = bridgeRun (arrivals.filter (fun a => a.1 == p)) := by
  induction arrivals with
  | nil => rfl
  | cons a rest ih =>
    obtain ⟨q, m⟩ := a
    simp only [bridgeRun, List.filterMap_cons, List.filter_cons] at ih ⊢
    cases h : deviceOf (parseDatagram m) with
    | none =>
      by_cases hq : (q == p) = true
      · simp [h, hq]; simpa using ih
      · simp [h, hq]; simpa using ih
    | some d =>
      by_cases hq : (q == p) = true
      · simp [h, hq]; simpa using ih
      · simp [h, hq]; simpa using ih

/-- a failing callback never stops, duplicates or reorders deliveries: which devices are delivered, to which
    port and in which order does not depend on the failure pattern -/
theorem failures_do_not_matter (arrivals : List (Nat × List Nat)) (f g : Nat → Bool) :
    (bridgeRunF arrivals f).map (fun x => (x.1, x.2.1)) = (bridgeRunF arrivals g).map (fun x => (x.1, x.2.1)) := by
  simp [bridgeRunF, List.map_map, Function.comp_def]

/-- each delivery is the decoded device of its datagram -/
theorem delivers_decoded (arrivals : List (Nat × List Nat)) (p : Nat) (d : Dev) (h : (p, d) ∈ bridgeRun arrivals) :
    ∃ m, (p, m) ∈ arrivals ∧ parseDatagram m = .device d := by
  simp only [bridgeRun, List.mem_filterMap] at h
  obtain ⟨⟨q, m⟩, hm, hd⟩ := h
  cases hp : parseDatagram m with
  | device d' =>
    simp [hp, deviceOf] at hd
    obtain ⟨rfl, rfl⟩ := hd
    exact ⟨m, hm, hp⟩
  | ignored => simp [hp, deviceOf] at hd
  | warnUnknown => simp [hp, deviceOf] at hd
  | raised e => simp [hp, deviceOf] at hd

example : bridgeRun [(0, []), (1, [0xfe, 0xf0])] = [] := by decide

end Props.C07
