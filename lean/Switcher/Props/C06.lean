/-
C06 — Only genuine Switcher broadcasts are accepted; anything else is ignored quietly.
-/
import Switcher.Proofs.Broadcast
namespace Props.C06
open Spec Model

theorem hexByte_inj (a : Nat) (ha : a < 256) (b : Nat) (hb : b < 256) (h : hexByte a = hexByte b) : a = b := by
  have h1 := unhexlify_hexlify [a] (by intro x hx; simp at hx; omega)
  have h2 := unhexlify_hexlify [b] (by intro x hx; simp at hx; omega)
  simp only [hexlify, List.flatMap_cons, List.flatMap_nil, List.append_nil] at h1 h2
  rw [h] at h1
  rw [h1] at h2
  simpa using h2

theorem take2_of_hex (m : List Nat) (hb : IsBytes m) :
    (slice (hexlify m) 0 4 == cs!"fef0") = (m.take 2 == [0xfe, 0xf0]) := by
  rw [show (4 : Nat) = 2 * 2 from rfl, show (0 : Nat) = 2 * 0 from rfl, slice_hexlify]
  have hs : slice m 0 2 = m.take 2 := by simp [slice]
  rw [hs]
  match m, hb with
  | [], _ => decide
  | [a], hb =>
    have ha : a < 256 := hb a (by simp)
    simp [hexlify, hexByte]
  | a :: b :: rest, hb =>
    have ha : a < 256 := hb a (by simp)
    have hbb : b < 256 := hb b (by simp)
    simp only [List.take_succ_cons, List.take_zero]
    have e : cs!"fef0" = hexlify [0xfe, 0xf0] := by decide
    rw [e]
    by_cases h : a = 0xfe ∧ b = 0xf0
    · obtain ⟨rfl, rfl⟩ := h; simp
    · have : ¬ ([a, b] = [0xfe, 0xf0]) := by simpa using h
      have h2 : ¬ (hexlify [a, b] = hexlify [0xfe, 0xf0]) := by
        intro heq
        simp only [hexlify, List.flatMap_cons, List.flatMap_nil, List.append_nil] at heq
        have l1 : (hexByte a).length = 2 := rfl
        have := List.append_inj heq (by rfl)
        exact h ⟨hexByte_inj a ha _ (by decide) this.1, hexByte_inj b hbb _ (by decide) this.2⟩
      have e1 : (hexlify [a, b] == hexlify [0xfe, 0xf0]) = false := by simpa using h2
      have e2 : (a == 0xfe && b == 0xf0) = false := by
        rw [Bool.and_eq_false_iff]
        by_cases ha' : a = 0xfe
        · right; simp; intro hb'; exact h ⟨ha', hb'⟩
        · left; simpa using ha'
      rw [e1]
      have e3 : ([a, b] == [0xfe, 0xf0]) = false := by simpa using this
      exact e3.symm

/-- THE GATE: a byte string is treated as a broadcast iff it begins fe f0 and is exactly 165, 168 or 159 bytes long -/
theorem gate_iff (m : List Nat) (hb : IsBytes m) : isSwitcherOriginator m = isBroadcast m := by
  unfold isSwitcherOriginator isBroadcast
  rw [take2_of_hex m hb]

/-- anything else — any length including empty, any content — is ignored silently: no device, no warning, no exception -/
theorem ignored_quietly (m : List Nat) (hb : IsBytes m) (h : isBroadcast m = false) : parseDatagram m = .ignored := by
  unfold parseDatagram
  rw [gate_iff m hb, h]; rfl

/-- the power field of a frame that passed the gate can always be read -/
theorem power_readable (m : List Nat) (hb : IsBytes m) (hl : 139 ≤ m.length) :
    ∃ pw, pyIntHex (swap16 (slice (hexlify m) 270 278)) = .ok pw := by
  rw [show (270 : Nat) = 2 * 135 from rfl, show (278 : Nat) = 2 * 139 from rfl, slice_hexlify]
  have hlen : (slice m 135 139).length = 4 := by simp [slice]; omega
  match hs : slice m 135 139, hlen with
  | [a, b, c, d], _ =>
    have hmem : ∀ x ∈ [a, b, c, d], x < 256 := by
      intro x hx
      have : x ∈ slice m 135 139 := by rw [hs]; exact hx
      exact hb x (List.mem_of_mem_drop (List.mem_of_mem_take this))
    have : swap16 (hexlify [a, b, c, d]) = hexlify [b, a] := by simp [swap16, slice, hexlify, hexByte]
    rw [this, pyIntHex_hexlify _ (by intro x hx; simp at hx; rcases hx with h | h <;> subst h <;> exact hmem _ (by simp)) (by simp)]
    exact ⟨_, rfl⟩

/-- A frame that passes the gate but names a model code the library does not know produces no device and the
    'unknown device' warning — never an error -/
theorem unknown_model (m : List Nat) (hb : IsBytes m) (hg : isBroadcast m = true) (hu : deviceTypeOf m = none) :
    parseDatagram m = .warnUnknown := by
  have hl : 139 ≤ m.length := by
    simp only [isBroadcast, Bool.and_eq_true, Bool.or_eq_true, beq_iff_eq] at hg
    rcases hg.2 with (h | h) | h <;> omega
  obtain ⟨pw, hpw⟩ := power_readable m hb hl
  have hP : ∃ pw', (if (deviceStateOf m == "ON") = true then pyIntHex (swap16 (slice (hexlify m) 270 278)) else (pure 0 : Py Nat)) = .ok pw' := by
    by_cases hs : (deviceStateOf m == "ON") = true
    · exact ⟨pw, by rw [if_pos hs, hpw]⟩
    · exact ⟨0, by rw [if_neg hs]; rfl⟩
  obtain ⟨pw', hP'⟩ := hP
  unfold parseDatagram
  rw [gate_iff m hb, hg]
  have hbz : ("" == "BREEZE") = false := by decide
  simp only [Bool.not_true, Bool.false_eq_true, if_false, hu, Option.map_none, Option.getD_none, Option.isSome_none, Bool.false_and,
    hbz]
  simp only [py_pure] at hP' ⊢
  rw [hP']

/-- the model codes the library knows are exactly the nine of the generated table -/
theorem known_codes (m : List Nat) :
    (deviceTypeOf m).isSome = (Gen.deviceTypes.map (·.2.2.1.toList)).contains (hexlify (slice m 74 76)) := by
  unfold deviceTypeOf
  generalize hexlify (slice m 74 76) = c
  induction Gen.deviceTypes with
  | nil => rfl
  | cons t ts ih =>
    simp only [List.find?_cons, List.map_cons, List.contains_cons]
    by_cases h : t.2.2.1.toList == c
    · have h' : (c == t.2.2.1.toList) = true := by rw [beq_iff_eq] at h ⊢; exact h.symm
      simp [h, h']
    · have h' : (c == t.2.2.1.toList) = false := by
        rw [Bool.not_eq_true] at h; rw [← h]; exact Bool.eq_iff_iff.mpr ⟨fun x => by rw [beq_iff_eq] at x ⊢; exact x.symm, fun x => by rw [beq_iff_eq] at x ⊢; exact x.symm⟩
      simp [h, h', ih]

example : parseDatagram [] = .ignored := by decide
example : Gen.deviceTypes.length = 9 := by decide

end Props.C06
