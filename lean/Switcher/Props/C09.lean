/-
C09 — No device reply can crash the client or be mistaken for success.

For EVERY byte string the device may return at each step:
* `state_query_total`: a state query (type-1 state, shutter state, thermostat state) returns a parsed
  response or raises RuntimeError — nothing else — for every login reply and every state reply;
* `successful_iff`: a generic response reports success iff the reply was non-empty;
* `empty_login_stops_*`: when the login reply is empty, state queries and all type-2 operations raise
  RuntimeError having written the login frame only.
Premises: a well-formed configuration (3-byte id, 1-byte key as hex text) and a clock below 2^32, without
which the login frame itself cannot be built (struct.error / binascii.Error before anything is written).
-/
import Switcher.Proofs.Parsers
import Switcher.Props.C03
namespace Props.C09
open Spec Model Tmpl

def litCount : Sym → Nat
  | [] => 0
  | .lit _ :: t => litCount t + 1
  | .arg _ :: t => litCount t

theorem evalSym_length (env : Role → List Char) : ∀ s : Sym,
    (evalSym env s).length = litCount s + ((rolesOf s).map (fun r => (env r).length)).sum
  | [] => rfl
  | .lit c :: t => by simp [evalSym, litCount, rolesOf, evalSym_length env t]; omega
  | .arg r :: t => by simp [evalSym, litCount, rolesOf, evalSym_length env t]; omega

theorem sessionId_even (raw : List Nat) : (sessionId raw).length % 2 = 0 ∧ isHexText (sessionId raw) = true := by
  constructor
  · simp [sessionId, slice, hexlify_length]; omega
  · exact isHexText_slice _ _ _ (isHexText_hexlify _)

/-- the state-query frame can be built after ANY login reply (short, long or garbage) -/
theorem state_query_frame_exists (cfg : Cfg) (now : Nat) (raw : List Nat) (hcfg : WFcfg cfg)
    (method tmpl : String) (k : Kind)
    (hk : (method = "get_state" ∧ tmpl = "GET_STATE_PACKET_TYPE1" ∧ k = .getState1) ∨
          (method = "get_shutter_state" ∧ tmpl = "GET_STATE_PACKET2_TYPE2" ∧ k = .getState2) ∨
          (method = "_get_breeze_state" ∧ tmpl = "GET_STATE_PACKET2_TYPE2" ∧ k = .getState2)) :
    ∃ f, commandFrame method tmpl (baseEnv cfg (tsOf now) raw) = .ok f := by
  obtain ⟨hd1, hd2, hk1, hk2⟩ := hcfg
  obtain ⟨ht1, ht2⟩ := tsOf_props now
  obtain ⟨he, hh⟩ := sessionId_even raw
  let renv : Role → List Char := fun r => match r with
    | .sid => sessionId raw | .ts => tsOf now | .did => cfg.deviceId | _ => []
  have hroles : rolesOf (refSym k) = [.sid, .ts, .did] := by
    rcases hk with ⟨_, _, rfl⟩ | ⟨_, _, rfl⟩ | ⟨_, _, rfl⟩ <;> decide +kernel
  have hlit : litCount (refSym k) = 66 := by
    rcases hk with ⟨_, _, rfl⟩ | ⟨_, _, rfl⟩ | ⟨_, _, rfl⟩ <;> decide +kernel
  have hlen : (evalSym renv (refSym k)).length = 2 * (40 + (sessionId raw).length / 2) := by
    rw [evalSym_length, hroles, hlit]; simp [renv, ht1, hd1]; omega
  obtain ⟨bs, _, _, hw⟩ := commandFrame_fixed method tmpl (baseEnv cfg (tsOf now) raw) renv (argS renv) (refSym k) _
    (by rcases hk with ⟨rfl, rfl, rfl⟩ | ⟨rfl, rfl, rfl⟩ | ⟨rfl, rfl, rfl⟩ <;> decide +kernel)
    (hf_of_exprs _ _ _ _ _ ["login_resp.session_id", "timestamp", "self._device_id"]
      (by rcases hk with ⟨rfl, rfl, rfl⟩ | ⟨rfl, rfl, rfl⟩ | ⟨rfl, rfl, rfl⟩ <;> decide +kernel)
      (by simp [argOf, baseEnv, argS, roleOfExpr, Renders, renv]))
    (by rcases hk with ⟨rfl, rfl, rfl⟩ | ⟨rfl, rfl, rfl⟩ | ⟨rfl, rfl, rfl⟩ <;> decide +kernel)
    (by rcases hk with ⟨_, _, rfl⟩ | ⟨_, _, rfl⟩ | ⟨_, _, rfl⟩ <;> decide +kernel)
    (by rw [hroles]; simp [renv, hh, ht2, hd2])
    hlen
  exact ⟨_, hw⟩

/-- a generic response reports success iff the reply was non-empty -/
theorem successful_iff (raw : List Nat) : successful raw = true ↔ raw ≠ [] := by
  cases raw <;> simp [successful]

theorem finishState_total (r : List Nat) : (∃ x, finishState r = .ok x) ∨ finishState r = .error .runtimeError := by
  unfold finishState
  rcases catchKV_total (isKV_parseState r) with ⟨a, ha⟩ | ha
  · rw [ha]; simp only []
    split
    · left; exact ⟨_, rfl⟩
    · right; rfl
  · rw [ha]; right; rfl

theorem finishShutter_total (r : List Nat) : (∃ x, finishShutter r = .ok x) ∨ finishShutter r = .error .runtimeError := by
  unfold finishShutter
  rcases catchKV_total (isKV_parseShutter r) with ⟨a, ha⟩ | ha
  · rw [ha]; left; exact ⟨_, rfl⟩
  · rw [ha]; right; rfl

theorem finishThermo_total (r : List Nat) : (∃ x, finishThermo r = .ok x) ∨ finishThermo r = .error .runtimeError := by
  unfold finishThermo
  rcases catchKV_total (isKV_parseThermo r) with ⟨a, ha⟩ | ha
  · rw [ha]; left; exact ⟨_, rfl⟩
  · rw [ha]; right; rfl

/-- a state query of the common shape, whose command frame can always be built, returns what `finish` returns
    or raises RuntimeError -/
theorem simple_query_total (cfg : Cfg) (now : Nat) (method tmpl : String) (finish : List Nat → Py Resp) (reps : List (List Nat))
    (hcfg : WFcfg cfg) (hnow : now < 4294967296)
    (hframe : ∀ raw, ∃ f, commandFrame method tmpl (baseEnv cfg (tsOf now) raw) = .ok f)
    (hfin : ∀ r, (∃ x, finish r = .ok x) ∨ finish r = .error .runtimeError) :
    (∃ r, (runProg (simpleOp cfg now method tmpl (pure []) finish) reps).2 = .ok r) ∨
    (runProg (simpleOp cfg now method tmpl (pure []) finish) reps).2 = .error .runtimeError := by
  obtain ⟨f1, hl1, _⟩ := login_frame cfg now hcfg (loginVariantText method)
  simp only [simpleOp, withLogin, timestampToHex_ok now hnow, hl1, py_pure, List.append_nil]
  have tailc : ∀ (raw : List Nat) (rest : List (List Nat)) (p : Prog),
      p = (if guardStops method raw = true then Prog.done (.error .runtimeError) else
            match commandFrame method tmpl (baseEnv cfg (tsOf now) raw) with
            | .error e => Prog.done (.error e)
            | .ok f => Prog.send f (fun r => Prog.done (finish r))) →
      (∃ r, (runProg p rest).2 = .ok r) ∨ (runProg p rest).2 = .error .runtimeError := by
    intro raw rest p hp
    subst hp
    by_cases hg : guardStops method raw = true
    · right; simp [hg, runProg]
    · obtain ⟨f, hf⟩ := hframe raw
      simp only [hg, if_false, hf, Bool.false_eq_true]
      cases rest with
      | nil => simpa [runProg] using hfin []
      | cons r rs => simpa [runProg] using hfin r
  cases reps with
  | nil => simp only [runProg]; exact tailc [] [] _ rfl
  | cons raw rest => simp only [runProg]; exact tailc raw rest _ rfl

/-- STATE QUERIES ARE TOTAL: whatever the device returns at either step, a state query returns a parsed
    response or raises RuntimeError, never any other exception -/
theorem get_state_total (cfg : Cfg) (now : Nat) (off : Int) (reps : List (List Nat)) (hcfg : WFcfg cfg) (hnow : now < 4294967296) :
    (∃ r, (runProg (prog cfg now off .getState) reps).2 = .ok r) ∨
    (runProg (prog cfg now off .getState) reps).2 = .error .runtimeError :=
  simple_query_total cfg now "get_state" "GET_STATE_PACKET_TYPE1" finishState reps hcfg hnow
    (fun raw => state_query_frame_exists cfg now raw hcfg _ _ .getState1 (Or.inl ⟨rfl, rfl, rfl⟩)) finishState_total

theorem get_shutter_state_total (cfg : Cfg) (now : Nat) (off : Int) (reps : List (List Nat)) (hcfg : WFcfg cfg) (hnow : now < 4294967296) :
    (∃ r, (runProg (prog cfg now off .getShutterState) reps).2 = .ok r) ∨
    (runProg (prog cfg now off .getShutterState) reps).2 = .error .runtimeError :=
  simple_query_total cfg now "get_shutter_state" "GET_STATE_PACKET2_TYPE2" finishShutter reps hcfg hnow
    (fun raw => state_query_frame_exists cfg now raw hcfg _ _ .getState2 (Or.inr (Or.inl ⟨rfl, rfl, rfl⟩))) finishShutter_total

theorem get_breeze_state_total (cfg : Cfg) (now : Nat) (off : Int) (reps : List (List Nat)) (hcfg : WFcfg cfg) (hnow : now < 4294967296) :
    (∃ r, (runProg (prog cfg now off .getBreezeState) reps).2 = .ok r) ∨
    (runProg (prog cfg now off .getBreezeState) reps).2 = .error .runtimeError := by
  obtain ⟨f1, hl1, _⟩ := login_frame cfg now hcfg (loginVariantText "get_breeze_state")
  simp only [prog, withLogin, timestampToHex_ok now hnow, hl1]
  have tailc : ∀ (raw : List Nat) (rest : List (List Nat)) (p : Prog),
      p = (if guardStops "get_breeze_state" raw = true then Prog.done (.error .runtimeError) else
            match commandFrame "_get_breeze_state" "GET_STATE_PACKET2_TYPE2" (baseEnv cfg (tsOf now) raw) with
            | .error e => Prog.done (.error e)
            | .ok f => Prog.send f (fun r => Prog.done (finishThermo r))) →
      (∃ r, (runProg p rest).2 = .ok r) ∨ (runProg p rest).2 = .error .runtimeError := by
    intro raw rest p hp
    subst hp
    by_cases hg : guardStops "get_breeze_state" raw = true
    · right; simp [hg, runProg]
    · obtain ⟨f, hf⟩ := state_query_frame_exists cfg now raw hcfg "_get_breeze_state" "GET_STATE_PACKET2_TYPE2" .getState2
        (Or.inr (Or.inr ⟨rfl, rfl, rfl⟩))
      simp only [hg, if_false, hf, Bool.false_eq_true]
      cases rest with
      | nil => simpa [runProg] using finishThermo_total []
      | cons r rs => simpa [runProg] using finishThermo_total r
  cases reps with
  | nil => simp only [runProg]; exact tailc [] [] _ rfl
  | cons raw rest => simp only [runProg]; exact tailc raw rest _ rfl

/-- when the login reply is empty, guarded operations raise RuntimeError having written only the login frame -/
theorem empty_login_stops_simple (cfg : Cfg) (now : Nat) (method tmpl : String) (extra : Py Env) (finish : List Nat → Py Resp)
    (rest : List (List Nat)) (hcfg : WFcfg cfg) (hnow : now < 4294967296)
    (hg : guardStyle method = "raise-if-not-successful" ∨ guardStyle method = "only-if-successful") :
    ∃ f1, runProg (simpleOp cfg now method tmpl extra finish) ([] :: rest) = ([f1], .error .runtimeError) := by
  obtain ⟨f1, hl1, _⟩ := login_frame cfg now hcfg (loginVariantText method)
  exact ⟨f1, runProg_simpleOp_guarded cfg now method tmpl extra finish (tsOf now) f1 [] rest (timestampToHex_ok now hnow) hl1
    (guardStops_empty method hg)⟩

/-- … which covers get_state, get_shutter_state, stop and set_position … -/
theorem empty_login_stops (cfg : Cfg) (now : Nat) (off : Int) (rest : List (List Nat)) (hcfg : WFcfg cfg) (hnow : now < 4294967296)
    (req : Req) (h : req = .getState ∨ req = .getShutterState ∨ req = .stop ∨ ∃ p, req = .setPosition p) :
    ∃ f1, runProg (prog cfg now off req) ([] :: rest) = ([f1], .error .runtimeError) := by
  rcases h with rfl | rfl | rfl | ⟨p, rfl⟩
  · simp only [prog]; exact empty_login_stops_simple cfg now "get_state" _ _ _ rest hcfg hnow (Or.inr (by decide +kernel))
  · simp only [prog]; exact empty_login_stops_simple cfg now "get_shutter_state" _ _ _ rest hcfg hnow (Or.inr (by decide +kernel))
  · simp only [prog]; exact empty_login_stops_simple cfg now "stop" _ _ _ rest hcfg hnow (Or.inl (by decide +kernel))
  · simp only [prog]; exact empty_login_stops_simple cfg now "set_position" _ _ _ rest hcfg hnow (Or.inl (by decide +kernel))

/-- … and the thermostat operations -/
theorem empty_login_stops_breeze (cfg : Cfg) (now : Nat) (off : Int) (rest : List (List Nat)) (hcfg : WFcfg cfg) (hnow : now < 4294967296)
    (req : Req) (h : req = .getBreezeState ∨ ∃ r s m t f w u, req = .controlBreeze r s m t f w u) :
    ∃ f1, runProg (prog cfg now off req) ([] :: rest) = ([f1], .error .runtimeError) := by
  rcases h with rfl | ⟨r, s, m, t, f, w, u, rfl⟩
  · obtain ⟨f1, hl1, _⟩ := login_frame cfg now hcfg (loginVariantText "get_breeze_state")
    refine ⟨f1, ?_⟩
    have hg : guardStops "get_breeze_state" [] = true := guardStops_empty _ (Or.inr (by decide +kernel))
    simp [prog, withLogin, timestampToHex_ok now hnow, hl1, runProg, hg]
  · obtain ⟨f1, hl1, _⟩ := login_frame cfg now hcfg (loginVariantText "control_breeze_device")
    refine ⟨f1, ?_⟩
    have hg : guardStops "control_breeze_device" [] = true := guardStops_empty _ (Or.inl (by decide +kernel))
    simp [prog, controlBreeze, withLogin, timestampToHex_ok now hnow, hl1, runProg, hg]

/-! ### non-vacuity: concrete faulty exchanges -/

/-- a state query answered by a reply cut in the middle of the power field: RuntimeError, two frames written -/
example : (match runProg (prog C03.demoCfg 1700000000 0 .getState) [C03.demoLogin, List.replicate 78 7] with
    | (frames, .error e) => frames.length == 2 && e == .runtimeError
    | _ => false) = true := by decide +kernel
/-- an unanswered login stops a type-2 operation after the login frame -/
example : (match runProg (prog C03.demoCfg 1700000000 0 .stop) [[], [1]] with
    | (frames, .error e) => frames.length == 1 && e == .runtimeError
    | _ => false) = true := by decide +kernel

end Props.C09
