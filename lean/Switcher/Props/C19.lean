/-
C19 — Device types, categories, classes and ports are mutually consistent.
All statements are about the tables regenerated from the source on every run (Gen.Tables,
Gen.Guards) and are decided by kernel evaluation over the whole (finite) tables.
-/
import Switcher.Spec.Devices
import Switcher.Model.Device
import Switcher.Gen.Missing
namespace Props.C19
open Spec Model

/-- the translator found everything it looks for -/
theorem translator_complete : Gen.missingIn ["Tables", "Guards"] = [] := by decide

/-- nine device types, four classes, four categories: the quantifier domain is the one the property names -/
theorem domain : Gen.deviceTypes.length = 9 ∧ Gen.deviceClasses.length = 4 ∧ Gen.categories.length = 4 := by decide

/-- every device type has a unique two-byte model code … -/
theorem codes_unique : (Gen.deviceTypes.map (·.2.2.1)).Nodup := by decide
theorem codes_two_bytes : ∀ t ∈ Gen.deviceTypes, isHex4 t.2.2.1 = true := by decide
theorem names_unique : (Gen.deviceTypes.map (·.1)).Nodup := by decide

/-- … a protocol type (1 or 2) and a category that exists -/
theorem protocol_and_category : ∀ t ∈ Gen.deviceTypes,
    (t.2.2.2.1 = 1 ∨ t.2.2.2.1 = 2) ∧ t.2.2.2.2 ∈ Gen.categories := by decide

/-- each device class accepts exactly the device types of its own category and refuses every other -/
theorem class_accepts_iff : ∀ cls ∈ Gen.deviceClasses, ∀ t ∈ Gen.deviceTypes,
    (categoryOfClass cls).isSome ∧
    accepts cls t.1 = (categoryOfClass cls).map (fun cat => decide (t.2.2.2.2 = cat)) := by decide

/-- every class has at least one type it accepts and one it refuses (the iff is not vacuous) -/
theorem class_nontrivial : ∀ cls ∈ Gen.deviceClasses,
    (∃ t ∈ Gen.deviceTypes, accepts cls t.1 = some true) ∧ (∃ t ∈ Gen.deviceTypes, accepts cls t.1 = some false) := by decide

/-- each category maps to the broadcast port and control port of the protocol type of every type in it
    (type 1: UDP 20002, TCP 9957; type 2: UDP 20003, TCP 10000) -/
theorem ports_of_protocol : ∀ t ∈ Gen.deviceTypes,
    (portsOfProtocol t.2.2.2.1).isSome ∧
    portsOfProtocol t.2.2.2.1 = (udpPort t.2.2.2.2).bind (fun u => (tcpPort t.2.2.2.2).map (fun c => (u, c))) := by decide

/-- both port tables are total on, and only on, the four categories, and every category is inhabited -/
theorem port_tables_total :
    (∀ c ∈ Gen.categories, (tcpPort c).isSome ∧ (udpPort c).isSome ∧ ∃ t ∈ Gen.deviceTypes, t.2.2.2.2 = c) ∧
    (∀ r ∈ Gen.tcpPortOfCategory, r.1 ∈ Gen.categories) ∧ (∀ r ∈ Gen.udpPortOfCategory, r.1 ∈ Gen.categories) ∧
    (Gen.tcpPortOfCategory.map (·.1)).Nodup ∧ (Gen.udpPortOfCategory.map (·.1)).Nodup := by decide

/-- the named port constants are the protocol's -/
theorem port_constants : Gen.tcpPortType1 = 9957 ∧ Gen.tcpPortType2 = 10000 ∧
    Gen.udpPortType1 = 20002 ∧ Gen.udpPortType2 = 20003 := by decide

/- concrete rows of the generated tables (the statements above are not about empty tables) -/
example : accepts "SwitcherShutter" "RUNNER" = some true ∧ accepts "SwitcherShutter" "RUNNER_MINI" = some true ∧
    accepts "SwitcherShutter" "MINI" = some false ∧ accepts "SwitcherThermostat" "BREEZE" = some true ∧
    accepts "SwitcherPowerPlug" "POWER_PLUG" = some true ∧ accepts "SwitcherWaterHeater" "POWER_PLUG" = some false := by decide
example : categoryOfClass "SwitcherWaterHeater" = some "WATER_HEATER" ∧ udpPort "SHUTTER" = some 20003 ∧ tcpPort "WATER_HEATER" = some 9957 := by decide

end Props.C19
