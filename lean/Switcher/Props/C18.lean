/-
C18 — The TCP client is connected exactly between connect and disconnect.
PARTIAL: the model is the client's bookkeeping (flag, the socket its writer refers to, sockets it opened and has not
closed); that closing the writer makes the device see end-of-stream and that a refused connect raises are runtime
facts observed by the correspondence harness on real loopback TCP, not proved.
-/
import Switcher.Model.Life
namespace Props.C18
open Model

/-- no `connect` while connected (the hypothesis under which at most one socket is open; C18 speaks of "the next
    disconnect" only) -/
def NoDoubleConnect : ClientState → List ClientAct → Prop
  | _, [] => True
  | s, a :: as =>
    (match a with
     | .connectOk => s.connected = false
     | .withBody _ => s.connected = false
     | _ => True) ∧ NoDoubleConnect (clientStep s a).1 as

/-- the flag: true exactly when the last of {successful connect, disconnect / leaving the context} was a successful connect -/
def lastSays : List ClientAct → Bool → Bool
  | [], b => b
  | .connectOk :: as, _ => lastSays as true
  | .disconnect :: as, _ => lastSays as false
  | .withBody _ :: as, _ => lastSays as false
  | _ :: as, b => lastSays as b

theorem connected_iff (s : ClientState) (as : List ClientAct) :
    (clientRunActs s as).1.connected = lastSays as s.connected := by
  induction as generalizing s with
  | nil => rfl
  | cons a as ih =>
    simp only [clientRunActs]
    rw [ih]
    cases a <;> simp [clientStep, lastSays, clientConnect, clientDisconnect] <;> (try (cases s.current <;> rfl))

/-- 'connected' is true exactly between a successful connect and the next disconnect, for EVERY action sequence -/
theorem connected_exactly (as : List ClientAct) : (clientRunActs clientInit as).1.connected = lastSays as false :=
  connected_iff clientInit as

/-- the invariant: the socket the writer refers to is the only one that may be open, and while connected it is open -/
def Inv (s : ClientState) : Prop :=
  (∀ k ∈ s.openSocks, k < s.next) ∧ (∀ k, s.current = some k → k < s.next) ∧
  (s.connected = true → ∃ k, s.current = some k ∧ s.openSocks = [k]) ∧ (s.connected = false → s.openSocks = [])

theorem inv_init : Inv clientInit := by simp [Inv, clientInit]

theorem inv_step (s : ClientState) (a : ClientAct) (h : Inv s)
    (hno : (match a with | .connectOk => s.connected = false | .withBody _ => s.connected = false | _ => True)) :
    Inv (clientStep s a).1 := by
  obtain ⟨h1, h2, h3, h4⟩ := h
  cases a with
  | connectOk =>
    simp only [] at hno
    have := h4 hno
    simp only [clientStep, clientConnect, Inv, this]
    refine ⟨by simp, by intro k hk; cases hk; omega, fun _ => ⟨s.next, rfl, rfl⟩, by simp⟩
  | connectRefused => exact ⟨h1, h2, h3, h4⟩
  | opOk => exact ⟨h1, h2, h3, h4⟩
  | opRaises => exact ⟨h1, h2, h3, h4⟩
  | disconnect =>
    simp only [clientStep, clientDisconnect]
    cases hc : s.current with
    | none =>
      have : s.connected = false := by
        cases hcon : s.connected with
        | false => rfl
        | true => obtain ⟨k, hk, _⟩ := h3 hcon; rw [hc] at hk; cases hk
      refine ⟨h1, ?_, ?_, ?_⟩
      · intro k hk; simp at hk
      · intro hf; simp at hf
      · intro _; exact h4 this
    | some k =>
      refine ⟨fun j hj => h1 j (List.mem_filter.mp hj).1, fun j hj => h2 j (by rw [hc]; exact hj), ?_, ?_⟩
      · intro hf; simp at hf
      intro _
      cases hcon : s.connected with
      | false => rw [h4 hcon]; rfl
      | true =>
        obtain ⟨k', hk', ho⟩ := h3 hcon
        rw [hc] at hk'; cases hk'
        rw [ho]; simp
  | withBody r =>
    simp only [] at hno
    have := h4 hno
    simp only [clientStep, clientConnect, clientDisconnect, Inv, this]
    refine ⟨by simp, by intro k hk; cases hk; omega, by simp, by simp⟩

/-- under "no connect while connected": after every action sequence the client has exactly one open socket while connected
    and none otherwise — disconnect (explicit, or by leaving the async context, also through an exception in the body) has
    closed the socket -/
theorem sockets_exactly (as : List ClientAct) (s : ClientState) (hi : Inv s) (hno : NoDoubleConnect s as) :
    Inv (clientRunActs s as).1 := by
  induction as generalizing s with
  | nil => exact hi
  | cons a as ih =>
    simp only [clientRunActs]
    exact ih _ (inv_step s a hi hno.1) hno.2

theorem open_count (as : List ClientAct) (hno : NoDoubleConnect clientInit as) :
    ((clientRunActs clientInit as).1.openSocks.length = if (clientRunActs clientInit as).1.connected then 1 else 0) := by
  obtain ⟨_, _, h3, h4⟩ := sockets_exactly as clientInit inv_init hno
  cases hc : (clientRunActs clientInit as).1.connected with
  | true => obtain ⟨k, _, ho⟩ := h3 hc; simp [ho]
  | false => simp [h4 hc]

/-- disconnect closes the socket of the current connection -/
theorem disconnect_closes (s : ClientState) (k : Nat) (hc : s.current = some k) : k ∉ (clientStep s .disconnect).1.openSocks := by
  simp [clientStep, clientDisconnect, hc]

/-- leaving the async context closes the socket it opened, also when the body raised -/
theorem context_closes (s : ClientState) (r : Bool) : s.next ∉ (clientStep s (.withBody r)).1.openSocks ∧
    (clientStep s (.withBody r)).1.connected = false := by
  simp [clientStep, clientDisconnect, clientConnect]

/-- disconnect before connect, or twice, is harmless -/
theorem disconnect_first : clientStep clientInit .disconnect = (clientInit, .ok) := by decide
theorem disconnect_twice (s : ClientState) : (clientStep (clientStep s .disconnect).1 .disconnect).1 = (clientStep s .disconnect).1 := by
  simp only [clientStep, clientDisconnect]
  cases s.current <;> simp [List.filter_filter]

/-- a refused connection raises and leaves the client as it was (disconnected if it was) -/
theorem refused_connect (s : ClientState) : clientStep s .connectRefused = (s, .raiseOSError) := rfl

/-- the client can connect again afterwards -/
theorem reconnect (s : ClientState) : (clientStep (clientStep s .disconnect).1 .connectOk).1.connected = true := by
  simp [clientStep, clientConnect]

/-- an operation (successful or raising) never changes the connection state -/
theorem op_keeps_state (s : ClientState) : (clientStep s .opOk).1 = s ∧ (clientStep s .opRaises).1 = s := ⟨rfl, rfl⟩

example : (clientRunActs clientInit [.disconnect, .connectRefused, .connectOk, .opRaises, .disconnect, .disconnect, .withBody true, .connectOk]).1
    = { connected := true, current := some 2, openSocks := [2], next := 3 } := by decide

end Props.C18
