/-
C18 — The TCP client is connected exactly between connect and disconnect.
PARTIAL: the model is the client's bookkeeping (flag, the socket its writer refers to, sockets it opened and that are not
closed); that closing the writer makes the device see end-of-stream and that a refused connect raises are runtime
facts observed by the correspondence harness on real loopback TCP, not proved.

`reclaim` is the one runtime behaviour the socket count depends on: what happens to the socket of a connection the client
connects OVER without disconnecting (see `Model.clientConnect`).  Every theorem holds for both values, except
`sockets_exactly_all`, which needs `reclaim = true` (the runtime of this sandbox; observed by the harness) and in
exchange drops the hypothesis "no connect while connected".
-/
import Switcher.Model.Life
import Switcher.Model.ClientC
namespace Props.C18
open Model

/-- no `connect` while connected -/
def NoDoubleConnect (r : Bool) : ClientState → List ClientAct → Prop
  | _, [] => True
  | s, a :: as =>
    (match a with
     | .connectOk => s.connected = false
     | .withBody _ => s.connected = false
     | _ => True) ∧ NoDoubleConnect r (clientStep r s a).1 as

/-- the flag: true exactly when the last of {successful connect, disconnect / leaving the context} was a successful connect -/
def lastSays : List ClientAct → Bool → Bool
  | [], b => b
  | .connectOk :: as, _ => lastSays as true
  | .disconnect :: as, _ => lastSays as false
  | .withBody _ :: as, _ => lastSays as false
  | _ :: as, b => lastSays as b

theorem connected_iff (r : Bool) (s : ClientState) (as : List ClientAct) :
    (clientRunActs r s as).1.connected = lastSays as s.connected := by
  induction as generalizing s with
  | nil => rfl
  | cons a as ih =>
    simp only [clientRunActs]
    rw [ih]
    cases a <;> simp [clientStep, lastSays, clientConnect, clientDisconnect] <;> (try (cases s.current <;> rfl))

/-- 'connected' is true exactly between a successful connect and the next disconnect, for EVERY action sequence
    (connects over an open connection, refused connects, failing operations and body exceptions included) -/
theorem connected_exactly (r : Bool) (as : List ClientAct) : (clientRunActs r clientInit as).1.connected = lastSays as false :=
  connected_iff r clientInit as

/-- the invariant: the socket the writer refers to is the only one that may be open, and while connected it is open -/
def Inv (s : ClientState) : Prop :=
  (∀ k ∈ s.openSocks, k < s.next) ∧ (∀ k, s.current = some k → k < s.next) ∧
  (s.connected = true → ∃ k, s.current = some k ∧ s.openSocks = [k]) ∧ (s.connected = false → s.openSocks = [])

theorem inv_init : Inv clientInit := by simp [Inv, clientInit]

/-- what a connect leaves open, given the invariant: exactly the new socket -/
theorem connect_open (r : Bool) (s : ClientState) (h : Inv s) (hno : r = true ∨ s.connected = false) :
    (clientConnect r s).openSocks = [s.next] := by
  obtain ⟨_, _, h3, h4⟩ := h
  cases hc : s.connected with
  | false => simp [clientConnect, h4 hc]
  | true =>
    obtain ⟨k, hk, ho⟩ := h3 hc
    cases hno with
    | inl hr => subst hr; simp [clientConnect, ho, hk]
    | inr hf => rw [hc] at hf; cases hf

theorem inv_step (r : Bool) (s : ClientState) (a : ClientAct) (h : Inv s)
    (hno : r = true ∨ (match a with | .connectOk => s.connected = false | .withBody _ => s.connected = false | _ => True)) :
    Inv (clientStep r s a).1 := by
  have h' := h
  obtain ⟨h1, h2, h3, h4⟩ := h
  cases a with
  | connectOk =>
    have ho := connect_open r s h' (by cases hno with | inl x => exact .inl x | inr x => exact .inr x)
    refine ⟨?_, ?_, ?_, ?_⟩
    · intro k hk
      have hk' : k ∈ (clientConnect r s).openSocks := hk
      rw [ho] at hk'; simp at hk'; subst hk'; simp [clientStep, clientConnect]
    · intro k hk; simp [clientStep, clientConnect] at hk; subst hk; simp [clientStep, clientConnect]
    · intro _; exact ⟨s.next, by simp [clientStep, clientConnect], by simp only [clientStep]; exact ho⟩
    · intro hf; simp [clientStep, clientConnect] at hf
  | connectRefused => exact ⟨h1, h2, h3, h4⟩
  | opOk => exact ⟨h1, h2, h3, h4⟩
  | opRaises => exact ⟨h1, h2, h3, h4⟩
  | foreign => exact ⟨h1, h2, h3, h4⟩
  | disconnect =>
    simp only [clientStep, clientDisconnect]
    cases hc : s.current with
    | none =>
      have : s.connected = false := by
        cases hcon : s.connected with
        | false => rfl
        | true => obtain ⟨k, hk, _⟩ := h3 hcon; rw [hc] at hk; cases hk
      refine ⟨h1, ?_, ?_, ?_⟩
      · intro k hk; simp at hk
      · intro hf; simp at hf
      · intro _; exact h4 this
    | some k =>
      refine ⟨fun j hj => h1 j (List.mem_filter.mp hj).1, fun j hj => h2 j (by rw [hc]; exact hj), ?_, ?_⟩
      · intro hf; simp at hf
      intro _
      cases hcon : s.connected with
      | false => rw [h4 hcon]; rfl
      | true =>
        obtain ⟨k', hk', ho⟩ := h3 hcon
        rw [hc] at hk'; cases hk'
        rw [ho]; simp
  | withBody b =>
    have ho := connect_open r s h' (by cases hno with | inl x => exact .inl x | inr x => exact .inr x)
    have hcur : (clientConnect r s).current = some s.next := by simp [clientConnect]
    simp only [clientStep, clientDisconnect, hcur, ho]
    refine ⟨by simp, ?_, by simp, by simp⟩
    intro k hk; simp at hk; subst hk; simp [clientConnect]

/-- under "no connect while connected", on ANY runtime: after every action sequence the client has exactly one open socket
    while connected and none otherwise — disconnect (explicit, or by leaving the async context, also through an exception in
    the body) has closed the socket -/
theorem sockets_exactly (r : Bool) (as : List ClientAct) (s : ClientState) (hi : Inv s) (hno : NoDoubleConnect r s as) :
    Inv (clientRunActs r s as).1 := by
  induction as generalizing s with
  | nil => exact hi
  | cons a as ih =>
    simp only [clientRunActs]
    exact ih _ (inv_step r s a hi (.inr hno.1)) hno.2

/-- on a runtime that reclaims connections the client connected over: the same for EVERY action sequence, no hypothesis -/
theorem sockets_exactly_all (as : List ClientAct) (s : ClientState) (hi : Inv s) : Inv (clientRunActs true s as).1 := by
  induction as generalizing s with
  | nil => exact hi
  | cons a as ih =>
    simp only [clientRunActs]
    exact ih _ (inv_step true s a hi (.inl rfl))

theorem count_of_inv (s : ClientState) (h : Inv s) : s.openSocks.length = if s.connected then 1 else 0 := by
  obtain ⟨_, _, h3, h4⟩ := h
  cases hc : s.connected with
  | true => obtain ⟨k, _, ho⟩ := h3 hc; simp [ho]
  | false => simp [h4 hc]

theorem open_count (r : Bool) (as : List ClientAct) (hno : NoDoubleConnect r clientInit as) :
    ((clientRunActs r clientInit as).1.openSocks.length = if (clientRunActs r clientInit as).1.connected then 1 else 0) :=
  count_of_inv _ (sockets_exactly r as clientInit inv_init hno)

theorem open_count_all (as : List ClientAct) :
    ((clientRunActs true clientInit as).1.openSocks.length = if (clientRunActs true clientInit as).1.connected then 1 else 0) :=
  count_of_inv _ (sockets_exactly_all as clientInit inv_init)

/-- disconnect closes the socket of the current connection -/
theorem disconnect_closes (r : Bool) (s : ClientState) (k : Nat) (hc : s.current = some k) : k ∉ (clientStep r s .disconnect).1.openSocks := by
  simp [clientStep, clientDisconnect, hc]

/-- leaving the async context closes the socket it opened, also when the body raised -/
theorem context_closes (r : Bool) (s : ClientState) (b : Bool) : s.next ∉ (clientStep r s (.withBody b)).1.openSocks ∧
    (clientStep r s (.withBody b)).1.connected = false := by
  simp [clientStep, clientDisconnect, clientConnect]

/-- disconnect before connect, or twice, is harmless -/
theorem disconnect_first (r : Bool) : clientStep r clientInit .disconnect = (clientInit, .ok) := by cases r <;> decide
theorem disconnect_twice (r : Bool) (s : ClientState) :
    (clientStep r (clientStep r s .disconnect).1 .disconnect).1 = (clientStep r s .disconnect).1 := by
  simp only [clientStep, clientDisconnect]
  cases s.current <;> simp [List.filter_filter]

/-- a refused connection raises and leaves the client as it was (disconnected if it was) -/
theorem refused_connect (r : Bool) (s : ClientState) : clientStep r s .connectRefused = (s, .raiseOSError) := rfl

/-- the client can connect again afterwards -/
theorem reconnect (r : Bool) (s : ClientState) : (clientStep r (clientStep r s .disconnect).1 .connectOk).1.connected = true := by
  simp [clientStep, clientConnect]

/-- what another client object does (to the same device or any other) changes nothing about this one: its flag, its writer and its
    sockets are what they were, and the run with those actions left out ends in the same state -/
theorem foreign_is_invisible (r : Bool) (s : ClientState) (as : List ClientAct) :
    (clientRunActs r s as).1 = (clientRunActs r s (as.filter (· ≠ .foreign))).1 := by
  induction as generalizing s with
  | nil => rfl
  | cons a as ih =>
    cases a <;> simp [clientRunActs, clientStep] <;> simpa using ih _

/-- an operation (successful or raising) never changes the connection state -/
theorem op_keeps_state (r : Bool) (s : ClientState) : (clientStep r s .opOk).1 = s ∧ (clientStep r s .opRaises).1 = s := ⟨rfl, rfl⟩

/-! ### the code-level client (attributes `_writer` / `_reader` / `_connected`, statements in order) refines the abstract machine -/

theorem client_step_refines (r : Bool) (c : ClientC) (a : ClientAct) :
    (clientStepC r c a).2 = (clientStep r c.abs a).2 ∧ (clientStepC r c a).1.abs = (clientStep r c.abs a).1 := by
  cases a with
  | connectOk => exact ⟨rfl, rfl⟩
  | connectRefused => exact ⟨rfl, rfl⟩
  | opOk => exact ⟨rfl, rfl⟩
  | opRaises => exact ⟨rfl, rfl⟩
  | foreign => exact ⟨rfl, rfl⟩
  | disconnect =>
    refine ⟨rfl, ?_⟩
    simp only [clientStepC, clientStep, ClientC.disconnect, clientDisconnect, ClientC.abs]
    cases c.writer <;> rfl
  | withBody b => exact ⟨rfl, rfl⟩

/-- REFINEMENT over whole histories: the code-level client makes exactly the observations of the abstract machine and ends in a
    state whose abstraction is the abstract machine's state -/
theorem client_code_refines (r : Bool) : ∀ (as : List ClientAct) (c : ClientC),
    (clientRunActsC r c as).2 = (clientRunActs r c.abs as).2 ∧ (clientRunActsC r c as).1.abs = (clientRunActs r c.abs as).1
  | [], c => ⟨rfl, rfl⟩
  | a :: as, c => by
    obtain ⟨s1, s2⟩ := client_step_refines r c a
    obtain ⟨r1, r2⟩ := client_code_refines r as (clientStepC r c a).1
    simp only [clientRunActsC, clientRunActs]
    rw [s2] at r1 r2
    exact ⟨by rw [s1, r1], r2⟩

/-- hence: after every history of the code-level client (on this runtime) the sockets it holds open are exactly the one its writer
    refers to while `connected`, none otherwise -/
theorem client_code_inv (as : List ClientAct) : Inv (clientRunActsC true clientInitC as).1.abs := by
  rw [(client_code_refines true as clientInitC).2]
  exact sockets_exactly_all as clientInit inv_init

/-- LEAVING THE CONTEXT CLOSES, WHATEVER THE BODY RAISED: `__aexit__` does not look at `exc_type` — the state after
    `async with` is the same for a body that returns, raises an ordinary exception, a ConnectionError, is cancelled or interrupted:
    disconnected, and the socket the context opened is closed -/
theorem context_exit_ignores_exception (r : Bool) (c : ClientC) (e : BodyExit) :
    c.withBody r e = c.withBody r .normal ∧ (c.withBody r e).flag = false ∧ c.next ∉ (c.withBody r e).openS := by
  refine ⟨rfl, ?_, ?_⟩
  · simp [ClientC.withBody, ClientC.disconnect, ClientC.connectOk]
  · simp [ClientC.withBody, ClientC.disconnect, ClientC.connectOk]

/-- a refused connect reaches neither assignment: no attribute appears, so a later `disconnect()` still takes the "not connected"
    branch of `hasattr(self, "_writer") and self._writer` -/
theorem refused_connect_assigns_nothing (r : Bool) (c : ClientC) : (clientStepC r c .connectRefused).1 = c := rfl

example : (clientRunActsC true clientInitC [.disconnect, .connectRefused, .connectOk, .opRaises, .disconnect, .disconnect, .withBody true, .connectOk]).1
    = { writer := some 2, reader := some 2, flag := true, openS := [2], next := 3 } := by decide

example : (clientRunActs true clientInit [.disconnect, .connectRefused, .connectOk, .opRaises, .disconnect, .disconnect, .withBody true, .connectOk]).1
    = { connected := true, current := some 2, openSocks := [2], next := 3 } := by decide
/- connecting over an open connection: what is left open depends on the runtime -/
example : (clientRunActs true clientInit [.connectOk, .connectOk, .disconnect]).1.openSocks = [] := by decide
example : (clientRunActs false clientInit [.connectOk, .connectOk, .disconnect]).1.openSocks = [0] := by decide

end Props.C18
