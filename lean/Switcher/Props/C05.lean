/-
C05 — A status broadcast is decoded into exactly the device the sender described.

`Spec.encodeType1 / encodeShutterB / encodeThermoB` write a device description into an ARBITRARY background
of the frame's length; the theorems say that the model of `_parse_device_from_datagram` yields exactly
`Spec.expect…` — every field equal to what was encoded, OFF ⇒ power 0, current 0.0, remaining 00:00:00 —
for all 9 device types, both states and every field value in its domain.  The current is
`Spec.ampsTenths` = Python's `round(w/220.0, 1)`, within 0.05 A of w/220 for every w (`Proofs.Amps`).
-/
import Switcher.Proofs.Broadcast
import Switcher.Proofs.Amps
namespace Props.C05
open Spec Model

/-- the type-1 device types of the protocol: (member, model code, water heater?) -/
def type1Table : List (String × List Nat × Bool) :=
  [("MINI", [0x03, 0x0f], true), ("POWER_PLUG", [0x01, 0xa8], false), ("TOUCH", [0x03, 0x0b], true),
   ("V2_ESP", [0x01, 0xa7], true), ("V2_QCA", [0x01, 0xa1], true), ("V4", [0x03, 0x17], true)]

/-- the generated `DeviceType` table knows each of them with that code and the right category -/
theorem type1_known : ∀ e ∈ type1Table,
    Gen.deviceTypes.find? (fun t => t.2.2.1.toList == hexlify e.2.1) =
      (Gen.deviceTypes.find? (fun t => t.1 == e.1)) ∧
    ((Gen.deviceTypes.find? (fun t => t.1 == e.1)).map (fun t => (t.1, t.2.2.2.2))) =
      some (e.1, if e.2.2 then "WATER_HEATER" else "POWER_PLUG") := by decide +kernel

theorem slen (bg : List Nat) (a b : Nat) (h : b ≤ bg.length) (hab : a ≤ b) : (slice bg a b).length = b - a := by
  simp [slice]; omega

/-- TYPE 1 (water heaters and power plugs) -/
theorem type1_decodes (bg : List Nat) (d : Type1) (hbg : bg.length = 165) (hc : d.c.wf)
    (ht : (d.typeName, d.code, d.heater) ∈ type1Table)
    (hp : d.power < 65536) (hr : d.remaining < 86400) (ha : d.autoShutdown < 86400) :
    parseDatagram (encodeType1 bg d) = .device (expectType1 d) := by
  obtain ⟨hid, hidb, hkey, hip, hipb, hmac, hmacb, hn1, hn32, hnul⟩ := hc
  have hcode : d.code.length = 2 := by
    simp only [type1Table, List.mem_cons, Prod.mk.injEq, List.mem_nil_iff, or_false] at ht
    rcases ht with ⟨_, h, _⟩ | ⟨_, h, _⟩ | ⟨_, h, _⟩ | ⟨_, h, _⟩ | ⟨_, h, _⟩ | ⟨_, h, _⟩ <;> rw [h] <;> rfl
  have hnp : (namePad d.c.name).length = 32 := by simp [namePad]; omega
  -- lengths of the background pieces
  have b1 := slen bg 2 18 (by omega) (by omega)
  have b2 := slen bg 21 40 (by omega) (by omega)
  have b3 := slen bg 41 42 (by omega) (by omega)
  have b4 := slen bg 86 133 (by omega) (by omega)
  have b5 := slen bg 134 135 (by omega) (by omega)
  have b6 := slen bg 137 139 (by omega) (by omega)
  have b7 := slen bg 139 147 (by omega) (by omega)
  have b8 := slen bg 151 155 (by omega) (by omega)
  have b9 : (bg.drop 159).length = 6 := by simp; omega
  let r := encodeType1 bg d
  have hr_def : r = encodeType1 bg d := rfl
  have lens := (⟨hid, hip, hmac, hcode, hnp, b1, b2, b3, b4, b5, b6, b7, b8, b9⟩ :
    d.c.id.length = 3 ∧ d.c.ip.length = 4 ∧ d.c.mac.length = 6 ∧ d.code.length = 2 ∧ (namePad d.c.name).length = 32 ∧ _ ∧ _ ∧ _ ∧ _ ∧ _ ∧ _ ∧ _ ∧ _ ∧ _)
  have rlen : r.length = 165 := by
    simp only [hr_def, encodeType1, List.length_flatten, List.map_cons, List.map_nil, List.sum_cons, List.sum_nil,
      List.length_cons, List.length_nil, List.length_append, le16, le32, hid, hip, hmac, hcode, hnp, b1, b2, b3, b4, b5, b6, b7, b8, b9]
    omega
  have w (k : Nat) (f : List Nat) (a b : Nat) (hk : ([[0xfe, 0xf0], slice bg 2 18, d.c.id, slice bg 21 40, [d.c.key], slice bg 41 42,
      namePad d.c.name, d.code, d.c.ip, d.c.mac, slice bg 86 133, [if d.on then 1 else 0], slice bg 134 135,
      le16 d.power ++ slice bg 137 139, slice bg 139 147, le32 d.remaining, slice bg 151 155, le32 d.autoShutdown, bg.drop 159] : List (List Nat))[k]? = some f)
      (hA : (([[0xfe, 0xf0], slice bg 2 18, d.c.id, slice bg 21 40, [d.c.key], slice bg 41 42,
      namePad d.c.name, d.code, d.c.ip, d.c.mac, slice bg 86 133, [if d.on then 1 else 0], slice bg 134 135,
      le16 d.power ++ slice bg 137 139, slice bg 139 147, le32 d.remaining, slice bg 151 155, le32 d.autoShutdown, bg.drop 159] : List (List Nat)).take k).flatten.length = a)
      (hB : b = a + f.length) : slice r a b = f := slice_seg_idx k _ f hk a b hA hB
  have w_magic : slice r 0 2 = [0xfe, 0xf0] := w 0 _ 0 2 rfl (by simp) (by simp)
  have w_id : slice r 18 21 = d.c.id := w 2 _ 18 21 rfl (by simp [b1]) (by simp [hid])
  have w_key : slice r 40 41 = [d.c.key] := w 4 _ 40 41 rfl (by simp [b1, b2, hid]) (by simp)
  have w_name : slice r 42 74 = namePad d.c.name := w 6 _ 42 74 rfl (by simp [b1, b2, b3, hid]) (by simp [hnp])
  have w_code : slice r 74 76 = d.code := w 7 _ 74 76 rfl (by simp [b1, b2, b3, hid, hnp]) (by simp [hcode])
  have w_ip : slice r 76 80 = d.c.ip := w 8 _ 76 80 rfl (by simp [b1, b2, b3, hid, hnp, hcode]) (by simp [hip])
  have w_mac : slice r 80 86 = d.c.mac := w 9 _ 80 86 rfl (by simp [b1, b2, b3, hid, hnp, hcode, hip]) (by simp [hmac])
  have w_state : slice r 133 134 = [if d.on then 1 else 0] :=
    w 11 _ 133 134 rfl (by simp [b1, b2, b3, b4, hid, hnp, hcode, hip, hmac]) (by simp)
  have w_power : slice r 135 139 = le16 d.power ++ slice bg 137 139 :=
    w 13 _ 135 139 rfl (by simp [b1, b2, b3, b4, b5, hid, hnp, hcode, hip, hmac]) (by simp [le16, b6])
  have w_rem : slice r 147 151 = le32 d.remaining :=
    w 15 _ 147 151 rfl (by simp [b1, b2, b3, b4, b5, b6, b7, hid, hnp, hcode, hip, hmac, le16]) (by simp [le32])
  have w_auto : slice r 155 159 = le32 d.autoShutdown :=
    w 17 _ 155 159 rfl (by simp [b1, b2, b3, b4, b5, b6, b7, b8, hid, hnp, hcode, hip, hmac, le16, le32]) (by simp [le32])
  -- the getters on the reference frame
  have g_gate : isSwitcherOriginator r = true := by
    unfold isSwitcherOriginator
    rw [show (4 : Nat) = 2 * 2 from rfl, show (0 : Nat) = 2 * 0 from rfl, slice_hexlify, w_magic, rlen]; decide
  obtain ⟨hty1, hty2⟩ := type1_known _ ht
  have g_type : deviceTypeOf r = Gen.deviceTypes.find? (fun t => t.1 == d.typeName) := by
    unfold deviceTypeOf; rw [w_code]; exact hty1
  have g_state : deviceStateOf r = if d.on then "ON" else "OFF" := by
    unfold deviceStateOf
    rw [show (266 : Nat) = 2 * 133 from rfl, show (268 : Nat) = 2 * 134 from rfl, slice_hexlify, w_state]
    cases d.on <;> decide +kernel
  have g_power : pyIntHex (swap16 (slice (hexlify r) 270 278)) = .ok d.power := by
    rw [show (270 : Nat) = 2 * 135 from rfl, show (278 : Nat) = 2 * 139 from rfl, slice_hexlify, w_power, hexlify_append]
    exact swap16_le16 _ hp _
  have g_name : nameOf r = .ok d.c.name := by
    unfold nameOf; rw [w_name]; exact name_roundtrip _ hn32 hnul
  have g_id : deviceIdOf r = hexlify d.c.id := by
    unfold deviceIdOf; rw [show (36 : Nat) = 2 * 18 from rfl, show (42 : Nat) = 2 * 21 from rfl, slice_hexlify, w_id]
  have g_key : deviceKeyOf r = hexlify [d.c.key] := by
    unfold deviceKeyOf; rw [show (80 : Nat) = 2 * 40 from rfl, show (82 : Nat) = 2 * 41 from rfl, slice_hexlify, w_key]
  have g_ip : ipType1 r = ipText d.c.ip := by unfold ipType1; rw [w_ip]; exact dottedQuad_ipText _ hip hipb
  have g_mac : macType1 r = macTextOf d.c.mac := by unfold macType1; rw [w_mac]; exact macText_eq _ hmac hmacb
  have g_rem : le32Iso r 294 = .ok (isoTime d.remaining) := by
    unfold le32Iso
    rw [show (294 : Nat) = 2 * 147 from rfl, show 2 * 147 + 8 = 2 * 151 from rfl, slice_hexlify, w_rem, swap32_le32 _ (by omega)]
    simp only [py_bind_ok, secondsToIso_ok _ hr]
  have g_auto : le32Iso r 310 = .ok (isoTime d.autoShutdown) := by
    unfold le32Iso
    rw [show (310 : Nat) = 2 * 155 from rfl, show 2 * 155 + 8 = 2 * 159 from rfl, slice_hexlify, w_auto, swap32_le32 _ (by omega)]
    simp only [py_bind_ok, secondsToIso_ok _ ha]
  -- assemble
  show parseDatagram r = _
  have hfind : ∃ row, Gen.deviceTypes.find? (fun t => t.1 == d.typeName) = some row ∧ row.1 = d.typeName ∧
      row.2.2.2.2 = (if d.heater then "WATER_HEATER" else "POWER_PLUG") := by
    cases hf : Gen.deviceTypes.find? (fun t => t.1 == d.typeName) with
    | none => rw [hf] at hty2; simp at hty2
    | some row =>
      rw [hf] at hty2
      simp only [Option.map_some, Option.some.injEq, Prod.mk.injEq] at hty2
      exact ⟨row, rfl, hty2.1, hty2.2⟩
  obtain ⟨row, hrow, hrn, hrc⟩ := hfind
  have hnb : (d.typeName == "BREEZE") = false := by
    simp only [type1Table, List.mem_cons, Prod.mk.injEq, List.mem_nil_iff, or_false] at ht
    rcases ht with ⟨h, _, _⟩ | ⟨h, _, _⟩ | ⟨h, _, _⟩ | ⟨h, _, _⟩ | ⟨h, _, _⟩ | ⟨h, _, _⟩ <;> rw [h] <;> decide
  unfold parseDatagram
  simp only [g_gate, Bool.not_true, Bool.false_eq_true, if_false, g_type, hrow, Option.map_some, Option.getD_some, hrn, hnb, g_state,
    Option.isSome_some, Bool.true_and, hrc]
  cases hon : d.on <;> cases hh : d.heater <;>
    simp [hon, hh, g_power, g_name, g_rem, g_auto, g_id, g_key, g_ip, g_mac, expectType1, wattsToAmpsTenths]

/-- the type-2 device types: shutters and the thermostat -/
def shutterTable : List (String × List Nat) := [("RUNNER", [0x0c, 0x01]), ("RUNNER_MINI", [0x0c, 0x02])]
def thermoTable : List (String × List Nat) := [("BREEZE", [0x0e, 0x01])]

theorem shutter_known : ∀ e ∈ shutterTable,
    Gen.deviceTypes.find? (fun t => t.2.2.1.toList == hexlify e.2) = (Gen.deviceTypes.find? (fun t => t.1 == e.1)) ∧
    ((Gen.deviceTypes.find? (fun t => t.1 == e.1)).map (fun t => (t.1, t.2.2.2.2))) = some (e.1, "SHUTTER") ∧
    (e.1 == "BREEZE") = false := by decide +kernel

theorem thermo_known : ∀ e ∈ thermoTable,
    Gen.deviceTypes.find? (fun t => t.2.2.1.toList == hexlify e.2) = (Gen.deviceTypes.find? (fun t => t.1 == e.1)) ∧
    ((Gen.deviceTypes.find? (fun t => t.1 == e.1)).map (fun t => (t.1, t.2.2.2.2))) = some (e.1, "THERMOSTAT") ∧
    (e.1 == "BREEZE") = true := by decide +kernel

/-- SHUTTERS: position and direction (state is always reported ON) -/
theorem shutter_decodes (bg : List Nat) (d : ShutterB) (hbg : bg.length = 159) (hc : d.c.wf)
    (ht : (d.typeName, d.code) ∈ shutterTable) (hp : d.position ≤ 100) (hdir : d.direction < 3) :
    parseDatagram (encodeShutterB bg d) = .device (expectShutterB d) := by
  obtain ⟨hid, hidb, hkey, hip, hipb, hmac, hmacb, hn1, hn32, hnul⟩ := hc
  have hcode : d.code.length = 2 := by
    simp only [shutterTable, List.mem_cons, Prod.mk.injEq, List.mem_nil_iff, or_false] at ht
    rcases ht with ⟨_, h⟩ | ⟨_, h⟩ <;> rw [h] <;> rfl
  have hnp : (namePad d.c.name).length = 32 := by simp [namePad]; omega
  have b1 := slen bg 2 18 (by omega) (by omega)
  have b2 := slen bg 21 40 (by omega) (by omega)
  have b3 := slen bg 41 42 (by omega) (by omega)
  have b4 := slen bg 76 77 (by omega) (by omega)
  have b5 := slen bg 87 135 (by omega) (by omega)
  have b9 : (bg.drop 139).length = 20 := by simp; omega
  have hdl : (directionBytes d.direction).length = 2 := by
    have : d.direction = 0 ∨ d.direction = 1 ∨ d.direction = 2 := by omega
    rcases this with h | h | h <;> simp [h, directionBytes]
  let r := encodeShutterB bg d
  have hr_def : r = encodeShutterB bg d := rfl
  have rlen : r.length = 159 := by
    simp only [hr_def, encodeShutterB, List.length_flatten, List.map_cons, List.map_nil, List.sum_cons, List.sum_nil,
      List.length_cons, List.length_nil, hid, hip, hmac, hcode, hnp, hdl, b1, b2, b3, b4, b5, b9]
    omega
  have w (k : Nat) (f : List Nat) (a b : Nat) (hk : ([[0xfe, 0xf0], slice bg 2 18, d.c.id, slice bg 21 40, [d.c.key], slice bg 41 42,
      namePad d.c.name, d.code, slice bg 76 77, d.c.ip, d.c.mac, slice bg 87 135, [d.position], [0], directionBytes d.direction,
      bg.drop 139] : List (List Nat))[k]? = some f)
      (hA : (([[0xfe, 0xf0], slice bg 2 18, d.c.id, slice bg 21 40, [d.c.key], slice bg 41 42,
      namePad d.c.name, d.code, slice bg 76 77, d.c.ip, d.c.mac, slice bg 87 135, [d.position], [0], directionBytes d.direction,
      bg.drop 139] : List (List Nat)).take k).flatten.length = a)
      (hB : b = a + f.length) : slice r a b = f := slice_seg_idx k _ f hk a b hA hB
  have w_magic : slice r 0 2 = [0xfe, 0xf0] := w 0 _ 0 2 rfl (by simp) (by simp)
  have w_id : slice r 18 21 = d.c.id := w 2 _ 18 21 rfl (by simp [b1]) (by simp [hid])
  have w_key : slice r 40 41 = [d.c.key] := w 4 _ 40 41 rfl (by simp [b1, b2, hid]) (by simp)
  have w_name : slice r 42 74 = namePad d.c.name := w 6 _ 42 74 rfl (by simp [b1, b2, b3, hid]) (by simp [hnp])
  have w_code : slice r 74 76 = d.code := w 7 _ 74 76 rfl (by simp [b1, b2, b3, hid, hnp]) (by simp [hcode])
  have w_ip : slice r 77 81 = d.c.ip := w 9 _ 77 81 rfl (by simp [b1, b2, b3, b4, hid, hnp, hcode]) (by simp [hip])
  have w_mac : slice r 81 87 = d.c.mac := w 10 _ 81 87 rfl (by simp [b1, b2, b3, b4, hid, hnp, hcode, hip]) (by simp [hmac])
  have w_pos : slice r 135 136 = [d.position] :=
    w 12 _ 135 136 rfl (by simp [b1, b2, b3, b4, b5, hid, hnp, hcode, hip, hmac]) (by simp)
  have w_pos2 : slice r 136 137 = [0] :=
    w 13 _ 136 137 rfl (by simp [b1, b2, b3, b4, b5, hid, hnp, hcode, hip, hmac]) (by simp)
  have w_dir : slice r 137 139 = directionBytes d.direction :=
    w 14 _ 137 139 rfl (by simp [b1, b2, b3, b4, b5, hid, hnp, hcode, hip, hmac]) (by simp [hdl])
  have g_gate : isSwitcherOriginator r = true := by
    unfold isSwitcherOriginator
    rw [show (4 : Nat) = 2 * 2 from rfl, show (0 : Nat) = 2 * 0 from rfl, slice_hexlify, w_magic, rlen]; decide
  obtain ⟨hty1, hty2, hnb⟩ := shutter_known _ ht
  have g_type : deviceTypeOf r = Gen.deviceTypes.find? (fun t => t.1 == d.typeName) := by
    unfold deviceTypeOf; rw [w_code]; exact hty1
  have g_name : nameOf r = .ok d.c.name := by unfold nameOf; rw [w_name]; exact name_roundtrip _ hn32 hnul
  have g_id : deviceIdOf r = hexlify d.c.id := by
    unfold deviceIdOf; rw [show (36 : Nat) = 2 * 18 from rfl, show (42 : Nat) = 2 * 21 from rfl, slice_hexlify, w_id]
  have g_key : deviceKeyOf r = hexlify [d.c.key] := by
    unfold deviceKeyOf; rw [show (80 : Nat) = 2 * 40 from rfl, show (82 : Nat) = 2 * 41 from rfl, slice_hexlify, w_key]
  have g_ip : ipType2 r = ipText d.c.ip := by unfold ipType2; rw [w_ip]; exact dottedQuad_ipText _ hip hipb
  have g_mac : macType2 r = macTextOf d.c.mac := by unfold macType2; rw [w_mac]; exact macText_eq _ hmac hmacb
  have w_pp : slice r 135 137 = [d.position, 0] := by
    have h1 : slice r 135 137 = slice r 135 136 ++ slice r 136 137 := by
      simp only [slice]
      rw [show 137 - 135 = (136 - 135) + (137 - 136) from rfl, List.take_add, List.drop_drop]
    rw [h1, w_pos, w_pos2]; rfl
  have g_pos : shutterPositionOf r = .ok d.position := by
    unfold shutterPositionOf
    rw [w_pp]
    have e1 : slice (hexlify [d.position, 0]) 2 4 = cs!"00" := by simp [hexlify, hexByte, slice, hexDigit]
    have e2 : slice (hexlify [d.position, 0]) 0 2 = hexlify [d.position] := by simp [hexlify, hexByte, slice]
    simp only [e1, e2]
    rw [pyIntHex_hexlify [d.position] (by intro b hb; simp at hb; omega) (by simp)]
    simp [ofBE, decVal, isAsciiDigit]
  have g_dir : enumByValue Gen.shutterDirections (hexlify (slice r 137 139)) = .ok (directionName d.direction) := by
    rw [w_dir]
    have : d.direction = 0 ∨ d.direction = 1 ∨ d.direction = 2 := by omega
    rcases this with h | h | h <;> rw [h] <;> decide +kernel
  show parseDatagram r = _
  have hfind : ∃ row, Gen.deviceTypes.find? (fun t => t.1 == d.typeName) = some row ∧ row.1 = d.typeName ∧ row.2.2.2.2 = "SHUTTER" := by
    cases hf : Gen.deviceTypes.find? (fun t => t.1 == d.typeName) with
    | none => rw [hf] at hty2; simp at hty2
    | some row =>
      rw [hf] at hty2
      simp only [Option.map_some, Option.some.injEq, Prod.mk.injEq] at hty2
      exact ⟨row, rfl, hty2.1, hty2.2⟩
  obtain ⟨row, hrow, hrn, hrc⟩ := hfind
  unfold parseDatagram
  simp only [g_gate, Bool.not_true, Bool.false_eq_true, if_false, g_type, hrow, Option.map_some, Option.getD_some, hrn, hnb,
    Option.isSome_some, Bool.true_and, hrc]
  -- whatever the (unspecified) state byte of a shutter frame says, the power that is read cannot raise
  have hpow : ∀ st : String, ∃ pw, (if st == "ON" then pyIntHex (swap16 (slice (hexlify r) 270 278)) else pure 0 : Py Nat) = .ok pw := by
    intro st
    split
    · rw [show (270 : Nat) = 2 * 135 from rfl, show (278 : Nat) = 2 * 139 from rfl, slice_hexlify]
      have e : slice r 135 139 = [d.position, 0] ++ directionBytes d.direction := by
        have h1 : slice r 135 139 = slice r 135 137 ++ slice r 137 139 := by
          simp only [slice]
          rw [show 139 - 135 = (137 - 135) + (139 - 137) from rfl, List.take_add, List.drop_drop]
        rw [h1, w_pp, w_dir]
      rw [e, hexlify_append]
      have : swap16 (hexlify [d.position, 0] ++ hexlify (directionBytes d.direction)) = hexlify [0, d.position] := by
        simp [swap16, slice, hexlify, hexByte]
      rw [this, pyIntHex_hexlify _ (by intro b hb; simp at hb; rcases hb with h | h <;> omega) (by simp)]
      exact ⟨_, rfl⟩
    · exact ⟨0, rfl⟩
  obtain ⟨pw, hpw⟩ := hpow (deviceStateOf r)
  rw [hpw]
  simp [g_name, g_pos, g_dir, g_id, g_key, g_ip, g_mac, expectShutterB]

theorem utf8Decode_ascii : ∀ (bs : List Nat), (∀ b ∈ bs, b < 128) → utf8Decode bs = some (bs.map Char.ofNat)
  | [], _ => rfl
  | b :: bs, h => by
    have hb : b < 128 := h b (by simp)
    have ih := utf8Decode_ascii bs (fun x hx => h x (by simp [hx]))
    rw [utf8Decode.eq_def]; simp [hb, ih]

/-- THERMOSTAT: state, mode, current and target temperature, fan level, swing and remote id -/
theorem thermo_decodes (bg : List Nat) (d : ThermoB) (hbg : bg.length = 168) (hc : d.c.wf)
    (ht : (d.typeName, d.code) ∈ thermoTable)
    (hm : 1 ≤ d.t.mode ∧ d.t.mode ≤ 5) (hf : d.t.fan < 4) (htt : d.t.tempTenths < 65536) (htg : d.t.target < 256)
    (hr1 : d.t.remote.length = 8) (hr2 : ∀ b ∈ d.t.remote, b < 128) :
    parseDatagram (encodeThermoB bg d) = .device (expectThermoB d) := by
  obtain ⟨hid, hidb, hkey, hip, hipb, hmac, hmacb, hn1, hn32, hnul⟩ := hc
  have hcode : d.code.length = 2 := by
    simp only [thermoTable, List.mem_cons, Prod.mk.injEq, List.mem_nil_iff, or_false] at ht
    rw [ht.2]; rfl
  have hnp : (namePad d.c.name).length = 32 := by simp [namePad]; omega
  have b1 := slen bg 2 18 (by omega) (by omega)
  have b2 := slen bg 21 40 (by omega) (by omega)
  have b3 := slen bg 41 42 (by omega) (by omega)
  have b4 := slen bg 76 77 (by omega) (by omega)
  have b5 := slen bg 87 135 (by omega) (by omega)
  have b6 := slen bg 141 143 (by omega) (by omega)
  have b9 : (bg.drop 151).length = 17 := by simp; omega
  let r := encodeThermoB bg d
  have hr_def : r = encodeThermoB bg d := rfl
  have rlen : r.length = 168 := by
    simp only [hr_def, encodeThermoB, List.length_flatten, List.map_cons, List.map_nil, List.sum_cons, List.sum_nil,
      List.length_cons, List.length_nil, hid, hip, hmac, hcode, hnp, hr1, b1, b2, b3, b4, b5, b6, b9]
    omega
  have w (k : Nat) (f : List Nat) (a b : Nat) (hk : ([[0xfe, 0xf0], slice bg 2 18, d.c.id, slice bg 21 40, [d.c.key], slice bg 41 42,
      namePad d.c.name, d.code, slice bg 76 77, d.c.ip, d.c.mac, slice bg 87 135, [d.t.tempTenths % 256], [d.t.tempTenths / 256 % 256],
      [if d.t.on then 1 else 0], [d.t.mode], [d.t.target], [d.t.fan * 16 + (if d.t.swing then 1 else 0)], slice bg 141 143, d.t.remote,
      bg.drop 151] : List (List Nat))[k]? = some f)
      (hA : (([[0xfe, 0xf0], slice bg 2 18, d.c.id, slice bg 21 40, [d.c.key], slice bg 41 42,
      namePad d.c.name, d.code, slice bg 76 77, d.c.ip, d.c.mac, slice bg 87 135, [d.t.tempTenths % 256], [d.t.tempTenths / 256 % 256],
      [if d.t.on then 1 else 0], [d.t.mode], [d.t.target], [d.t.fan * 16 + (if d.t.swing then 1 else 0)], slice bg 141 143, d.t.remote,
      bg.drop 151] : List (List Nat)).take k).flatten.length = a)
      (hB : b = a + f.length) : slice r a b = f := slice_seg_idx k _ f hk a b hA hB
  have w_magic : slice r 0 2 = [0xfe, 0xf0] := w 0 _ 0 2 rfl (by simp) (by simp)
  have w_id : slice r 18 21 = d.c.id := w 2 _ 18 21 rfl (by simp [b1]) (by simp [hid])
  have w_key : slice r 40 41 = [d.c.key] := w 4 _ 40 41 rfl (by simp [b1, b2, hid]) (by simp)
  have w_name : slice r 42 74 = namePad d.c.name := w 6 _ 42 74 rfl (by simp [b1, b2, b3, hid]) (by simp [hnp])
  have w_code : slice r 74 76 = d.code := w 7 _ 74 76 rfl (by simp [b1, b2, b3, hid, hnp]) (by simp [hcode])
  have w_ip : slice r 77 81 = d.c.ip := w 9 _ 77 81 rfl (by simp [b1, b2, b3, b4, hid, hnp, hcode]) (by simp [hip])
  have w_mac : slice r 81 87 = d.c.mac := w 10 _ 81 87 rfl (by simp [b1, b2, b3, b4, hid, hnp, hcode, hip]) (by simp [hmac])
  have w_t0 : slice r 135 136 = [d.t.tempTenths % 256] := w 12 _ 135 136 rfl (by simp [b1, b2, b3, b4, b5, hid, hnp, hcode, hip, hmac]) (by simp)
  have w_t1 : slice r 136 137 = [d.t.tempTenths / 256 % 256] := w 13 _ 136 137 rfl (by simp [b1, b2, b3, b4, b5, hid, hnp, hcode, hip, hmac]) (by simp)
  have w_st : slice r 137 138 = [if d.t.on then 1 else 0] := w 14 _ 137 138 rfl (by simp [b1, b2, b3, b4, b5, hid, hnp, hcode, hip, hmac]) (by simp)
  have w_md : slice r 138 139 = [d.t.mode] := w 15 _ 138 139 rfl (by simp [b1, b2, b3, b4, b5, hid, hnp, hcode, hip, hmac]) (by simp)
  have w_tg : slice r 139 140 = [d.t.target] := w 16 _ 139 140 rfl (by simp [b1, b2, b3, b4, b5, hid, hnp, hcode, hip, hmac]) (by simp)
  have w_fs : slice r 140 141 = [d.t.fan * 16 + (if d.t.swing then 1 else 0)] :=
    w 17 _ 140 141 rfl (by simp [b1, b2, b3, b4, b5, hid, hnp, hcode, hip, hmac]) (by simp)
  have w_rm : slice r 143 151 = d.t.remote :=
    w 19 _ 143 151 rfl (by simp [b1, b2, b3, b4, b5, b6, hid, hnp, hcode, hip, hmac]) (by simp [hr1])
  have join2 (a : Nat) : slice r a (a + 2) = slice r a (a + 1) ++ slice r (a + 1) (a + 2) := by
    simp only [slice]
    rw [show a + 2 - a = (a + 1 - a) + (a + 2 - (a + 1)) by omega, List.take_add, List.drop_drop]
    congr 3 <;> omega
  have w_temp : slice r 135 137 = [d.t.tempTenths % 256, d.t.tempTenths / 256 % 256] := by rw [join2 135, w_t0, w_t1]; rfl
  have g_gate : isSwitcherOriginator r = true := by
    unfold isSwitcherOriginator
    rw [show (4 : Nat) = 2 * 2 from rfl, show (0 : Nat) = 2 * 0 from rfl, slice_hexlify, w_magic, rlen]; decide
  obtain ⟨hty1, hty2, hnb⟩ := thermo_known _ ht
  have g_type : deviceTypeOf r = Gen.deviceTypes.find? (fun t => t.1 == d.typeName) := by
    unfold deviceTypeOf; rw [w_code]; exact hty1
  have g_state : thermostatStateOf r = if d.t.on then "ON" else "OFF" := by
    unfold thermostatStateOf; rw [w_st]; cases d.t.on <;> decide +kernel
  have g_name : nameOf r = .ok d.c.name := by unfold nameOf; rw [w_name]; exact name_roundtrip _ hn32 hnul
  have g_id : deviceIdOf r = hexlify d.c.id := by
    unfold deviceIdOf; rw [show (36 : Nat) = 2 * 18 from rfl, show (42 : Nat) = 2 * 21 from rfl, slice_hexlify, w_id]
  have g_key : deviceKeyOf r = hexlify [d.c.key] := by
    unfold deviceKeyOf; rw [show (80 : Nat) = 2 * 40 from rfl, show (82 : Nat) = 2 * 41 from rfl, slice_hexlify, w_key]
  have g_ip : ipType2 r = ipText d.c.ip := by unfold ipType2; rw [w_ip]; exact dottedQuad_ipText _ hip hipb
  have g_mac : macType2 r = macTextOf d.c.mac := by unfold macType2; rw [w_mac]; exact macText_eq _ hmac hmacb
  have g_temp : pyIntHex (swap16 (hexlify (slice r 135 137))) = .ok d.t.tempTenths := by
    rw [w_temp]
    have : swap16 (hexlify [d.t.tempTenths % 256, d.t.tempTenths / 256 % 256]) = hexlify [d.t.tempTenths / 256 % 256, d.t.tempTenths % 256] := by
      simp [swap16, slice, hexlify, hexByte]
    rw [this, pyIntHex_hexlify _ (by intro b hb; simp at hb; rcases hb with h | h <;> omega) (by simp)]
    simp [ofBE]; omega
  have g_power : ∃ pw, pyIntHex (swap16 (slice (hexlify r) 270 278)) = .ok pw := by
    rw [show (270 : Nat) = 2 * 135 from rfl, show (278 : Nat) = 2 * 139 from rfl, slice_hexlify]
    have e : slice r 135 139 = [d.t.tempTenths % 256, d.t.tempTenths / 256 % 256] ++ slice r 137 139 := by
      simp only [slice]
      rw [show 139 - 135 = (137 - 135) + (139 - 137) from rfl, List.take_add, List.drop_drop]
      have := w_temp; simp only [slice] at this; rw [this]
    rw [e, join2 137, w_st, w_md]
    have : swap16 (hexlify ([d.t.tempTenths % 256, d.t.tempTenths / 256 % 256] ++ ([if d.t.on then 1 else 0] ++ [d.t.mode]))) =
        hexlify [d.t.tempTenths / 256 % 256, d.t.tempTenths % 256] := by
      simp [swap16, slice, hexlify, hexByte]
    rw [this, pyIntHex_hexlify _ (by intro b hb; simp at hb; rcases hb with h | h <;> omega) (by simp)]
    exact ⟨_, rfl⟩
  have g_mode : enumByValue Gen.thermostatModes (hexlify (slice r 138 139)) = .ok (modeName d.t.mode) := by
    rw [w_md]
    have : d.t.mode = 1 ∨ d.t.mode = 2 ∨ d.t.mode = 3 ∨ d.t.mode = 4 ∨ d.t.mode = 5 := by omega
    rcases this with h | h | h | h | h <;> rw [h] <;> decide +kernel
  have g_target : pyIntHex (hexlify (slice r 139 140)) = .ok d.t.target := by
    rw [w_tg, pyIntHex_hexlify _ (by intro b hb; simp at hb; omega) (by simp)]; simp [ofBE]
  have g_fan : enumByValue Gen.thermostatFanLevels (slice (hexlify (slice r 140 141)) 0 1) = .ok (fanName d.t.fan) := by
    rw [w_fs]
    have : d.t.fan = 0 ∨ d.t.fan = 1 ∨ d.t.fan = 2 ∨ d.t.fan = 3 := by omega
    rcases this with h | h | h | h <;> rw [h] <;> cases d.t.swing <;> decide +kernel
  have g_swing : (slice (hexlify (slice r 140 141)) 1 2 ==
      (((Gen.thermostatSwings.find? (·.1 == "OFF")).map (·.2.1)).getD "").toList) = !d.t.swing := by
    rw [w_fs]
    have : d.t.fan = 0 ∨ d.t.fan = 1 ∨ d.t.fan = 2 ∨ d.t.fan = 3 := by omega
    rcases this with h | h | h | h <;> rw [h] <;> cases d.t.swing <;> decide +kernel
  have g_remote : utf8Decode (slice r 143 151) = some (d.t.remote.map Char.ofNat) := by
    rw [w_rm]; exact utf8Decode_ascii _ hr2
  show parseDatagram r = _
  have hfind : ∃ row, Gen.deviceTypes.find? (fun t => t.1 == d.typeName) = some row ∧ row.1 = d.typeName ∧ row.2.2.2.2 = "THERMOSTAT" := by
    cases hf : Gen.deviceTypes.find? (fun t => t.1 == d.typeName) with
    | none => rw [hf] at hty2; simp at hty2
    | some row =>
      rw [hf] at hty2
      simp only [Option.map_some, Option.some.injEq, Prod.mk.injEq] at hty2
      exact ⟨row, rfl, hty2.1, hty2.2⟩
  obtain ⟨row, hrow, hrn, hrc⟩ := hfind
  obtain ⟨pw, hpw⟩ := g_power
  unfold parseDatagram
  simp only [g_gate, Bool.not_true, Bool.false_eq_true, if_false, g_type, hrow, Option.map_some, Option.getD_some, hrn, hnb, if_true,
    g_state, Option.isSome_some, Bool.true_and, hrc]
  cases hon : d.t.on <;> cases hsw : d.t.swing <;>
    simp [hon, hsw, hpw, g_name, g_mode, g_temp, g_target, g_fan, g_swing, g_remote, g_id, g_key, g_ip, g_mac, expectThermoB] <;>
    simp_all

/-! ### non-vacuity: concrete devices meet every hypothesis, and the conclusions compute -/

def demoCommon : Common :=
  { id := [0xa1, 0x23, 0xbc], key := 0x18, ip := [192, 168, 1, 33], mac := [0x12, 0xa1, 0xa2, 0x1a, 0xbc, 0x1a], name := cs!"Boiler ב" }
def demoHeater : Type1 :=
  { c := demoCommon, typeName := "V4", code := [0x03, 0x17], heater := true, on := true, power := 2600, remaining := 3599, autoShutdown := 7200 }
def demoRunner : ShutterB := { c := demoCommon, typeName := "RUNNER", code := [0x0c, 0x01], position := 100, direction := 2 }
def demoBreeze : ThermoB :=
  { c := demoCommon, typeName := "BREEZE", code := [0x0e, 0x01],
    t := { on := true, mode := 4, fan := 3, swing := true, tempTenths := 265, target := 23, remote := [69, 76, 69, 67, 55, 48, 50, 50] } }

example : demoCommon.wf := by
  refine ⟨rfl, by unfold IsBytes; decide, by decide, rfl, by unfold IsBytes; decide, rfl, by unfold IsBytes; decide, by decide +kernel,
    by decide +kernel, by decide⟩
example : (demoHeater.typeName, demoHeater.code, demoHeater.heater) ∈ type1Table ∧ demoHeater.power < 65536 ∧
    demoHeater.remaining < 86400 ∧ demoHeater.autoShutdown < 86400 := by decide
example : (demoRunner.typeName, demoRunner.code) ∈ shutterTable ∧ demoRunner.position ≤ 100 ∧ demoRunner.direction < 3 := by decide
example : (demoBreeze.typeName, demoBreeze.code) ∈ thermoTable ∧ (1 ≤ demoBreeze.t.mode ∧ demoBreeze.t.mode ≤ 5) ∧ demoBreeze.t.fan < 4 ∧
    demoBreeze.t.tempTenths < 65536 ∧ demoBreeze.t.target < 256 ∧ demoBreeze.t.remote.length = 8 ∧ ∀ b ∈ demoBreeze.t.remote, b < 128 := by
  decide
/- and on an all-0x5a background the real parser model returns exactly the device described (kernel evaluation of the whole pipeline) -/
example : parseDatagram (encodeType1 (List.replicate 165 0x5a) demoHeater) = .device (expectType1 demoHeater) := by decide +kernel
example : parseDatagram (encodeShutterB (List.replicate 159 0x5a) demoRunner) = .device (expectShutterB demoRunner) := by decide +kernel
example : parseDatagram (encodeThermoB (List.replicate 168 0x5a) demoBreeze) = .device (expectThermoB demoBreeze) := by decide +kernel

end Props.C05
