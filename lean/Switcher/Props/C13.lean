/-
C13 — The next-run text names the earliest upcoming run of the schedule.

For ANY local wall-clock instant (whatever zone and date produced it), any start minute and any set of days
(a set is represented by its sorted member list `daysOfMask mask`), the text `prettyNextRun` returns is the
rendering of a day that `Spec.IsEarliest` holds for: 'today' if a selected day is today and the start is still
ahead, 'tomorrow' if the nearest selected day is the next calendar day, otherwise 'next <weekday>' of the nearest
selected weekday (a full week ahead when only today is selected and its time has passed); no days: 'today'.
-/
import Switcher.Model.Sched
import Switcher.Spec.NextRun
import Switcher.Spec.Clock
import Switcher.Proofs.Py
namespace Props.C13
open Spec Model

def runOfCode (code : Nat) : RunDay := if code = 0 then .today else if code = 1 then .tomorrow else .next (code - 2)

/-- the decision core, for all 7 weekdays × all 127 non-empty day sets × both time orders -/
theorem code_earliest : ∀ cur < 7, ∀ m < 128, m ≠ 0 → ∀ ahead : Bool,
    IsEarliest cur (daysOfMask (2 * m)) ahead (runOfCode (nextRunCode cur ((daysOfMask (2 * m)).map dayWeekday) ahead)) := by
  decide +kernel

/-- the weekday named is always one of the selected days, and 'today' is only said when today is selected and the start is ahead -/
theorem named_day_selected : ∀ cur < 7, ∀ m < 128, m ≠ 0 → ∀ ahead : Bool,
    (∀ d, runOfCode (nextRunCode cur ((daysOfMask (2 * m)).map dayWeekday) ahead) = .next d → d ∈ daysOfMask (2 * m)) ∧
    (runOfCode (nextRunCode cur ((daysOfMask (2 * m)).map dayWeekday) ahead) = .today → cur ∈ daysOfMask (2 * m) ∧ ahead = true) := by
  intro cur hc m hm hne ahead
  have key : ∀ cur < 7, ∀ m < 128, m ≠ 0 → ∀ ahead : Bool,
      (match runOfCode (nextRunCode cur ((daysOfMask (2 * m)).map dayWeekday) ahead) with
       | .next d => decide (d ∈ daysOfMask (2 * m))
       | .today => decide (cur ∈ daysOfMask (2 * m)) && ahead
       | .tomorrow => true) = true := by decide +kernel
  have := key cur hc m hm hne ahead
  constructor
  · intro d hd; rw [hd] at this; simpa using this
  · intro ht; rw [ht] at this; simpa using this

theorem parse_hhmm : ∀ k < 1440, parseHM (hhmm k) = some (k / 60, k % 60) := by decide +kernel

theorem weekday_lt (w : Int) : weekdayOfWall w < 7 := by
  unfold weekdayOfWall; omega

/-- the generated day names are the calendar's, and Days[i].weekday = i -/
theorem names : ∀ d < 7, ((List.range Gen.days.length).find? (fun i => dayWeekday i == d)).map dayName = some (dayDisplay d) := by
  decide +kernel

/-- THE TEXT: for every local instant, start minute and non-empty day set the text is the rendering of an earliest run -/
theorem next_run_earliest (nowWall : Int) (k : Nat) (hk : k < 1440) (m : Nat) (hm : m < 128) (hne : m ≠ 0) :
    ∃ o, IsEarliest (weekdayOfWall nowWall) (daysOfMask (2 * m)) (decide (minuteOfWall nowWall < k)) o ∧
      prettyNextRun nowWall (hhmm k) (daysOfMask (2 * m)) = .ok (renderRun o (hhmm k)) := by
  have hcur := weekday_lt nowWall
  have hcode := code_earliest (weekdayOfWall nowWall) hcur m hm hne (decide (minuteOfWall nowWall < k))
  refine ⟨_, hcode, ?_⟩
  have hnonempty : (daysOfMask (2 * m)).isEmpty = false := by
    have : ∀ m < 128, m ≠ 0 → (daysOfMask (2 * m)).isEmpty = false := by decide +kernel
    exact this m hm hne
  unfold prettyNextRun
  simp only [hnonempty, Bool.false_eq_true, if_false, parse_hhmm k hk]
  have e : 60 * (k / 60) + k % 60 = k := by omega
  rw [e]
  generalize hc : nextRunCode (weekdayOfWall nowWall) ((daysOfMask (2 * m)).map dayWeekday) (decide (minuteOfWall nowWall < k)) = code
  by_cases h0 : code = 0
  · simp [h0, runOfCode, renderRun]
  · by_cases h1 : code = 1
    · simp [h1, runOfCode, renderRun]
    · -- a named weekday: it is one of the selected days, hence < 7, and its generated display name is the calendar's
      have hsel := (named_day_selected (weekdayOfWall nowWall) hcur m hm hne (decide (minuteOfWall nowWall < k))).1 (code - 2)
        (by rw [hc]; simp [runOfCode, h0, h1])
      have hlt : code - 2 < 7 := by
        have : ∀ d ∈ daysOfMask (2 * m), d < 7 := by
          intro d hd; simp [daysOfMask] at hd; exact hd.1
        exact this _ hsel
      simp only [h0, h1, if_false, names (code - 2) hlt, runOfCode, renderRun, py_pure]

/-- no days: 'today' -/
theorem no_days_today (nowWall : Int) (start : List Char) : prettyNextRun nowWall start [] = .ok (cs!"Due today at " ++ start) := rfl

/-- the text depends on the two times only through whether the start is still ahead today, and on the date only through the weekday -/
theorem abstraction (w1 w2 : Int) (k : Nat) (hk : k < 1440) (days : List Nat)
    (hwd : weekdayOfWall w1 = weekdayOfWall w2) (hah : decide (minuteOfWall w1 < k) = decide (minuteOfWall w2 < k)) :
    prettyNextRun w1 (hhmm k) days = prettyNextRun w2 (hhmm k) days := by
  unfold prettyNextRun
  simp only [parse_hhmm k hk]
  have e : 60 * (k / 60) + k % 60 = k := by omega
  rw [e, hwd, hah]

/- the two failures of the original code (F5), as checked facts about the Spec: Monday 15:00, {Mon, Tue}, start 13:00 → tomorrow;
   Wednesday, {Mon, Wed}, start passed → next Monday -/
example : IsEarliest 0 [0, 1] false .tomorrow := by decide
example : IsEarliest 2 [0, 2] false (.next 0) := by decide
example : ¬ IsEarliest 0 [0, 1] false (.next 0) := by decide

end Props.C13
