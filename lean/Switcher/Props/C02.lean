/-
C02 — Each operation's frame encodes exactly that operation and the caller's arguments.

For every operation of the type-1 API and the shutter operations, every accepted argument value,
every 3-byte device id / 1-byte key (`WFcfg`), every login reply carrying a session id (≥ 12 bytes)
and every clock reading below 2^32, the frames the model writes are *exactly* the Spec's reference
frames (`Spec.refWire`): login frame, then the command frame whose every byte is either the
protocol's fixed value for that operation (`Spec.refSym`) or the reference encoding of a caller
argument (`Spec.specEnv`).  Rejected arguments raise after the login frame, and no command frame is written.

The templates and the wiring of the `format` arguments are *generated from the source*; the facts about
them are decided by kernel evaluation (`decide +kernel`), so a changed template, a swapped or dropped
argument, or a changed literal makes the corresponding theorem fail to check.
-/
import Switcher.Proofs.Ops
import Switcher.Proofs.Days
import Switcher.Proofs.Decode
import Switcher.Spec.Clock
import Switcher.Gen.Missing
namespace Props.C02
open Spec Model Tmpl

/-- the translator found everything it looks for in the parts of the source these theorems are about -/
theorem translator_complete : Gen.missingIn ["Packets", "Wiring", "Guards", "Tables"] = [] := by decide

/-- the argument domain the theorems quantify over is inhabited by well-formed configurations -/
example : WFcfg { deviceId := cs!"a123bc", deviceKey := cs!"18" } := by unfold WFcfg; decide

theorem commandValue_eq (on : Bool) : commandValue on = [if on then '1' else '0'] := by cases on <;> decide

theorem noTimer : constText "NO_TIMER_REQUESTED" = .ok (hexlify (le32 0)) := by decide +kernel

/-- control_device: on/off flag and timer seconds (60 × minutes, zero when no timer) -/
theorem control_frames (cfg : Cfg) (now : Nat) (off : Int) (raw r2 : List Nat) (rest : List (List Nat)) (on : Bool) (minutes : Nat)
    (hcfg : WFcfg cfg) (hnow : now < 4294967296) (hraw : 12 ≤ raw.length) (hacc : 60 * minutes < 4294967296) :
    ∃ f1 f2, runProg (prog cfg now off (.controlDevice on minutes)) (raw :: r2 :: rest) = ([f1, f2], .ok (.base r2)) ∧
      IsRefWire .login1 [] (tsOf now) cfg.deviceId cfg.deviceKey f1 ∧
      IsRefWire (.control on minutes) (sessionId raw) (tsOf now) cfg.deviceId cfg.deviceKey f2 := by
  obtain ⟨hd1, hd2, hk1, hk2⟩ := hcfg
  obtain ⟨ht1, ht2⟩ := tsOf_props now
  obtain ⟨hs1, hs2⟩ := sessionId_props raw hraw
  have hextra : (do let timer ← if (minutes : Int) > 0 then minutesToHex minutes else constText "NO_TIMER_REQUESTED"
                    pure [("command.value", Arg.s (commandValue on)), ("timer", Arg.s timer)] : Py Env) =
      .ok [("command.value", .s [if on then '1' else '0']), ("timer", .s (hexlify (le32 (60 * minutes))))] := by
    by_cases hm : (minutes : Int) > 0
    · simp only [hm, if_true, minutesToHex_ok minutes hacc, py_bind_ok, py_pure, commandValue_eq]
    · have : minutes = 0 := by omega
      subst this
      simp only [hm, if_false, noTimer, py_bind_ok, py_pure, commandValue_eq]
  exact simple_fixed cfg now raw r2 rest "control_device" "SEND_CONTROL_PACKET" (.control on minutes) 89 _ _ _
    ["login_resp.session_id", "timestamp", "self._device_id", "command.value", "timer"]
    ⟨hd1, hd2, hk1, hk2⟩ hnow (guardStops_none _ _ (by decide +kernel)) hextra
    (by show _ = some (refSym .control); decide +kernel) (by decide +kernel) rfl (by decide +kernel)
    (by simp [argOf, baseEnv, argS, roleOfExpr, specEnv])
    (by show litsHex (refSym .control) = true; decide +kernel)
    (by
      have : rolesOf (refSym (Op.control on minutes).kind) = [.sid, .ts, .did, .onoff, .timer] := by
        show rolesOf (refSym .control) = _; decide
      rw [this]
      simp [specEnv, hs1, hs2, ht1, ht2, hd1, hd2, Role.width, isHexText_hexlify, hexlify_length, le32]
      cases on <;> decide)
    (by show (skelOf Role.width (refSym .control)).length = _; decide +kernel)

/-- get_state (type 1): login, then the state query bound to that login's session -/
theorem get_state_frames (cfg : Cfg) (now : Nat) (off : Int) (raw r2 : List Nat) (rest : List (List Nat))
    (hcfg : WFcfg cfg) (hnow : now < 4294967296) (hraw : 12 ≤ raw.length) :
    ∃ f1 f2, runProg (prog cfg now off .getState) (raw :: r2 :: rest) = ([f1, f2], finishState r2) ∧
      IsRefWire .login1 [] (tsOf now) cfg.deviceId cfg.deviceKey f1 ∧
      IsRefWire .getState1 (sessionId raw) (tsOf now) cfg.deviceId cfg.deviceKey f2 := by
  obtain ⟨hd1, hd2, hk1, hk2⟩ := hcfg
  obtain ⟨ht1, ht2⟩ := tsOf_props now
  obtain ⟨hs1, hs2⟩ := sessionId_props raw hraw
  exact simple_fixed cfg now raw r2 rest "get_state" "GET_STATE_PACKET_TYPE1" .getState1 44 _ [] _
    ["login_resp.session_id", "timestamp", "self._device_id"]
    ⟨hd1, hd2, hk1, hk2⟩ hnow (guardStops_nonempty _ _ (by intro h; subst h; simp at hraw)) rfl
    (by decide +kernel) (by decide +kernel) rfl (by decide +kernel)
    (by simp [argOf, baseEnv, argS, roleOfExpr, specEnv])
    (by decide +kernel)
    (by
      have : rolesOf (refSym Op.getState1.kind) = [.sid, .ts, .did] := by decide
      rw [this]
      simp [specEnv, hs1, hs2, ht1, ht2, hd1, hd2, Role.width])
    (by decide +kernel)

/-- set_auto_shutdown: whole minutes of the timedelta (given in microseconds) within 1 h .. 23 h 59 m -/
theorem auto_shutdown_frames (cfg : Cfg) (now : Nat) (off : Int) (raw r2 : List Nat) (rest : List (List Nat)) (micros : Nat)
    (hcfg : WFcfg cfg) (hnow : now < 4294967296) (hraw : 12 ≤ raw.length)
    (h1 : 3600 ≤ 60 * (micros / 60000000)) (h2 : 60 * (micros / 60000000) ≤ 86340) :
    ∃ f1 f2, runProg (prog cfg now off (.setAutoShutdown micros)) (raw :: r2 :: rest) = ([f1, f2], .ok (.base r2)) ∧
      IsRefWire .login1 [] (tsOf now) cfg.deviceId cfg.deviceKey f1 ∧
      IsRefWire (.setAutoOff (60 * (micros / 60000000))) (sessionId raw) (tsOf now) cfg.deviceId cfg.deviceKey f2 := by
  obtain ⟨hd1, hd2, hk1, hk2⟩ := hcfg
  obtain ⟨ht1, ht2⟩ := tsOf_props now
  obtain ⟨hs1, hs2⟩ := sessionId_props raw hraw
  have hextra : (do let a ← timedeltaToHex (micros : Int); pure [("auto_shutdown", Arg.s a)] : Py Env) =
      .ok [("auto_shutdown", .s (hexlify (le32 (60 * (micros / 60000000)))))] := by
    rw [timedeltaToHex_ok micros h1 h2]; rfl
  exact simple_fixed cfg now raw r2 rest "set_auto_shutdown" "SET_AUTO_OFF_SET_PACKET" (.setAutoOff (60 * (micros / 60000000))) 87 _ _ _
    ["login_resp.session_id", "timestamp", "self._device_id", "auto_shutdown"]
    ⟨hd1, hd2, hk1, hk2⟩ hnow (guardStops_none _ _ (by decide +kernel)) hextra
    (by show _ = some (refSym .setAutoOff); decide +kernel) (by decide +kernel) rfl (by decide +kernel)
    (by simp [argOf, baseEnv, argS, roleOfExpr, specEnv])
    (by show litsHex (refSym .setAutoOff) = true; decide +kernel)
    (by
      have : rolesOf (refSym (Op.setAutoOff (60 * (micros / 60000000))).kind) = [.sid, .ts, .did, .autoOff] := by
        show rolesOf (refSym .setAutoOff) = _; decide
      rw [this]
      simp [specEnv, hs1, hs2, ht1, ht2, hd1, hd2, Role.width, isHexText_hexlify, hexlify_length, le32])
    (by show (skelOf Role.width (refSym .setAutoOff)).length = _; decide +kernel)

/-- set_auto_shutdown outside the range raises ValueError after the login frame; no command frame is written -/
theorem auto_shutdown_rejected (cfg : Cfg) (now : Nat) (off : Int) (raw : List Nat) (rest : List (List Nat)) (micros : Int)
    (hcfg : WFcfg cfg) (hnow : now < 4294967296)
    (h : 60 * (micros / 60000000) < 3600 ∨ 86340 < 60 * (micros / 60000000)) :
    ∃ f1, runProg (prog cfg now off (.setAutoShutdown micros)) (raw :: rest) = ([f1], .error .valueError) := by
  obtain ⟨f1, hl1, _⟩ := login_frame cfg now hcfg (loginVariantText "set_auto_shutdown")
  refine ⟨f1, ?_⟩
  apply runProg_simpleOp_rejected cfg now _ _ _ _ (tsOf now) f1 raw rest .valueError (timestampToHex_ok now hnow) hl1
    (guardStops_none _ _ (by decide +kernel))
  rw [timedeltaToHex_rejects micros h]; rfl

/-- set_device_name: the name as UTF-8, zero padded to exactly 32 bytes -/
theorem set_name_frames (cfg : Cfg) (now : Nat) (off : Int) (raw r2 : List Nat) (rest : List (List Nat)) (name : List Char)
    (hcfg : WFcfg cfg) (hnow : now < 4294967296) (hraw : 12 ≤ raw.length)
    (h1 : 2 ≤ name.length) (h2 : (utf8Encode name).length ≤ 32) :
    ∃ f1 f2, runProg (prog cfg now off (.setDeviceName name)) (raw :: r2 :: rest) = ([f1, f2], .ok (.base r2)) ∧
      IsRefWire .login1 [] (tsOf now) cfg.deviceId cfg.deviceKey f1 ∧
      IsRefWire (.setName name.length (utf8Encode name)) (sessionId raw) (tsOf now) cfg.deviceId cfg.deviceKey f2 := by
  obtain ⟨hd1, hd2, hk1, hk2⟩ := hcfg
  obtain ⟨ht1, ht2⟩ := tsOf_props now
  obtain ⟨hs1, hs2⟩ := sessionId_props raw hraw
  have hextra : (do let n ← nameToHex name; pure [("device_name", Arg.s n)] : Py Env) =
      .ok [("device_name", .s (hexlify (utf8Encode name ++ List.replicate (32 - (utf8Encode name).length) 0)))] := by
    rw [nameToHex_ok name h1 h2]; rfl
  exact simple_fixed cfg now raw r2 rest "set_device_name" "UPDATE_DEVICE_NAME_PACKET" (.setName name.length (utf8Encode name)) 112 _ _ _
    ["login_resp.session_id", "timestamp", "self._device_id", "device_name"]
    ⟨hd1, hd2, hk1, hk2⟩ hnow (guardStops_none _ _ (by decide +kernel)) hextra
    (by show _ = some (refSym .setName); decide +kernel) (by decide +kernel) rfl (by decide +kernel)
    (by simp [argOf, baseEnv, argS, roleOfExpr, specEnv])
    (by show litsHex (refSym .setName) = true; decide +kernel)
    (by
      have : rolesOf (refSym (Op.setName name.length (utf8Encode name)).kind) = [.sid, .ts, .did, .name] := by
        show rolesOf (refSym .setName) = _; decide
      rw [this]
      simp [specEnv, hs1, hs2, ht1, ht2, hd1, hd2, Role.width, isHexText_hexlify, hexlify_length]
      omega)
    (by show (skelOf Role.width (refSym .setName)).length = _; decide +kernel)

/-- a name too short (fewer than 2 characters) or too long for 32 bytes raises; no command frame is written -/
theorem set_name_rejected (cfg : Cfg) (now : Nat) (off : Int) (raw : List Nat) (rest : List (List Nat)) (name : List Char)
    (hcfg : WFcfg cfg) (hnow : now < 4294967296) (h : name.length < 2 ∨ 32 < (utf8Encode name).length) :
    ∃ f1, runProg (prog cfg now off (.setDeviceName name)) (raw :: rest) = ([f1], .error .valueError) := by
  obtain ⟨f1, hl1, _⟩ := login_frame cfg now hcfg (loginVariantText "set_device_name")
  refine ⟨f1, ?_⟩
  apply runProg_simpleOp_rejected cfg now _ _ _ _ (tsOf now) f1 raw rest .valueError (timestampToHex_ok now hnow) hl1
    (guardStops_none _ _ (by decide +kernel))
  rw [nameToHex_rejects name h]; rfl

/-- a timer beyond 32 bits raises; no command frame is written -/
theorem control_rejected (cfg : Cfg) (now : Nat) (off : Int) (raw : List Nat) (rest : List (List Nat)) (on : Bool) (minutes : Nat)
    (hcfg : WFcfg cfg) (hnow : now < 4294967296) (h : ¬ 60 * minutes < 4294967296) :
    ∃ f1, runProg (prog cfg now off (.controlDevice on minutes)) (raw :: rest) = ([f1], .error .structError) := by
  obtain ⟨f1, hl1, _⟩ := login_frame cfg now hcfg (loginVariantText "control_device")
  refine ⟨f1, ?_⟩
  apply runProg_simpleOp_rejected cfg now _ _ _ _ (tsOf now) f1 raw rest .structError (timestampToHex_ok now hnow) hl1
    (guardStops_none _ _ (by decide +kernel))
  have hm : (minutes : Int) > 0 := by omega
  simp only [hm, if_true, minutesToHex_rejects minutes h]; rfl

/-- get_schedules -/
theorem get_schedules_frames (cfg : Cfg) (now : Nat) (off : Int) (raw r2 : List Nat) (rest : List (List Nat))
    (hcfg : WFcfg cfg) (hnow : now < 4294967296) (hraw : 12 ≤ raw.length) :
    ∃ f1 f2, runProg (prog cfg now off .getSchedules) (raw :: r2 :: rest) = ([f1, f2], (getSchedules off (now + off) r2).map (.schedules r2)) ∧
      IsRefWire .login1 [] (tsOf now) cfg.deviceId cfg.deviceKey f1 ∧
      IsRefWire .getSchedules (sessionId raw) (tsOf now) cfg.deviceId cfg.deviceKey f2 := by
  obtain ⟨hd1, hd2, hk1, hk2⟩ := hcfg
  obtain ⟨ht1, ht2⟩ := tsOf_props now
  obtain ⟨hs1, hs2⟩ := sessionId_props raw hraw
  exact simple_fixed cfg now raw r2 rest "get_schedules" "GET_SCHEDULES_PACKET" .getSchedules 83 _ [] _
    ["login_resp.session_id", "timestamp", "self._device_id"]
    ⟨hd1, hd2, hk1, hk2⟩ hnow (guardStops_none _ _ (by decide +kernel)) rfl
    (by decide +kernel) (by decide +kernel) rfl (by decide +kernel)
    (by simp [argOf, baseEnv, argS, roleOfExpr, specEnv])
    (by decide +kernel)
    (by
      have : rolesOf (refSym Op.getSchedules.kind) = [.sid, .ts, .did] := by decide
      rw [this]
      simp [specEnv, hs1, hs2, ht1, ht2, hd1, hd2, Role.width])
    (by decide +kernel)

/-- delete_schedule: the slot id (one hex digit) -/
theorem delete_schedule_frames (cfg : Cfg) (now : Nat) (off : Int) (raw r2 : List Nat) (rest : List (List Nat)) (slot : Nat)
    (hcfg : WFcfg cfg) (hnow : now < 4294967296) (hraw : 12 ≤ raw.length) (hslot : slot < 16) :
    ∃ f1 f2, runProg (prog cfg now off (.deleteSchedule [hexDigit slot])) (raw :: r2 :: rest) = ([f1, f2], .ok (.base r2)) ∧
      IsRefWire .login1 [] (tsOf now) cfg.deviceId cfg.deviceKey f1 ∧
      IsRefWire (.deleteSchedule slot) (sessionId raw) (tsOf now) cfg.deviceId cfg.deviceKey f2 := by
  obtain ⟨hd1, hd2, hk1, hk2⟩ := hcfg
  obtain ⟨ht1, ht2⟩ := tsOf_props now
  obtain ⟨hs1, hs2⟩ := sessionId_props raw hraw
  exact simple_fixed cfg now raw r2 rest "delete_schedule" "DELETE_SCHEDULE_PACKET" (.deleteSchedule slot) 84 _ _ _
    ["login_resp.session_id", "timestamp", "self._device_id", "schedule_id"]
    ⟨hd1, hd2, hk1, hk2⟩ hnow (guardStops_none _ _ (by decide +kernel)) rfl
    (by show _ = some (refSym .deleteSchedule); decide +kernel) (by decide +kernel) rfl (by decide +kernel)
    (by simp [argOf, baseEnv, argS, roleOfExpr, specEnv])
    (by show litsHex (refSym .deleteSchedule) = true; decide +kernel)
    (by
      have : rolesOf (refSym (Op.deleteSchedule slot).kind) = [.sid, .ts, .did, .slot] := by
        show rolesOf (refSym .deleteSchedule) = _; decide
      rw [this]
      have hsl : isHexText [hexDigit slot] = true := by simp [isHexText, hexVal_hexDigit slot hslot]
      simp [specEnv, hs1, hs2, ht1, ht2, hd1, hd2, Role.width, hsl])
    (by show (skelOf Role.width (refSym .deleteSchedule)).length = _; decide +kernel)

/-- stop (shutter) -/
theorem stop_frames (cfg : Cfg) (now : Nat) (off : Int) (raw r2 : List Nat) (rest : List (List Nat))
    (hcfg : WFcfg cfg) (hnow : now < 4294967296) (hraw : 12 ≤ raw.length) :
    ∃ f1 f2, runProg (prog cfg now off .stop) (raw :: r2 :: rest) = ([f1, f2], .ok (.base r2)) ∧
      IsRefWire .login2 [] (tsOf now) cfg.deviceId cfg.deviceKey f1 ∧
      IsRefWire .stop (sessionId raw) (tsOf now) cfg.deviceId cfg.deviceKey f2 := by
  obtain ⟨hd1, hd2, hk1, hk2⟩ := hcfg
  obtain ⟨ht1, ht2⟩ := tsOf_props now
  obtain ⟨hs1, hs2⟩ := sessionId_props raw hraw
  exact simple_computed' cfg now raw r2 rest "stop" "RUNNER_STOP_COMMAND" .stop 85 _ [] _
    ["login_resp.session_id", "timestamp", "self._device_id"]
    ⟨hd1, hd2, hk1, hk2⟩ hnow (guardStops_nonempty _ _ (by intro h; subst h; simp at hraw)) rfl
    (by decide +kernel) (by decide +kernel) rfl (by decide +kernel)
    (by simp [argOf, baseEnv, argS, roleOfExpr, specEnv])
    (by
      have : rolesOf (refSym Op.stop.kind) = [.sid, .ts, .did] := by decide
      rw [this]
      simp [specEnv, hs1, hs2, ht1, ht2, hd1, hd2, Role.width])
    (by decide)

theorem hexpos_ok : ∀ p < 256, fmtField "02x" (.i (p : Nat)) = .ok (hexB p) := by decide +kernel

/-- set_position: shutter position 0..100 -/
theorem set_position_frames (cfg : Cfg) (now : Nat) (off : Int) (raw r2 : List Nat) (rest : List (List Nat)) (pos : Nat)
    (hcfg : WFcfg cfg) (hnow : now < 4294967296) (hraw : 12 ≤ raw.length) (hpos : pos ≤ 100) :
    ∃ f1 f2, runProg (prog cfg now off (.setPosition pos)) (raw :: r2 :: rest) = ([f1, f2], .ok (.base r2)) ∧
      IsRefWire .login2 [] (tsOf now) cfg.deviceId cfg.deviceKey f1 ∧
      IsRefWire (.setPosition pos) (sessionId raw) (tsOf now) cfg.deviceId cfg.deviceKey f2 := by
  obtain ⟨hd1, hd2, hk1, hk2⟩ := hcfg
  obtain ⟨ht1, ht2⟩ := tsOf_props now
  obtain ⟨hs1, hs2⟩ := sessionId_props raw hraw
  have hextra : (do let h ← fmtField "02x" (.i (pos : Int)); pure [("hex_pos", Arg.s h)] : Py Env) = .ok [("hex_pos", .s (hexB pos))] := by
    rw [hexpos_ok pos (by omega)]; rfl
  exact simple_computed' cfg now raw r2 rest "set_position" "RUNNER_SET_POSITION" (.setPosition pos) 84 _ _ _
    ["login_resp.session_id", "timestamp", "self._device_id", "hex_pos"]
    ⟨hd1, hd2, hk1, hk2⟩ hnow (guardStops_nonempty _ _ (by intro h; subst h; simp at hraw)) hextra
    (by show computedOk _ (refSym .setPosition) 84 = true; decide +kernel) (by decide +kernel) rfl (by decide +kernel)
    (by simp [argOf, baseEnv, argS, roleOfExpr, specEnv])
    (by
      have : rolesOf (refSym (Op.setPosition pos).kind) = [.sid, .ts, .did, .pos] := by
        show rolesOf (refSym .setPosition) = _; decide
      rw [this]
      simp [specEnv, hs1, hs2, ht1, ht2, hd1, hd2, Role.width, hexB, isHexText_hexlify, hexByte]
      have h1 : pos / 16 % 16 < 16 := Nat.mod_lt _ (by decide)
      have h2 : pos % 16 < 16 := Nat.mod_lt _ (by decide)
      simp [isHexText, hexVal_hexDigit _ h1, hexVal_hexDigit _ h2])
    (by decide)

/-- get_shutter_state / get_breeze_state: type 2 login, then the type 2 state query -/
theorem get_shutter_state_frames (cfg : Cfg) (now : Nat) (off : Int) (raw r2 : List Nat) (rest : List (List Nat))
    (hcfg : WFcfg cfg) (hnow : now < 4294967296) (hraw : 12 ≤ raw.length) :
    ∃ f1 f2, runProg (prog cfg now off .getShutterState) (raw :: r2 :: rest) = ([f1, f2], finishShutter r2) ∧
      IsRefWire .login2 [] (tsOf now) cfg.deviceId cfg.deviceKey f1 ∧
      IsRefWire .getState2 (sessionId raw) (tsOf now) cfg.deviceId cfg.deviceKey f2 := by
  obtain ⟨hd1, hd2, hk1, hk2⟩ := hcfg
  obtain ⟨ht1, ht2⟩ := tsOf_props now
  obtain ⟨hs1, hs2⟩ := sessionId_props raw hraw
  exact simple_fixed cfg now raw r2 rest "get_shutter_state" "GET_STATE_PACKET2_TYPE2" .getState2 44 _ [] _
    ["login_resp.session_id", "timestamp", "self._device_id"]
    ⟨hd1, hd2, hk1, hk2⟩ hnow (guardStops_nonempty _ _ (by intro h; subst h; simp at hraw)) rfl
    (by decide +kernel) (by decide +kernel) rfl (by decide +kernel)
    (by simp [argOf, baseEnv, argS, roleOfExpr, specEnv])
    (by decide +kernel)
    (by
      have : rolesOf (refSym Op.getState2.kind) = [.sid, .ts, .did] := by decide
      rw [this]
      simp [specEnv, hs1, hs2, ht1, ht2, hd1, hd2, Role.width])
    (by decide +kernel)

theorem parseClock_hhmm : ∀ m < 1440, parseClock (hhmm m) = .ok (m / 60, m % 60) := by decide +kernel

theorem hex2_eq_hexB : ∀ n < 256, hex2 n = hexB n := by decide +kernel

theorem nonRecurring : constText "NON_RECURRING_SCHEDULE" = .ok (hexB 0) := by decide +kernel

/-- the clock encoder on a host with a fixed UTC offset: the LE32 epoch second of that wall time today -/
theorem timeToHexFixed_ok (off : Int) (now m t : Nat) (hm : m < 1440) (ht : t < 4294967296)
    (heq : (t : Int) = ((now : Int) + off) / 86400 * 86400 + 60 * m - off) :
    timeToHexFixed off now (hhmm m) = .ok (hexlify (le32 t)) := by
  unfold timeToHexFixed
  rw [parseClock_hhmm m hm]
  simp only [py_bind_ok]
  have : ((now : Int) + off) / 86400 * 86400 + 3600 * ((m / 60 : Nat) : Int) + 60 * ((m % 60 : Nat) : Int) - off = (t : Int) := by
    rw [heq]; omega
  rw [this, packLE32_nat t ht]; rfl

/-- create_schedule: the schedule record (day mask, start, end) -/
theorem create_schedule_frames (cfg : Cfg) (now : Nat) (off : Int) (raw r2 : List Nat) (rest : List (List Nat))
    (s e tS tE : Nat) (isSet : Bool) (days : List Nat)
    (hcfg : WFcfg cfg) (hnow : now < 4294967296) (hraw : 12 ≤ raw.length)
    (hs : s < 1440) (he : e < 1440) (hd : ∀ d ∈ days, d < 7) (hn : days.Nodup)
    (htS : tS < 4294967296) (htE : tE < 4294967296)
    (heS : (tS : Int) = ((now : Int) + off) / 86400 * 86400 + 60 * s - off)
    (heE : (tE : Int) = ((now : Int) + off) / 86400 * 86400 + 60 * e - off) :
    ∃ f1 f2, runProg (prog cfg now off (.createSchedule (hhmm s) (hhmm e) isSet days)) (raw :: r2 :: rest) = ([f1, f2], .ok (.base r2)) ∧
      IsRefWire .login1 [] (tsOf now) cfg.deviceId cfg.deviceKey f1 ∧
      IsRefWire (.createSchedule (maskOf days) tS tE) (sessionId raw) (tsOf now) cfg.deviceId cfg.deviceKey f2 := by
  obtain ⟨hd1, hd2, hk1, hk2⟩ := hcfg
  obtain ⟨ht1, ht2⟩ := tsOf_props now
  obtain ⟨hs1, hs2⟩ := sessionId_props raw hraw
  have hmr := maskOf_range days
  have hw : (if days.length > 0 then weekdaysToHex (.coll isSet days) else constText "NON_RECURRING_SCHEDULE") = .ok (hexB (maskOf days)) := by
    cases days with
    | nil => simp [nonRecurring, maskOf]
    | cons a l =>
      simp only [List.length_cons, gt_iff_lt, Nat.zero_lt_succ, if_true]
      simp only [weekdaysToHex, List.isEmpty_cons, Bool.false_eq_true, if_false, hn, decide_true, Bool.or_true, if_true,
        sum_bits_mask _ hd hn, py_pure]
      rw [fmt02x_hex2 _ (by omega), hex2_eq_hexB _ (by omega)]
  let op := Op.createSchedule (maskOf days) tS tE
  let renv := specEnv op (sessionId raw) (tsOf now) cfg.deviceId cfg.deviceKey
  have hrec : formatCall "create_schedule" "SCHEDULE_CREATE_DATA_FORMAT"
      [("weekdays", .s (hexB (maskOf days))), ("start_time_hex", .s (hexlify (le32 tS))), ("end_time_hex", .s (hexlify (le32 tE)))]
      = .ok (renv .sched) := by
    have := formatCall_sym "create_schedule" "SCHEDULE_CREATE_DATA_FORMAT"
      [("weekdays", .s (hexB (maskOf days))), ("start_time_hex", .s (hexlify (le32 tS))), ("end_time_hex", .s (hexlify (le32 tE)))]
      renv schedSym (argS renv) (by decide +kernel)
      (hf_of_exprs _ _ _ _ _ ["weekdays", "start_time_hex", "end_time_hex"] (by decide +kernel)
        (by simp [argOf, roleOfExpr, Renders, renv, specEnv, argS, op]))
    rw [this]
    simp [schedSym, lits, fld, evalSym, renv, specEnv, op]
  have hextra : (do
      let s ← timeToHexFixed off now (hhmm s)
      let e ← timeToHexFixed off now (hhmm e)
      let w ← if days.length > 0 then weekdaysToHex (.coll isSet days) else constText "NON_RECURRING_SCHEDULE"
      let rec_ ← formatCall "create_schedule" "SCHEDULE_CREATE_DATA_FORMAT"
        [("weekdays", .s w), ("start_time_hex", .s s), ("end_time_hex", .s e)]
      pure [("new_schedule", Arg.s rec_)] : Py Env) = .ok [("new_schedule", .s (renv .sched))] := by
    rw [timeToHexFixed_ok off now s tS hs htS heS, timeToHexFixed_ok off now e tE he htE heE]
    simp only [py_bind_ok]
    by_cases hl : days.length > 0
    · simp only [hl, if_true] at hw ⊢
      simp only [hw, py_bind_ok, hrec, py_pure]
    · simp only [hl, if_false] at hw ⊢
      simp only [hw, py_bind_ok, hrec, py_pure]
  exact simple_fixed cfg now raw r2 rest "create_schedule" "CREATE_SCHEDULE_PACKET" op 95 _ _ _
    ["login_resp.session_id", "timestamp", "self._device_id", "new_schedule"]
    ⟨hd1, hd2, hk1, hk2⟩ hnow (guardStops_none _ _ (by decide +kernel)) hextra
    (by show _ = some (refSym .createSchedule); decide +kernel) (by decide +kernel) rfl (by decide +kernel)
    (by simp [argOf, baseEnv, argS, roleOfExpr, renv, op, specEnv])
    (by show litsHex (refSym .createSchedule) = true; decide +kernel)
    (by
      have : rolesOf (refSym op.kind) = [.sid, .ts, .did, .sched] := by
        show rolesOf (refSym .createSchedule) = _; decide
      rw [this]
      have h01 : isHexText cs!"01" = true := by decide
      have hsc : isHexText (renv .sched) = true ∧ (renv .sched).length = 22 := by
        have hb := isHexText_hexByte (maskOf days)
        constructor
        · simp only [renv, op, specEnv, isHexText_append, isHexText_hexlify, hexB, hb, h01, Bool.and_self]
        · simp [renv, op, specEnv, hexlify_length, le32, hexB, hexByte]
      simp only [List.forall_mem_cons, List.not_mem_nil, false_imp_iff, implies_true, and_true]
      refine ⟨⟨hs2, hs1⟩, ⟨ht2, ht1⟩, ⟨hd2, hd1⟩, hsc⟩)
    (by show (skelOf Role.width (refSym .createSchedule)).length = _; decide +kernel)

/-- create_schedule with a malformed clock string raises after the login frame; no command frame is written -/
theorem create_schedule_rejected_clock (cfg : Cfg) (now : Nat) (off : Int) (raw : List Nat) (rest : List (List Nat))
    (start stop : List Char) (isSet : Bool) (days : List Nat) (e : Exc)
    (hcfg : WFcfg cfg) (hnow : now < 4294967296) (h : parseClock start = .error e) :
    ∃ f1, runProg (prog cfg now off (.createSchedule start stop isSet days)) (raw :: rest) = ([f1], .error e) := by
  obtain ⟨f1, hl1, _⟩ := login_frame cfg now hcfg (loginVariantText "create_schedule")
  refine ⟨f1, ?_⟩
  apply runProg_simpleOp_rejected cfg now _ _ _ _ (tsOf now) f1 raw rest e (timestampToHex_ok now hnow) hl1
    (guardStops_none _ _ (by decide +kernel))
  simp [timeToHexFixed, h]

/-- create_schedule with duplicate days (given as a sequence) raises; no command frame is written -/
theorem create_schedule_rejected_duplicates (cfg : Cfg) (now : Nat) (off : Int) (raw : List Nat) (rest : List (List Nat))
    (s e tS tE : Nat) (days : List Nat)
    (hcfg : WFcfg cfg) (hnow : now < 4294967296) (hs : s < 1440) (he : e < 1440) (hdup : ¬ days.Nodup)
    (htS : tS < 4294967296) (htE : tE < 4294967296)
    (heS : (tS : Int) = ((now : Int) + off) / 86400 * 86400 + 60 * s - off)
    (heE : (tE : Int) = ((now : Int) + off) / 86400 * 86400 + 60 * e - off) :
    ∃ f1, runProg (prog cfg now off (.createSchedule (hhmm s) (hhmm e) false days)) (raw :: rest) = ([f1], .error .valueError) := by
  obtain ⟨f1, hl1, _⟩ := login_frame cfg now hcfg (loginVariantText "create_schedule")
  refine ⟨f1, ?_⟩
  apply runProg_simpleOp_rejected cfg now _ _ _ _ (tsOf now) f1 raw rest .valueError (timestampToHex_ok now hnow) hl1
    (guardStops_none _ _ (by decide +kernel))
  rw [timeToHexFixed_ok off now s tS hs htS heS, timeToHexFixed_ok off now e tE he htE heE]
  have hne : days ≠ [] := by rintro rfl; exact hdup List.nodup_nil
  have hl : days.length > 0 := by cases days with
    | nil => exact absurd rfl hne
    | cons a l => simp
  simp [hl, weekdaysToHex, hne, hdup]

/-! ### decoding: the reference frame carries each argument at the protocol's offset -/

theorem slice_withLength (body : List Char) (a b : Nat) (h8 : 8 ≤ a) (hl : 8 ≤ body.length) :
    slice (withLength body) a b = slice body a b := by
  unfold withLength slice
  have e : (cs!"fef0" ++ hexlify (le16 (body.length / 2 + 4))).length = 8 := by simp [hexlify_length, le16]
  rw [List.drop_append, e]
  have : List.drop a (cs!"fef0" ++ hexlify (le16 (body.length / 2 + 4))) = [] := List.drop_of_length_le (by omega)
  rw [this, List.nil_append, List.drop_drop]
  congr 2; omega

/-- every argument field of every reference frame sits at the protocol's offset (`Spec.fieldAt`) and
    holds the reference encoding of the caller's argument -/
theorem refFrame_field (op : Op) (sid ts did key : List Char) (r : Role) (a b : Nat)
    (hf : fieldAt op.kind r = some (a, b))
    (hw : ∀ r' ∈ rolesOf (refSym op.kind), (specEnv op sid ts did key r').length = r'.width) :
    slice (refFrame op sid ts did key) a b = specEnv op sid ts did key r := by
  have hfield := field_of_refFrame op.kind (specEnv op sid ts did key) r a b hf hw
  unfold refFrame
  by_cases hc : op.kind.computedLength = true
  · simp only [hc, if_true]
    have h8 : 8 ≤ a := by
      revert hf; cases op <;> cases r <;> simp [Op.kind, fieldAt] <;> omega
    have hlen : 8 ≤ (evalSym (specEnv op sid ts did key) (refSym op.kind)).length := by
      have := agrees_length (evalSym_agrees (specEnv op sid ts did key) Role.width (refSym op.kind) hw)
      rw [this]
      cases op <;> simp [Op.kind, Kind.computedLength] at hc <;> simp [Op.kind] <;> decide +kernel
    rw [slice_withLength _ a b h8 hlen]; exact hfield
  · simp only [hc, if_false]; exact hfield

/-- the control frame's timer field decodes to 60 × minutes and its flag to the command -/
theorem control_decodes (on : Bool) (minutes : Nat) (sid ts did key : List Char)
    (hs : sid.length = 8) (ht : ts.length = 8) (hd : did.length = 6) (hacc : 60 * minutes < 4294967296) :
    (unhexlify (slice (refFrame (.control on minutes) sid ts did key) 170 178)).map ofLE = some (60 * minutes) ∧
    slice (refFrame (.control on minutes) sid ts did key) 167 168 = [if on then '1' else '0'] ∧
    slice (refFrame (.control on minutes) sid ts did key) 80 86 = did := by
  have hw : ∀ r' ∈ rolesOf (refSym (Op.control on minutes).kind), (specEnv (.control on minutes) sid ts did key r').length = r'.width := by
    have : rolesOf (refSym (Op.control on minutes).kind) = [.sid, .ts, .did, .onoff, .timer] := by
      show rolesOf (refSym .control) = _; decide
    rw [this]; simp [specEnv, hs, ht, hd, Role.width, hexlify_length, le32]
  refine ⟨?_, ?_, ?_⟩
  · rw [refFrame_field (.control on minutes) sid ts did key .timer 170 178 rfl hw]
    exact decode_le32 _ hacc
  · rw [refFrame_field (.control on minutes) sid ts did key .onoff 167 168 rfl hw]; rfl
  · rw [refFrame_field (.control on minutes) sid ts did key .did 80 86 rfl hw]; rfl

/-- the auto-shutdown field decodes to the seconds that were encoded -/
theorem auto_shutdown_decodes (seconds : Nat) (sid ts did key : List Char)
    (hs : sid.length = 8) (ht : ts.length = 8) (hd : did.length = 6) (hacc : seconds < 4294967296) :
    (unhexlify (slice (refFrame (.setAutoOff seconds) sid ts did key) 166 174)).map ofLE = some seconds := by
  have hw : ∀ r' ∈ rolesOf (refSym (Op.setAutoOff seconds).kind), (specEnv (.setAutoOff seconds) sid ts did key r').length = r'.width := by
    have : rolesOf (refSym (Op.setAutoOff seconds).kind) = [.sid, .ts, .did, .autoOff] := by
      show rolesOf (refSym .setAutoOff) = _; decide
    rw [this]; simp [specEnv, hs, ht, hd, Role.width, hexlify_length, le32]
  rw [refFrame_field (.setAutoOff seconds) sid ts did key .autoOff 166 174 rfl hw]
  exact decode_le32 _ hacc

/-- the name field decodes to the UTF-8 bytes of the name, zero padded to exactly 32 bytes -/
theorem name_decodes (chars : Nat) (u : List Nat) (sid ts did key : List Char)
    (hs : sid.length = 8) (ht : ts.length = 8) (hd : did.length = 6) (hu : u.length ≤ 32) (hb : IsBytes u) :
    unhexlify (slice (refFrame (.setName chars u) sid ts did key) 160 224) = some (u ++ List.replicate (32 - u.length) 0) ∧
    (u ++ List.replicate (32 - u.length) 0).length = 32 := by
  have hw : ∀ r' ∈ rolesOf (refSym (Op.setName chars u).kind), (specEnv (.setName chars u) sid ts did key r').length = r'.width := by
    have : rolesOf (refSym (Op.setName chars u).kind) = [.sid, .ts, .did, .name] := by
      show rolesOf (refSym .setName) = _; decide
    rw [this]; simp [specEnv, hs, ht, hd, Role.width, hexlify_length]; omega
  constructor
  · rw [refFrame_field (.setName chars u) sid ts did key .name 160 224 rfl hw]
    exact unhexlify_hexlify _ (isBytes_append hb (isBytes_replicate _ _ (by decide)))
  · simp; omega

end Props.C02
