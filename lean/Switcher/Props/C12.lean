/-
C12 — Weekday sets and their one-byte mask are a bijection.

`Model.weekdaysToHex` / `Model.bitSummaryToDays` model `weekdays_to_hexadecimal` / `bit_summary_to_days`
over the generated `Days` table; `Spec.maskOf` / `Spec.daysOfMask` are the protocol's mask (Monday
0x02 … Sunday 0x80).  Weekdays are 0..6.
-/
import Switcher.Proofs.Days
namespace Props.C12
open Spec Model

/-- the generated `Days` table is the protocol's: 7 days, bit and hex value 2^(d+1), weekday d -/
theorem table : Gen.days.length = 7 ∧ (∀ d < 7, dayBitRep d = 2 ^ (d + 1) ∧ dayHexRep d = 2 ^ (d + 1) ∧ dayWeekday d = d) := by
  decide

/-- ENCODING, every duplicate-free non-empty collection (set or sequence, any order, any length):
    two hex digits of exactly the mask of the set -/
theorem encode_collection (isSet : Bool) (l : List Nat) (hne : l ≠ []) (h : ∀ d ∈ l, d < 7) (hn : l.Nodup) :
    weekdaysToHex (.coll isSet l) = .ok (hex2 (maskOf l)) := by
  have hm := maskOf_range l
  simp only [weekdaysToHex, List.isEmpty_iff, hne, if_false, hn, decide_true, Bool.or_true, if_true,
    sum_bits_mask l h hn, py_pure]
  rw [fmt02x_hex2 _ (by omega)]

/-- ENCODING, a single day -/
theorem encode_single : ∀ d < 7, weekdaysToHex (.single d) = .ok (hex2 (maskOf [d])) := by decide +kernel

/-- the mask has exactly the bits of the selected days, never bit 0, and lies in 2..254 -/
theorem mask_bits (S : List Nat) (hne : S ≠ []) (h : ∀ d ∈ S, d < 7) :
    (∀ d < 7, (maskOf S / 2 ^ (d + 1) % 2 = 1 ↔ d ∈ S)) ∧ maskOf S % 2 = 0 ∧ 2 ≤ maskOf S ∧ maskOf S ≤ 254 := by
  refine ⟨maskOf_bit S, (maskOf_range S).1, ?_, (maskOf_range S).2⟩
  cases S with
  | nil => exact absurd rfl hne
  | cons a S => exact maskOf_pos _ a (h a (by simp)) (by simp)

/-- DECODING: for every mask in 2..254 the decoded days are exactly those whose bit is set -/
theorem decode_bits : ∀ n : Nat, 2 ≤ n → n ≤ 254 → bitSummaryToDays n = .ok (daysOfMask n) := by
  intro n h1 h2
  have : ∀ n < 255, 2 ≤ n → bitSummaryToDays (n : Nat) = .ok (daysOfMask n) := by decide +kernel
  exact this n (by omega) h1

/-- ROUND TRIP set → mask → set: decoding the mask of a set returns exactly that set (as a set) -/
theorem decode_encode (S : List Nat) (hne : S ≠ []) (h : ∀ d ∈ S, d < 7) :
    ∃ r, bitSummaryToDays (maskOf S) = .ok r ∧ ∀ d, d ∈ r ↔ d ∈ S := by
  obtain ⟨hb, _, h2, h254⟩ := mask_bits S hne h
  refine ⟨daysOfMask (maskOf S), decode_bits _ h2 h254, ?_⟩
  intro d
  simp only [daysOfMask, List.mem_filter, List.mem_range, decide_eq_true_eq]
  constructor
  · rintro ⟨hd, hbit⟩; exact (hb d hd).mp hbit
  · intro hd; exact ⟨h d hd, (hb d (h d hd)).mpr hd⟩

/-- ROUND TRIP mask → set → mask for every even mask 2..254 (all 127) -/
theorem encode_decode : ∀ m < 128, m ≠ 0 →
    weekdaysToHex (.coll true (daysOfMask (2 * m))) = .ok (hex2 (2 * m)) ∧
    weekdaysToHex (.coll false (daysOfMask (2 * m))) = .ok (hex2 (2 * m)) := by decide +kernel

/-- REJECTION: empty collections, sequences with duplicates -/
theorem rejects_empty (b : Bool) : weekdaysToHex (.coll b []) = .error .valueError := rfl
theorem rejects_duplicates (l : List Nat) (hd : ¬ l.Nodup) : weekdaysToHex (.coll false l) = .error .valueError := by
  have hne : l ≠ [] := by rintro rfl; exact hd List.nodup_nil
  simp [weekdaysToHex, hne, hd]

/-- REJECTION: every mask outside 2..254 (any integer) -/
theorem rejects_mask (n : Int) (h : n < 2 ∨ 254 < n) : bitSummaryToDays n = .error .valueError := by
  have : ¬ (1 < n ∧ n < 255) := by omega
  simp [bitSummaryToDays, inChain_bs2d, this]

/- non-vacuity: a concrete non-trivial set in sequence form, and a duplicate-bearing one -/
example : weekdaysToHex (.coll false [6, 0, 3]) = .ok "92".toList ∧ maskOf [6, 0, 3] = 0x92 := by decide +kernel
example : bitSummaryToDays 0x92 = .ok [0, 3, 6] := by decide
example : weekdaysToHex (.coll false [1, 1]) = .error .valueError := by decide +kernel

end Props.C12
