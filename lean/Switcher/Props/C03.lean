/-
C03 — Every operation logs in first and binds its commands to that login's session.

* `starts_with_login`: every operation of either API, whatever its arguments, is `_login` followed by
  the rest: its first action is to write the login frame that carries this operation's own clock
  reading and the key (type 1) or the device id (type 2); nothing is written before it.
* `at_most_two_frames` / `breeze_at_most_four`: the number of frames per operation is bounded: two for
  simple operations, four for thermostat control — for every reply the device may give.
* `command_bound_to_login` (from C02): the command frame is the reference frame built from the session
  id *of that very login reply*, the same clock reading and the configured device id; it is a function
  of nothing else.
* `locality`: for EVERY schedule interleaving ANY number of instances, what instance `i` writes and
  returns is exactly its own sequential run on the replies delivered to it — no session id, clock
  reading or identity of another instance or of an earlier operation can occur in it.
-/
import Switcher.Model.Conn
import Switcher.Props.C02
namespace Props.C03
open Spec Model

/-- every operation is `_login` first: the login frame is built from this operation's clock reading and
    the configured credentials only, and it is the first thing written -/
theorem starts_with_login (cfg : Cfg) (now off : Int) (req : Req) :
    ∃ method k, prog cfg now off req = withLogin cfg now method k := by
  cases req <;> exact ⟨_, _, rfl⟩

/-- `withLogin` writes exactly the login frame first, or fails before writing anything -/
theorem withLogin_shape (cfg : Cfg) (now : Int) (method : String) (k : List Char → List Nat → Prog) :
    (∃ e, withLogin cfg now method k = .done (.error e)) ∨
    (∃ ts f, timestampToHex now = .ok ts ∧ loginFrame cfg ts (loginVariantText method) = .ok f ∧
      withLogin cfg now method k = .send f (fun raw => k ts raw)) := by
  unfold withLogin
  split
  · exact Or.inl ⟨_, rfl⟩
  · rename_i ts h1
    split
    · exact Or.inl ⟨_, rfl⟩
    · rename_i f h2
      exact Or.inr ⟨ts, f, h1, h2, rfl⟩

/-- the first frame of every operation is the reference login frame of its own clock reading:
    key for type 1, device id for type 2 -/
theorem first_frame_is_login (cfg : Cfg) (now : Nat) (off : Int) (req : Req) (reps : List (List Nat))
    (hcfg : WFcfg cfg) (hnow : now < 4294967296) :
    ∃ f rest lop, (lop = Op.login1 ∨ lop = Op.login2) ∧ (runProg (prog cfg now off req) reps).1 = f :: rest ∧
      IsRefWire lop [] (tsOf now) cfg.deviceId cfg.deviceKey f := by
  obtain ⟨method, k, hp⟩ := starts_with_login cfg now off req
  obtain ⟨f, hf, hw⟩ := login_frame cfg now hcfg (loginVariantText method)
  rw [hp]
  rcases withLogin_shape cfg now method k with ⟨e, h⟩ | ⟨ts, f', h1, h2, h⟩
  · exfalso
    unfold withLogin at h
    rw [timestampToHex_ok now hnow] at h
    simp only [hf] at h
    cases h
  · rw [timestampToHex_ok now hnow] at h1
    cases h1
    rw [hf] at h2
    cases h2
    rw [h]
    have hl : (if isType2Login (loginVariantText method) = true then Op.login2 else Op.login1) = Op.login1 ∨
        (if isType2Login (loginVariantText method) = true then Op.login2 else Op.login1) = Op.login2 := by
      by_cases h' : isType2Login (loginVariantText method) = true <;> simp [h']
    cases reps with
    | nil => exact ⟨f, _, _, hl, rfl, hw⟩
    | cons r rs => exact ⟨f, _, _, hl, rfl, hw⟩

/-- simple operations write at most two frames whatever the device replies -/
theorem simpleOp_at_most_two (cfg : Cfg) (now : Int) (method tmpl : String) (extra : Py Env) (finish : List Nat → Py Resp) :
    Prog.maxSends (simpleOp cfg now method tmpl extra finish) 2 := by
  unfold simpleOp
  rcases withLogin_shape cfg now method _ with ⟨e, h⟩ | ⟨ts, f, _, _, h⟩
  · rw [h]; trivial
  · rw [h]
    intro raw
    simp only []
    split
    · trivial
    · split
      · trivial
      · split
        · trivial
        · intro r; trivial

theorem at_most_two_frames (cfg : Cfg) (now off : Int) (req : Req)
    (h : ∀ r s m t f w u, req ≠ .controlBreeze r s m t f w u) : Prog.maxSends (prog cfg now off req) 2 := by
  cases req with
  | controlBreeze r s m t f w u => exact absurd rfl (h r s m t f w u)
  | getBreezeState =>
    unfold prog
    rcases withLogin_shape cfg now "get_breeze_state" _ with ⟨e, h⟩ | ⟨ts, f, _, _, h⟩
    · rw [h]; trivial
    · rw [h]
      intro raw
      simp only []
      split
      · trivial
      · split
        · trivial
        · intro r; trivial
  | _ => simp only [prog]; exact simpleOp_at_most_two ..

/-- the bound on frames is a bound on what a run writes -/
theorem maxSends_runProg (p : Prog) (n : Nat) (h : Prog.maxSends p n) (reps : List (List Nat)) : (runProg p reps).1.length ≤ n := by
  induction n generalizing p reps with
  | zero =>
    cases p with
    | done r => simp [runProg]
    | send f k => exact absurd h (by simp [Prog.maxSends])
  | succ n ih =>
    cases p with
    | done r => simp [runProg]
    | send f k =>
      cases reps with
      | nil => simp only [runProg, List.length_cons]; have := ih (k []) (h []) []; omega
      | cons r rs => simp only [runProg, List.length_cons]; have := ih (k r) (h r) rs; omega

theorem swingTail_at_most_one (cfg : Cfg) (ts : List Char) (raw : List Nat) (remote : Remote) (swing : Option String) (upd : Bool)
    (cmdResp : Option (List Nat)) (n : Nat) : Prog.maxSends (breezeSwingTail cfg ts raw remote swing upd cmdResp) (n + 1) := by
  unfold breezeSwingTail
  split
  · split
    · split
      · trivial
      · split
        · trivial
        · intro r; trivial
    · split <;> trivial
  · split <;> trivial

theorem withState_at_most_three (cfg : Cfg) (ts : List Char) (raw : List Nat) (remote : Remote) (state mode : Option String) (tt : Int)
    (fan swing : Option String) (upd : Bool) : Prog.maxSends (breezeWithState cfg ts raw remote state mode tt fan swing upd) 3 := by
  unfold breezeWithState
  split
  · trivial
  · intro sraw
    simp only []
    split
    · trivial
    · split
      · trivial
      · split
        · trivial
        · intro r
          simp only []
          split
          · trivial
          · exact swingTail_at_most_one cfg ts raw remote swing upd (some r) 0

/-- thermostat control writes at most four frames (login, state query, command/status, swing) -/
theorem breeze_at_most_four (cfg : Cfg) (now : Int) (remote : Remote) (state mode : Option String) (tt : Int)
    (fan swing : Option String) (upd : Bool) :
    Prog.maxSends (controlBreeze cfg now remote state mode tt fan swing upd) 4 := by
  unfold controlBreeze
  rcases withLogin_shape cfg now "control_breeze_device" _ with ⟨e, h⟩ | ⟨ts, f, _, _, h⟩
  · rw [h]; trivial
  · rw [h]
    intro raw
    simp only []
    split
    · trivial
    · split
      · exact withState_at_most_three cfg ts raw remote state mode tt fan swing upd
      · exact swingTail_at_most_one cfg ts raw remote swing upd none 2

/-- C02 restated for C03: the command frame is determined by this login's reply, this operation's clock
    reading and the configuration — e.g. for control_device -/
theorem command_bound_to_login (cfg : Cfg) (now : Nat) (off : Int) (raw r2 : List Nat) (rest : List (List Nat)) (on : Bool) (minutes : Nat)
    (hcfg : WFcfg cfg) (hnow : now < 4294967296) (hraw : 12 ≤ raw.length) (hacc : 60 * minutes < 4294967296) :
    ∃ f1 f2, (runProg (prog cfg now off (.controlDevice on minutes)) (raw :: r2 :: rest)).1 = [f1, f2] ∧
      IsRefWire (.control on minutes) (sessionId raw) (tsOf now) cfg.deviceId cfg.deviceKey f2 := by
  obtain ⟨f1, f2, h, _, h2⟩ := C02.control_frames cfg now off raw r2 rest on minutes hcfg hnow hraw hacc
  exact ⟨f1, f2, by rw [h], h2⟩

/-- LOCALITY.  Under every schedule of any number of instances, instance `i` behaves exactly as in its own
    sequential run on the replies delivered to it. -/
theorem locality (i : Nat) : ∀ (sched : List (Nat × List Nat)) (sys : Sys),
    run sys sched i = runInst (sys i) (proj i sched)
  | [], _ => rfl
  | x :: sched, sys => by
    simp only [run, List.foldl_cons]
    have ih := locality i sched (stepSys sys x)
    simp only [run] at ih
    rw [ih]
    by_cases h : x.1 = i
    · simp [proj, h, stepSys, runInst]
    · have h' : ¬ i = x.1 := fun e => h e.symm
      simp [proj, h, h', stepSys, runInst]

/-- consequently two systems that agree on instance `i` (its configuration, operations and clock readings)
    and deliver it the same replies agree on everything instance `i` writes and returns, whatever the other
    instances are, do, or receive -/
theorem no_leak (i : Nat) (sys sys' : Sys) (sched sched' : List (Nat × List Nat))
    (hi : sys i = sys' i) (hp : proj i sched = proj i sched') : run sys sched i = run sys' sched' i := by
  rw [locality, locality, hi, hp]

end Props.C03
