/-
C03 — Every operation logs in first and binds its commands to that login's session.

* `starts_with_login`: every operation of either API, whatever its arguments, is `_login` followed by
  the rest: its first action is to write the login frame that carries this operation's own clock
  reading and the key (type 1) or the device id (type 2); nothing is written before it.
* `at_most_two_frames` / `breeze_at_most_four`: the number of frames per operation is bounded: two for
  simple operations, four for thermostat control — for every reply the device may give.
* `command_bound_to_login` (from C02): the command frame is the reference frame built from the session
  id *of that very login reply*, the same clock reading and the configured device id; it is a function
  of nothing else.
* `command_carries` / `wire_carries`: read back from the frame itself, text and bytes: session id at bytes 8..12, clock
  reading at 24..28, device id at 40..43 — for every operation kind and every argument (`Spec.carries`, the predicate the
  run-time judge evaluates on the bytes the real client wrote).
* `locality`: for EVERY schedule interleaving ANY number of instances, what instance `i` writes and
  returns is exactly its own sequential run on the replies delivered to it — no session id, clock
  reading or identity of another instance or of an earlier operation can occur in it.
-/
import Switcher.Model.Conn
import Switcher.Props.C02
import Switcher.Spec.Frame
namespace Props.C03
open Spec Model

/-- every operation is `_login` first: the login frame is built from this operation's clock reading and
    the configured credentials only, and it is the first thing written -/
theorem starts_with_login (cfg : Cfg) (now off : Int) (req : Req) :
    ∃ method k, prog cfg now off req = withLogin cfg now method k := by
  cases req <;> exact ⟨_, _, rfl⟩

/-- `withLogin` writes exactly the login frame first, or fails before writing anything -/
theorem withLogin_shape (cfg : Cfg) (now : Int) (method : String) (k : List Char → List Nat → Prog) :
    (∃ e, withLogin cfg now method k = .done (.error e)) ∨
    (∃ ts f, timestampToHex now = .ok ts ∧ loginFrame cfg ts (loginVariantText method) = .ok f ∧
      withLogin cfg now method k = .send f (fun raw => k ts raw)) := by
  unfold withLogin
  split
  · exact Or.inl ⟨_, rfl⟩
  · rename_i ts h1
    split
    · exact Or.inl ⟨_, rfl⟩
    · rename_i f h2
      exact Or.inr ⟨ts, f, h1, h2, rfl⟩

/-- the first frame of every operation is the reference login frame of its own clock reading:
    key for type 1, device id for type 2 -/
theorem first_frame_is_login (cfg : Cfg) (now : Nat) (off : Int) (req : Req) (reps : List (List Nat))
    (hcfg : WFcfg cfg) (hnow : now < 4294967296) :
    ∃ f rest lop, (lop = Op.login1 ∨ lop = Op.login2) ∧ (runProg (prog cfg now off req) reps).1 = f :: rest ∧
      IsRefWire lop [] (tsOf now) cfg.deviceId cfg.deviceKey f := by
  obtain ⟨method, k, hp⟩ := starts_with_login cfg now off req
  obtain ⟨f, hf, hw⟩ := login_frame cfg now hcfg (loginVariantText method)
  rw [hp]
  rcases withLogin_shape cfg now method k with ⟨e, h⟩ | ⟨ts, f', h1, h2, h⟩
  · exfalso
    unfold withLogin at h
    rw [timestampToHex_ok now hnow] at h
    simp only [hf] at h
    cases h
  · rw [timestampToHex_ok now hnow] at h1
    cases h1
    rw [hf] at h2
    cases h2
    rw [h]
    have hl : (if isType2Login (loginVariantText method) = true then Op.login2 else Op.login1) = Op.login1 ∨
        (if isType2Login (loginVariantText method) = true then Op.login2 else Op.login1) = Op.login2 := by
      by_cases h' : isType2Login (loginVariantText method) = true <;> simp [h']
    cases reps with
    | nil => exact ⟨f, _, _, hl, rfl, hw⟩
    | cons r rs => exact ⟨f, _, _, hl, rfl, hw⟩

/-- simple operations write at most two frames whatever the device replies -/
theorem simpleOp_at_most_two (cfg : Cfg) (now : Int) (method tmpl : String) (extra : Py Env) (finish : List Nat → Py Resp) :
    Prog.maxSends (simpleOp cfg now method tmpl extra finish) 2 := by
  unfold simpleOp
  rcases withLogin_shape cfg now method _ with ⟨e, h⟩ | ⟨ts, f, _, _, h⟩
  · rw [h]; trivial
  · rw [h]
    intro raw
    simp only []
    split
    · trivial
    · split
      · trivial
      · split
        · trivial
        · intro r; trivial

theorem at_most_two_frames (cfg : Cfg) (now off : Int) (req : Req)
    (h : ∀ r s m t f w u, req ≠ .controlBreeze r s m t f w u) : Prog.maxSends (prog cfg now off req) 2 := by
  cases req with
  | controlBreeze r s m t f w u => exact absurd rfl (h r s m t f w u)
  | getBreezeState =>
    unfold prog
    rcases withLogin_shape cfg now "get_breeze_state" _ with ⟨e, h⟩ | ⟨ts, f, _, _, h⟩
    · rw [h]; trivial
    · rw [h]
      intro raw
      simp only []
      split
      · trivial
      · split
        · trivial
        · intro r; trivial
  | _ => simp only [prog]; exact simpleOp_at_most_two ..

/-- the bound on frames is a bound on what a run writes -/
theorem maxSends_runProg (p : Prog) (n : Nat) (h : Prog.maxSends p n) (reps : List (List Nat)) : (runProg p reps).1.length ≤ n := by
  induction n generalizing p reps with
  | zero =>
    cases p with
    | done r => simp [runProg]
    | send f k => exact absurd h (by simp [Prog.maxSends])
  | succ n ih =>
    cases p with
    | done r => simp [runProg]
    | send f k =>
      cases reps with
      | nil => simp only [runProg, List.length_cons]; have := ih (k []) (h []) []; omega
      | cons r rs => simp only [runProg, List.length_cons]; have := ih (k r) (h r) rs; omega

theorem swingTail_at_most_one (cfg : Cfg) (ts : List Char) (raw : List Nat) (remote : Remote) (swing : Option String) (upd : Bool)
    (cmdResp : Option (List Nat)) (n : Nat) : Prog.maxSends (breezeSwingTail cfg ts raw remote swing upd cmdResp) (n + 1) := by
  unfold breezeSwingTail
  split
  · split
    · split
      · trivial
      · split
        · trivial
        · intro r; trivial
    · split <;> trivial
  · split <;> trivial

theorem withState_at_most_three (cfg : Cfg) (ts : List Char) (raw : List Nat) (remote : Remote) (state mode : Option String) (tt : Int)
    (fan swing : Option String) (upd : Bool) : Prog.maxSends (breezeWithState cfg ts raw remote state mode tt fan swing upd) 3 := by
  unfold breezeWithState
  split
  · trivial
  · intro sraw
    simp only []
    split
    · trivial
    · split
      · trivial
      · split
        · trivial
        · intro r
          simp only []
          split
          · trivial
          · exact swingTail_at_most_one cfg ts raw remote swing upd (some r) 0

/-- thermostat control writes at most four frames (login, state query, command/status, swing) -/
theorem breeze_at_most_four (cfg : Cfg) (now : Int) (remote : Remote) (state mode : Option String) (tt : Int)
    (fan swing : Option String) (upd : Bool) :
    Prog.maxSends (controlBreeze cfg now remote state mode tt fan swing upd) 4 := by
  unfold controlBreeze
  rcases withLogin_shape cfg now "control_breeze_device" _ with ⟨e, h⟩ | ⟨ts, f, _, _, h⟩
  · rw [h]; trivial
  · rw [h]
    intro raw
    simp only []
    split
    · trivial
    · split
      · exact withState_at_most_three cfg ts raw remote state mode tt fan swing upd
      · exact swingTail_at_most_one cfg ts raw remote swing upd none 2

/-- C02 restated for C03: the command frame is determined by this login's reply, this operation's clock
    reading and the configuration — e.g. for control_device -/
theorem command_bound_to_login (cfg : Cfg) (now : Nat) (off : Int) (raw r2 : List Nat) (rest : List (List Nat)) (on : Bool) (minutes : Nat)
    (hcfg : WFcfg cfg) (hnow : now < 4294967296) (hraw : 12 ≤ raw.length) (hacc : 60 * minutes < 4294967296) :
    ∃ f1 f2, (runProg (prog cfg now off (.controlDevice on minutes)) (raw :: r2 :: rest)).1 = [f1, f2] ∧
      IsRefWire (.control on minutes) (sessionId raw) (tsOf now) cfg.deviceId cfg.deviceKey f2 := by
  obtain ⟨f1, f2, h, _, h2⟩ := C02.control_frames cfg now off raw r2 rest on minutes hcfg hnow hraw hacc
  exact ⟨f1, f2, by rw [h], h2⟩

/-! ### what a command frame carries, read back from the frame itself -/

/-- every non-login frame of the protocol has the session id at nibbles 16..24, the timestamp at 48..56 and the device id
    at 80..86 (the offsets are those of the independent layout reference) -/
theorem command_offsets (k : Kind) (h1 : k ≠ .login1) (h2 : k ≠ .login2) :
    fieldAt k .sid = some (16, 24) ∧ fieldAt k .ts = some (48, 56) ∧ fieldAt k .did = some (80, 86) := by
  cases k <;> simp_all [fieldAt]

/-- READ BACK (text level): whatever the operation and its arguments, the reference command frame built for session id `sid`,
    clock reading `ts` and device id `did` shows exactly these three at the protocol's offsets — so the frame that
    `command_bound_to_login` identifies carries the session id of that very login reply, this operation's clock reading and the
    configured device id, and nothing else in those places -/
theorem command_carries (op : Op) (sid ts did key : List Char) (h1 : op.kind ≠ .login1) (h2 : op.kind ≠ .login2)
    (hw : ∀ r' ∈ rolesOf (refSym op.kind), (specEnv op sid ts did key r').length = r'.width) :
    slice (refFrame op sid ts did key) 16 24 = sid ∧ slice (refFrame op sid ts did key) 48 56 = ts ∧
    slice (refFrame op sid ts did key) 80 86 = did := by
  obtain ⟨f1, f2, f3⟩ := command_offsets op.kind h1 h2
  exact ⟨C02.refFrame_field op sid ts did key .sid 16 24 f1 hw, C02.refFrame_field op sid ts did key .ts 48 56 f2 hw,
    C02.refFrame_field op sid ts did key .did 80 86 f3 hw⟩

/-- READ BACK (bytes on the wire): the signed frame `f` of a command has the four session-id bytes at 8..12, the four clock
    bytes at 24..28 and the three device-id bytes at 40..43 — this is the predicate `Spec.carries` the run-time judge
    evaluates on the bytes the real client wrote -/
theorem wire_carries (op : Op) (sid ts did key : List Char) (f sidB tsB didB : List Nat)
    (h1 : op.kind ≠ .login1) (h2 : op.kind ≠ .login2)
    (hw : ∀ r' ∈ rolesOf (refSym op.kind), (specEnv op sid ts did key r').length = r'.width)
    (hs : sid = hexlify sidB) (ht : ts = hexlify tsB) (hd : did = hexlify didB)
    (hsb : IsBytes sidB) (htb : IsBytes tsB) (hdb : IsBytes didB)
    (hls : sidB.length = 4) (hlt : tsB.length = 4) (hld : didB.length = 3)
    (hf : IsRefWire op sid ts did key f) : carries f sidB tsB didB = true := by
  obtain ⟨c1, c2, c3⟩ := command_carries op sid ts did key h1 h2 hw
  unfold IsRefWire refWire at hf
  cases hu : unhexlify (refFrame op sid ts did key) with
  | none => rw [hu] at hf; cases hf
  | some bs =>
    rw [hu] at hf
    simp only [Option.map_some, Option.some.injEq] at hf
    subst hf
    have hlen : 43 ≤ bs.length := by
      have := unhexlify_length _ _ hu
      have hl : 86 ≤ (refFrame op sid ts did key).length := by
        have : (slice (refFrame op sid ts did key) 80 86).length = 6 := by rw [c3, hd, hexlify_length, hld]
        unfold slice at this
        simp only [List.length_take, List.length_drop] at this
        omega
      omega
    have e1 := slice_bytes_of_hex _ bs sidB 8 12 hu (by rw [show 2 * 8 = 16 from rfl, show 2 * 12 = 24 from rfl, c1, hs]) hsb
    have e2 := slice_bytes_of_hex _ bs tsB 24 28 hu (by rw [show 2 * 24 = 48 from rfl, show 2 * 28 = 56 from rfl, c2, ht]) htb
    have e3 := slice_bytes_of_hex _ bs didB 40 43 hu (by rw [show 2 * 40 = 80 from rfl, show 2 * 43 = 86 from rfl, c3, hd]) hdb
    have pre : ∀ a b, b ≤ bs.length → slice (bs ++ sigBytes bs) a b = slice bs a b := by
      intro a b hb
      unfold slice
      rw [List.drop_append, List.take_append]
      have : b - a - (bs.length - a) = 0 := by omega
      simp [this]
    unfold carries
    rw [pre 8 12 (by omega), pre 24 28 (by omega), pre 40 43 (by omega), e1, e2, e3]
    simp [hls, hlt, hld]

/-- LOCALITY.  Under every schedule of any number of instances, instance `i` behaves exactly as in its own
    sequential run on the replies delivered to it. -/
theorem locality (i : Nat) : ∀ (sched : List (Nat × List Nat)) (sys : Sys),
    run sys sched i = runInst (sys i) (proj i sched)
  | [], _ => rfl
  | x :: sched, sys => by
    simp only [run, List.foldl_cons]
    have ih := locality i sched (stepSys sys x)
    simp only [run] at ih
    rw [ih]
    by_cases h : x.1 = i
    · simp [proj, h, stepSys, runInst]
    · have h' : ¬ i = x.1 := fun e => h e.symm
      simp [proj, h, h', stepSys, runInst]

/-- consequently two systems that agree on instance `i` (its configuration, operations and clock readings)
    and deliver it the same replies agree on everything instance `i` writes and returns, whatever the other
    instances are, do, or receive -/
theorem no_leak (i : Nat) (sys sys' : Sys) (sched sched' : List (Nat × List Nat))
    (hi : sys i = sys' i) (hp : proj i sched = proj i sched') : run sys sched i = run sys' sched' i := by
  rw [locality, locality, hi, hp]

/-! ### non-vacuity: a concrete exchange -/

def demoCfg : Cfg := { deviceId := cs!"a123bc", deviceKey := cs!"18" }
def demoLogin : List Nat := [0xfe, 0xf0, 0x0c, 0x00, 0x02, 0x32, 0xa1, 0x00, 0x11, 0x22, 0x33, 0x44]
example : WFcfg demoCfg := by unfold WFcfg; decide +kernel
/-- turn on for 30 minutes at clock 1 700 000 000: exactly two frames; the second one carries the session id of THIS login reply
    (11 22 33 44), this clock reading (little-endian) and the configured device id, read back from the bytes -/
example : (match runProg (prog demoCfg 1700000000 0 (.controlDevice true 30)) [demoLogin, [0]] with
    | ([_, f2], .ok _) => carries f2 [0x11, 0x22, 0x33, 0x44] (le32 1700000000) [0xa1, 0x23, 0xbc]
    | _ => false) = true := by decide +kernel
/-- and with another login reply the same operation carries the other session id: nothing is remembered -/
example : (match runProg (prog demoCfg 1700000000 0 (.controlDevice true 30)) [demoLogin.take 8 ++ [9, 8, 7, 6], [0]] with
    | ([_, f2], .ok _) => carries f2 [9, 8, 7, 6] (le32 1700000000) [0xa1, 0x23, 0xbc]
    | _ => false) = true := by decide +kernel

end Props.C03
