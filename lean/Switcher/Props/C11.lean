/-
C11 — Clock times survive encoding and decoding in every time zone and on every date.

A zone is ANY table of offsets and transitions (`Spec.Zone`), the clock ANY instant.  `mktime` is not
assumed to be a function: `Model.mktimeCands` is the set of ALL instants that show the requested wall
time (glibc's choice among them for ambiguous times is history dependent); the theorems hold for every
member.  For every HH:MM that exists today in the zone:
* every possible encoding is the LE32 epoch second of an instant showing HH:MM on today's local date,
* decoding any of them returns the same HH:MM.
Text that is not HH:MM raises: the accepted language is EXACTLY that of strptime("%H:%M") on the whole text
(`accepted_iff`; formerly finding F8: leading blanks in the hour part and fields after a second ':' were accepted).
-/
import Switcher.Model.Sched
import Switcher.Spec.Clock
import Switcher.Proofs.Replies
import Switcher.Proofs.Clock
namespace Props.C11
open Spec Model

theorem offAt_mem (z : Zone) (t : Int) : offAt z t ∈ offsetsOf z := by
  unfold offAt offsetsOf
  suffices h : ∀ (l : List (Int × Int)) (o : Int), l.foldl (fun o p => if p.1 ≤ t then p.2 else o) o ∈ o :: l.map (·.2) from h z.trans z.base
  intro l
  induction l with
  | nil => intro o; simp
  | cons p l ih =>
    intro o
    simp only [List.foldl_cons, List.map_cons]
    by_cases hp : p.1 ≤ t
    · simp only [hp, if_true]
      have := ih p.2
      simp only [List.mem_cons] at this ⊢
      rcases this with h | h
      · right; left; exact h
      · right; right; exact h
    · simp only [hp, if_false]
      have := ih o
      simp only [List.mem_cons] at this ⊢
      rcases this with h | h
      · left; exact h
      · right; right; exact h

/-- every instant that shows wall time `w` is among the candidates -/
theorem cands_complete (z : Zone) (w t : Int) (h : wall z t = w) : t ∈ mktimeCands z w := by
  have hm : t ∈ ((offsetsOf z).map (w - ·)).filter (fun t => wall z t == w) := by
    simp only [List.mem_filter, List.mem_map, beq_iff_eq]
    refine ⟨⟨offAt z t, offAt_mem z t, ?_⟩, h⟩
    unfold wall at h; omega
  unfold mktimeCands
  simp only []
  rw [List.mem_eraseDups]
  split
  · rename_i he
    rw [List.isEmpty_iff] at he
    rw [he] at hm; cases hm
  · exact hm

/-- if the wall time exists, every candidate shows it -/
theorem cands_show (z : Zone) (w t : Int) (hex : ExistsWall z w) (ht : t ∈ mktimeCands z w) : wall z t = w := by
  obtain ⟨t', ht'⟩ := hex
  have hne : (((offsetsOf z).map (w - ·)).filter (fun t => wall z t == w)).isEmpty = false := by
    have hm : t' ∈ ((offsetsOf z).map (w - ·)).filter (fun t => wall z t == w) := by
      simp only [List.mem_filter, List.mem_map, beq_iff_eq]
      refine ⟨⟨offAt z t', offAt_mem z t', ?_⟩, ht'⟩
      unfold wall at ht'; omega
    cases hl : ((offsetsOf z).map (w - ·)).filter (fun t => wall z t == w) with
    | nil => rw [hl] at hm; cases hm
    | cons a l => rfl
  unfold mktimeCands at ht
  simp only [hne, Bool.false_eq_true, if_false] at ht
  rw [List.mem_eraseDups] at ht
  simp only [List.mem_filter, beq_iff_eq] at ht
  exact ht.2

/-- THE ROUND TRIP in wall-clock terms: any instant that shows HH:MM of today's local date shows hour HH, minute MM -/
theorem roundtrip (z : Zone) (now h m t : Int) (h0 : 0 ≤ h) (h1 : h < 24) (m0 : 0 ≤ m) (m1 : m < 60)
    (ht : wall z t = targetWall z now h m) : hmOfWall (wall z t) = (h, m) := by
  rw [ht]
  unfold hmOfWall targetWall
  generalize wall z now / 86400 = d
  ext <;> simp <;> omega

theorem hhmm_text : ∀ k < 1440, dec2 (k / 60) ++ [':'] ++ dec2 (k % 60) = hhmm k := by decide +kernel

/-- decoding the LE32 of an instant gives the HH:MM its wall time shows -/
theorem decode_instant (z : Zone) (t k : Nat) (ht : t < 4294967296) (hk : k < 1440)
    (hw : hmOfWall (wall z t) = (((k / 60 : Nat) : Int), ((k % 60 : Nat) : Int))) : hexToLocal z (hexlify (le32 t)) = .ok (hhmm k) := by
  unfold hexToLocal
  rw [swap32_le32 t ht]
  simp only [py_bind_ok, py_pure]
  unfold hmOfWall at hw
  have h1 : wall z (t : Int) % 86400 / 3600 = ((k / 60 : Nat) : Int) := (Prod.mk.inj hw).1
  have h2 : wall z (t : Int) % 3600 / 60 = ((k % 60 : Nat) : Int) := (Prod.mk.inj hw).2
  rw [h1, h2]
  simp only [Int.toNat_natCast]
  rw [hhmm_text k hk]

theorem parseClock_hhmm : ∀ k < 1440, parseClock (hhmm k) = .ok (k / 60, k % 60) := by decide +kernel

/-- ENCODING: for every HH:MM that exists today, every result the host's mktime may lead to is the LE32 epoch
    second of an instant showing that wall time on today's local date -/
theorem encode_is_epoch (z : Zone) (now : Int) (k : Nat) (hk : k < 1440) (l : List (List Char))
    (hex : ExistsWall z (targetWall z now (k / 60 : Nat) (k % 60 : Nat)))
    (hl : timeToHexCands z now (hhmm k) = .ok l) :
    ∀ c ∈ l, ∃ t : Nat, t < 4294967296 ∧ c = hexlify (le32 t) ∧ ShowsWall z (targetWall z now (k / 60 : Nat) (k % 60 : Nat)) t := by
  unfold timeToHexCands at hl
  rw [parseClock_hhmm k hk] at hl
  simp only [] at hl
  generalize hcs : mktimeCands z (targetWall z now (k / 60 : Nat) (k % 60 : Nat)) = cs at hl
  have hall : ∀ t ∈ cs, wall z t = targetWall z now (k / 60 : Nat) (k % 60 : Nat) := by
    intro t ht; rw [← hcs] at ht; exact cands_show z _ t hex ht
  clear hcs
  induction cs generalizing l with
  | nil => simp [encAll] at hl; subst hl; intro c hc; cases hc
  | cons t cs ih =>
    unfold encAll at hl
    cases hc1 : encInstant t with
    | error e => rw [hc1] at hl; cases hl
    | ok c1 =>
      cases hrest : encAll cs with
      | error e => rw [hc1, hrest] at hl; cases hl
      | ok l' =>
        rw [hc1, hrest] at hl
        cases hl
        have ht1 : ∃ n : Nat, t = (n : Int) ∧ n < 4294967296 ∧ c1 = hexlify (le32 n) := by
          unfold encInstant at hc1
          cases t with
          | negSucc n => simp [packLE32] at hc1
          | ofNat n =>
            by_cases hn : n < 4294967296
            · rw [show (Int.ofNat n) = (n : Int) from rfl, packLE32_nat n hn] at hc1
              cases hc1; exact ⟨n, rfl, hn, rfl⟩
            · rw [show (Int.ofNat n) = (n : Int) from rfl, packLE32_big n hn] at hc1
              cases hc1
        obtain ⟨n, rfl, hn, rfl⟩ := ht1
        intro c hc
        simp only [List.mem_cons] at hc
        rcases hc with rfl | hc
        · exact ⟨n, hn, rfl, hall (n : Int) (by simp)⟩
        · exact ih l' hrest (fun t ht => hall t (by simp [ht])) c hc

/-- DECODING what was encoded returns the same HH:MM: in any zone table, at any instant, for every minute of the day
    that exists today, whichever instant mktime picked -/
theorem decode_encode (z : Zone) (now : Int) (k : Nat) (hk : k < 1440) (l : List (List Char))
    (hex : ExistsWall z (targetWall z now (k / 60 : Nat) (k % 60 : Nat)))
    (hl : timeToHexCands z now (hhmm k) = .ok l) : ∀ c ∈ l, hexToLocal z c = .ok (hhmm k) := by
  intro c hc
  obtain ⟨t, ht, rfl, hs⟩ := encode_is_epoch z now k hk l hex hl c hc
  apply decode_instant z t k ht hk
  exact roundtrip z now (k / 60 : Nat) (k % 60 : Nat) t (by omega) (by omega) (by omega) (by omega) hs

/-- every instant showing the requested wall time is a possible result: the candidate set is not an arbitrary choice -/
theorem encode_complete (z : Zone) (now : Int) (h m : Int) (t : Int) (ht : ShowsWall z (targetWall z now h m) t) :
    t ∈ mktimeCands z (targetWall z now h m) := cands_complete z _ t ht

/-- MALFORMED TEXT: what `parseClock` rejects raises (IndexError without ':', ValueError otherwise) … -/
theorem malformed_raises (z : Zone) (now : Int) (s : List Char) (e : Exc) (h : parseClock s = .error e) :
    timeToHexCands z now s = .error e := by
  unfold timeToHexCands; rw [h]

/-- … and what it accepts is exactly what `strptime(text, "%H:%M")` accepts on the WHOLE text (one or two digits, ':', one or two
    digits, hour ≤ 23, minute ≤ 59, nothing before, between or after), read as that hour and minute -/
theorem accepted_language (s : List Char) (hm : Nat × Nat) (h : parseClock s = .ok hm) : parseHM s = some hm := by
  unfold parseClock at h
  split at h
  · rename_i p0 p1 rest heq
    split at h
    · cases h
    · rename_i x hx
      -- the whole text parses: so it is `hs ++ ':' :: ms` with digits only, and the split gives back exactly hs and ms
      have hx' := hx
      unfold parseHM at hx'
      split at hx'
      · rename_i hs ms hsp
        split at hx'
        · rename_i hc
          simp only [Bool.and_eq_true, decide_eq_true_eq] at hc
          have ⟨e1, e2⟩ := Proofs.span_colon s hs ms hsp
          have hms : splitColon ms = [ms] := Proofs.splitColon_nocolon ms (by
            intro c hcm hcc
            have := List.all_eq_true.mp hc.1.1.1.1.1.1.2 c hcm
            subst hcc
            revert this; decide)
          rw [e2, hms] at heq
          cases heq
          rw [Proofs.dropWhile_space_digits p0 hc.1.1.1.1.1.1.1] at h
          have : p0 ++ [':'] ++ p1 = s := by rw [e1]; simp
          rw [this, hx] at h
          simp only [pure, Except.pure, Except.ok.injEq] at h
          rw [hx, h]
        · cases hx'
      · cases hx'
  · cases h

/-- conversely every text that strptime("%H:%M") accepts is accepted, with that hour and minute -/
theorem accepts_valid (s : List Char) (hm : Nat × Nat) (h : parseHM s = some hm) : parseClock s = .ok hm := by
  have hx := h
  unfold parseHM at hx
  split at hx
  · rename_i hs ms hsp
    split at hx
    · rename_i hc
      simp only [Bool.and_eq_true, decide_eq_true_eq] at hc
      have ⟨e1, e2⟩ := Proofs.span_colon s hs ms hsp
      have hms : splitColon ms = [ms] := Proofs.splitColon_nocolon ms (by
        intro c hcm hcc
        have := List.all_eq_true.mp hc.1.1.1.1.1.1.2 c hcm
        subst hcc
        revert this; decide)
      have : hs ++ [':'] ++ ms = s := by rw [e1]; simp
      unfold parseClock
      rw [e2, hms]
      simp only [h, Proofs.dropWhile_space_digits hs hc.1.1.1.1.1.1.1, this]
      rfl
    · cases hx
  · cases hx

/-- the accepted language, both directions -/
theorem accepted_iff (s : List Char) (hm : Nat × Nat) : parseClock s = .ok hm ↔ parseHM s = some hm :=
  ⟨accepted_language s hm, accepts_valid s hm⟩

/-- a valid hour and minute are in range -/
theorem parseHM_range (s : List Char) (h m : Nat) (hp : parseHM s = some (h, m)) : h ≤ 23 ∧ m ≤ 59 := by
  unfold parseHM at hp
  split at hp
  · split at hp
    · rename_i hc
      simp only [Bool.and_eq_true, decide_eq_true_eq] at hc
      cases hp
      exact ⟨hc.1.2, hc.2⟩
    · cases hp
  · cases hp

/- rejected: -/
example : parseClock cs!"2100" = .error .indexError := by decide +kernel
example : parseClock cs!"24:00" = .error .valueError := by decide +kernel
example : parseClock cs!"12:60" = .error .valueError := by decide +kernel
example : parseClock cs!"ab:cd" = .error .valueError := by decide +kernel
example : parseClock cs!"12:00 " = .error .valueError := by decide +kernel
example : parseClock [] = .error .indexError := by decide +kernel
/- formerly finding F8 (accepted although not HH:MM), repaired: -/
example : parseClock cs!" 21:00" = .error .valueError := by decide +kernel
example : parseClock cs!"21:00:99" = .error .valueError := by decide +kernel
example : parseClock cs!"7:5" = .ok (7, 5) := by decide +kernel
/- non-vacuity: a zone with a DST gap and an overlap; 02:30 does not exist on the spring day, 01:30 is shown twice in autumn -/
def demoZone : Zone := { base := 3600, trans := [(1000000 - 3600, 7200), (2000000 - 7200, 3600)] }
example : mktimeCands demoZone (2000000 - 1800) = [2000000 - 1800 - 3600, 2000000 - 1800 - 7200] := by decide +kernel
example : ((offsetsOf demoZone).map ((1000000 + 1800) - ·)).filter (fun t => wall demoZone t == 1000000 + 1800) = [] := by decide +kernel

end Props.C11
