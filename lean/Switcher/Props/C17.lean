/-
C17 — The bridge listens exactly while running and leaves nothing behind.
Two layers.  `Model.Life.bridgeStep` is the abstract machine the property is stated on (start either binds all configured
ports or changes nothing).  `Model.LifeC.bridgeStepC` follows bridge.py statement by statement — the `_transports` dictionary,
the loop binding the ports one by one, `started_ports`, the rollback in the `except` clause, `stop`'s `is_closing()` test —
and is what the compiled driver runs against the real bridge.  `code_refines` proves that the second refines the first for
every action sequence, so every theorem below holds of the code-level bridge (`code_*`).
PARTIAL: the model is the bookkeeping (which ports this bridge holds, the running flag, ports held by others);
that closing a transport releases the port once the loop has cycled, and that a bind fails iff the port is held, are
runtime facts (`bindFailsIffHeld`) observed by the correspondence harness on real sockets, not proved.
-/
import Switcher.Model.Life
import Switcher.Proofs.LifeC
namespace Props.C17
open Model

/-- the invariant: running ⇒ listening on every configured port; not running ⇒ listening on none of them;
    a port is never held by this bridge and by someone else at once -/
def Inv (s : BridgeState) : Prop :=
  (s.running = true → ∀ p ∈ s.ports, p ∈ s.listening) ∧
  (s.running = false → ∀ p ∈ s.ports, p ∉ s.listening) ∧
  (∀ p ∈ s.listening, p ∈ s.ports ∧ p ∉ s.others)

theorem inv_init (ports : List Nat) : Inv (bridgeInit ports) := by
  simp [Inv, bridgeInit]

theorem inv_step (s : BridgeState) (a : BridgeAct) (h : Inv s) : Inv (bridgeStep s a).1 := by
  obtain ⟨h1, h2, h3⟩ := h
  cases a with
  | start =>
    simp only [bridgeStep]
    split
    · rename_i hc
      simp only [Bool.and_eq_true, List.all_eq_true, decide_eq_true_eq] at hc
      refine ⟨fun _ p hp => by simp [hp], fun hf => by simp at hf, ?_⟩
      intro p hp
      simp only [List.mem_append] at hp
      rcases hp with hp | hp
      · exact h3 p hp
      · have := hc.1 p hp
        simp only [portFree, Bool.and_eq_true, Bool.not_eq_true', List.contains_eq_mem, decide_eq_false_iff_not] at this
        exact ⟨hp, this.1⟩
    · exact ⟨h1, h2, h3⟩
  | stop =>
    simp only [bridgeStep]
    refine ⟨fun hf => by simp at hf, ?_, ?_⟩
    · intro _ p hp hm
      simp only [List.mem_filter, Bool.not_eq_true', List.contains_eq_mem, decide_eq_false_iff_not] at hm
      exact hm.2 hp
    · intro p hp
      simp only [List.mem_filter] at hp
      exact h3 p hp.1
  | send p => exact ⟨h1, h2, h3⟩
  | foreign => exact ⟨h1, h2, h3⟩
  | occupy p =>
    simp only [bridgeStep]
    split
    · rename_i hc
      simp only [portFree, Bool.and_eq_true, Bool.not_eq_true', List.contains_eq_mem, decide_eq_false_iff_not] at hc
      refine ⟨h1, h2, ?_⟩
      intro q hq
      refine ⟨(h3 q hq).1, ?_⟩
      simp only [List.mem_cons, not_or]
      exact ⟨fun e => hc.2 (e ▸ hq), (h3 q hq).2⟩
    · exact ⟨h1, h2, h3⟩
  | release p =>
    simp only [bridgeStep]
    refine ⟨h1, h2, ?_⟩
    intro q hq
    refine ⟨(h3 q hq).1, ?_⟩
    intro hm
    simp only [List.mem_filter] at hm
    exact (h3 q hq).2 hm.1

/-- THE INVARIANT HOLDS AFTER EVERY ACTION SEQUENCE, from any state that satisfies it -/
theorem inv_run (s : BridgeState) (as : List BridgeAct) (h : Inv s) : Inv (bridgeRunActs s as).1 := by
  induction as generalizing s with
  | nil => exact h
  | cons a as ih =>
    simp only [bridgeRunActs]
    exact ih _ (inv_step s a h)

/-- the bridge reports running exactly while it listens on all configured ports (at least one port configured) -/
theorem running_iff_listening (ports : List Nat) (hne : ports ≠ []) (as : List BridgeAct) :
    let s := (bridgeRunActs (bridgeInit ports) as).1
    s.running = true ↔ ∀ p ∈ s.ports, p ∈ s.listening := by
  intro s
  obtain ⟨h1, h2, _⟩ := inv_run (bridgeInit ports) as (inv_init ports)
  constructor
  · exact h1
  · intro hall
    cases hr : s.running with
    | true => rfl
    | false =>
      exfalso
      have hp : s.ports = ports := by
        have : ∀ (s0 : BridgeState) (l : List BridgeAct), (bridgeRunActs s0 l).1.ports = s0.ports := by
          intro s0 l
          induction l generalizing s0 with
          | nil => rfl
          | cons a l ih =>
            simp only [bridgeRunActs]
            rw [ih]
            cases a <;> simp [bridgeStep] <;> split <;> rfl
        exact this _ _
      cases hq : s.ports with
      | nil => rw [hp] at hq; exact hne hq
      | cons q t =>
        have hm : q ∈ s.ports := by rw [hq]; simp
        exact h2 hr q hm (hall q hm)

/-- once stop returns no further callback is made: a broadcast to any configured port is dropped, until the next successful start -/
theorem stop_silences (s : BridgeState) (p : Nat) (hp : p ∈ s.ports) :
    (bridgeStep (bridgeStep s .stop).1 (.send p)).2 = .dropped := by
  have hnot : (List.filter (fun q => !s.ports.contains q) s.listening).contains p = false := by
    rw [Bool.eq_false_iff]
    intro hc
    rw [List.contains_iff_mem] at hc
    simp only [List.mem_filter, Bool.not_eq_true', List.contains_eq_mem, decide_eq_false_iff_not] at hc
    exact hc.2 hp
  simp only [bridgeStep, hnot, Bool.false_eq_true, if_false]

/-- … and every configured port is released (not held by this bridge any more) -/
theorem stop_releases (s : BridgeState) (p : Nat) (hp : p ∈ s.ports) : p ∉ (bridgeStep s .stop).1.listening := by
  simp only [bridgeStep, List.mem_filter, Bool.not_eq_true', List.contains_eq_mem, decide_eq_false_iff_not]
  intro h; exact h.2 hp

/-- a start that fails raises and leaves everything as it was: nothing is left listening that was not listening before -/
theorem failed_start_clean (s : BridgeState) (h : (bridgeStep s .start).2 = .raiseOSError) : (bridgeStep s .start).1 = s := by
  simp only [bridgeStep] at h ⊢
  split
  · rename_i hc; rw [if_pos hc] at h; cases h
  · rfl

/-- in particular a failed start from a stopped bridge leaves no configured port held -/
theorem failed_start_nothing_listening (s : BridgeState) (hi : Inv s) (hr : s.running = false)
    (h : (bridgeStep s .start).2 = .raiseOSError) : ∀ p ∈ s.ports, p ∉ (bridgeStep s .start).1.listening := by
  rw [failed_start_clean s h]; exact hi.2.1 hr

/-- start fails exactly when some configured port is held (by someone else, or already by this bridge) -/
theorem start_fails_iff (s : BridgeState) (hn : s.ports.Nodup) :
    (bridgeStep s .start).2 = .raiseOSError ↔ ∃ p ∈ s.ports, p ∈ s.others ∨ p ∈ s.listening := by
  have hdn : decide s.ports.Nodup = true := by simpa using hn
  simp only [bridgeStep, hdn, Bool.and_true]
  cases hall : s.ports.all (portFree s) with
  | true =>
    simp only [if_true]
    constructor
    · intro h; cases h
    · rintro ⟨p, hp, hh⟩
      rw [List.all_eq_true] at hall
      have := hall p hp
      simp only [portFree, Bool.and_eq_true, Bool.not_eq_true', List.contains_eq_mem, decide_eq_false_iff_not] at this
      rcases hh with h | h
      · exact absurd h this.1
      · exact absurd h this.2
  | false =>
    simp only [Bool.false_eq_true, if_false, true_iff]
    rw [List.all_eq_false] at hall
    obtain ⟨p, hp, hf⟩ := hall
    refine ⟨p, hp, ?_⟩
    simp only [portFree, Bool.and_eq_true, Bool.not_eq_true', List.contains_eq_mem, decide_eq_false_iff_not, not_and, Classical.not_not] at hf
    by_cases ho : p ∈ s.others
    · exact Or.inl ho
    · exact Or.inr (hf ho)

/-- stop is safe before start and when repeated -/
theorem stop_idempotent (s : BridgeState) : (bridgeStep (bridgeStep s .stop).1 .stop).1 = (bridgeStep s .stop).1 := by
  simp [bridgeStep, List.filter_filter]

theorem stop_before_start (ports : List Nat) : (bridgeStep (bridgeInit ports) .stop) = (bridgeInit ports, .ok) := by
  simp [bridgeStep, bridgeInit]

/-- what another bridge object with the same ports does while it is not running (being stopped, trying in vain to start) changes
    nothing for this bridge -/
theorem foreign_is_invisible (s : BridgeState) : bridgeStep s .foreign = (s, .ok) := rfl

/-- a stopped bridge can be started again: if nobody else holds the ports, start after stop succeeds -/
theorem restartable (s : BridgeState) (hn : s.ports.Nodup) (hfree : ∀ p ∈ s.ports, p ∉ s.others) :
    (bridgeStep (bridgeStep s .stop).1 .start).2 = .ok := by
  have hdn : decide s.ports.Nodup = true := by simpa using hn
  have hall : s.ports.all (portFree { s with listening := s.listening.filter (fun p => !s.ports.contains p), running := false }) = true := by
    rw [List.all_eq_true]
    intro p hp
    simp only [portFree, Bool.and_eq_true, Bool.not_eq_true', List.contains_eq_mem, decide_eq_false_iff_not]
    refine ⟨hfree p hp, ?_⟩
    intro hm
    simp only [List.mem_filter, Bool.not_eq_true', decide_eq_false_iff_not] at hm
    exact hm.2 hp
  simp only [bridgeStep, hall]
  simp [hn]

/-! ### the code-level bridge (dictionary, bind loop, rollback) refines the abstract machine -/

/-- REFINEMENT: for every action sequence the code-level bridge makes exactly the observations of the abstract machine, and what
    it listens on / whether it says it is running is the abstract machine's state -/
theorem code_refines (ports : List Nat) (as : List BridgeAct) :
    (bridgeRunActsC (bridgeInitC ports) as).2 = (bridgeRunActs (bridgeInit ports) as).2 ∧
    (bridgeRunActsC (bridgeInitC ports) as).1.abs = (bridgeRunActs (bridgeInit ports) as).1 := by
  obtain ⟨h1, h2, _⟩ := Proofs.LifeC.run_refines as (bridgeInitC ports) (Proofs.LifeC.cinv_init ports)
  exact ⟨h1, h2⟩

/-- hence the invariant of the property holds of the code-level bridge after every action sequence -/
theorem code_inv (ports : List Nat) (as : List BridgeAct) : Inv (bridgeRunActsC (bridgeInitC ports) as).1.abs := by
  rw [(code_refines ports as).2]; exact inv_run _ as (inv_init ports)

/-- THE ROLLBACK: when binding some port fails, after the `except` clause exactly the transports that were open before this call
    are open (none, if the bridge was stopped), the flag is what it was, and the error is raised — the loop may have bound any
    number of ports before the failing one -/
theorem code_failed_start (c : BridgeC) (h : Proofs.LifeC.CInv c) (hfail : (bridgeStepC c .start).2 = .raiseOSError) :
    (bridgeStepC c .start).1.openT = c.openT ∧ (bridgeStepC c .start).1.running = c.running := by
  have hs := Proofs.LifeC.startLoop_spec c c.ports c [] (Proofs.LifeC.pending_refl c h)
  simp only [bridgeStepC] at hfail ⊢
  by_cases hc : (c.ports.all c.free && decide c.ports.Nodup) = true
  · rw [if_pos hc] at hs; rw [hs.1] at hfail; cases hfail
  · rw [if_neg hc] at hs; exact ⟨hs.2.1, hs.2.2.2.2.1⟩

/-- `stop` closes every transport of the bridge, whatever the history -/
theorem code_stop_closes (ports : List Nat) (as : List BridgeAct) :
    (bridgeStepC (bridgeRunActsC (bridgeInitC ports) as).1 .stop).1.openT = [] := by
  obtain ⟨_, _, h3⟩ := Proofs.LifeC.run_refines as (bridgeInitC ports) (Proofs.LifeC.cinv_init ports)
  exact Proofs.LifeC.stop_closes_all _ h3

/-- A START THAT FAILS AT ANY BIND FOR ANY REASON (the task is cancelled while it is suspended there, or the bind raises an error of
    whatever class): whichever configured port `p` it is and however many ports the loop had bound before it, after the
    `except BaseException` clause exactly the transports that were open before the call are open, the flag is what it was, and the
    call raises -/
theorem code_start_failing_at (c : BridgeC) (h : Proofs.LifeC.CInv c) (p : Nat) (hp : p ∈ c.ports) :
    (startFailingAt c p).2 = .raiseOSError ∧ (startFailingAt c p).1.openT = c.openT ∧ (startFailingAt c p).1.running = c.running := by
  unfold startFailingAt
  by_cases hf : c.free p = true
  · simp only [hf, if_true]
    have hocc : bridgeStepC c (.occupy p) = ({ c with others := p :: c.others }, .ok) := by simp [bridgeStepC, hf]
    obtain ⟨_, _, hinv1⟩ := Proofs.LifeC.step_refines c (.occupy p) h (Proofs.LifeC.cinv_ports c h)
    rw [hocc] at hinv1 ⊢
    simp only []
    generalize hc1 : ({ c with others := p :: c.others } : BridgeC) = c1 at hinv1 ⊢
    have hports : c1.ports = c.ports := by rw [← hc1]
    have hopen : c1.openT = c.openT := by rw [← hc1]
    have hrun : c1.running = c.running := by rw [← hc1]
    have hnotfree : c1.free p = false := by rw [← hc1]; simp [BridgeC.free]
    -- the start fails: the abstract machine sees a configured port that is not free
    have hfail : (bridgeStepC c1 .start).2 = .raiseOSError := by
      rw [(Proofs.LifeC.step_refines c1 .start hinv1 (Proofs.LifeC.cinv_ports c1 hinv1)).1]
      have hfun : portFree c1.abs = c1.free := by
        funext q; simp [BridgeC.abs, BridgeC.free, portFree, BridgeC.openPorts]
      have hall : c1.abs.ports.all (portFree c1.abs) = false := by
        rw [hfun]
        apply Bool.eq_false_iff.mpr
        intro hall
        have := List.all_eq_true.mp hall p (by simpa [BridgeC.abs, hports] using hp)
        rw [hnotfree] at this; cases this
      simp [bridgeStep, hall]
    obtain ⟨ho, hr⟩ := code_failed_start c1 hinv1 hfail
    refine ⟨hfail, ?_, ?_⟩
    · have : (bridgeStepC (bridgeStepC c1 .start).1 (.release p)).1.openT = (bridgeStepC c1 .start).1.openT := rfl
      rw [this, ho, hopen]
    · have : (bridgeStepC (bridgeStepC c1 .start).1 (.release p)).1.running = (bridgeStepC c1 .start).1.running := rfl
      rw [this, hr, hrun]
  · simp only [hf, Bool.false_eq_true, if_false]
    have hnf : c.free p = false := by simpa using hf
    have hfail : (bridgeStepC c .start).2 = .raiseOSError := by
      rw [(Proofs.LifeC.step_refines c .start h (Proofs.LifeC.cinv_ports c h)).1]
      have hfun : portFree c.abs = c.free := by
        funext q; simp [BridgeC.abs, BridgeC.free, portFree, BridgeC.openPorts]
      have hall : c.abs.ports.all (portFree c.abs) = false := by
        rw [hfun]
        apply Bool.eq_false_iff.mpr
        intro hall
        have := List.all_eq_true.mp hall p (by simpa [BridgeC.abs] using hp)
        rw [hnf] at this; cases this
      simp [bridgeStep, hall]
    obtain ⟨ho, hr⟩ := code_failed_start c h hfail
    exact ⟨hfail, ho, hr⟩

/-- … and nothing else changes either: for the abstract machine (what it listens on, the flag, what others hold) such a start is
    invisible, apart from the error it raises -/
theorem code_start_failing_at_abs (c : BridgeC) (h : Proofs.LifeC.CInv c) (p : Nat) (hp : p ∈ c.ports) :
    (startFailingAt c p).1.abs = c.abs := by
  obtain ⟨_, ho, hr⟩ := code_start_failing_at c h p hp
  have hports : (startFailingAt c p).1.ports = c.ports ∧ (startFailingAt c p).1.others = c.others := by
    unfold startFailingAt
    by_cases hf : c.free p = true
    · simp only [hf, if_true]
      have hocc : bridgeStepC c (.occupy p) = ({ c with others := p :: c.others }, .ok) := by simp [bridgeStepC, hf]
      rw [hocc]
      simp only []
      obtain ⟨_, _, hinv1⟩ := Proofs.LifeC.step_refines c (.occupy p) h (Proofs.LifeC.cinv_ports c h)
      rw [hocc] at hinv1
      have hs := (Proofs.LifeC.step_refines _ .start hinv1 (Proofs.LifeC.cinv_ports _ hinv1)).2.1
      have hfailabs : (bridgeStep ({ c with others := p :: c.others } : BridgeC).abs .start).1 = ({ c with others := p :: c.others } : BridgeC).abs := by
        have hall : (({ c with others := p :: c.others } : BridgeC).abs.ports.all (portFree ({ c with others := p :: c.others } : BridgeC).abs)) = false := by
          apply Bool.eq_false_iff.mpr
          intro hall
          have := List.all_eq_true.mp hall p (by simpa [BridgeC.abs] using hp)
          simp [portFree, BridgeC.abs] at this
        simp [bridgeStep, hall]
      rw [hfailabs] at hs
      have hp1 : (bridgeStepC ({ c with others := p :: c.others } : BridgeC) .start).1.ports = c.ports := by
        have := congrArg BridgeState.ports hs; simpa [BridgeC.abs] using this
      have ho1 : (bridgeStepC ({ c with others := p :: c.others } : BridgeC) .start).1.others = p :: c.others := by
        have := congrArg BridgeState.others hs; simpa [BridgeC.abs] using this
      have hnotin : p ∉ c.others := by
        simp [BridgeC.free] at hf; exact hf.1
      refine ⟨by simp only [bridgeStepC]; exact hp1, ?_⟩
      have hrel : ∀ d : BridgeC, (bridgeStepC d (.release p)).1.others = d.others.filter (· != p) := fun d => rfl
      rw [hrel, ho1]
      simp only [List.filter_cons, bne_self_eq_false, Bool.false_eq_true, if_false]
      apply List.filter_eq_self.mpr
      intro q hq
      have : q ≠ p := fun e => hnotin (e ▸ hq)
      simpa using this
    · simp only [hf, Bool.false_eq_true, if_false]
      have hs := (Proofs.LifeC.step_refines c .start h (Proofs.LifeC.cinv_ports c h)).2.1
      have hnf : c.free p = false := by simpa using hf
      have hall : c.abs.ports.all (portFree c.abs) = false := by
        apply Bool.eq_false_iff.mpr
        intro hall
        have := List.all_eq_true.mp hall p (by simpa [BridgeC.abs] using hp)
        have hfun : portFree c.abs p = c.free p := by simp [BridgeC.abs, BridgeC.free, portFree, BridgeC.openPorts]
        rw [hfun, hnf] at this; cases this
      have hfailabs : (bridgeStep c.abs .start).1 = c.abs := by simp [bridgeStep, hall]
      rw [hfailabs] at hs
      exact ⟨by have := congrArg BridgeState.ports hs; simpa [BridgeC.abs] using this,
             by have := congrArg BridgeState.others hs; simpa [BridgeC.abs] using this⟩
  simp only [BridgeC.abs, BridgeC.openPorts, ho, hr, hports.1, hports.2]

/- the same with `except Exception:` in place of `except BaseException:` is the model without the rollback for a cancellation — see
   `startNoRollback` below: the ports bound before the failing one stay bound -/

/- the defect repaired by commit baa51b5 (F6), as the code-level model without the rollback: the first port stays bound although
   the start failed and the bridge says it is not running -/
def startNoRollback (c : BridgeC) : List Nat → BridgeC × Out
  | [] => ({ c with running := true }, .ok)
  | p :: ps => if c.free p then startNoRollback (c.bind p) ps else (c, .raiseOSError)
example : (startNoRollback { bridgeInitC [1, 2] with others := [2] } [1, 2]).1.openPorts = [1] ∧
    (startNoRollback { bridgeInitC [1, 2] with others := [2] } [1, 2]).1.running = false := by decide
example : (bridgeStepC { bridgeInitC [1, 2] with others := [2] } .start).1.openPorts = [] := by decide

example : (bridgeRunActsC (bridgeInitC [1, 2]) [.occupy 2, .start, .send 1, .release 2, .start, .send 1, .stop, .send 1]).2 =
    [.ok, .raiseOSError, .dropped, .ok, .ok, .delivered, .ok, .dropped] := by decide

example : (bridgeRunActs (bridgeInit [1, 2]) [.occupy 2, .start, .send 1, .release 2, .start, .send 1, .stop, .send 1]).2 =
    [.ok, .raiseOSError, .dropped, .ok, .ok, .delivered, .ok, .dropped] := by decide

end Props.C17

/-
Configured port 0 ("let the system choose"): the kernel never refuses such a bind, so `create_datagram_endpoint` succeeds even while
this bridge already listens for that entry.  `startLoopZ` is `BridgeC.startLoop` with that one difference.

* `startZ_eq` — a configuration without port 0 is not affected: every theorem above is about the code as it runs there.
* `zero_port_leak` — finding F9 (open, `known_findings.json`), a checked fact about the code-level model, replayed on the
  implementation by the C17 check: ports `[0]`; start, start, stop leaves a transport open although nothing is running.
* `zero_port_fine_without_restart` — the same configuration without a start-while-running: clean.
-/
namespace Props.C17
open Model

/-- what the kernel says: port 0 can always be bound (it picks a free port); any other port iff nobody holds it -/
def freeZ (c : BridgeC) (p : Nat) : Bool := p == 0 || c.free p

def startLoopZ (c : BridgeC) : List Nat → List Nat → BridgeC × Out
  | [], _ => ({ c with running := true }, .ok)
  | p :: ps, started =>
    if freeZ c p then startLoopZ (c.bind p) ps (started ++ [p])
    else (c.rollback started, .raiseOSError)

def stepZ (c : BridgeC) : BridgeAct → BridgeC × Out
  | .start => startLoopZ c c.ports []
  | a => bridgeStepC c a

def runZ (c : BridgeC) : List BridgeAct → BridgeC
  | [] => c
  | a :: as => runZ (stepZ c a).1 as

theorem startLoopZ_eq (c : BridgeC) (ps started : List Nat) (h : 0 ∉ ps) : startLoopZ c ps started = c.startLoop ps started := by
  induction ps generalizing c started with
  | nil => rfl
  | cons p ps ih =>
    have hp : p ≠ 0 := fun e => h (by simp [e])
    have hps : 0 ∉ ps := fun m => h (List.mem_cons_of_mem _ m)
    simp only [startLoopZ, BridgeC.startLoop, freeZ]
    have : (p == 0) = false := by simpa using hp
    simp only [this, Bool.false_or]
    split
    · exact ih _ _ hps
    · rfl

/-- without port 0 in the configuration the two machines are the same machine -/
theorem startZ_eq (c : BridgeC) (a : BridgeAct) (h : 0 ∉ c.ports) : stepZ c a = bridgeStepC c a := by
  cases a <;> simp [stepZ, bridgeStepC, startLoopZ_eq c c.ports [] h]

/-- F9: ports [0]; start, start, stop — not running, and a transport is still open (it would still deliver) -/
theorem zero_port_leak :
    let c := runZ (bridgeInitC [0]) [.start, .start, .stop]
    c.running = false ∧ c.openT = [(0, 0)] := by decide

/-- the same configuration with plain start/stop cycles leaves nothing behind -/
theorem zero_port_fine_without_restart :
    (runZ (bridgeInitC [0]) [.start, .stop, .start, .stop]).openT = [] ∧
    (runZ (bridgeInitC [0, 7]) [.start, .send 7, .stop]).openT = [] := by decide

end Props.C17
