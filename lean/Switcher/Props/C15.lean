/-
C15 — The IR command built is the stored code that best matches the request.

`Spec.specCommand` says what must be sent: refusal for an unsupported mode; otherwise the code stored under
"off" (non-toggle remote asked to switch off) or under the BEST KEY of the request — the most specific stored
candidate among [toggle prefix] mode [clamped temperature] fan [swing], dropping swing, then fan level, …
(`Spec.IsBestKey`, declarative).  `build_spec` proves the model of `build_command` equal to it for EVERY IR
set and request; `capabilities` proves the reported capabilities are those present in the set; `payload` the
wire form (four zero bytes + text, LE16 byte length) for every text length below 65532.
-/
import Switcher.Proofs.Remotes
import Switcher.Proofs.Manager
import Switcher.Proofs.Utf8
import Switcher.Proofs.Hex
namespace Props.C15
open Spec Model

/-! ### capabilities -/

theorem modeTable (c : List Char) : lookupC Gen.commandToMode c = modeOfCode c := by
  unfold lookupC modeOfCode
  simp only [Gen.commandToMode, List.find?_cons, List.find?_nil]
  have sw : ∀ a : List Char, (a == c) = (c == a) := fun a => Bool.eq_iff_iff.mpr
    ⟨fun h => by rw [beq_iff_eq] at h ⊢; exact h.symm, fun h => by rw [beq_iff_eq] at h ⊢; exact h.symm⟩
  simp only [sw]
  by_cases h1 : c == cs!"aa" <;> by_cases h2 : c == cs!"ad" <;> by_cases h3 : c == cs!"aw" <;>
    by_cases h4 : c == cs!"ar" <;> by_cases h5 : c == cs!"ah" <;> simp [h1, h2, h3, h4, h5]

theorem namesStep_eq (acc : List String) (key : List Char) :
    namesStep acc key = (match modeOfCode (key.take 2) with
      | some m => if acc.contains m then acc else acc ++ [m]
      | none => acc) := by
  unfold namesStep
  rw [modeTable]
  have : slice key 0 2 = key.take 2 := by simp [slice]
  rw [this]
  rfl

theorem names_fold (ws : List Wave) (acc : List String) :
    ws.foldl (fun n w => namesStep n w.key) acc =
    (ws.map (fun w => ({ key := w.key, para := w.para, hexCode := w.hexCode } : IrEntry))).foldl (fun acc e =>
      match modeOfCode (e.key.take 2) with
      | some m => if acc.contains m then acc else acc ++ [m]
      | none => acc) acc := by
  induction ws generalizing acc with
  | nil => rfl
  | cons w ws ih =>
    simp only [List.foldl_cons, List.map_cons]
    rw [ih, namesStep_eq]

theorem keyTemp_eq (key : List Char) : keyTemp key = if keyHasTemp key then some (keyTempVal key) else none := by
  unfold keyTemp keyHasTemp keyTempVal keyTempText
  have e : slice key 2 4 = (key.drop 2).take 2 := by simp [slice]
  rw [e]
  have d : ∀ l : List Char, l.all isDigitChar = l.all isAsciiDigit := by
    intro l; congr 1
  simp only [d, decVal]

theorem temps_fold (ws : List Wave) (lo hi : Int) :
    (ws.map (fun w => ({ key := w.key, para := w.para, hexCode := w.hexCode } : IrEntry))).foldl (fun (r : Int × Int) e =>
      match keyTemp e.key with
      | some t => (if t < r.1 then t else r.1, if t > r.2 then t else r.2)
      | none => r) (lo, hi) =
    (ws.foldl (fun m w => newMin m w.key) lo, ws.foldl (fun m w => newMax m w.key) hi) := by
  induction ws generalizing lo hi with
  | nil => rfl
  | cons w ws ih =>
    simp only [List.foldl_cons, List.map_cons]
    rw [keyTemp_eq]
    by_cases h : keyHasTemp w.key = true
    · simp only [h, if_true]
      rw [ih]
      simp only [newMin, newMax, h, Bool.true_and]
      congr 2
      · by_cases h1 : keyTempVal w.key < lo <;> simp [h1]
      · by_cases h1 : keyTempVal w.key > hi <;> simp [h1]
    · simp only [h, Bool.false_eq_true, if_false]
      rw [ih]
      simp [newMin, newMax, h]

theorem special_ids (s : String) : Gen.specialSwingRemoteIds.contains s = separateSwingIds.contains s := by
  simp only [Gen.specialSwingRemoteIds, separateSwingIds, List.contains_cons, List.contains_nil, Bool.or_false]
  by_cases h1 : s == "ELEC7022" <;> by_cases h2 : s == "ZM079055" <;> by_cases h3 : s == "ZM079065" <;>
    by_cases h4 : s == "ZM079049" <;> simp [h1, h2, h3, h4]

/-- the facts about a successfully constructed remote -/
theorem remote_facts (ir : IrSet) (r : Remote) (h : mkRemote ir = .ok r) :
    r.waveMap = ir.waves.foldl (fun m w => dictSet m w.key (w.para, w.hexCode)) [] ∧
    r.supportedModes = supportedModes (specSet ir) ∧ (r.minTemp, r.maxTemp) = tempRange (specSet ir) ∧
    r.onOffType = (ir.onOffType == 1) ∧ r.separatedSwing = separateSwingIds.contains (String.ofList ir.id) ∧ r.remoteId = ir.id := by
  unfold mkRemote at h
  simp only [] at h
  cases hf : ir.waves.foldlM (capStep (Gen.specialSwingRemoteIds.contains (String.ofList ir.id)))
      { mode := none, minTemp := 100, maxTemp := -100, features := [], waveMap := [] } with
  | error e => rw [hf] at h; simp at h
  | ok fin =>
    rw [hf] at h
    simp only [py_bind_ok, py_pure] at h
    cases h
    obtain ⟨hm, hlo, hhi, hn⟩ := fold_inv _ _ _ _ hf
    refine ⟨hm, ?_, ?_, rfl, special_ids _, rfl⟩
    · show fin.features.map (·.1) = _
      rw [hn, names_fold]; rfl
    · show (fin.minTemp, fin.maxTemp) = _
      rw [hlo, hhi]
      have := temps_fold ir.waves 100 (-100)
      unfold tempRange specSet
      exact this.symm

/-- REPORTED CAPABILITIES are those present in the set: supported modes (those with a key of their own, in order of
    first appearance), temperature range (extremes of the two-digit temperatures in the keys), toggle type, separate swing -/
theorem capabilities (ir : IrSet) (r : Remote) (h : mkRemote ir = .ok r) :
    r.supportedModes = supportedModes (specSet ir) ∧ (r.minTemp, r.maxTemp) = tempRange (specSet ir) ∧
    r.onOffType = (ir.onOffType == 1) ∧ r.separatedSwing = separateSwingIds.contains (String.ofList ir.id) ∧ r.remoteId = ir.id :=
  (remote_facts ir r h).2

/-! ### the best key -/

theorem candidates_len_le : ∀ (parts : List (List Char)), parts ≠ [] → ∀ c ∈ candidates parts, c.length ≤ parts.length
  | [p], _ => by intro c hc; simp [candidates] at hc; subst hc; simp
  | p :: q :: rest, _ => by
    intro c hc
    rw [candidates] at hc
    simp only [List.mem_cons] at hc
    rcases hc with rfl | hc
    · simp
    · have := candidates_len_le (p :: q :: rest).dropLast (by simp [List.dropLast]) c hc
      simp [List.length_dropLast] at this ⊢; omega
termination_by parts => parts.length
decreasing_by simp [List.length_dropLast]

/-- the key chosen is the best key in the declarative sense: a candidate; stored if it has at least two parts; and
    every more specific candidate is NOT stored -/
theorem bestKey_isBest (set : List IrEntry) : ∀ (parts : List (List Char)), parts ≠ [] → IsBestKey set parts (bestKey set parts)
  | [p], _ => by
    unfold bestKey IsBestKey
    simp [candidates]
  | p :: q :: rest, _ => by
    have hne : (p :: q :: rest).dropLast ≠ [] := by simp [List.dropLast]
    have ih := bestKey_isBest set (p :: q :: rest).dropLast hne
    have hb : bestKey set (p :: q :: rest) =
        if keyPresent set (p :: q :: rest).flatten then (p :: q :: rest) else bestKey set (p :: q :: rest).dropLast := by
      unfold bestKey
      rw [candidates]
      simp only [List.find?_cons, List.length_cons]
      have hdec : decide (2 ≤ rest.length + 1 + 1) = true := by simp
      rw [hdec, Bool.true_and]
      by_cases hk : keyPresent set (p :: q :: rest).flatten = true
      · rw [hk]; simp
      · have hk' : keyPresent set (p :: q :: rest).flatten = false := by simpa using hk
        rw [hk']
        simp only [Bool.false_eq_true, if_false]
        have htake : ((p :: q :: rest).dropLast).take 1 = (p :: q :: rest).take 1 := by
          cases rest <;> simp [List.dropLast]
        rw [htake]
    rw [hb]
    by_cases hk : keyPresent set (p :: q :: rest).flatten = true
    · rw [if_pos hk]
      unfold IsBestKey
      refine ⟨by rw [candidates]; simp, fun _ => hk, ?_, Or.inr (by simp)⟩
      intro c hc hlt
      -- no candidate is longer than the full key
      have := candidates_len_le (p :: q :: rest) (by simp) c hc
      omega
    · have hk' : keyPresent set (p :: q :: rest).flatten = false := by simpa using hk
      rw [if_neg hk]
      obtain ⟨h1, h2, h3, h4⟩ := ih
      unfold IsBestKey
      refine ⟨by rw [candidates]; exact List.mem_cons_of_mem _ h1, h2, ?_, h4⟩
      intro c hc hlt
      rw [candidates] at hc
      simp only [List.mem_cons] at hc
      rcases hc with rfl | hc
      · exact hk'
      · exact h3 c hc hlt
termination_by parts => parts.length
decreasing_by simp [List.length_dropLast]

/-! ### the payload -/

/-- the command's payload is four zero bytes followed by the text, announced with its byte length as LE16 -/
theorem payload (text : List Char) (hl : (utf8Encode text).length + 4 < 65536) :
    mkBreezeCommand (payloadHex text) = .ok { command := hexlify (commandPayload text),
                                              length := hexlify (le16 (commandPayload text).length) } := by
  unfold mkBreezeCommand payloadHex commandPayload
  have e : cs!"00000000" ++ hexlify (utf8Encode text) = hexlify ([0, 0, 0, 0] ++ utf8Encode text) := by
    rw [hexlify_append]; rfl
  rw [e, hexlify_length]
  have hc : (((2 * ([0, 0, 0, 0] ++ utf8Encode text).length : Nat) : Int) / 2) = ((([0, 0, 0, 0] ++ utf8Encode text).length : Nat) : Int) := by
    omega
  rw [hc, packLE16_nat _ (by simp; omega)]
  rfl

/-- every byte of the payload is a byte, and the LE16 length field decodes to the payload's length -/
theorem payload_length (text : List Char) (hl : (utf8Encode text).length + 4 < 65536) :
    ofLE (le16 (commandPayload text).length) = (commandPayload text).length ∧ (commandPayload text).length = 4 + (utf8Encode text).length := by
  have : (commandPayload text).length = 4 + (utf8Encode text).length := by simp [commandPayload]; omega
  refine ⟨?_, this⟩
  rw [this]; simp [ofLE, le16]; omega

/-! ### `build_command` is the Spec's command -/

theorem keyTemp_bound (k : List Char) (t : Int) (h : keyTemp k = some t) : 0 ≤ t ∧ t ≤ 99 := by
  unfold keyTemp at h
  simp only [] at h
  split at h
  · rename_i hc
    simp only [Bool.and_eq_true, Bool.not_eq_true', List.all_eq_true] at hc
    cases h
    have hlen : ((k.drop 2).take 2).length ≤ 2 := by simp; omega
    have hd : ∀ c ∈ (k.drop 2).take 2, 48 ≤ c.toNat ∧ c.toNat ≤ 57 := by
      intro c hcm
      have := hc.2 c hcm
      simp only [isDigitChar, Bool.and_eq_true, decide_eq_true_eq] at this
      exact ⟨this.1, this.2⟩
    match hl : (k.drop 2).take 2, hlen, hd with
    | [], _, _ => simp
    | [a], _, hd =>
      have := hd a (by simp)
      simp; omega
    | [a, b], _, hd =>
      have h1 := hd a (by simp)
      have h2 := hd b (by simp)
      simp; omega
  · cases h

theorem tempRange_bounds (set : List IrEntry) :
    ((tempRange set).1 = 100 ∨ (0 ≤ (tempRange set).1 ∧ (tempRange set).1 ≤ 99)) ∧
    ((tempRange set).2 = -100 ∨ (0 ≤ (tempRange set).2 ∧ (tempRange set).2 ≤ 99)) := by
  unfold tempRange
  suffices h : ∀ (l : List IrEntry) (r : Int × Int),
      ((r.1 = 100 ∨ (0 ≤ r.1 ∧ r.1 ≤ 99)) ∧ (r.2 = -100 ∨ (0 ≤ r.2 ∧ r.2 ≤ 99))) →
      (((l.foldl (fun (r : Int × Int) e => match keyTemp e.key with
        | some t => (if t < r.1 then t else r.1, if t > r.2 then t else r.2)
        | none => r) r).1 = 100 ∨ (0 ≤ (l.foldl (fun (r : Int × Int) e => match keyTemp e.key with
        | some t => (if t < r.1 then t else r.1, if t > r.2 then t else r.2)
        | none => r) r).1 ∧ (l.foldl (fun (r : Int × Int) e => match keyTemp e.key with
        | some t => (if t < r.1 then t else r.1, if t > r.2 then t else r.2)
        | none => r) r).1 ≤ 99)) ∧
       ((l.foldl (fun (r : Int × Int) e => match keyTemp e.key with
        | some t => (if t < r.1 then t else r.1, if t > r.2 then t else r.2)
        | none => r) r).2 = -100 ∨ (0 ≤ (l.foldl (fun (r : Int × Int) e => match keyTemp e.key with
        | some t => (if t < r.1 then t else r.1, if t > r.2 then t else r.2)
        | none => r) r).2 ∧ (l.foldl (fun (r : Int × Int) e => match keyTemp e.key with
        | some t => (if t < r.1 then t else r.1, if t > r.2 then t else r.2)
        | none => r) r).2 ≤ 99))) from h set (100, -100) ⟨Or.inl rfl, Or.inl rfl⟩
  intro l
  induction l with
  | nil => intro r h; exact h
  | cons e l ih =>
    intro r h
    simp only [List.foldl_cons]
    apply ih
    cases hk : keyTemp e.key with
    | none => exact h
    | some t =>
      have hb := keyTemp_bound e.key t hk
      simp only []
      constructor
      · split
        · right; exact hb
        · exact h.1
      · split
        · right; exact hb
        · exact h.2

theorem clamp_small (set : List IrEntry) (t : Int) : -100 ≤ clampT (tempRange set) t ∧ clampT (tempRange set) t ≤ 100 ∨
    clampT (tempRange set) t = t := by
  obtain ⟨h1, h2⟩ := tempRange_bounds set
  unfold clampT
  split
  · left; rcases h2 with h | h <;> omega
  · split
    · left; rcases h1 with h | h <;> omega
    · right; rfl

theorem intText_small : ∀ n : Nat, n ≤ 100 → Tmpl.intText (n : Int) = Spec.intText (n : Int) ∧
    Tmpl.intText (-(n : Int)) = Spec.intText (-(n : Int)) := by
  decide +kernel

theorem intText_eq (t : Int) (h : -100 ≤ t ∧ t ≤ 100) : Tmpl.intText t = Spec.intText t := by
  by_cases h0 : 0 ≤ t
  · have := (intText_small t.toNat (by omega)).1
    rwa [Int.toNat_of_nonneg h0] at this
  · have := (intText_small (-t).toNat (by omega)).2
    rwa [Int.toNat_of_nonneg (by omega), Int.neg_neg] at this

/-- the parts `build_command` assembles are the Spec's request parts, for every mode and fan level of the enums -/
theorem keyParts_spec (ir : IrSet) (r : Remote) (h : mkRemote ir = .ok r) (st md : String) (t : Int) (fan sw : String) (cur : Option String)
    (hmd : md ∈ ["AUTO", "DRY", "FAN", "COOL", "HEAT"]) (hfan : fan ∈ ["LOW", "MEDIUM", "HIGH", "AUTO"]) (ht : -100 ≤ t ∧ t ≤ 100) :
    (keyParts r st md t fan sw cur).toOption =
      requestParts (ir.onOffType == 1) (tempRange (specSet ir)) st md t fan (sw == "ON") cur := by
  obtain ⟨_, _, hrange, htog, _, _⟩ := remote_facts ir r h
  have hclamp : clampTemp r t = clampT (tempRange (specSet ir)) t := by
    unfold clampTemp clampT
    rw [← hrange]
  have hit : Tmpl.intText (clampTemp r t) = Spec.intText (clampT (tempRange (specSet ir)) t) := by
    rw [hclamp]
    rcases clamp_small (specSet ir) t with hs | hs
    · exact intText_eq _ hs
    · rw [hs]; exact intText_eq _ ht
  unfold keyParts requestParts
  simp only [htog]
  simp only [List.mem_cons, List.mem_nil_iff, or_false] at hmd hfan
  rcases hmd with rfl | rfl | rfl | rfl | rfl <;> rcases hfan with rfl | rfl | rfl | rfl <;>
    simp [lookupS, Gen.modeToCommand, Gen.fanLevelToCommand, modeCode, fanCode, usesTemperature, hit, Except.toOption, bind, Option.bind] <;>
    (try (split <;> simp_all))

theorem requestParts_some (toggle : Bool) (range : Int × Int) (st md : String) (t : Int) (fan : String) (swOn : Bool) (cur : Option String)
    (hmd : md ∈ ["AUTO", "DRY", "FAN", "COOL", "HEAT"]) (hfan : fan ∈ ["LOW", "MEDIUM", "HIGH", "AUTO"]) :
    ∃ parts, requestParts toggle range st md t fan swOn cur = some parts ∧ parts ≠ [] := by
  simp only [List.mem_cons, List.mem_nil_iff, or_false] at hmd hfan
  unfold requestParts
  rcases hmd with rfl | rfl | rfl | rfl | rfl <;> rcases hfan with rfl | rfl | rfl | rfl <;>
    simp [modeCode, fanCode, bind, Option.bind]

/-- BUILD_COMMAND IS THE SPEC'S COMMAND: for every IR set that loads, every state, mode, fan level, swing, previous
    state and every requested temperature (|t| ≤ 100), `build_command` refuses exactly the unsupported modes, and otherwise
    sends exactly the text stored under "off" / under the best key of the request, or fails with KeyError when nothing is stored there -/
theorem build_spec (ir : IrSet) (r : Remote) (h : mkRemote ir = .ok r) (st md : String) (t : Int) (fan sw : String) (cur : Option String)
    (hmd : md ∈ ["AUTO", "DRY", "FAN", "COOL", "HEAT"]) (hfan : fan ∈ ["LOW", "MEDIUM", "HIGH", "AUTO"]) (ht : -100 ≤ t ∧ t ≤ 100) :
    buildCommand r st md t fan sw cur =
      match specCommand ir.id ir.onOffType (specSet ir) st md t fan sw cur with
      | .text txt => mkBreezeCommand (payloadHex txt)
      | .refused => .error .runtimeError
      | .missing => .error .keyError := by
  obtain ⟨hmap, hsup, hrange, htog, _, _⟩ := remote_facts ir r h
  have hparts := keyParts_spec ir r h st md t fan sw cur hmd hfan ht
  obtain ⟨parts, hrp, hne⟩ := requestParts_some (ir.onOffType == 1) (tempRange (specSet ir)) st md t fan (sw == "ON") cur hmd hfan
  rw [hrp] at hparts
  have hkp : keyParts r st md t fan sw cur = .ok parts := by
    cases hk : keyParts r st md t fan sw cur with
    | error e => rw [hk] at hparts; simp [Except.toOption] at hparts
    | ok p => rw [hk] at hparts; simp [Except.toOption] at hparts; rw [hparts]
  have hmode5 : (md == "AUTO" || md == "DRY" || md == "FAN" || md == "COOL" || md == "HEAT") = true := by
    simp only [List.mem_cons, List.mem_nil_iff, or_false] at hmd
    rcases hmd with rfl | rfl | rfl | rfl | rfl <;> decide
  have hpres : ∀ k, (dictGet r.waveMap k).isSome = keyPresent (specSet ir) k := fun k =>
    present_iff ir { mode := none, minTemp := 0, maxTemp := 0, features := [], waveMap := r.waveMap } k hmap
  have hstored : ∀ k, cmdText r.waveMap k = match storedText (specSet ir) k with
      | some t => .ok t
      | none => .error .keyError := fun k =>
    cmdText_stored ir { mode := none, minTemp := 0, maxTemp := 0, features := [], waveMap := r.waveMap } k hmap
  unfold buildCommand specCommand
  rw [hsup]
  by_cases hs : (supportedModes (specSet ir)).contains md = true
  · simp only [hs, Bool.not_true, Bool.false_eq_true, if_false]
    unfold chosenKey
    rw [htog]
    by_cases hoff : (!(ir.onOffType == 1) && st == "OFF") = true
    · simp only [hoff, if_true, py_pure, py_bind_ok, hstored]
      cases storedText (specSet ir) cs!"off" <;> rfl
    · simp only [hoff, Bool.false_eq_true, if_false, hkp, py_bind_ok, hmode5, if_true, py_pure, hrp, Option.map_some,
        lookupKey_bestKey r.waveMap (specSet ir) hpres parts hne, hstored]
      cases storedText (specSet ir) (bestKey (specSet ir) parts).flatten <;> rfl
  · have hs' : (supportedModes (specSet ir)).contains md = false := by simpa using hs
    have hm : ¬ md ∈ supportedModes (specSet ir) := by
      intro hm; rw [List.contains_iff_mem.mpr hm] at hs'; cases hs'
    simp [hm]

/-! ### non-vacuity: a concrete IR set loads, and `build_spec`'s two sides compute to the same command on it -/

def demoIr : IrSet :=
  { id := cs!"ELEC7022", onOffType := 1,
    waves := [⟨cs!"aa", cs!"P0", cs!"00"⟩, ⟨cs!"ar22_f1", cs!"P1", cs!"A1"⟩, ⟨cs!"ar22", cs!"P2", cs!"A2"⟩, ⟨cs!"ar30_f0_d1", cs!"P3", cs!"A3"⟩,
              ⟨cs!"on_ar22_f1", cs!"P4", cs!"A4"⟩, ⟨cs!"ah20", cs!"P5", cs!"A5"⟩, ⟨cs!"off", cs!"P6", cs!"A6"⟩, ⟨cs!"FUN_d1", cs!"P7", cs!"A7"⟩] }
example : (match mkRemote demoIr with
    | .ok r => r.supportedModes == ["AUTO", "COOL", "HEAT"] && r.minTemp == 20 && r.maxTemp == 30 && r.onOffType && r.separatedSwing
    | .error _ => false) = true := by decide +kernel
/-- COOL 22 °C, fan LOW, swing ON, device currently OFF, toggle remote: the toggle code of the most specific stored key -/
example : (match mkRemote demoIr with
    | .ok r => decide (buildCommand r "ON" "COOL" 22 "LOW" "ON" (some "OFF") = mkBreezeCommand (payloadHex cs!"P4|A4"))
    | .error _ => false) = true := by decide +kernel
/-- 35 °C is clamped to the set's maximum (30), where no LOW-fan code is stored: falls back to … nothing stored under `ar30` → KeyError -/
example : (match mkRemote demoIr with
    | .ok r => decide (buildCommand r "ON" "COOL" 35 "LOW" "OFF" (some "ON") = .error .keyError)
    | .error _ => false) = true := by decide +kernel
/-- an unsupported mode is refused -/
example : (match mkRemote demoIr with
    | .ok r => decide (buildCommand r "ON" "DRY" 22 "LOW" "OFF" none = .error .runtimeError)
    | .error _ => false) = true := by decide +kernel


/-! ### the remote manager (`SwitcherBreezeRemoteManager.get_remote`: load + cache), for every history

The world of `Model.Manager`: database files that may be written, replaced and removed at any time, any number of manager
objects on any paths, `get_remote` calls in any order.  What the property needs of the manager is that the remote it hands out
IS the remote of the set stored under the requested id — in the manager's OWN file — so that everything proved above about
`mkRemote ir` applies to it; and that this does not depend on other managers, other ids or what happened to other paths. -/

open Proofs.Manager

/-- FIRST LOAD: a manager asked for an id it has not loaded yet opens ITS file as it is NOW and builds the remote of the set stored
    under that id there (no file: the open fails; id not in the file: KeyError; a set the constructor refuses: its error) -/
theorem manager_first_load (w : MgrWorld) (i : Nat) (id : List Char) (m : Mgr) (hm : w.mgrs[i]? = some m) (hc : m.cached id = none) :
    (mgrStep w (.get i id)).2 = (match w.file m.path with
      | none => .raised .other
      | some db => match db.get id with
        | none => .raised .keyError
        | some ir => match mkRemote ir with
          | .ok r => .remote w.nextObj r
          | .error e => .raised e) := by
  rw [get_miss w i id m hm hc]
  unfold loadNow
  cases w.file m.path with
  | none => rfl
  | some db =>
    simp only []
    cases db.get id with
    | none => rfl
    | some ir => cases mkRemote ir <;> rfl

/-- a manager created now and asked at once reads the file as it is now — nothing an earlier manager on the same path read
    (and nothing any earlier version of the file held) is visible to it -/
theorem manager_fresh_reads_current (w : MgrWorld) (p : Nat) (id : List Char) :
    (mgrStep (mgrStep w (.create p)).1 (.get w.mgrs.length id)).2 = (match loadNow w p id with
      | .ok r => .remote w.nextObj r
      | .error e => .raised e) := by
  have hm : (mgrStep w (.create p)).1.mgrs[w.mgrs.length]? = some { path := p, cache := [] } := by
    simp [mgrStep]
  rw [get_miss _ _ id _ hm rfl]
  rfl

/-- STABLE: once `get_remote(id)` has returned an object, the same manager returns that very object (same serial, same remote) for
    that id ever after — whatever is written, replaced, removed, created or asked of any manager in between -/
theorem manager_stable (w : MgrWorld) (i : Nat) (id : List Char) (obj : Nat) (r : Remote)
    (h : (mgrStep w (.get i id)).2 = .remote obj r) (as : List MgrAct) :
    (mgrStep (mgrRun (mgrStep w (.get i id)).1 as).1 (.get i id)).2 = .remote obj r := by
  rw [get_of_entry _ i id obj r (entry_persists_run as _ i id (obj, r) (get_leaves_entry w i id obj r h))]

/-- ISOLATION: what another manager is asked changes neither the files nor this manager -/
theorem manager_isolated (w : MgrWorld) (i j : Nat) (hij : j ≠ i) (id' : List Char) :
    (mgrStep w (.get j id')).1.files = w.files ∧ (mgrStep w (.get j id')).1.mgrs[i]? = w.mgrs[i]? := by
  simp only [mgrStep]
  cases hj : w.mgrs[j]? with
  | none => exact ⟨rfl, rfl⟩
  | some mj =>
    simp only []
    cases mj.cached id' with
    | some y => exact ⟨rfl, rfl⟩
    | none =>
      simp only []
      cases loadNow w mj.path id' with
      | error e => exact ⟨rfl, rfl⟩
      | ok r => exact ⟨rfl, by simp [setMgr, List.getElem?_set_ne hij]⟩

/-- … hence the remote (not the serial number of the object) manager `i` returns is the same whether or not another manager was
    asked something first -/
theorem manager_answer_independent (w : MgrWorld) (i j : Nat) (hij : j ≠ i) (id id' : List Char) (m : Mgr)
    (hm : w.mgrs[i]? = some m) (hc : m.cached id = none) :
    ∀ r, (∃ o, (mgrStep (mgrStep w (.get j id')).1 (.get i id)).2 = .remote o r) ↔ (∃ o, (mgrStep w (.get i id)).2 = .remote o r) := by
  obtain ⟨hf, hmi⟩ := manager_isolated w i j hij id'
  have hload : loadNow (mgrStep w (.get j id')).1 m.path id = loadNow w m.path id := by
    simp only [loadNow, MgrWorld.file, hf]
  intro r
  rw [get_miss _ i id m (hmi.trans hm) hc, get_miss w i id m hm hc, hload]
  cases loadNow w m.path id with
  | error e => simp
  | ok r' => simp

/-- SOUND, for every history from the empty world: every remote any manager returns is `mkRemote` of an IR set that some version of
    the file at that manager's OWN path held under the requested id -/
theorem manager_returns_stored (as : List MgrAct) (i : Nat) (id : List Char) (obj : Nat) (r : Remote) (m : Mgr)
    (hm : (mgrRun mgrInit as).1.mgrs[i]? = some m)
    (h : (mgrStep (mgrRun mgrInit as).1 (.get i id)).2 = .remote obj r) :
    ∃ db ir, (m.path, db) ∈ histRun [] as ∧ db.get id = some ir ∧ mkRemote ir = .ok r := by
  obtain ⟨hf, hc⟩ := sound_run as [] mgrInit sound_init
  generalize (mgrRun mgrInit as).1 = w at hm h hf hc
  cases hcache : m.cached id with
  | some y =>
    obtain ⟨o, r'⟩ := y
    rw [get_hit w i id m o r' hm hcache] at h
    cases h
    simp only [Mgr.cached, Option.map_eq_some_iff] at hcache
    obtain ⟨e, he, hval⟩ := hcache
    have hid : e.1 = id := by simpa using List.find?_some he
    obtain ⟨_, db, ir, h1, h2, h3⟩ := hc m (List.mem_of_getElem? hm) e (List.mem_of_find?_eq_some he)
    rw [hval] at h3; rw [hid] at h2
    exact ⟨db, ir, h1, h2, h3⟩
  | none =>
    rw [get_miss w i id m hm hcache] at h
    simp only [loadNow] at h
    cases hfile : w.file m.path with
    | none => simp [hfile] at h
    | some db =>
      simp only [hfile] at h
      cases hg : db.get id with
      | none => simp [hg] at h
      | some ir =>
        simp only [hg] at h
        cases hmk : mkRemote ir with
        | error e => simp [hmk] at h
        | ok r' =>
          simp only [hmk] at h
          cases h
          exact ⟨db, ir, hf _ _ hfile, hg, hmk⟩

/-- THE PROPERTY THROUGH THE MANAGER, for every history: whatever was written, replaced, removed, created and asked before, the
    command built with the remote that `get_remote(id)` hands out is the Spec's command (`specCommand`: refusal of exactly the
    unsupported modes, "off" / toggle rules, clamped temperature, the BEST KEY of the request) for an IR set that some version of the
    file at that manager's own path held under `id` -/
theorem manager_command_spec (as : List MgrAct) (i : Nat) (id : List Char) (obj : Nat) (r : Remote) (m : Mgr)
    (hm : (mgrRun mgrInit as).1.mgrs[i]? = some m)
    (h : (mgrStep (mgrRun mgrInit as).1 (.get i id)).2 = .remote obj r)
    (st md : String) (t : Int) (fan sw : String) (cur : Option String)
    (hmd : md ∈ ["AUTO", "DRY", "FAN", "COOL", "HEAT"]) (hfan : fan ∈ ["LOW", "MEDIUM", "HIGH", "AUTO"]) (ht : -100 ≤ t ∧ t ≤ 100) :
    ∃ db ir, (m.path, db) ∈ histRun [] as ∧ db.get id = some ir ∧
      buildCommand r st md t fan sw cur =
        match specCommand ir.id ir.onOffType (specSet ir) st md t fan sw cur with
        | .text txt => mkBreezeCommand (payloadHex txt)
        | .refused => .error .runtimeError
        | .missing => .error .keyError := by
  obtain ⟨db, ir, h1, h2, h3⟩ := manager_returns_stored as i id obj r m hm h
  exact ⟨db, ir, h1, h2, build_spec ir r h3 st md t fan sw cur hmd hfan ht⟩

/-- … and the capabilities it reports are those present in that set -/
theorem manager_capabilities (as : List MgrAct) (i : Nat) (id : List Char) (obj : Nat) (r : Remote) (m : Mgr)
    (hm : (mgrRun mgrInit as).1.mgrs[i]? = some m)
    (h : (mgrStep (mgrRun mgrInit as).1 (.get i id)).2 = .remote obj r) :
    ∃ db ir, (m.path, db) ∈ histRun [] as ∧ db.get id = some ir ∧
      r.supportedModes = supportedModes (specSet ir) ∧ (r.minTemp, r.maxTemp) = tempRange (specSet ir) ∧
      r.onOffType = (ir.onOffType == 1) ∧ r.separatedSwing = separateSwingIds.contains (String.ofList ir.id) ∧ r.remoteId = ir.id := by
  obtain ⟨db, ir, h1, h2, h3⟩ := manager_returns_stored as i id obj r m hm h
  exact ⟨db, ir, h1, h2, capabilities ir r h3⟩

/-- the history that separates a per-manager cache from a process-wide one: a file is read by one manager, then REPLACED; the first
    manager keeps handing out the object it built, a manager created afterwards on the same path builds the remote of the new
    content, and a manager on another path is not concerned -/
def demoIr2 : IrSet := { demoIr with onOffType := 0, waves := [⟨cs!"ad_f1", cs!"Q", cs!"B"⟩, ⟨cs!"off", cs!"Q6", cs!"B6"⟩] }
def demoHistory : List MgrAct :=
  [.write 1 [(cs!"ELEC7022", demoIr)], .create 1, .get 0 cs!"ELEC7022", .write 1 [(cs!"ELEC7022", demoIr2)], .get 0 cs!"ELEC7022",
   .create 1, .get 1 cs!"ELEC7022", .create 2, .get 2 cs!"ELEC7022", .remove 1, .get 0 cs!"ELEC7022", .get 1 cs!"NONE"]
def outSummary : MgrOut → String
  | .done => "done" | .noSuchManager => "no-manager" | .raised e => "raise " ++ e.name
  | .remote o r => s!"obj{o} modes={r.supportedModes} toggle={r.onOffType}"
example : (mgrRun mgrInit demoHistory).2.map outSummary =
    ["done", "done", "obj0 modes=[AUTO, COOL, HEAT] toggle=true", "done", "obj0 modes=[AUTO, COOL, HEAT] toggle=true",
     "done", "obj1 modes=[DRY] toggle=false", "done", "raise Other", "done", "obj0 modes=[AUTO, COOL, HEAT] toggle=true", "raise Other"] := by
  decide +kernel

end Props.C15
