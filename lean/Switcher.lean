import Switcher.Spec.Hex
import Switcher.Spec.Crc
import Switcher.Spec.Frame
import Switcher.Model.Py
import Switcher.Model.Tools
import Switcher.Proofs.Hex
