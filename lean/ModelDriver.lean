/-
modeldriver — runs the executable model of the code on one operation per line.
-/
import Switcher.Model.Wire
import Switcher.Model.Tools
import Switcher.Model.Device
open Spec Wire Model

def showPyText : Py (List Char) → String
  | .ok cs => "ok " ++ encText cs
  | .error e => "raise " ++ e.name

def drive : List String → String
  | ["sign", p] =>
    match text? p with
    | some cs => showPyText (sign cs)
    | none => "bad-arg"
  | ["accepts", cls, ty] =>
    match accepts cls ty with
    | some true => "1" | some false => "0" | none => "none"
  | ["ports", ty] =>
    match categoryOfType ty with
    | some c => s!"{(protocolOfType ty).getD 0} {(udpPort c).getD 0} {(tcpPort c).getD 0}"
    | none => "none"
  | ["codes"] => ",".intercalate ((Gen.deviceTypes.map (·.2.2.1)).mergeSort (· ≤ ·))
  | _ => "bad-op"

def main : IO Unit := do Wire.loop (← IO.getStdin) (← IO.getStdout) drive
