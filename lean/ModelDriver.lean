/-
modeldriver — runs the executable model of the code on one operation per line.
-/
import Switcher.Model.Wire
import Switcher.Model.Tools
import Switcher.Model.Device
import Switcher.Model.Sched
import Switcher.Model.Api
import Switcher.Model.Bridge
import Switcher.Model.Life
import Switcher.Model.LifeC
import Switcher.Model.Manager
import Switcher.Model.ClientC
open Spec Wire Model

def showPyText : Py (List Char) → String
  | .ok cs => "ok " ++ encText cs
  | .error e => "raise " ++ e.name

def csvNats (s : String) : List Nat := if s == "-" then [] else (s.splitOn ",").filterMap (·.toNat?)
def showNats (l : List Nat) : String := if l.isEmpty then "-" else ",".intercalate (l.map toString)
def showPyHex : Py (List Char) → String
  | .ok cs => "ok " ++ String.ofList cs
  | .error e => "raise " ++ e.name

def optTok (s : String) : Option String := if s == "-" then none else some s

def showResp : Py Resp → String
  | .error e => "raise " ++ e.name
  | .ok (.base raw) => "base " ++ (if successful raw then "1" else "0")
  | .ok (.state _ r) => s!"state {r.state} {String.ofList r.timeLeft} {String.ofList r.timeOn} {String.ofList r.autoShutdown} {r.power} {tenths r.ampsTenths}"
  | .ok (.thermo _ r) => s!"thermo {r.state} {r.mode} {r.fan} {tenths r.tempTenths} {r.target} {r.swing} {encText r.remoteId}"
  | .ok (.shutter _ r) => s!"shutter {r.position} {r.direction}"
  | .ok (.schedules _ recs) => "schedules " ++ (if recs.isEmpty then "-" else ";".intercalate
      ((recs.mergeSort (fun a b => a.id ≤ b.id)).map (fun r =>
        s!"{r.id},{if r.recurring then 1 else 0},{if r.days.isEmpty then "-" else "+".intercalate ((r.days.mergeSort (· ≤ ·)).map toString)},{String.ofList r.start},{String.ofList r.stop},{String.ofList r.duration},{encText r.display}")))

/-- `ir=<u:id>,<onofftype>,<u:key>/<u:para>/<u:hex>,…` -/
def parseIrSet (tok : String) : Option IrSet := do
  let body := (tok.drop 3).toString
  match body.splitOn "," with
  | idT :: onT :: waves =>
    let id ← text? idT
    let on ← int? onT
    let ws ← waves.mapM (fun w => match w.splitOn "/" with
      | [k, p, h] => do pure { key := ← text? k, para := ← text? p, hexCode := ← text? h : Wave }
      | _ => none)
    pure { id, onOffType := on, waves := ws }
  | _ => none

/-- one action of a remote-manager history (`mgr …` line): `new@p`, `rm@p`, `wr@p@<u:key>@<ir>@…`, `get@m@<u:id>@st@md@tt@fan@sw@cur` -/
def parseMgrAct (tok : String) : Option (MgrAct × Option (String × String × Int × String × String × Option String)) :=
  match tok.splitOn "@" with
  | ["new", p] => do pure (.create (← p.toNat?), none)
  | ["rm", p] => do pure (.remove (← p.toNat?), none)
  | "wr" :: p :: rest =>
    let rec pairs : List String → Option IrDb
      | [] => some []
      | k :: ir :: more => do
        let k ← text? k
        let irs ← parseIrSet ir
        let tl ← pairs more
        pure ((k, irs) :: tl)
      | _ => none
    do pure (.write (← p.toNat?) (← pairs rest), none)
  | ["get", m, id, st, md, tt, fan, sw, cur] => do
    pure (.get (← m.toNat?) (← text? id), some (st, md, ← int? tt, fan, sw, optTok cur))
  | _ => none

def showMgrOut (o : MgrOut) (req : Option (String × String × Int × String × String × Option String)) : String :=
  match o with
  | .done => "done"
  | .noSuchManager => "no-manager"
  | .raised e => "raise " ++ e.name
  | .remote obj r =>
    let caps := s!"obj{obj} modes={",".intercalate r.supportedModes} min={r.minTemp} max={r.maxTemp} toggle={if r.onOffType then 1 else 0} sepswing={if r.separatedSwing then 1 else 0} id={encText r.remoteId}"
    match req with
    | none => caps
    | some (st, md, tt, fan, sw, cur) =>
      caps ++ " | " ++ (match buildCommand r st md tt fan sw cur with
        | .ok c => s!"ok {String.ofList c.command} {String.ofList c.length}"
        | .error e => "raise " ++ e.name)

def runMgrLine (toks : List String) : String :=
  match toks.mapM parseMgrAct with
  | none => "bad-arg"
  | some acts =>
    let rec go (w : MgrWorld) : List (MgrAct × Option (String × String × Int × String × String × Option String)) → List String
      | [] => []
      | (a, req) :: rest =>
        let (w', o) := mgrStep w a
        showMgrOut o req :: go w' rest
    " ; ".intercalate (go mgrInit acts)


def parseReq : List String → Option Req
  | ["getState"] => some .getState
  | ["control", on, m] => do pure (.controlDevice (on == "1") (← int? m))
  | ["autoshutdown", us] => do pure (.setAutoShutdown (← int? us))
  | ["setname", n] => do pure (.setDeviceName (← text? n))
  | ["getschedules"] => some .getSchedules
  | ["delsched", i] => do pure (.deleteSchedule (← text? i))
  | ["createsched", a, b, form, d] => do pure (.createSchedule (← text? a) (← text? b) (form == "set") (csvNats d))
  | ["stop"] => some .stop
  | ["setpos", p] => do pure (.setPosition (← int? p))
  | ["getshutter"] => some .getShutterState
  | ["getbreeze"] => some .getBreezeState
  | ["ctlbreeze", ir, st, md, tt, fan, sw, upd] => do
    let irs ← parseIrSet ir
    match mkRemote irs with
    | .ok r => pure (.controlBreeze r (optTok st) (optTok md) (← int? tt) (optTok fan) (optTok sw) (upd == "1"))
    | .error _ => none
  | _ => none

def runOpLine (toks : List String) : String :=
  match toks with
  | did :: key :: now :: off :: rest =>
    let (reqToks, repToks) := rest.span (· != "|")
    match text? did, text? key, int? now, int? off, parseReq reqToks, (repToks.drop 1).mapM bytesOfHex? with
    | some d, some k, some n, some o, some req, some reps =>
      let (frames, out) := runProg (prog { deviceId := d, deviceKey := k } n o req) reps
      "frames=" ++ (if frames.isEmpty then "-" else ",".intercalate (frames.map hexOfBytes)) ++ " out=" ++ showResp out
    | _, _, _, _, _, _ => "bad-arg"
  | _ => "bad-arg"

def showHandled : Handled → String
  | .ignored => "ignored"
  | .warnUnknown => "warn"
  | .raised e => "raise " ++ e.name
  | .device d => "device " ++ showDev d

/-- `z=<base>[;<instant>:<offset>]…` -/
def parseZone (tok : String) : Option Zone := do
  let body := (tok.drop 2).toString
  match body.splitOn ";" with
  | b :: ts =>
    let base ← int? b
    let trans ← ts.mapM (fun t => match t.splitOn ":" with
      | [a, o] => do pure ((← int? a), (← int? o))
      | _ => none)
    pure { base, trans }
  | [] => none

def showDays (l : List Nat) : String := if l.isEmpty then "-" else "+".intercalate (l.map toString)

def showRecs (recs : List SchedRec) : String :=
  if recs.isEmpty then "-" else ";".intercalate
    ((recs.mergeSort (fun a b => a.id ≤ b.id)).map (fun r =>
      s!"{r.id},{if r.recurring then 1 else 0},{showDays (r.days.mergeSort (· ≤ ·))},{String.ofList r.start},{String.ofList r.stop},{String.ofList r.duration},{encText r.display}"))

/-- the code-level bridge (Model.LifeC: dictionary, bind loop, rollback); `Props.C17.code_refines` relates it to the abstract machine -/
def goBridge (ports : List Nat) (s : BridgeC) : List (BridgeAct ⊕ Nat) → List String
  | [] => []
  | a :: rest =>
    let (s', o) := match a with
      | .inl a => bridgeStepC s a
      | .inr p => startFailingAt s p          -- `cstart:p`: a start cancelled (or failing for any reason) at the bind of port p
    (o.text.replace " " "_" ++ ":" ++ (if s'.running then "1" else "0") ++ ":" ++
      String.ofList (ports.map (fun p => if s'.openPorts.contains p then '1' else '0'))) :: goBridge ports s' rest

/-- the code-level client (Model.ClientC: `_writer` / `_reader` / `_connected`); `Props.C18.client_code_refines` relates it to the abstract machine -/
def goClient (s : ClientC) : List ClientAct → List String
  | [] => []
  | a :: rest =>
    let (s', o) := clientStepC true s a
    (o.text.replace " " "_" ++ ":" ++ (if s'.flag then "1" else "0") ++ ":" ++ toString s'.openS.length) :: goClient s' rest

def drive : List String → String
  | ["sign", p] =>
    match text? p with
    | some cs => showPyText (sign cs)
    | none => "bad-arg"
  | ["accepts", cls, ty] =>
    match accepts cls ty with
    | some true => "1" | some false => "0" | none => "none"
  | ["ports", ty] =>
    match categoryOfType ty with
    | some c => s!"{(protocolOfType ty).getD 0} {(udpPort c).getD 0} {(tcpPort c).getD 0}"
    | none => "none"
  | ["codes"] => ",".intercalate ((Gen.deviceTypes.map (·.2.2.1)).mergeSort (· ≤ ·))
  | ["w2h", form, days] =>
    let l := csvNats days
    showPyHex (weekdaysToHex (if form == "single" then .single (l.headD 0) else .coll (form == "set") l))
  | ["bs2d", n] =>
    match int? n with
    | some v => match bitSummaryToDays v with
      | .ok l => "ok " ++ showNats l
      | .error e => "raise " ++ e.name
    | none => "bad-arg"
  | ["calcdur", a, b] =>
    match text? a, text? b with
    | some x, some y => showPyText (calcDuration x y)
    | _, _ => "bad-arg"
  | ["parsestate", h] => match bytesOfHex? h with
    | some r => showResp ((parseState r).map (.state r))
    | none => "bad-arg"
  | ["parsethermo", h] => match bytesOfHex? h with
    | some r => showResp ((parseThermo r).map (.thermo r))
    | none => "bad-arg"
  | ["parseshutter", h] => match bytesOfHex? h with
    | some r => showResp ((parseShutter r).map (.shutter r))
    | none => "bad-arg"
  | ["sessionid", h] => match bytesOfHex? h with
    | some r => "login " ++ String.ofList (sessionId r)
    | none => "bad-arg"
  | ["successful", h] => match bytesOfHex? h with
    | some r => "base " ++ (if successful r then "1" else "0")
    | none => "bad-arg"
  | ["dgram", h] => match bytesOfHex? h with
    | some m => showHandled (parseDatagram m)
    | none => "bad-arg"
  | "bridge" :: arrivals =>          -- p:hex p:hex … → deliveries in order
    let arr := arrivals.filterMap (fun a => match a.splitOn ":" with
      | [p, h] => match p.toNat?, bytesOfHex? h with
        | some p, some m => some (p, m)
        | _, _ => none
      | _ => none)
    let ds := bridgeRun arr
    if ds.isEmpty then "-" else " | ".intercalate (ds.map (fun (p, d) => s!"{p} {showDev d}"))
  | ["t2h", z, now, txt] =>
    match parseZone z, int? now, text? txt with
    | some z, some n, some s => match timeToHexCands z n s with
      | .ok l => "ok " ++ ",".intercalate (l.map String.ofList)
      | .error e => "raise " ++ e.name
    | _, _, _ => "bad-arg"
  | ["h2l", z, h] =>
    match parseZone z with
    | some z => showPyHex (hexToLocal z (if h == "-" then [] else h.toList))
    | none => "bad-arg"
  | ["pretty", z, now, start, days] =>
    match parseZone z, int? now, text? start with
    | some z, some n, some s => showPyText (prettyNextRun (wall z n) s ((csvNats days).eraseDups.mergeSort (· ≤ ·)))
    | _, _, _ => "bad-arg"
  | ["getsched", z, now, msg] =>
    match parseZone z, int? now, bytesOfHex? msg with
    | some z, some n, some m => match getSchedulesZ z n m with
      | .ok recs => "ok " ++ showRecs recs
      | .error e => "raise " ++ e.name
    | _, _, _ => "bad-arg"
  | ["irbuild", ir, st, md, tt, fan, sw, cur] =>       -- SwitcherBreezeRemote(ir).build_command(…)
    match parseIrSet ir, int? tt with
    | some irs, some t => match mkRemote irs with
      | .error e => "ctor-raise " ++ e.name
      | .ok r => match buildCommand r st md t fan sw (optTok cur) with
        | .ok c => s!"ok {String.ofList c.command} {String.ofList c.length}"
        | .error e => "raise " ++ e.name
    | _, _ => "bad-arg"
  | ["irswing", ir, sw] =>
    match parseIrSet ir with
    | some irs => match mkRemote irs with
      | .error e => "ctor-raise " ++ e.name
      | .ok r => match buildSwingCommand r sw with
        | .ok c => s!"ok {String.ofList c.command} {String.ofList c.length}"
        | .error e => "raise " ++ e.name
    | none => "bad-arg"
  | ["ircaps", ir] =>
    match parseIrSet ir with
    | some irs => match mkRemote irs with
      | .error e => "ctor-raise " ++ e.name
      | .ok r => s!"caps modes={",".intercalate r.supportedModes} min={r.minTemp} max={r.maxTemp} toggle={if r.onOffType then 1 else 0} sepswing={if r.separatedSwing then 1 else 0} id={encText r.remoteId}"
    | none => "bad-arg"
  | "mgr" :: acts => runMgrLine acts
  | "blife" :: n :: acts =>          -- bridge life cycle on ports 0..n-1
    match nat? n with
    | some n =>
      let parse0 (a : String) : Option BridgeAct :=
        if a == "start" || a == "enter" then some .start else if a == "stop" || a == "leave" then some .stop
        else if a == "ostop" || a == "ostart" then some .foreign      -- another bridge object acts: nothing changes for this one
        else if a == "newloop" then some .foreign                      -- the (stopped) bridge is carried over to another event loop
        else match a.splitOn ":" with
          | ["send", i] => i.toNat?.map .send
          | ["occ", i] => i.toNat?.map .occupy
          | ["sstop", _, _] => some .stop            -- stop() while a broadcast is on its way: for the model, a stop
          | ["bad", i] => i.toNat?.map .occupy      -- a configured port that can never be bound: as if somebody else held it for good
          | ["rel", i] => i.toNat?.map .release
          | ["zero", _] => some .foreign             -- "configured port i is 0, the system chooses": says how the harness sets the case up
          | ["as", _] => some .foreign               -- "the ports come in a tuple / set / …": likewise
          | _ => none
      let parse (a : String) : Option (BridgeAct ⊕ Nat) :=
        match a.splitOn ":" with
        | ["cstart", i] => i.toNat?.map .inr
        | _ => (parse0 a).map .inl
      match acts.mapM parse with
      | some as =>
        " ".intercalate (goBridge (List.range n) (bridgeInitC (List.range n)) as)
      | none => "bad-arg"
    | none => "bad-arg"
  | "clife" :: acts =>
    let parse (a : String) : Option ClientAct :=
      if a == "cok" then some .connectOk else if a == "cref" || a == "crefs" || a == "withref" || a == "ccancel" then some .connectRefused
      else if a == "withop" then some (.withBody false) else if a == "op" || a == "opdown" || a == "opchat" then some .opOk
      else if a == "opx" || a == "opeof" || a == "opeofdown" then some .opRaises else if a == "disc" then some .disconnect else if a == "with" then some (.withBody false)
      else if a.startsWith "withx" then some (.withBody true)
      else if a.startsWith "o:" then some .foreign      -- o:cok, o:op, o:disc, …: another client object acts
      else none     -- withx, withx:TimeoutError, …: whatever the body raises
    match acts.mapM parse with
    | some as =>
      " ".intercalate (goClient clientInitC as)
    | none => "bad-arg"
  | "op" :: rest => runOpLine rest
  | _ => "bad-op"

def main : IO Unit := do Wire.loop (← IO.getStdin) (← IO.getStdout) drive
