/-
modeldriver — runs the executable model of the code on one operation per line.
-/
import Switcher.Model.Wire
import Switcher.Model.Tools
open Spec Wire Model

def showPyText : Py (List Char) → String
  | .ok cs => "ok " ++ encText cs
  | .error e => "raise " ++ e.name

def drive : List String → String
  | ["sign", p] =>
    match text? p with
    | some cs => showPyText (sign cs)
    | none => "bad-arg"
  | _ => "bad-op"

def main : IO Unit := do Wire.loop (← IO.getStdin) (← IO.getStdout) drive
