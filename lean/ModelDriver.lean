/-
modeldriver — runs the executable model of the code on one operation per line.
-/
import Switcher.Model.Wire
import Switcher.Model.Tools
import Switcher.Model.Device
import Switcher.Model.Sched
open Spec Wire Model

def showPyText : Py (List Char) → String
  | .ok cs => "ok " ++ encText cs
  | .error e => "raise " ++ e.name

def csvNats (s : String) : List Nat := if s == "-" then [] else (s.splitOn ",").filterMap (·.toNat?)
def showNats (l : List Nat) : String := if l.isEmpty then "-" else ",".intercalate (l.map toString)
def showPyHex : Py (List Char) → String
  | .ok cs => "ok " ++ String.ofList cs
  | .error e => "raise " ++ e.name

def drive : List String → String
  | ["sign", p] =>
    match text? p with
    | some cs => showPyText (sign cs)
    | none => "bad-arg"
  | ["accepts", cls, ty] =>
    match accepts cls ty with
    | some true => "1" | some false => "0" | none => "none"
  | ["ports", ty] =>
    match categoryOfType ty with
    | some c => s!"{(protocolOfType ty).getD 0} {(udpPort c).getD 0} {(tcpPort c).getD 0}"
    | none => "none"
  | ["codes"] => ",".intercalate ((Gen.deviceTypes.map (·.2.2.1)).mergeSort (· ≤ ·))
  | ["w2h", form, days] =>
    let l := csvNats days
    showPyHex (weekdaysToHex (if form == "single" then .single (l.headD 0) else .coll (form == "set") l))
  | ["bs2d", n] =>
    match int? n with
    | some v => match bitSummaryToDays v with
      | .ok l => "ok " ++ showNats l
      | .error e => "raise " ++ e.name
    | none => "bad-arg"
  | ["calcdur", a, b] =>
    match text? a, text? b with
    | some x, some y => showPyText (calcDuration x y)
    | _, _ => "bad-arg"
  | _ => "bad-op"

def main : IO Unit := do Wire.loop (← IO.getStdin) (← IO.getStdout) drive
